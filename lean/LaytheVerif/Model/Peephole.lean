/-
Model of `peephole_optimize` (laythe_vm/src/compiler/peephole.rs) over the *generated* instruction
type `Gen.Sym`.  Instructions travel with their source line (the Rust code keeps two vectors in
lock step; the model zips them).  Each equation mirrors one arm of the Rust `match`.
-/
import LaytheVerif.Gen.ByteCode
import LaytheVerif.Gen.PeepholeRules
namespace LaytheVerif.Peephole
open LaytheVerif.Gen

/-- An instruction together with its line. -/
abbrev IL := Sym × Nat

/-- at most `k` further leading `Drop`s, and the rest -/
def spanDropsK : Nat → List IL → Nat × List IL
  | k + 1, (.Drop, _) :: r => ((spanDropsK k r).1 + 1, (spanDropsK k r).2)
  | _, r => (0, r)

/-- `drop`: number of further leading `Drop`s the rule merges, and the rest.  The counter is a `u8`
that starts at 1 for the first `Drop` of the run and stops at `u8::MAX` (`while drop_count < u8::MAX
&& peek_next() == Some(Drop)`): behind the two `Drop`s of the pattern at most 253 more are merged, a
longer run continues with a `Drop`/`DropN` of its own. -/
def spanDrops (r : List IL) : Nat × List IL := spanDropsK 253 r

theorem spanDropsK_len (k : Nat) (l : List IL) : (spanDropsK k l).2.length ≤ l.length := by
  fun_induction spanDropsK k l <;> simp_all <;> omega

theorem spanDrops_len (l : List IL) : (spanDrops l).2.length ≤ l.length := spanDropsK_len _ l

theorem spanDropsK_count (k : Nat) (l : List IL) : (spanDropsK k l).1 ≤ k := by
  fun_induction spanDropsK k l <;> simp_all <;> omega

/-- the operand of the merged instruction fits the `u8` of `DropN` -/
theorem spanDrops_count (l : List IL) : (spanDrops l).1 + 2 ≤ 255 := by
  have := spanDropsK_count 253 l
  unfold spanDrops; omega

/-- `load_multiple`: lines of the leading copies of `i`, and the rest. -/
def spanEq (i : Sym) : List IL → List Nat × List IL
  | (j, l) :: r => if j = i then (l :: (spanEq i r).1, (spanEq i r).2) else ([], (j, l) :: r)
  | [] => ([], [])

theorem spanEq_len (i : Sym) (l : List IL) : (spanEq i l).2.length ≤ l.length := by
  fun_induction spanEq i l <;> simp_all <;> omega

/-- `remove_dead_code`: skip up to the next label. -/
def skipDead : List IL → List IL
  | (.Label l, n) :: r => (.Label l, n) :: r
  | _ :: r => skipDead r
  | [] => []

theorem skipDead_len (l : List IL) : (skipDead l).length ≤ l.length := by
  fun_induction skipDead l <;> simp_all <;> omega

def dups (ls : List Nat) : List IL := ls.map fun l => (Sym.Dup, l)

/-- Is this one of the four load instructions `load_multiple` handles? -/
def isLoad : Sym → Bool
  | .GetLocal _ | .GetModSym _ | .GetBox _ | .GetCapture _ => true
  | _ => false

/-- `peephole_optimize`. -/
def opt : List IL → List IL
  | [] => []
  | (.Drop, l) :: (.Drop, _) :: r =>
      (.DropN ((spanDrops r).1 + 2), l) :: opt (spanDrops r).2
  | (.GetPropByName n, l) :: (.PropertySlot, _) :: (.Call a, _) :: r =>
      (.Invoke n a, l) :: (.InvokeSlot, l) :: opt r
  | (.GetSuper n, l) :: (.Call a, _) :: r =>
      (.SuperInvoke n a, l) :: (.InvokeSlot, l) :: opt r
  | (.SetLocal s, l) :: (.Drop, l2) :: (.GetLocal g, l3) :: r =>
      if s = g then (.SetLocal s, l) :: opt r
      else (.SetLocal s, l) :: opt ((.Drop, l2) :: (.GetLocal g, l3) :: r)
  | (.SetBox s, l) :: (.Drop, l2) :: (.GetBox g, l3) :: r =>
      if s = g then (.SetBox s, l) :: opt r
      else (.SetBox s, l) :: opt ((.Drop, l2) :: (.GetBox g, l3) :: r)
  | (.SetCapture s, l) :: (.Drop, l2) :: (.GetCapture g, l3) :: r =>
      if s = g then (.SetCapture s, l) :: opt r
      else (.SetCapture s, l) :: opt ((.Drop, l2) :: (.GetCapture g, l3) :: r)
  | (.SetModSym s, l) :: (.Drop, l2) :: (.GetModSym g, l3) :: r =>
      if s = g then (.SetModSym s, l) :: opt r
      else (.SetModSym s, l) :: opt ((.Drop, l2) :: (.GetModSym g, l3) :: r)
  | (.GetLocal s, l) :: r =>
      (.GetLocal s, l) :: (dups (spanEq (.GetLocal s) r).1 ++ opt (spanEq (.GetLocal s) r).2)
  | (.GetModSym s, l) :: r =>
      (.GetModSym s, l) :: (dups (spanEq (.GetModSym s) r).1 ++ opt (spanEq (.GetModSym s) r).2)
  | (.GetBox s, l) :: r =>
      (.GetBox s, l) :: (dups (spanEq (.GetBox s) r).1 ++ opt (spanEq (.GetBox s) r).2)
  | (.GetCapture s, l) :: r =>
      (.GetCapture s, l) :: (dups (spanEq (.GetCapture s) r).1 ++ opt (spanEq (.GetCapture s) r).2)
  | (.Jump t, l) :: r => (.Jump t, l) :: opt (skipDead r)
  | (.Loop t, l) :: r => (.Loop t, l) :: opt (skipDead r)
  | (.Return, l) :: r => (.Return, l) :: opt (skipDead r)
  | (.Raise, l) :: r => (.Raise, l) :: opt (skipDead r)
  | (.ArgumentDelimiter, _) :: r => opt r
  | i :: r => i :: opt r
termination_by l => l.length
decreasing_by
  all_goals simp_wf
  all_goals (try omega)
  all_goals first
    | (have := spanDrops_len r; omega)
    | (have := spanEq_len (.GetLocal s) r; omega)
    | (have := spanEq_len (.GetModSym s) r; omega)
    | (have := spanEq_len (.GetBox s) r; omega)
    | (have := spanEq_len (.GetCapture s) r; omega)
    | (have := skipDead_len r; omega)

/-- The rule table of the model, in the shape the translator extracts from the Rust `match`. -/
def rules : List (List String × List String × String) := [
  (["Drop", "Drop"], ["drop"], ""),
  (["GetPropByName", "PropertySlot", "Call"], ["invoke"], ""),
  (["GetSuper", "Call"], ["invoke_super"], ""),
  (["SetLocal", "Drop", "GetLocal"], ["eliminate_drop", "copy"], "eq"),
  (["SetBox", "Drop", "GetBox"], ["eliminate_drop", "copy"], "eq"),
  (["SetCapture", "Drop", "GetCapture"], ["eliminate_drop", "copy"], "eq"),
  (["SetModSym", "Drop", "GetModSym"], ["eliminate_drop", "copy"], "eq"),
  (["GetLocal", "GetLocal"], ["load_multiple"], ""),
  (["GetModSym", "GetModSym"], ["load_multiple"], ""),
  (["GetBox", "GetBox"], ["load_multiple"], ""),
  (["GetCapture", "GetCapture"], ["load_multiple"], ""),
  (["Jump|Loop|Return|Raise"], ["remove_dead_code"], ""),
  (["ArgumentDelimiter"], ["skip"], ""),
  (["_"], ["copy"], "")
]

/-- Suffix after the first `Label l`. -/
def after (l : Nat) : List IL → List IL
  | (.Label m, _) :: r => if m = l then r else after l r
  | _ :: r => after l r
  | [] => []

/-- Every `Call n` with `n > 0` is directly preceded by an `ArgumentDelimiter` (what
`Compiler::call` guarantees: it emits one after every argument expression). -/
def wellDelimited : List IL → Bool
  | x :: y :: r =>
    (match y.1 with
     | .Call (_ + 1) => x.1 == .ArgumentDelimiter
     | _ => true) && wellDelimited (y :: r)
  | _ => true

end LaytheVerif.Peephole
