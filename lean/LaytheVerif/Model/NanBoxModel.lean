/-
Model of Laythe's two value representations (`laythe_core/src/value.rs`).

* `mod boxed` (feature `nan_boxing`): `struct Value(u64)`.  The constants, the type tests, the
  accessors, `kind`, the constructors and the hand-written `PartialEq` / `Hash` impls are
  **generated** from the Rust text (`LaytheVerif/Gen/NanBox.lean`: `value_eq`, `value_hash`); this
  file adds the encode/decode functions between the abstract meaning and the bits.
* `mod unboxed` (default): `enum Value { Bool(bool), Nil, Undefined, Number(f64), Obj(ObjectRef) }`
  with hand-written `PartialEq`/`Hash`; their arms are generated tables, interpreted here.
* the Spec: the abstract meaning `nil | undefined | bool | num bits | obj ptr`, with IEEE-754
  equality on numbers stated on bit patterns (`Model/Ieee64.lean`).

Numbers are bit patterns (`BitVec 64`); nothing here depends on a floating point implementation.
Core Lean only.
-/
import LaytheVerif.Gen.NanBox
namespace LaytheVerif.NanBox
open LaytheVerif.Gen.NanBox

/-! ## Abstract values (the enum representation's meaning) -/

/-- `unboxed::Value` — also the abstract meaning of a value.  `num` carries the IEEE-754 binary64
bit pattern, `obj` the address held by `ObjectRef`. -/
inductive Abs where
  | nil
  | undefined
  | bool (b : Bool)
  | num (bits : BitVec 64)
  | obj (ptr : BitVec 64)
deriving DecidableEq, Repr, Inhabited

def Abs.variant : Abs → Variant
  | .nil => .Nil
  | .undefined => .Undefined
  | .bool _ => .Bool
  | .num _ => .Number
  | .obj _ => .Obj

/-- the kind the *Spec* assigns (what `kind()` must answer) -/
def Abs.kind : Abs → Kind
  | .nil => .Nil
  | .undefined => .Undefined
  | .bool _ => .Bool
  | .num _ => .Number
  | .obj _ => .Obj

-- IEEE-754 `==` (`ieeeEq`, `isNaN`, `isZero`) and the cast `f64ToU64` live in `Model/Ieee64.lean`.

/-! ## The Spec: equality of abstract values -/

/-- What `==` must mean in the language: IEEE on numbers, identity on objects, and each of
`nil`, `undefined`, `true`, `false` equal to itself only. -/
def specEq : Abs → Abs → Bool
  | .nil, .nil => true
  | .undefined, .undefined => true
  | .bool a, .bool b => a == b
  | .num a, .num b => ieeeEq a b
  | .obj p, .obj q => p == q
  | _, _ => false

/-! ## The enum representation (`mod unboxed`) -/

def enumIsNil (a : Abs) : Bool := a.variant == .Nil
def enumIsUndefined (a : Abs) : Bool := a.variant == .Undefined
def enumIsBool (a : Abs) : Bool := a.variant == .Bool
def enumIsNum (a : Abs) : Bool := a.variant == .Number
def enumIsObj (a : Abs) : Bool := a.variant == .Obj
/-- `unboxed::Value::is_false`: `match self { Value::Bool(b) => !b, _ => false }` -/
def enumIsFalse : Abs → Bool
  | .bool b => !b
  | _ => false

/-- lookup in the generated `kind()` arms -/
def enumKindOf (arms : List (Variant × Kind)) (a : Abs) : Option Kind :=
  (arms.find? (·.1 == a.variant)).map (·.2)

/-- `unboxed::Value::kind` -/
def enumKind (a : Abs) : Option Kind := enumKindOf enumKindArms a

/-- equality of two payloads of the *same* variant, as Rust's `==` on `f64` / `bool` / `ObjectRef`
(`ObjectRef` derives `PartialEq` on its `NonNull<u8>`: address equality). -/
def payloadEq : Abs → Abs → Bool
  | .num a, .num b => ieeeEq a b
  | .bool a, .bool b => a == b
  | .obj p, .obj q => p == q
  | .nil, .nil => true
  | .undefined, .undefined => true
  | _, _ => false

def patMatches (p : Option Variant) (a : Abs) : Bool :=
  match p with
  | none => true
  | some v => v == a.variant

/-- Interpreter for the arms of `impl PartialEq for Value` (first matching arm wins; a `match`
without a matching arm does not compile in Rust, modelled as `false`). -/
def evalEqArms : List (Option Variant × Option Variant × EqRhs) → Abs → Abs → Bool
  | [], _, _ => false
  | (p, q, rhs) :: rest, a, b =>
    if patMatches p a && patMatches q b then
      match rhs with
      | .payload => payloadEq a b
      | .tt => true
      | .ff => false
    else evalEqArms rest a b

/-- `unboxed::Value::eq` as the code has it (generated arms). -/
def enumEq (a b : Abs) : Bool := evalEqArms enumEqArms a b

/-- the arms `impl PartialEq for Value` (enum) has: one arm per variant, then the wildcard.  (The
`(Undefined, Undefined)` arm was missing at the pinned commit — defect D9, repaired in 713247d.) -/
def eqArms : List (Option Variant × Option Variant × EqRhs) := [
  (some .Number, some .Number, .payload), (some .Bool, some .Bool, .payload),
  (some .Nil, some .Nil, .tt), (some .Undefined, some .Undefined, .tt),
  (some .Obj, some .Obj, .payload), (none, none, .ff)]

/-- One call on the `Hasher`: which `write_*` method and the value written. -/
abbrev HashKey := List (String × Nat)

def payloadHash : Abs → HashKey
  | .bool b => [("u8", b.toNat)]          -- `bool::hash` → `write_u8`
  | .num x => [("u64", x.toNat)]          -- not used by the code (`f64` is not `Hash`)
  | .obj p => [("usize", p.toNat)]        -- `NonNull<u8>::hash` → `write_usize(addr)`
  | _ => []

def hashItem (a : Abs) : HashItem → HashKey
  | .kind k => [("isize", k.disc)]        -- derived `Hash` of a field-less enum: `write_isize(discriminant)`
  | .payload => payloadHash a
  | .asU64 => match a with
    | .num x => [("u64", f64ToU64 x)]
    | _ => []

def enumHashOf (arms : List (Variant × List HashItem)) (a : Abs) : HashKey :=
  match arms.find? (·.1 == a.variant) with
  | some (_, items) => items.flatMap (hashItem a)
  | none => []

/-- `unboxed::Value::hash`: the sequence of writes fed to the hasher. -/
def enumHash (a : Abs) : HashKey := enumHashOf enumHashArms a

/-! ## The NaN-boxed representation (`mod boxed`) -/

/-- `impl PartialEq for Value` of `mod boxed` (generated `value_eq`): two numbers compare as `f64`,
everything else by its bits -/
def boxedEq (x y : BitVec 64) : Bool := value_eq x y

/-- `impl Hash for Value` of `mod boxed` (generated `value_hash`): the sequence of writes fed to the
hasher — a number like the enum representation (`ValueKind::Number`, then `num as u64`), any other
value its word -/
def boxedHash (x : BitVec 64) : HashKey := value_hash x

/-- the constructors (`From<Nil>`, `From<bool>`, `From<f64>`, `From<object handle>`, `VALUE_UNDEFINED`) -/
def encode : Abs → BitVec 64
  | .nil => from_nil
  | .undefined => VALUE_UNDEFINED
  | .bool b => from_bool b
  | .num x => from_num x
  | .obj p => from_obj p

/-- Reading a boxed value back the way `Display`/`fmt_heap`/`value_type` do: dispatch on `kind()`,
then the accessor of that arm (`Gen.displayArms`). `none` = the `panic!` in `kind()`. -/
def decode (v : BitVec 64) : Option Abs :=
  match kind v with
  | some .Number => some (.num (to_num v))
  | some .Bool => some (.bool (to_bool v))
  | some .Nil => some .nil
  | some .Undefined => some .undefined
  | some .Obj => some (.obj (to_obj v))
  | none => none

/-- pointers the boxed representation can hold: no bit of `TAG_OBJ` set (address below 2^50) -/
def ptrOk (p : BitVec 64) : Bool := (p &&& TAG_OBJ) == 0#64
/-- numbers the boxed representation can hold: bits that do not contain all of `QNAN` -/
def numOk (x : BitVec 64) : Bool := (x &&& QNAN) != QNAN

/-- the envelope of `C14_roundtrip` -/
def Abs.ok : Abs → Bool
  | .num x => numOk x
  | .obj p => ptrOk p
  | _ => true

/-- bit patterns some constructor produces -/
def proper (v : BitVec 64) : Bool :=
  is_num v || is_obj v || v == VALUE_NIL || v == VALUE_TRUE || v == VALUE_FALSE || v == VALUE_UNDEFINED

/-- the NaNs IEEE arithmetic and parsing produce on the supported targets: quiet, payload 0
(`f64::NAN` = 0x7ff8…, and the x86 "real indefinite" 0xfff8… that `0/0` yields) -/
def arithNaN (x : BitVec 64) : Bool := x == 0x7ff8000000000000#64 || x == 0xfff8000000000000#64

end LaytheVerif.NanBox
