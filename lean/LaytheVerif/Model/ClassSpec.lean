/-
The Spec side of C03: what a class hierarchy *means*, stated without tables, indices or copying.

A hierarchy is a chain of class bodies, most derived first.  The same three functions are used by
the property theorems (Props/C03.lean: the copy-on-inherit model agrees with them for every chain)
and by the reference evaluator of generated class programs (Model/ClassLang.lean).
-/
import LaytheVerif.Model.Classes
namespace LaytheVerif.ClassSpec
open LaytheVerif.Classes

/-- the definition a class body itself gives to a name: the textually last method of that name;
`init` is the initialiser -/
def ownDef (b : ClassBody) (k : String) : Option Nat :=
  match Tbl.get b.methods.reverse k with
  | some v => some v
  | none => if k = "init" then b.init else none

/-- method resolution: walk the chain most-derived first, take the first definition found -/
def mro : List ClassBody → String → Option Nat
  | [], _ => none
  | b :: rest, k =>
    match ownDef b k with
    | some v => some v
    | none => mro rest k

/-- `f` is a field of instances of the chain's head iff some initialiser in the chain assigns `self.f` -/
def isField (chain : List ClassBody) (f : String) : Bool :=
  chain.any (fun b => b.initFields.contains f)

/-- all field names of a chain (with repetitions; only membership matters) -/
def fieldNames (chain : List ClassBody) : List String :=
  chain.flatMap (·.initFields)

end LaytheVerif.ClassSpec
