import LaytheVerif.Gen.ByteCode
import LaytheVerif.Model.LayRef.Ops
/-!
# The bytecode machine, concrete fragment used by C01

`binop`/`unop` are written in the **branch order of `vm/ops.rs`** (`op_add`, `op_sub`, …,
`op_greater_equal`, `op_equal`, `op_not_equal`, `op_negate`, `op_not`): pop right then left, test
`is_num` on both, then `is_obj_kind(String)` on both, else raise.  `Props/C01.lean` proves them equal
to the rule-oriented `LayRef.binop`/`LayRef.unop` (`C01_ops_agree`).

`step` gives the effect of one symbolic instruction (`Gen.Sym`, generated from `byte_code.rs`) on a
frame: `stack` are the temporaries (top first), `env k` is the local in slot `k`
(`*stack_start.offset(k)`), `consts` the chunk's constant table.
-/
namespace LaytheVerif.Machine
open LaytheVerif.LayRef (Value BinOp UnOp OpErr)
open LaytheVerif.Gen (Sym)

/-- `str::cmp`: lexicographic comparison of the UTF-8 bytes = of the code points -/
def cmpChars : List Char → List Char → Ordering
  | [], [] => .eq
  | [], _ :: _ => .lt
  | _ :: _, [] => .gt
  | a :: as, b :: bs =>
    if a.toNat < b.toNat then .lt
    else if a.toNat > b.toNat then .gt
    else cmpChars as bs

def strCmp (s t : String) : Ordering := cmpChars s.toList t.toList

def isNum : Value → Bool
  | .num _ => true
  | _ => false

def isStr : Value → Bool
  | .str _ => true
  | _ => false

def toNum : Value → Float
  | .num x => x
  | _ => 0.0

def toStr : Value → String
  | .str s => s
  | _ => ""

/-- `impl PartialEq for Value` (enum representation): match on the pair of variants -/
def valueEq : Value → Value → Bool
  | .num a, .num b => a == b
  | .bool a, .bool b => a == b
  | .nil, .nil => true
  | .str a, .str b => a == b          -- `Obj == Obj` is pointer equality; strings are interned, so content equality
  | .ref a, .ref b => a == b
  | _, _ => false

def rtErr (m : String) : Except OpErr Value := .error ("RuntimeError", m)

/-- `left` was pushed first: the VM pops `right` then `left`. -/
def binop (op : BinOp) (left right : Value) : Except OpErr Value :=
  match op with
  | .add =>
    if isNum right && isNum left then .ok (.num (toNum left + toNum right))
    else if isStr right && isStr left then .ok (.str (toStr left ++ toStr right))
    else rtErr "Operands must be two numbers or two strings."
  | .sub =>
    if isNum right && isNum left then .ok (.num (toNum left - toNum right))
    else rtErr "Operands must be numbers."
  | .mul =>
    if isNum right && isNum left then .ok (.num (toNum left * toNum right))
    else rtErr "Operands must be numbers."
  | .div =>
    if isNum right && isNum left then .ok (.num (toNum left / toNum right))
    else rtErr "Operands must be numbers."
  | .lt =>
    if isNum right && isNum left then .ok (.bool (toNum left < toNum right))
    else if isStr right && isStr left then .ok (.bool (strCmp (toStr left) (toStr right) == .lt))
    else rtErr "Operands must be numbers."
  | .le =>
    if isNum right && isNum left then .ok (.bool (toNum left ≤ toNum right))
    else if isStr right && isStr left then
      if valueEq left right then .ok (.bool true)
      else .ok (.bool (strCmp (toStr left) (toStr right) == .lt))
    else rtErr "Operands must be numbers or strings."
  | .gt =>
    if isNum right && isNum left then .ok (.bool (toNum left > toNum right))
    else if isStr right && isStr left then .ok (.bool (strCmp (toStr left) (toStr right) == .gt))
    else rtErr "Operands must be numbers or strings."
  | .ge =>
    if isNum right && isNum left then .ok (.bool (toNum left ≥ toNum right))
    else if isStr right && isStr left then
      if valueEq left right then .ok (.bool true)
      else .ok (.bool (strCmp (toStr left) (toStr right) == .gt))
    else rtErr "Operands must be numbers or strings."
  | .eq => .ok (.bool (valueEq left right))
  | .ne => .ok (.bool (!valueEq left right))

/-- `is_falsey` of laythe_core/src/utils.rs: `value.is_false() || value.is_nil()` -/
def isFalsey : Value → Bool
  | .bool false => true
  | .nil => true
  | _ => false

def unop (op : UnOp) (v : Value) : Except OpErr Value :=
  match op with
  | .neg => if isNum v then .ok (.num (-toNum v)) else rtErr "Operand must be a number."
  | .not => .ok (.bool (isFalsey v))

/-! ## instruction semantics on a frame -/

structure St where
  stack : List Value
  env : Nat → Value

inductive Out where
  | next (s : St)
  | goto (l : Nat) (s : St)
  | err (e : OpErr)
  | stuck

def binStep (op : BinOp) (s : St) : Out :=
  match s.stack with
  | right :: left :: r =>
    match binop op left right with
    | .ok v => .next { s with stack := v :: r }
    | .error e => .err e
  | _ => .stuck

def unStep (op : UnOp) (s : St) : Out :=
  match s.stack with
  | v :: r =>
    match unop op v with
    | .ok v' => .next { s with stack := v' :: r }
    | .error e => .err e
  | _ => .stuck

/-- one instruction (`vm/ops.rs`: `op_constant`, `op_literal`, `op_get_local`, `op_set_local`, the operators,
`op_and`, `op_or`, `op_jump_if_false`, `op_jump`, `op_drop`); anything else is outside the fragment -/
def step (consts : List Value) : Sym → St → Out
  | .Constant k, s | .ConstantLong k, s =>
    match consts[k]? with
    | some v => .next { s with stack := v :: s.stack }
    | none => .stuck
  | .Nil, s => .next { s with stack := .nil :: s.stack }
  | .True, s => .next { s with stack := .bool true :: s.stack }
  | .False, s => .next { s with stack := .bool false :: s.stack }
  | .GetLocal k, s => .next { s with stack := s.env k :: s.stack }
  | .SetLocal k, s =>
    match s.stack with
    | v :: _ => .next { s with env := fun j => if j = k then v else s.env j }
    | [] => .stuck
  | .Drop, s =>
    match s.stack with
    | _ :: r => .next { s with stack := r }
    | [] => .stuck
  | .Add, s => binStep .add s
  | .Subtract, s => binStep .sub s
  | .Multiply, s => binStep .mul s
  | .Divide, s => binStep .div s
  | .Less, s => binStep .lt s
  | .LessEqual, s => binStep .le s
  | .Greater, s => binStep .gt s
  | .GreaterEqual, s => binStep .ge s
  | .Equal, s => binStep .eq s
  | .NotEqual, s => binStep .ne s
  | .Negate, s => unStep .neg s
  | .Not, s => unStep .not s
  | .And l, s =>
    match s.stack with
    | v :: r => if isFalsey v then .goto l s else .next { s with stack := r }
    | [] => .stuck
  | .Or l, s =>
    match s.stack with
    | v :: r => if isFalsey v then .next { s with stack := r } else .goto l s
    | [] => .stuck
  | .JumpIfFalse l, s =>
    match s.stack with
    | v :: r => if isFalsey v then .goto l { s with stack := r } else .next { s with stack := r }
    | [] => .stuck
  | .Jump l, s => .goto l s
  | .Label _, s => .next s
  | _, _ => .stuck

/-- code after `Label l` (labels are resolved to offsets by `compute_label_offsets`; symbolically: the suffix) -/
def after (l : Nat) : List Sym → List Sym
  | .Label m :: r => if m = l then r else after l r
  | _ :: r => after l r
  | [] => []

inductive Res where
  | fell (s : St)
  | err (e : OpErr)
  | stuck
  | outOfFuel

/-- run `pc` inside the function body `prog`; every taken jump costs one unit of fuel -/
def exec (consts : List Value) (prog : List Sym) : Nat → List Sym → St → Res
  | _, [], s => .fell s
  | fuel, i :: r, s =>
    match step consts i s with
    | .next s' => exec consts prog fuel r s'
    | .goto l s' =>
      match fuel with
      | 0 => .outOfFuel
      | f + 1 => exec consts prog f (after l prog) s'
    | .err e => .err e
    | .stuck => .stuck
termination_by fuel pc => (fuel, pc.length)

def labelsOf : List Sym → List Nat
  | [] => []
  | .Label l :: r => l :: labelsOf r
  | _ :: r => labelsOf r

end LaytheVerif.Machine
