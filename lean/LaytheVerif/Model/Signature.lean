import LaytheVerif.Gen.Natives
import LaytheVerif.Gen.SigTable
import LaytheVerif.Gen.Limits
/-!
# Model of `laythe_core/src/signature.rs`, `Native::check_if_valid_call` and the call guards of `ops.rs`

Everything here mirrors the Rust text branch for branch; the enum shapes, the arms of
`ParameterKind::is_valid`, the control skeletons of `Arity::check` / `check_if_valid_call`, the method
receiver convention and the frame-limit guard are additionally regenerated from the source
(`Gen/SigTable.lean`, `Gen/Limits.lean`) and tied to this model by `decide` lemmas in `Props/C16.lean`.
Core Lean only.
-/
namespace LaytheVerif.Signature
open LaytheVerif.Gen

/-- `Value::kind()` refined by `ObjectRef::kind()`: the dynamic kind of a value -/
inductive VKind where
  | nil | bool | number | undefined
  | obj (k : ObjKind)
  deriving DecidableEq, Repr, Inhabited

def VKind.all : List VKind := [.nil, .bool, .number, .undefined] ++ ObjKind.all.map .obj

/-- name of the `ValueKind` variant -/
def VKind.valueKindName : VKind → String
  | .nil => "Nil" | .bool => "Bool" | .number => "Number" | .undefined => "Undefined" | .obj _ => "Obj"

/-- `ParameterKind::is_valid` (signature.rs) -/
def _root_.LaytheVerif.Gen.PKind.isValid (p : PKind) (v : VKind) : Bool :=
  if p = .object then true
  else match p, v with
    | .bool, .bool => true
    | .number, .number => true
    | .object, .nil => true
    | .callable, .obj k => k = .closure || k = .fun_ || k = .native || k = .method
    | .string, .obj k => k = .string
    | .enumerator, .obj k => k = .enumerator
    | .class_, .obj k => k = .class_
    | _, _ => false

/-- the same predicate read off the *regenerated* arms of the `match` -/
def genIsValid (p : PKind) (v : VKind) : Bool :=
  SigTable.isValidEarly.contains p.name ||
  SigTable.isValidArms.any fun arm =>
    arm.1 == p.name && arm.2.1 == v.valueKindName &&
      (arm.2.2 == ["*"] || match v with
        | .obj k => arm.2.2.contains k.name
        | _ => false)

/-- `ArityError` -/
inductive ArityError where
  | fixed (n : Nat) | variadic (n : Nat) | defaultLow (n : Nat) | defaultHigh (n : Nat)
  deriving DecidableEq, Repr

/-- `Arity::check` -/
def _root_.LaytheVerif.Gen.Arity.check (a : Arity) (argCount : Nat) : Except ArityError Unit :=
  match a with
  | .fixed arity => if argCount != arity then .error (.fixed arity) else .ok ()
  | .variadic arity => if argCount < arity then .error (.variadic arity) else .ok ()
  | .default lo hi =>
    if argCount < lo then .error (.defaultLow lo)
    else if argCount > hi then .error (.defaultHigh hi)
    else .ok ()

/-- `Arity::required_parameter` -/
def _root_.LaytheVerif.Gen.Arity.requiredParameter : Arity → Nat
  | .fixed i => i
  | .variadic i => i + 1
  | .default _ i => i

/-- `SignatureBuilder::method_arity` -/
def _root_.LaytheVerif.Gen.Arity.methodArity : Arity → Arity
  | .fixed i => .fixed (i + 1)
  | .variadic i => .variadic (i + 1)
  | .default r t => .default (r + 1) (t + 1)

/-- smallest accepted argument count -/
def _root_.LaytheVerif.Gen.Arity.minArgs : Arity → Nat
  | .fixed n => n
  | .variadic n => n
  | .default lo _ => lo

/-- `NativeSignature` -/
structure NativeSig where
  arity : Arity
  params : List PKind
  deriving DecidableEq, Repr, Inhabited

/-- `SignatureBuilder::to_sig` / `to_method_sig`: methods get the receiver `self : Object` in front and
    every arity bound is shifted by one.  (Both `assert_eq!(parameters.len(), required_parameter())`.) -/
def NativeSig.build (isMethod : Bool) (arity : Arity) (params : List PKind) : NativeSig :=
  if isMethod then { arity := arity.methodArity, params := .object :: params }
  else { arity := arity, params := params }

/-- the assertion of `to_sig` / `to_method_sig` -/
def NativeSig.wellFormed (s : NativeSig) : Bool := s.params.length == s.arity.requiredParameter

/-- outcome classes of `Native::check_if_valid_call` (the message strings are not modelled; `typeWrong i`
    is the index of the first argument whose kind is rejected, as in `NativeSignature::check`) -/
inductive SigError where
  | lenFixed (n : Nat) | lenVariadic (n : Nat) | lenDefaultLow (n : Nat) | lenDefaultHigh (n : Nat)
  | typeWrong (i : Nat)
  /-- `parameters[arity as usize]` out of range: only for signatures that violate `wellFormed` -/
  | indexPanic
  deriving DecidableEq, Repr

/-- `for (argument, parameter) in args.iter().zip(parameters.iter())`: index of the first pair with
    `!parameter.kind.is_valid(*argument)` -/
def firstInvalid : List PKind → List VKind → Nat → Option Nat
  | p :: ps, a :: as, i => if !p.isValid a then some i else firstInvalid ps as (i + 1)
  | _, _, _ => none

/-- `for argument in args[arity..].iter()` against the variadic parameter -/
def firstInvalidRest (vt : PKind) : List VKind → Nat → Option Nat
  | a :: as, i => if !vt.isValid a then some i else firstInvalidRest vt as (i + 1)
  | [], _ => none

/-- `Native::check_if_valid_call` (object/native.rs), on argument *kinds* -/
def checkIfValidCall (s : NativeSig) (args : List VKind) : Except SigError Unit :=
  match s.arity with
  | .fixed arity =>
    if args.length != arity then .error (.lenFixed arity)
    else match firstInvalid s.params args 0 with
      | some i => .error (.typeWrong i)
      | none => .ok ()
  | .variadic arity =>
    if args.length < arity then .error (.lenVariadic arity)
    else match s.params[arity]? with
      | none => .error .indexPanic
      | some variadicType =>
        match (if arity != 0 then firstInvalid (s.params.take arity) (args.take arity) 0 else none) with
        | some i => .error (.typeWrong i)
        | none =>
          match firstInvalidRest variadicType (args.drop arity) arity with
          | some i => .error (.typeWrong i)
          | none => .ok ()
  | .default lo hi =>
    if args.length < lo then .error (.lenDefaultLow lo)
    else if args.length > hi then .error (.lenDefaultHigh hi)
    else match firstInvalid s.params args 0 with
      | some i => .error (.typeWrong i)
      | none => .ok ()

def accepts (s : NativeSig) (args : List VKind) : Bool :=
  match checkIfValidCall s args with
  | .ok _ => true
  | .error _ => false

/-- the error (if any) as a comparable value -/
def checkOutcome (s : NativeSig) (args : List VKind) : Option SigError :=
  match checkIfValidCall s args with
  | .ok _ => none
  | .error e => some e

/-- the declared kind that guards argument index `i` (variadic tail → the last parameter);
    `none` = no argument can sit at that index -/
def NativeSig.paramAt (s : NativeSig) (i : Nat) : Option PKind :=
  match s.arity with
  | .fixed n => if i < n then s.params[i]? else none
  | .variadic n => if i < n then s.params[i]? else s.params[n]?
  | .default _ hi => if i < hi then s.params[i]? else none

/-! ## what a body assumes, and what a declared kind guarantees -/

/-- does a value of kind `v` survive the unwrap `u` (no panic, no type-confused cast)? -/
def _root_.LaytheVerif.Gen.UKind.holds (u : UKind) (v : VKind) : Bool :=
  match u, v with
  | .any, _ => true
  | .num, .number => true
  | .bool, .bool => true
  | .obj, .obj _ => true
  | .ok k, .obj k' => k = k'
  | _, _ => false

/-- `p` guarantees `u`: every kind `is_valid` lets through survives the unwrap -/
def _root_.LaytheVerif.Gen.PKind.covers (p : PKind) (u : UKind) : Bool :=
  VKind.all.all fun v => !p.isValid v || u.holds v

/-! ## receiver convention (class dispatch) -/

/-- kinds of values whose method lookup starts in the class named `owner`
    (`BuiltInPrimitives::for_value`, regenerated as `Gen.valueClass`).  Meta classes inherit from `Class`;
    classes that are not primitives (`Error`, `RegExp`, `Stdout`, …) are reached through instances;
    everything inherits from `Object`. -/
def recvKinds (owner : String) : List VKind :=
  if owner == "Object" then VKind.all.filter (· != .undefined)
  else
    let prim := VKind.all.filter fun v =>
      valueClass.any fun row =>
        row.2.2 == owner &&
          (match v with
           | .obj k => row.1 == "ObjectKind" && row.2.1 == k.name
           | _ => row.1 == "ValueKind" && row.2.1 == v.valueKindName)
    if owner == "Class" then [.obj .class_]
    else if prim.isEmpty then [.obj .instance_]
    else prim

/-- the envelope `E16`: the receiver of a native method is a primitive of the class that owns it -/
def receiverOk (owner : String) (v : VKind) : Bool := (recvKinds owner).contains v

/-! ## the per-row obligations -/

def _root_.LaytheVerif.Gen.NativeRow.sig (r : NativeRow) : NativeSig := NativeSig.build r.isMethod r.arity r.params

/-- is `args[0]` the receiver (methods) rather than a declared parameter? -/
def _root_.LaytheVerif.Gen.NativeRow.hasReceiver (r : NativeRow) : Bool := r.isMethod

/-- bounds: the index is below every accepted `args.len()` (or below the length the enclosing guard established) -/
def _root_.LaytheVerif.Gen.Site.boundsOk (r : NativeRow) (s : Site) : Bool :=
  let m := Nat.max r.sig.arity.minArgs s.minLen
  if s.rest then s.idx ≤ m else s.idx < m

/-- kind obligation at one index -/
def kindOkAt (r : NativeRow) (u : UKind) (i : Nat) : Bool :=
  if r.hasReceiver && i == 0 then (recvKinds r.owner).all fun v => u.holds v
  else match r.sig.paramAt i with
    | some p => p.covers u
    | none => true   -- no argument can be at this index (bounds obligation covers the access)

/-- kind: the declared parameter (or the receiver convention) guarantees the unwrap;
    for a `rest` site at every index from `idx` up to the variadic parameter -/
def _root_.LaytheVerif.Gen.Site.kindOk (r : NativeRow) (s : Site) : Bool :=
  s.guarded || s.kind == .any ||
    (if s.rest then
       ((List.range (r.sig.params.length + 1)).all fun i => i < s.idx || kindOkAt r s.kind i) &&
         kindOkAt r s.kind (Nat.max s.idx r.sig.params.length)   -- the variadic tail, wherever the range starts
     else kindOkAt r s.kind s.idx)

def _root_.LaytheVerif.Gen.Site.ok (r : NativeRow) (s : Site) : Bool := s.boundsOk r && s.kindOk r

/-- a healthy row: classified, well-formed signature, every site justified -/
def _root_.LaytheVerif.Gen.NativeRow.ok (r : NativeRow) : Bool :=
  r.unclassified == "" && r.sig.wellFormed && r.sites.all (·.ok r)

/-! ## call depth: `resolve_call`, `call_closure`, `call`, `call_native` -/

/-- what `resolve_call` does with a callee of a given kind -/
inductive Dispatch where
  | closure | method | native | cls | fn
  | notCallable
  deriving DecidableEq, Repr

/-- `resolve_call` (ops.rs): the `!callee.is_obj()` test, then `match_obj!` -/
def resolveCall : VKind → Dispatch
  | .obj .closure => .closure
  | .obj .method => .method
  | .obj .native => .native
  | .obj .class_ => .cls
  | .obj .fun_ => .fn
  | _ => .notCallable

/-- the same read off the regenerated arms -/
def genResolveCall (v : VKind) : String :=
  match v with
  | .obj k => match Limits.resolveCallArms.find? (·.1 == k.name) with
    | some a => a.2
    | none => "not callable"
  | _ => "not callable"

def Dispatch.handler : Dispatch → String
  | .closure => "call_closure" | .method => "call_method" | .native => "call_native"
  | .cls => "call_class" | .fn => "call" | .notCallable => "not callable"

/-! ## `chan(n)`: `op_buffered_channel` -/

/-- the popped capacity, as far as the tests of `op_buffered_channel` distinguish it: not a number; a number that is not
    integral (NaN and the infinities included: their `fract()` is NaN); an integral number below 1; a positive integer -/
inductive ChanArg where
  | notNumber | notIntegral | belowOne
  | positive (n : Nat)
  deriving DecidableEq, Repr

/-- `op_buffered_channel`: `Except (error class) (capacity the buffer is allocated with)`; the three tests in the order
    of `Limits.chanCapacityTests` -/
def chanCapacity : ChanArg → Except String Nat
  | .notNumber => .error "type_"
  | .notIntegral => .error "type_"
  | .belowOne => .error "type_"
  | .positive n => if n = 0 then .error "type_" else if n > Limits.maxChannelCapacity then .error "value" else .ok n

/-- events of one fiber's frame stack -/
inductive FrameOp where
  /-- `call_closure` / `call`: arity accepted, the guard runs, then `push_frame` -/
  | callLaythe
  /-- `call_native` with `NativeEnvironment::Normal`: signature accepted, the guard runs, then the stub frame is
      pushed and the body runs (it may call back through `run_fun`); `nativeLeave` pops the stub -/
  | nativeEnter
  | nativeLeave
  /-- `op_return` / unwinding pops one frame -/
  | ret
  deriving DecidableEq, Repr

inductive FrameResult where
  | ok | stackOverflow
  deriving DecidableEq, Repr

/-- the guard of `call_native` (Normal), `call_closure` and `call`:
    `if self.fiber.frames().len() >= MAX_FRAME_SIZE { return Stack overflow. }` -/
def guardTrips (frames : Nat) : Bool := frames ≥ Limits.maxFrameSize

structure FrameState where
  /-- `fiber.frames().len()`: Laythe frames and native stub frames alike -/
  frames : Nat
  deriving DecidableEq, Repr

/-- one step; `none` = the op is not enabled (pop of an empty stack).  Every push — the three functions of
    `Limits.pushFrameSites` that call `Vm::push_frame` — sits behind the guard. -/
def frameStep (s : FrameState) : FrameOp → Option (FrameState × FrameResult)
  | .callLaythe => if guardTrips s.frames then some (s, .stackOverflow) else some ({ frames := s.frames + 1 }, .ok)
  | .nativeEnter => if guardTrips s.frames then some (s, .stackOverflow) else some ({ frames := s.frames + 1 }, .ok)
  | .nativeLeave => if s.frames = 0 then none else some ({ frames := s.frames - 1 }, .ok)
  | .ret => if s.frames = 0 then none else some ({ frames := s.frames - 1 }, .ok)

def frameRun (s : FrameState) : List FrameOp → Option FrameState
  | [] => some s
  | op :: ops => match frameStep s op with
    | some (s', _) => frameRun s' ops
    | none => none

/-- every state the fiber goes through while it performs `ops` (the run stops at an op that is not enabled) -/
def frameTrace (s : FrameState) : List FrameOp → List FrameState
  | [] => [s]
  | op :: ops => s :: match frameStep s op with
    | some (s', _) => frameTrace s' ops
    | none => []

/-! ## the hooks: what `run_fun` / `run_method` do with the signal of the call they resolve (`vm/hooks.rs`) -/

/-- `ExecutionSignal` -/
inductive Signal where
  | ok | okReturn | contextSwitch | exit | runtimeError | compileError
  deriving DecidableEq, Repr

def Signal.all : List Signal := [.ok, .okReturn, .contextSwitch, .exit, .runtimeError, .compileError]

def Signal.name : Signal → String
  | .ok => "Ok" | .okReturn => "OkReturn" | .contextSwitch => "ContextSwitch" | .exit => "Exit"
  | .runtimeError => "RuntimeError" | .compileError => "CompileError"

/-- what the `match self.resolve_call(..)` of `run_fun` / `run_method` makes of a signal -/
inductive HookStep where
  /-- `Ok`: a Laythe frame was pushed, the nested interpreter loop runs it -/
  | execute
  /-- `OkReturn`: a native ran on the spot, its value is popped -/
  | value
  /-- `RuntimeError`: handed to the native as `LyError::Err` (by `to_call_result`) -/
  | runtimeError
  /-- `Exit`: a native called directly was `exit` (or a native whose own callback exited): `ExecutionResult::Exit`,
      handed to the calling native as `LyError::Exit` -/
  | exit
  /-- the `_` arm: `internal_error` — a host panic -/
  | internalError
  deriving DecidableEq, Repr

/-- the match of `run_fun` and of `run_method` (the two are the same text) -/
def hookStep : Signal → HookStep
  | .ok => .execute
  | .okReturn => .value
  | .runtimeError => .runtimeError
  | .exit => .exit
  | .contextSwitch => .internalError
  | .compileError => .internalError

/-- the signals a call resolved by `resolve_call` can come back with: `call_closure` / `call` / `call_class` answer `Ok` or an
    error, `call_native` answers `OkReturn`, the error of the native (`set_error`) or its exit (`set_exit`) -/
def resolvedCallSignals : List Signal := [.ok, .okReturn, .exit, .runtimeError]

/-! ## `Display` of a value (`laythe_core/src/utils.rs: fmt_nested`) -/

/-- the heap as `Display` sees it: the objects whose `Display` writes other values (lists, tuples, maps, bound methods) by
    address, each with the addresses of the objects of that sort directly inside it; every other value is a leaf.  Any
    function is a graph: cycles and unbounded depth included. -/
abbrev DisplayGraph := Nat → List Nat

/-- the test of `fmt_nested`: `displaying.len() >= DISPLAY_MAX_DEPTH || displaying.contains(&address)` -/
def displayRefuses (displaying : List Nat) (address : Nat) : Bool :=
  displaying.length ≥ Limits.displayMaxDepth || displaying.contains address

/-- the deepest nesting of `fmt_nested` activations (= length of `DISPLAYING`) reached while the object at `a` is written
    with `displaying` in progress.  `fuel` bounds the recursion of the *model* only: `none` = fuel ran out
    (`displayDepth_terminates`: it never does from `DISPLAY_MAX_DEPTH + 1`) -/
def displayDepth (g : DisplayGraph) : Nat → List Nat → Nat → Option Nat
  | 0, _, _ => none
  | fuel + 1, displaying, a =>
    if displayRefuses displaying a then some displaying.length
    else (g a).foldl (fun acc c => match acc, displayDepth g fuel (a :: displaying) c with
                                   | some m, some d => some (max m d)
                                   | _, _ => none) (some (displaying.length + 1))

/-- what `Display` writes for a graph of lists: `[` items `]`, `[...]` where `fmt_nested` refuses -/
def displayText (g : DisplayGraph) : Nat → List Nat → Nat → String
  | 0, _, _ => "<out of fuel>"
  | fuel + 1, displaying, a =>
    if displayRefuses displaying a then "[...]"
    else "[" ++ ", ".intercalate ((g a).map (displayText g fuel (a :: displaying))) ++ "]"

end LaytheVerif.Signature
