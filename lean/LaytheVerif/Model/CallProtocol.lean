import LaytheVerif.Gen.FrameLimit
import LaytheVerif.Model.LayRef.Ops
/-!
# The call protocol of the VM for Laythe functions (`vm/ops.rs`, `fiber/mod.rs`)

`callClosure` = `Vm::call_closure`/`Vm::call`: `check_arity` (`Fun::check_if_valid_call`, fixed arity), the frame limit
(`frames().len() >= MAX_FRAME_SIZE`, `Gen.frameLimitGuards`), `push_frame` (`stack_start = stack_top - (arg_count + 1)`: the callee slot and the
arguments become slots 0..n of the new frame; the caller's `ip` stays in the caller's frame).
`opReturn` = `Vm::op_return`: pop the result, `pop_frame` (`stack_top = frame.stack_start`, drop the frame), push the result.
`pushNativeStub` = the arm `NativeEnvironment::Normal` of `Vm::call_native` after the signature check: the same frame
limit test, then `push_frame(stub, capture_stub, arg_count)` — the stub frame of a stack-using native counts like any other.
The stack is a list, bottom first; frames are listed innermost first.
-/
namespace LaytheVerif.CallProtocol
open LaytheVerif.LayRef (Value OpErr)

structure Frame where
  fn : Nat
  /-- index of slot 0 (the callee) in the value stack -/
  stackStart : Nat
  /-- next instruction of this frame's function -/
  ip : Nat
  deriving DecidableEq, Repr

structure Fiber where
  stack : List Value
  frames : List Frame

def arityError (name : String) (arity m : Nat) : OpErr :=
  ("RuntimeError", s!"{name} expected {arity} argument(s) but received {m}.")

/-- `Call m` on a closure/function `fn` (named `name`, fixed arity `arity`) that sits under `m` arguments -/
def callClosure (fn : Nat) (name : String) (arity m : Nat) (fb : Fiber) : Except OpErr Fiber :=
  if m ≠ arity then .error (arityError name arity m)
  else if fb.frames.length ≥ Gen.MAX_FRAME_SIZE then .error ("RuntimeError", "Stack overflow.")
  else .ok { fb with frames := ⟨fn, fb.stack.length - (m + 1), 0⟩ :: fb.frames }

/-- `call_native`, `NativeEnvironment::Normal`, signature accepted: the stub function `stub` gets a frame over the callee
    slot and the `m` arguments, unless the fiber is at the frame limit -/
def pushNativeStub (stub : Nat) (m : Nat) (fb : Fiber) : Except OpErr Fiber :=
  if fb.frames.length ≥ Gen.MAX_FRAME_SIZE then .error ("RuntimeError", "Stack overflow.")
  else .ok { fb with frames := ⟨stub, fb.stack.length - (m + 1), 0⟩ :: fb.frames }

/-- `Return` in a frame that has a caller -/
def opReturn (fb : Fiber) : Option Fiber :=
  match fb.stack.getLast?, fb.frames with
  | some result, fr :: caller :: rest => some { stack := fb.stack.take fr.stackStart ++ [result], frames := caller :: rest }
  | _, _ => none

end LaytheVerif.CallProtocol
