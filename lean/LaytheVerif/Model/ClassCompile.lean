/-
What the compiler decides for every property access of a class program (laythe_vm/src/compiler/mod.rs:
`class`, `method`, `emit_fields`, `assign`, `access`, `instance_access`, `property_get`, `property_set`,
`record_field`, `find_known_field`, `super_`), as a trace per compiled function in the order the
functions are finished — the same order and the same events the compile log of the harness shows
(`vharness dump`, PRE streams).  Built on `Classes.recordField / propertyAccess`, so the numbering
model of §5 of Model/Classes.lean is tied to the real compiler by comparing traces.

Events: `G<k>`/`S<k>` fixed-index get/set, `g`/`s` by-name get/set, `u` GetSuper; in the enclosing
function of a class declaration: `C` Class, `I<x>` Inherit, `M` Method, `F` Field, `T` StaticMethod.
`<x>` is the instruction that pushed the superclass (`Classes.superLoad`): `O` = `LoadGlobal` (the
built-in `Object` read from the global module), `m` = `GetModSym` (a module variable, or the module's
copy of the global `Object`), `l` = `GetLocal/GetBox/GetCapture` (a local of an enclosing function).
For that the trace keeps the names in scope the way the compiler does (`locals`, `scope_depth`).
-/
import LaytheVerif.Model.ClassLang
namespace LaytheVerif.ClassCompile
open LaytheVerif.Classes LaytheVerif.ClassLang

structure CState where
  attrs : Option ClassAttrs := none      -- `self.class_attributes`
  inInit : Bool := false                 -- `self.fun_kind == FunKind::Initializer`
  trace : Array String := #[]            -- events of the function being compiled
  done : Array (String × Array String) := #[]   -- finished functions
  scope : NameScope := {}                -- `locals` of this and all enclosing compilers; module-level declarations
  depth : Nat := 0                       -- 0 = module scope (`scope_depth == 1`): declarations are module symbols

def CState.emit (s : CState) (e : String) : CState := { s with trace := s.trace.push e }

/-- `declare_variable` in a block or function: a new local (at module scope the name is a module symbol,
already part of `scope.declared`) -/
def CState.declare (s : CState) (x : String) : CState :=
  if s.depth = 0 then s else { s with scope := { s.scope with locals := x :: s.scope.locals } }

/-- `begin_scope` / a child compiler: what follows is not module scope; `params` are declared -/
def CState.enter (s : CState) (params : List String) : CState :=
  { s with depth := s.depth + 1, scope := { s.scope with locals := params.reverse ++ s.scope.locals } }

/-- `end_scope` / `end_compiler`: the locals declared since `outer` are gone -/
def CState.leave (s outer : CState) : CState := { s with depth := outer.depth, scope := outer.scope }

/-- the `Inherit` event with the instruction that pushed the superclass -/
def inheritEvent (sc : NameScope) (parent : Option String) : String :=
  match superLoad sc parent with
  | .loadGlobal => "IO"
  | .moduleCopy => "Im"
  | .lexical p => if sc.locals.contains p then "Il" else "Im"

def showAccess (isSet : Bool) : Access → String
  | .fixed k => (if isSet then "S" else "G") ++ toString k
  | .byName _ => if isSet then "s" else "g"

/-- `record_field` on the current class -/
def CState.record (s : CState) (f : String) : CState :=
  match s.attrs with
  | some a => { s with attrs := some { a with fields := recordField a.fields f } }
  | none => s

mutual

def compExpr (fuel : Nat) (s : CState) (e : Expr) : CState :=
  match fuel with
  | 0 => s
  | fuel + 1 =>
    match e with
    | .num _ | .str _ | .nil | .var _ | .self => s
    | .get e name =>
      let s := compExpr fuel s e
      -- `access(.., is_self)` / `instance_access`: the class is consulted only for `self.<name>`
      let cls := match e with | .self => s.attrs | _ => none
      s.emit (showAccess false (propertyAccess cls name))
    | .call f args => compArgs fuel (compExpr fuel s f) args
    | .superGet _ => s.emit "u"
    | .add a b => compExpr fuel (compExpr fuel s a) b
    | .lam params body =>
      -- a nested function: its own trace, `fun_kind = Fun`; the class attributes are inherited
      let inner := compStmts fuel ({ s with trace := #[], inInit := false }.enter params) body
      { inner.leave s with trace := s.trace, inInit := s.inInit, done := inner.done.push ("lambda", inner.trace) }
termination_by structural fuel

def compArgs (fuel : Nat) (s : CState) (args : List Expr) : CState :=
  match fuel with
  | 0 => s
  | fuel + 1 =>
    match args with
    | [] => s
    | a :: r => compArgs fuel (compExpr fuel s a) r
termination_by structural fuel

def compStmts (fuel : Nat) (s : CState) (ss : List Stmt) : CState :=
  match fuel with
  | 0 => s
  | fuel + 1 =>
    match ss with
    | [] => s
    | st :: r => compStmts fuel (compStmt fuel s st) r
termination_by structural fuel

def compStmt (fuel : Nat) (s : CState) (st : Stmt) : CState :=
  match fuel with
  | 0 => s
  | fuel + 1 =>
    match st with
    | .print e | .exprS e | .ret e => compExpr fuel s e
    -- `let_`: the variable is declared before its initialiser is compiled
    | .letS x e => compExpr fuel (s.declare x) e
    | .setf obj name e =>
      -- `assign`: receiver, then (initialiser only, receiver `self`) record_field, then the value, then the set
      let s := compExpr fuel s obj
      let isSelf := match obj with | .self => true | _ => false
      let s := if isSelf && s.inInit then s.record name else s
      let s := compExpr fuel s e
      let cls := if isSelf then s.attrs else none
      s.emit (showAccess true (propertyAccess cls name))
    | .tryS body handler =>
      let s := (compStmts fuel (s.enter []) body).leave s
      -- the rendered handler `catch e: Error {` starts with `print("caught " + e.cls().name() + ": " + e.message);`
      let s1 := (((s.enter ["e"]).emit "g").emit "g").emit "g"
      (compStmts fuel s1 handler).leave s
    | .classS name parent init methods statics =>
      compClass fuel s (ClassDecl.ofParts name parent init methods statics)
termination_by structural fuel

/-- `function(...)`: compile a function body as its own record (`self` is local 0 of a method) -/
def compFun (fuel : Nat) (s : CState) (name : String) (params : List String) (body : List Stmt) (isInit : Bool) : CState :=
  match fuel with
  | 0 => s
  | fuel + 1 =>
    let inner := compStmts fuel ({ s with trace := #[], inInit := isInit }.enter params) body
    { inner.leave s with trace := s.trace, inInit := s.inInit, done := inner.done.push (name, inner.trace) }
termination_by structural fuel

def compMethods (fuel : Nat) (s : CState) (tag : String) (fs : List FunSrc) : CState :=
  match fuel with
  | 0 => s
  | fuel + 1 =>
    match fs with
    | [] => s
    | f :: r => compMethods fuel ((compFun fuel s f.name f.params f.body false).emit tag) tag r
termination_by structural fuel

/-- `Compiler::class` -/
def compClass (fuel : Nat) (s : CState) (d : ClassDecl) : CState :=
  match fuel with
  | 0 => s
  | fuel + 1 =>
    let outer := s
    -- the class name is declared, `Class`; then the superclass is pushed in the scope that now holds the name
    let s := (s.declare d.name).emit "C"
    let s := s.emit (inheritEvent s.scope d.parent)
    let declared := s
    -- the class scope (with `super`)
    let s := { s.enter ["super"] with attrs := some { fields := [], explicitSuper := d.parent.isSome } }
    let s := match d.init with
      | some f => (compFun fuel s "init" f.params f.body true).emit "M"
      | none => s
    -- emit_fields
    let nf := match s.attrs with | some a => a.fields.length | none => 0
    let s := (List.range nf).foldl (fun s _ => s.emit "F") s
    let s := compMethods fuel s "M" d.methods
    let s := compMethods fuel s "T" d.statics
    { s.leave declared with attrs := outer.attrs }
termination_by structural fuel

end

def FUEL : Nat := 100000

def compItems (s : CState) : List Item → CState
  | [] => s
  | .cls d :: r => compItems (compClass FUEL s d) r
  | .fn f :: r => compItems (compFun FUEL s f.name f.params f.body false) r
  | .stmt st :: r => compItems (compStmt FUEL s st) r

/-- the whole program: finished functions in order, the script last.  The module-level declarations are
known before anything is compiled (the resolver's pre-pass `declare_module_scoped`). -/
def compileTrace (items : List Item) : List (String × List String) :=
  let s := compItems { scope := { declared := declaredNames items } } items
  (s.done.push ("script", s.trace)).toList.map fun p => (p.1, p.2.toList)

end LaytheVerif.ClassCompile
