/-
What the compiler decides for every property access of a class program (laythe_vm/src/compiler/mod.rs:
`class`, `method`, `emit_fields`, `assign`, `access`, `instance_access`, `property_get`, `property_set`,
`record_field`, `find_known_field`, `super_`), as a trace per compiled function in the order the
functions are finished — the same order and the same events the compile log of the harness shows
(`vharness dump`, PRE streams).  Built on `Classes.recordField / propertyAccess`, so the numbering
model of §5 of Model/Classes.lean is tied to the real compiler by comparing traces.

Events: `G<k>`/`S<k>` fixed-index get/set, `g`/`s` by-name get/set, `u` GetSuper; in the enclosing
function of a class declaration: `C` Class, `I` Inherit, `M` Method, `F` Field, `T` StaticMethod.
-/
import LaytheVerif.Model.ClassLang
namespace LaytheVerif.ClassCompile
open LaytheVerif.Classes LaytheVerif.ClassLang

structure CState where
  attrs : Option ClassAttrs := none      -- `self.class_attributes`
  inInit : Bool := false                 -- `self.fun_kind == FunKind::Initializer`
  trace : Array String := #[]            -- events of the function being compiled
  done : Array (String × Array String) := #[]   -- finished functions

def CState.emit (s : CState) (e : String) : CState := { s with trace := s.trace.push e }

def showAccess (isSet : Bool) : Access → String
  | .fixed k => (if isSet then "S" else "G") ++ toString k
  | .byName _ => if isSet then "s" else "g"

/-- `record_field` on the current class -/
def CState.record (s : CState) (f : String) : CState :=
  match s.attrs with
  | some a => { s with attrs := some { a with fields := recordField a.fields f } }
  | none => s

mutual

def compExpr (fuel : Nat) (s : CState) (e : Expr) : CState :=
  match fuel with
  | 0 => s
  | fuel + 1 =>
    match e with
    | .num _ | .str _ | .nil | .var _ | .self => s
    | .get e name =>
      let s := compExpr fuel s e
      -- `access(.., is_self)` / `instance_access`: the class is consulted only for `self.<name>`
      let cls := match e with | .self => s.attrs | _ => none
      s.emit (showAccess false (propertyAccess cls name))
    | .call f args => compArgs fuel (compExpr fuel s f) args
    | .superGet _ => s.emit "u"
    | .add a b => compExpr fuel (compExpr fuel s a) b
    | .lam _ body =>
      -- a nested function: its own trace, `fun_kind = Fun`; the class attributes are inherited
      let inner := compStmts fuel { s with trace := #[], inInit := false } body
      { inner with trace := s.trace, inInit := s.inInit, done := inner.done.push ("lambda", inner.trace) }
termination_by structural fuel

def compArgs (fuel : Nat) (s : CState) (args : List Expr) : CState :=
  match fuel with
  | 0 => s
  | fuel + 1 =>
    match args with
    | [] => s
    | a :: r => compArgs fuel (compExpr fuel s a) r
termination_by structural fuel

def compStmts (fuel : Nat) (s : CState) (ss : List Stmt) : CState :=
  match fuel with
  | 0 => s
  | fuel + 1 =>
    match ss with
    | [] => s
    | st :: r => compStmts fuel (compStmt fuel s st) r
termination_by structural fuel

def compStmt (fuel : Nat) (s : CState) (st : Stmt) : CState :=
  match fuel with
  | 0 => s
  | fuel + 1 =>
    match st with
    | .print e | .letS _ e | .exprS e | .ret e => compExpr fuel s e
    | .setf obj name e =>
      -- `assign`: receiver, then (initialiser only, receiver `self`) record_field, then the value, then the set
      let s := compExpr fuel s obj
      let isSelf := match obj with | .self => true | _ => false
      let s := if isSelf && s.inInit then s.record name else s
      let s := compExpr fuel s e
      let cls := if isSelf then s.attrs else none
      s.emit (showAccess true (propertyAccess cls name))
    | .tryS body handler =>
      let s := compStmts fuel s body
      -- the rendered handler starts with `print("caught " + e.cls().name() + ": " + e.message);`
      let s := ((s.emit "g").emit "g").emit "g"
      compStmts fuel s handler
termination_by structural fuel

end

def FUEL : Nat := 100000

/-- `function(...)`: compile a function body as its own record -/
def compFun (s : CState) (name : String) (body : List Stmt) (isInit : Bool) : CState :=
  let inner := compStmts FUEL { s with trace := #[], inInit := isInit } body
  { inner with trace := s.trace, inInit := s.inInit, done := inner.done.push (name, inner.trace) }

def compMethods (s : CState) (tag : String) : List FunSrc → CState
  | [] => s
  | f :: r => compMethods ((compFun s f.name f.body false).emit tag) tag r

/-- `Compiler::class` -/
def compClass (s : CState) (d : ClassDecl) : CState :=
  let outer := s.attrs
  let s := (s.emit "C").emit "I"
  let s := { s with attrs := some { fields := [], explicitSuper := d.parent.isSome } }
  let s := match d.init with
    | some f => (compFun s "init" f.body true).emit "M"
    | none => s
  -- emit_fields
  let nf := match s.attrs with | some a => a.fields.length | none => 0
  let s := (List.range nf).foldl (fun s _ => s.emit "F") s
  let s := compMethods s "M" d.methods
  let s := compMethods s "T" d.statics
  { s with attrs := outer }

def compItems (s : CState) : List Item → CState
  | [] => s
  | .cls d :: r => compItems (compClass s d) r
  | .fn f :: r => compItems (compFun s f.name f.body false) r
  | .stmt st :: r => compItems (compStmt FUEL s st) r

/-- the whole program: finished functions in order, the script last -/
def compileTrace (items : List Item) : List (String × List String) :=
  let s := compItems {} items
  (s.done.push ("script", s.trace)).toList.map fun p => (p.1, p.2.toList)

end LaytheVerif.ClassCompile
