/-
Spec for the program-level stream of C04: a small DEFINITIONAL interpreter for exactly the program
shape the generator of `vlib/props/c04.py` emits (small integers, strings, error values; functions,
methods of one class, `while`/`for` loops, `try`/`catch`/`raise`, and callbacks run by native code:
`iter().each`, lazy `map`/`filter` stages consumed by `each`, a `for` loop, `.list()`, `List.collect`,
`Tuple.collect`, `reduce`, `all`, `any`, `zip(..).list()`, and `List.sort` comparators; closures bound
to locals — `let f = |a| { .. };` — that capture parameters, locals of `try` blocks and `catch`
clauses and the clauses' error variables, and are called while in scope).  It is
written from the language's meaning, NOT from the handler mechanism:

* an error is an OUTCOME of evaluating a statement; it abandons evaluation up to the nearest
  dynamically enclosing `try` one of whose clauses matches (first clause whose filter class is a
  superclass of the error's class); a filter that is not a subclass of `Error` makes the `try`
  statement itself raise `TypeError`; with no `try` the program ends with a failing status;
* variables live in an environment; abandoning evaluation does not touch it, so every variable in
  scope at the `try` has the value it had when the error was raised;
* leaving a `try` block by completing it, `break`, `continue` or `return` is just another outcome
  passing through it: afterwards the block's clauses play no role;
* a callback is a closure called by the construct that owns it: an error raised inside it is an
  outcome of the CALLING statement (the pipeline / sort statement), exactly as for a function call —
  native code between the two is invisible: it neither catches nor alters the error, and the values
  computed so far by the pipeline are simply abandoned.

As a self-check the interpreter also carries the dynamic handler stack as an explicit list
(`hs`, innermost first) and computes at every raise which entry of the list must catch the error
("nearest matching"); when a `try` catches structurally, the two answers are compared
(`SPEC-INCONSISTENT` is printed if they ever differ).

Core Lean only.
-/
namespace LaytheVerif.TrySpec

inductive Expr where
  | int (n : Int)
  | str (s : String)
  | nil
  | var (x : String)
  | add (a b : Expr)
  | lt (a b : Expr)
  | eq (a b : Expr)
  | call (f : String) (args : List Expr)
  | callm (m : String) (args : List Expr)
  | msg (x : String)        -- `x.message`
  | clsname (x : String)    -- `x.cls().name()`
  | selfv                   -- `@v` inside a method
  | cat (a b : Expr)        -- the interpolation `"${a}${b};"`
  deriving Repr, Inhabited

/-- what consumes a lazy pipeline `[vals].iter().stage1(..).stage2(..)` -/
inductive Sink where
  | each (y : String)                            -- `PIPE.each(|y| { body });`
  | forin (y : String)                           -- `for y in PIPE { body }`
  | list                                         -- `print(PIPE.list());`
  | collectList                                  -- `print(List.collect(PIPE));`
  | collectTuple                                 -- `print(Tuple.collect(PIPE));`
  | reduce (v : String) (init : Expr) (acc y : String)   -- `let v = PIPE.reduce(init, |acc, y| { body });`
  | all (y : String)                             -- `print(PIPE.all(|y| { body }));`
  | any (y : String)                             -- `print(PIPE.any(|y| { body }));`
  | zip (vals : List Int)                        -- `print(PIPE.zip([vals].iter()).list());`
  deriving Repr, Inhabited

inductive Stmt where
  | let_ (x : String) (e : Expr)
  | set (x : String) (e : Expr)
  | print (e : Expr)
  | raise (cls : String) (msg : String)          -- `raise Cls("msg");`
  | rterr (kind : String)                        -- a statement on which the VM / a native raises
  | try_ (body : List Stmt) (catches : List (String × String × List Stmt))   -- (filter, variable, block)
  | while_ (i : String) (n : Int) (body : List Stmt)      -- `let i = 0; while i < n { i = i + 1; body }`
  | for_ (x : String) (vals : List Int) (body : List Stmt) -- `for x in [vals] { body }`
  | if_ (c : Expr) (t e : List Stmt)
  | brk
  | cont
  | ret (e : Expr)
  | expr (e : Expr)
  | each (x : String) (vals : List Int) (body : List Stmt) -- `[vals].iter().each(|x| { body });`
  /-- a lazy pipeline over `[vals].iter()`: stages `(isFilter, x, body)` are `.filter(|x| { body })` /
  `.map(|x| { body })` in order; `body` is the callback (or loop body) of the sink -/
  | pipe (vals : List Int) (stages : List (Bool × String × List Stmt)) (sink : Sink) (body : List Stmt)
  /-- `print([vals].sort(|ca, cb| { if ca == k || cb == k { body } return ca - cb; }));` where `body`
  has no effect other than possibly raising -/
  | sort (vals : List Int) (k : Int) (body : List Stmt)
  /-- `exit(n);` ends the program with code `n`; it is not an error: no handler sees it -/
  | exit (code : Nat)
  /-- `let f = |params| { body };` — a closure: `body` sees (and may assign) every variable in scope at
  the declaration BY REFERENCE — parameters, locals declared before it (inside a `try` block, inside a
  `catch` clause, in a loop body), the clause's error variable — for as long as `f` itself is in scope -/
  | lam (f : String) (params : List String) (body : List Stmt)
  /-- `let dst = f(args);` (`dst = some _`) or `f(args);` for a closure `f` declared by `lam` -/
  | calll (dst : Option String) (f : String) (args : List Expr)
  deriving Repr, Inhabited

/-- values.  A closure value is the text of its lambda: the generator gives every variable of a
program its own name and a closure is only ever bound by `Stmt.lam` (never assigned, passed or
returned), so it is called only while the block that declared it is live; the bindings its body
mentions are then exactly the ones that were in scope at the declaration — the same bindings, not
copies — and running the body in the environment of the CALL is lexical scoping with capture by
reference. -/
inductive Val where
  | int (n : Int)
  | str (s : String)
  | nil
  | bool (b : Bool)
  | err (cls : String) (msg : String)
  | clo (params : List String) (body : List Stmt)
  deriving Repr, Inhabited

structure Fun where
  name : String
  params : List String
  body : List Stmt
  deriving Repr, Inhabited

structure Prog where
  classes : List (String × String) := []      -- user classes (name, parent); parent "" = no super class
  globals : List (String × Int) := []
  funs : List Fun := []
  methods : List Fun := []
  kv : Int := 0                                -- the field `v` of the one instance `k`
  main : List Stmt := []
  deriving Repr, Inhabited

/-- built-in error classes (all direct subclasses of `Error`) -/
def builtinErrors : List String :=
  ["TypeError", "RuntimeError", "IndexError", "KeyError", "AssertError", "ValueError", "PropertyError"]

/-- parent of a class: user classes first, then the built-ins -/
def parentOf (p : Prog) (c : String) : Option String :=
  match p.classes.lookup c with
  | some "" => none
  | some q => some q
  | none => if builtinErrors.contains c then some "Error" else none

/-- `c` is `d` or inherits from it -/
def isSubclass (p : Prog) : Nat → String → String → Bool
  | 0, _, _ => false
  | fuel + 1, c, d => c == d || (match parentOf p c with
    | some q => isSubclass p fuel q d
    | none => false)

def sub (p : Prog) (c d : String) : Bool := isSubclass p (p.classes.length + 3) c d

/-- what a `rterr` statement raises: (class, message) -/
def rterrInfo : String → String × String
  | "addnil" => ("RuntimeError", "Operands must be two numbers or two strings.")
  | "callnil" => ("RuntimeError", "Nil is not callable.")
  | "neg" => ("RuntimeError", "Operand must be a number.")
  | "raisenum" => ("RuntimeError", "Can only raise an instance of Error")
  | "index" => ("IndexError", "Index out of bounds. list was length 1 but attempted to index with 5.")
  | "assert" => ("AssertError", "Expected assertion to return true.")
  | _ => ("RuntimeError", "?")

def msgBadFilter : String := "Catch block must be blank or a subclass of Error."

/-- an entry of the dynamic handler stack: activation id of the `try` and its clause filters -/
abbrev HEntry := Nat × List String

/-- nearest matching handler, computed on the explicit list: the id of the `try` activation that must
catch an error of class `cls` (none = uncaught).  A bad filter met before a match turns the error
into a `TypeError` that continues outward. -/
def expectedCatcher (p : Prog) : List HEntry → String → Option Nat
  | [], _ => none
  | (id, filters) :: rest, cls =>
    let rec scan : List String → Option Bool     -- some true = caught here, some false = bad filter, none = no clause
      | [] => none
      | f :: fs => if !sub p f "Error" then some false else if sub p cls f then some true else scan fs
    match scan filters with
    | some true => some id
    | some false => expectedCatcher p rest "TypeError"
    | none => expectedCatcher p rest cls

inductive Outcome where
  | normal
  | brk
  | cont
  | ret (v : Val)
  | err (cls msg : String) (catcher : Option Nat)
  | exit (code : Nat)
  | stuck (why : String)
  deriving Repr, Inhabited

inductive ERes where
  | ok (v : Val)
  | err (cls msg : String) (catcher : Option Nat)
  | exit (code : Nat)
  | stuck (why : String)
  deriving Repr, Inhabited

structure St where
  globals : List (String × Val) := []
  out : Array String := #[]
  nextTry : Nat := 0
  inconsistent : Bool := false
  deriving Inhabited

abbrev Env := List (String × Val)   -- innermost binding first

def lookupVar (st : St) (env : Env) (x : String) : Option Val :=
  match env.lookup x with
  | some v => some v
  | none => st.globals.lookup x

def updateAssoc (l : List (String × Val)) (x : String) (v : Val) : List (String × Val) :=
  match l with
  | [] => []
  | (y, w) :: rest => if y == x then (y, v) :: rest else (y, w) :: updateAssoc rest x v

def assignVar (st : St) (env : Env) (x : String) (v : Val) : Option (St × Env) :=
  if (env.lookup x).isSome then some (st, updateAssoc env x v)
  else if (st.globals.lookup x).isSome then some ({ st with globals := updateAssoc st.globals x v }, env)
  else none

def showVal : Val → String
  | .int n => toString n
  | .str s => s
  | .nil => "nil"
  | .bool b => if b then "true" else "false"
  | .err c _ => s!"<{c}>"
  | .clo _ _ => "<fn>"

/-- `is_falsey`: `nil` and `false` -/
def falsey : Val → Bool
  | .nil => true
  | .bool false => true
  | _ => false

def showList (l : List String) : String := "[" ++ ", ".intercalate l ++ "]"
def showTuple (l : List String) : String := "(" ++ ", ".intercalate l ++ ")"

def pushOut (st : St) (line : String) : St := { st with out := st.out.push line }

/-- result of pulling one source element through the lazy stages -/
inductive SRes where
  | pass (v : Val)
  | dropped
  | err (cls msg : String) (catcher : Option Nat)
  | exit (code : Nat)
  | stuck (why : String)
  deriving Repr, Inhabited

/-- leave a block: forget the bindings made inside it, keep the updates to outer ones -/
def leave (env : Env) (outerLen : Nat) : Env := env.drop (env.length - outerLen)

/-- the source is exhausted (or `zip`'s partner is): what the sink leaves behind -/
def pipeDone (sink : Sink) (st : St) (env : Env) (acc : List String) (racc : Val) : Outcome × St × Env :=
  match sink with
  | .each _ => (.normal, st, env)
  | .forin _ => (.normal, st, env)
  | .list => (.normal, pushOut st (showList acc), env)
  | .collectList => (.normal, pushOut st (showList acc), env)
  | .zip _ => (.normal, pushOut st (showList acc), env)
  | .collectTuple => (.normal, pushOut st (showTuple acc), env)
  | .reduce v _ _ _ => (.normal, st, (v, racc) :: env)
  | .all _ => (.normal, pushOut st "true", env)
  | .any _ => (.normal, pushOut st "false", env)

def sortedText (vals : List Int) : String :=
  showList ((vals.mergeSort fun a b => decide (a ≤ b)).map toString)

mutual
/-- expressions (calls may print, assign globals and raise) -/
def evalE (p : Prog) (fuel : Nat) (self : Bool) (hs : List HEntry) (st : St) (env : Env) :
    Expr → ERes × St
  | .int n => (.ok (.int n), st)
  | .str s => (.ok (.str s), st)
  | .nil => (.ok .nil, st)
  | .var x =>
    match lookupVar st env x with
    | some v => (.ok v, st)
    | none => (.stuck s!"unbound {x}", st)
  | .selfv => if self then (.ok (.int p.kv), st) else (.stuck "selfv outside method", st)
  | .msg x =>
    match lookupVar st env x with
    | some (.err _ m) => (.ok (.str m), st)
    | _ => (.stuck s!"message of non-error {x}", st)
  | .clsname x =>
    match lookupVar st env x with
    | some (.err c _) => (.ok (.str c), st)
    | _ => (.stuck s!"class of non-error {x}", st)
  | .add a b =>
    match fuel with
    | 0 => (.stuck "fuel", st)
    | fuel + 1 =>
      match evalE p fuel self hs st env a with
      | (.ok (.int x), st) =>
        match evalE p fuel self hs st env b with
        | (.ok (.int y), st) =>
          -- numbers are f64 in the implementation: sums beyond 2^53 are outside what this Spec describes
          if (x + y).natAbs < 9007199254740992 then (.ok (.int (x + y)), st) else (.stuck "range", st)
        | (.ok _, st) => (.stuck "add: not an int", st)
        | r => r
      | (.ok _, st) => (.stuck "add: not an int", st)
      | r => r
  | .lt a b =>
    match fuel with
    | 0 => (.stuck "fuel", st)
    | fuel + 1 =>
      match evalE p fuel self hs st env a with
      | (.ok (.int x), st) =>
        match evalE p fuel self hs st env b with
        | (.ok (.int y), st) => (.ok (.bool (decide (x < y))), st)
        | (.ok _, st) => (.stuck "lt: not an int", st)
        | r => r
      | (.ok _, st) => (.stuck "lt: not an int", st)
      | r => r
  | .eq a b =>
    match fuel with
    | 0 => (.stuck "fuel", st)
    | fuel + 1 =>
      match evalE p fuel self hs st env a with
      | (.ok (.int x), st) =>
        match evalE p fuel self hs st env b with
        | (.ok (.int y), st) => (.ok (.bool (x == y)), st)
        | (.ok _, st) => (.stuck "eq: not an int", st)
        | r => r
      | (.ok _, st) => (.stuck "eq: not an int", st)
      | r => r
  | .cat a b =>
    match fuel with
    | 0 => (.stuck "fuel", st)
    | fuel + 1 =>
      match evalE p fuel self hs st env a with
      | (.ok x, st) =>
        match evalE p fuel self hs st env b with
        | (.ok y, st) => (.ok (.str (showVal x ++ showVal y ++ ";")), st)
        | r => r
      | r => r
  | .call f args =>
    match fuel with
    | 0 => (.stuck "fuel", st)
    | fuel + 1 =>
      match p.funs.find? (·.name == f) with
      | none => (.stuck s!"no function {f}", st)
      | some fn => callFun p fuel self false hs st env fn args
  | .callm m args =>
    match fuel with
    | 0 => (.stuck "fuel", st)
    | fuel + 1 =>
      match p.methods.find? (·.name == m) with
      | none => (.stuck s!"no method {m}", st)
      | some fn => callFun p fuel self true hs st env fn args

/-- evaluate the arguments left to right, bind them, run the body in a FRESH environment
(functions and methods see their parameters, their locals and the module variables) -/
def callFun (p : Prog) (fuel : Nat) (self isMethod : Bool) (hs : List HEntry) (st : St) (env : Env)
    (fn : Fun) (args : List Expr) : ERes × St :=
  match fuel with
  | 0 => (.stuck "fuel", st)
  | fuel + 1 =>
    match evalArgs p fuel self hs st env args with
    | (.inr r, st) => (r, st)
    | (.inl vs, st) =>
      if vs.length != fn.params.length then (.stuck "arity", st) else
      -- methods are only ever called on the one instance `k`, so `@v` is `p.kv` in every method
      match execBlock p fuel isMethod hs st ((fn.params.zip vs).reverse) fn.body with
      | (.normal, st, _) => (.ok .nil, st)
      | (.ret v, st, _) => (.ok v, st)
      | (.err c m k, st, _) => (.err c m k, st)
      | (.stuck w, st, _) => (.stuck w, st)
      | (.exit n, st, _) => (.exit n, st)
      | (_, st, _) => (.stuck "break/continue left a function", st)

def evalArgs (p : Prog) (fuel : Nat) (self : Bool) (hs : List HEntry) (st : St) (env : Env) :
    List Expr → (List Val ⊕ ERes) × St
  | [] => (.inl [], st)
  | a :: rest =>
    match fuel with
    | 0 => (.inr (.stuck "fuel"), st)
    | fuel + 1 =>
      match evalE p fuel self hs st env a with
      | (.ok v, st) =>
        match evalArgs p fuel self hs st env rest with
        | (.inl vs, st) => (.inl (v :: vs), st)
        | r => r
      | (r, st) => (.inr r, st)

/-- a block: statements in order in a nested scope -/
def execBlock (p : Prog) (fuel : Nat) (self : Bool) (hs : List HEntry) (st : St) (env : Env) :
    List Stmt → Outcome × St × Env
  | [] => (.normal, st, env)
  | s :: rest =>
    match fuel with
    | 0 => (.stuck "fuel", st, env)
    | fuel + 1 =>
      match execStmt p fuel self hs st env s with
      | (.normal, st, env) => execBlock p fuel self hs st env rest
      | r => r

/-- run `body` as a nested scope of `env` -/
def execScope (p : Prog) (fuel : Nat) (self : Bool) (hs : List HEntry) (st : St) (env : Env)
    (body : List Stmt) : Outcome × St × Env :=
  match fuel with
  | 0 => (.stuck "fuel", st, env)
  | fuel + 1 =>
    let (o, st, env') := execBlock p fuel self hs st env body
    (o, st, leave env' env.length)

def execStmt (p : Prog) (fuel : Nat) (self : Bool) (hs : List HEntry) (st : St) (env : Env) :
    Stmt → Outcome × St × Env
  | .let_ x e =>
    match fuel with
    | 0 => (.stuck "fuel", st, env)
    | fuel + 1 =>
      match evalE p fuel self hs st env e with
      | (.ok v, st) => (.normal, st, (x, v) :: env)
      | (.err c m k, st) => (.err c m k, st, env)
      | (.stuck w, st) => (.stuck w, st, env)
      | (.exit n, st) => (.exit n, st, env)
  | .set x e =>
    match fuel with
    | 0 => (.stuck "fuel", st, env)
    | fuel + 1 =>
      match evalE p fuel self hs st env e with
      | (.ok v, st) =>
        match assignVar st env x v with
        | some (st, env) => (.normal, st, env)
        | none => (.stuck s!"assign to unbound {x}", st, env)
      | (.err c m k, st) => (.err c m k, st, env)
      | (.stuck w, st) => (.stuck w, st, env)
      | (.exit n, st) => (.exit n, st, env)
  | .print e =>
    match fuel with
    | 0 => (.stuck "fuel", st, env)
    | fuel + 1 =>
      match evalE p fuel self hs st env e with
      | (.ok v, st) => (.normal, { st with out := st.out.push (showVal v) }, env)
      | (.err c m k, st) => (.err c m k, st, env)
      | (.stuck w, st) => (.stuck w, st, env)
      | (.exit n, st) => (.exit n, st, env)
  | .expr e =>
    match fuel with
    | 0 => (.stuck "fuel", st, env)
    | fuel + 1 =>
      match evalE p fuel self hs st env e with
      | (.ok _, st) => (.normal, st, env)
      | (.err c m k, st) => (.err c m k, st, env)
      | (.stuck w, st) => (.stuck w, st, env)
      | (.exit n, st) => (.exit n, st, env)
  | .raise c m =>
    -- only instances of subclasses of Error can be raised
    if sub p c "Error" then (.err c m (expectedCatcher p hs c), st, env)
    else (.err "RuntimeError" "Can only raise an instance of Error" (expectedCatcher p hs "RuntimeError"), st, env)
  | .rterr kind =>
    let (c, m) := rterrInfo kind
    (.err c m (expectedCatcher p hs c), st, env)
  | .exit n => (.exit n, st, env)
  | .brk => (.brk, st, env)
  | .cont => (.cont, st, env)
  | .ret e =>
    match fuel with
    | 0 => (.stuck "fuel", st, env)
    | fuel + 1 =>
      match evalE p fuel self hs st env e with
      | (.ok v, st) => (.ret v, st, env)
      | (.err c m k, st) => (.err c m k, st, env)
      | (.stuck w, st) => (.stuck w, st, env)
      | (.exit n, st) => (.exit n, st, env)
  | .if_ c t e =>
    match fuel with
    | 0 => (.stuck "fuel", st, env)
    | fuel + 1 =>
      match evalE p fuel self hs st env c with
      | (.ok (.bool b), st) => execScope p fuel self hs st env (if b then t else e)
      | (.ok _, st) => (.stuck "if: not a bool", st, env)
      | (.err c m k, st) => (.err c m k, st, env)
      | (.stuck w, st) => (.stuck w, st, env)
      | (.exit n, st) => (.exit n, st, env)
  | .while_ i n body =>
    match fuel with
    | 0 => (.stuck "fuel", st, env)
    | fuel + 1 => loopWhile p fuel self hs st ((i, .int 0) :: env) i n body
  | .for_ x vals body =>
    match fuel with
    | 0 => (.stuck "fuel", st, env)
    | fuel + 1 => loopFor p fuel self hs st env x vals body
  | .each x vals body =>
    match fuel with
    | 0 => (.stuck "fuel", st, env)
    | fuel + 1 => loopEach p fuel self hs st env x vals body
  | .pipe vals stages sink body =>
    match fuel with
    | 0 => (.stuck "fuel", st, env)
    | fuel + 1 =>
      match sink with
      | .reduce _ init _ _ =>
        match evalE p fuel self hs st env init with
        | (.ok r, st) => pipeLoop p fuel self hs st env stages sink body [] r [] vals
        | (.err c m k, st) => (.err c m k, st, env)
        | (.stuck w, st) => (.stuck w, st, env)
        | (.exit n, st) => (.exit n, st, env)
      | .zip z => pipeLoop p fuel self hs st env stages sink body [] .nil z vals
      | _ => pipeLoop p fuel self hs st env stages sink body [] .nil [] vals
  | .sort vals k body =>
    match fuel with
    | 0 => (.stuck "fuel", st, env)
    | fuel + 1 =>
      -- every element of a list of >= 2 elements takes part in at least one comparison; the first
      -- failure of the comparator is the failure of `sort` (no further calls are made)
      if vals.contains k && decide (2 ≤ vals.length) then
        match execScope p fuel self hs st env body with
        | (.normal, st, env) => (.normal, pushOut st (sortedText vals), env)
        | (.err c m k, st, env) => (.err c m k, st, env)
        | (.stuck w, st, env) => (.stuck w, st, env)
        | (.exit n, st, env) => (.exit n, st, env)
        | (_, st, env) => (.stuck "exit statement in a sort comparator", st, env)
      else (.normal, pushOut st (sortedText vals), env)
  | .lam f params body => (.normal, st, (f, .clo params body) :: env)
  | .calll dst f args =>
    match fuel with
    | 0 => (.stuck "fuel", st, env)
    | fuel + 1 =>
      match env.lookup f with
      | some (.clo params body) =>
        match evalArgs p fuel self hs st env args with
        | (.inr (.err c m k), st) => (.err c m k, st, env)
        | (.inr (.exit n), st) => (.exit n, st, env)
        | (.inr (.stuck w), st) => (.stuck w, st, env)
        | (.inr (.ok _), st) => (.stuck "arguments", st, env)
        | (.inl vs, st) =>
          if vs.length != params.length then (.stuck "closure arity", st, env) else
          -- the call is an ordinary call: an error raised in the body is an outcome of THIS statement
          match callLam p fuel self hs st env ((params.zip vs).reverse) body with
          | (.ok v, st, env) =>
            (.normal, st, match dst with
              | some x => (x, v) :: env
              | none => env)
          | (.err c m k, st, env) => (.err c m k, st, env)
          | (.stuck w, st, env) => (.stuck w, st, env)
          | (.exit n, st, env) => (.exit n, st, env)
      | _ => (.stuck s!"{f} is not a closure in scope", st, env)
  | .try_ body catches =>
    match fuel with
    | 0 => (.stuck "fuel", st, env)
    | fuel + 1 =>
      let id := st.nextTry
      let st := { st with nextTry := id + 1 }
      -- the handler is active exactly while control is inside the block
      match execScope p fuel self ((id, catches.map (·.1)) :: hs) st env body with
      | (.err c m k, st, env) => runCatches p fuel self hs st env id c m k catches
      | r => r

/-- the clauses in source order: the first whose filter is a superclass of the error's class runs,
with the error bound to its variable; a filter that is not a subclass of `Error` raises TypeError
out of the try statement; no clause: the error continues outward. -/
def runCatches (p : Prog) (fuel : Nat) (self : Bool) (hs : List HEntry) (st : St) (env : Env)
    (id : Nat) (c m : String) (k : Option Nat) :
    List (String × String × List Stmt) → Outcome × St × Env
  | [] => (.err c m k, st, env)
  | (filter, x, block) :: rest =>
    match fuel with
    | 0 => (.stuck "fuel", st, env)
    | fuel + 1 =>
      if !sub p filter "Error" then
        (.err "TypeError" msgBadFilter (expectedCatcher p hs "TypeError"), st, env)
      else if sub p c filter then
        let st := if k == some id then st else { st with inconsistent := true }
        let (o, st, env') := execBlock p fuel self hs st ((x, .err c m) :: env) block
        (o, st, leave env' env.length)
      else runCatches p fuel self hs st env id c m k rest

def loopWhile (p : Prog) (fuel : Nat) (self : Bool) (hs : List HEntry) (st : St) (env : Env)
    (i : String) (n : Int) (body : List Stmt) : Outcome × St × Env :=
  match fuel with
  | 0 => (.stuck "fuel", st, env)
  | fuel + 1 =>
    match env.lookup i with
    | some (.int v) =>
      if v < n then
        let env := updateAssoc env i (.int (v + 1))
        match execScope p fuel self hs st env body with
        | (.normal, st, env) => loopWhile p fuel self hs st env i n body
        | (.cont, st, env) => loopWhile p fuel self hs st env i n body
        | (.brk, st, env) => (.normal, st, env)
        | r => r
      else (.normal, st, env)
    | _ => (.stuck "loop counter", st, env)

def loopFor (p : Prog) (fuel : Nat) (self : Bool) (hs : List HEntry) (st : St) (env : Env)
    (x : String) : List Int → List Stmt → Outcome × St × Env
  | [], _ => (.normal, st, env)
  | v :: vals, body =>
    match fuel with
    | 0 => (.stuck "fuel", st, env)
    | fuel + 1 =>
      match execScope p fuel self hs st ((x, .int v) :: env) body with
      | (.normal, st, env') => loopFor p fuel self hs st (leave env' env.length) x vals body
      | (.cont, st, env') => loopFor p fuel self hs st (leave env' env.length) x vals body
      | (.brk, st, env') => (.normal, st, leave env' env.length)
      | (o, st, env') => (o, st, leave env' env.length)

/-- the native iterator calls the callback once per element; the callback sees (and may assign) the
enclosing function's variables; `return` ends one call; an error ends the iteration and leaves the
native as that error. -/
def loopEach (p : Prog) (fuel : Nat) (self : Bool) (hs : List HEntry) (st : St) (env : Env)
    (x : String) : List Int → List Stmt → Outcome × St × Env
  | [], _ => (.normal, st, env)
  | v :: vals, body =>
    match fuel with
    | 0 => (.stuck "fuel", st, env)
    | fuel + 1 =>
      match execScope p fuel self hs st ((x, .int v) :: env) body with
      | (.normal, st, env') => loopEach p fuel self hs st (leave env' env.length) x vals body
      | (.ret _, st, env') => loopEach p fuel self hs st (leave env' env.length) x vals body
      | (.err c m k, st, env') => (.err c m k, st, leave env' env.length)
      | (.stuck w, st, env') => (.stuck w, st, leave env' env.length)
      | (.exit n, st, env') => (.exit n, st, leave env' env.length)
      | (_, st, env') => (.stuck "break/continue left a callback", st, leave env' env.length)

/-- one call of a callback `|binds| { body }`: a closure over `env` (it sees and may assign the
enclosing function's variables); completing the body answers `nil`, `return e` answers `e`, an error
leaves the call as that error. -/
def callLam (p : Prog) (fuel : Nat) (self : Bool) (hs : List HEntry) (st : St) (env : Env)
    (binds : List (String × Val)) (body : List Stmt) : ERes × St × Env :=
  match fuel with
  | 0 => (.stuck "fuel", st, env)
  | fuel + 1 =>
    match execScope p fuel self hs st (binds ++ env) body with
    | (.normal, st, env') => (.ok .nil, st, leave env' env.length)
    | (.ret v, st, env') => (.ok v, st, leave env' env.length)
    | (.err c m k, st, env') => (.err c m k, st, leave env' env.length)
    | (.stuck w, st, env') => (.stuck w, st, leave env' env.length)
    | (.exit n, st, env') => (.exit n, st, leave env' env.length)
    | (_, st, env') => (.stuck "break/continue left a callback", st, leave env' env.length)

/-- pull ONE source element through the lazy stages, in order: `map` replaces the value by the
callback's answer, `filter` drops the element when the answer is falsey. -/
def runStages (p : Prog) (fuel : Nat) (self : Bool) (hs : List HEntry) (st : St) (env : Env)
    (v : Val) : List (Bool × String × List Stmt) → SRes × St × Env
  | [] => (.pass v, st, env)
  | (isFilter, x, body) :: rest =>
    match fuel with
    | 0 => (.stuck "fuel", st, env)
    | fuel + 1 =>
      match callLam p fuel self hs st env [(x, v)] body with
      | (.ok r, st, env) =>
        if isFilter then
          if falsey r then (.dropped, st, env) else runStages p fuel self hs st env v rest
        else runStages p fuel self hs st env r rest
      | (.err c m k, st, env) => (.err c m k, st, env)
      | (.stuck w, st, env) => (.stuck w, st, env)
      | (.exit n, st, env) => (.exit n, st, env)

/-- the sink pulls the elements one at a time (the stages are lazy: the callbacks of element `i+1`
run after the sink has consumed element `i`).  `acc` = texts of the values collected so far,
`racc` = `reduce`'s accumulator, `z` = what is left of `zip`'s partner. -/
def pipeLoop (p : Prog) (fuel : Nat) (self : Bool) (hs : List HEntry) (st : St) (env : Env)
    (stages : List (Bool × String × List Stmt)) (sink : Sink) (body : List Stmt)
    (acc : List String) (racc : Val) (z : List Int) : List Int → Outcome × St × Env
  | [] => pipeDone sink st env acc racc
  | v :: vals =>
    match fuel with
    | 0 => (.stuck "fuel", st, env)
    | fuel + 1 =>
      match runStages p fuel self hs st env (.int v) stages with
      | (.dropped, st, env) => pipeLoop p fuel self hs st env stages sink body acc racc z vals
      | (.err c m k, st, env) => (.err c m k, st, env)
      | (.stuck w, st, env) => (.stuck w, st, env)
      | (.exit n, st, env) => (.exit n, st, env)
      | (.pass x, st, env) =>
        match sink with
        | .each y =>
          match callLam p fuel self hs st env [(y, x)] body with
          | (.ok _, st, env) => pipeLoop p fuel self hs st env stages sink body acc racc z vals
          | (.err c m k, st, env) => (.err c m k, st, env)
          | (.stuck w, st, env) => (.stuck w, st, env)
          | (.exit n, st, env) => (.exit n, st, env)
        | .forin y =>
          match execScope p fuel self hs st ((y, x) :: env) body with
          | (.normal, st, env') => pipeLoop p fuel self hs st (leave env' env.length) stages sink body acc racc z vals
          | (.cont, st, env') => pipeLoop p fuel self hs st (leave env' env.length) stages sink body acc racc z vals
          | (.brk, st, env') => (.normal, st, leave env' env.length)
          | (o, st, env') => (o, st, leave env' env.length)
        | .list => pipeLoop p fuel self hs st env stages sink body (acc ++ [showVal x]) racc z vals
        | .collectList => pipeLoop p fuel self hs st env stages sink body (acc ++ [showVal x]) racc z vals
        | .collectTuple => pipeLoop p fuel self hs st env stages sink body (acc ++ [showVal x]) racc z vals
        | .reduce _ _ a y =>
          match callLam p fuel self hs st env [(y, x), (a, racc)] body with
          | (.ok r, st, env) => pipeLoop p fuel self hs st env stages sink body acc r z vals
          | (.err c m k, st, env) => (.err c m k, st, env)
          | (.stuck w, st, env) => (.stuck w, st, env)
          | (.exit n, st, env) => (.exit n, st, env)
        | .all y =>
          match callLam p fuel self hs st env [(y, x)] body with
          | (.ok r, st, env) =>
            if falsey r then (.normal, pushOut st "false", env)
            else pipeLoop p fuel self hs st env stages sink body acc racc z vals
          | (.err c m k, st, env) => (.err c m k, st, env)
          | (.stuck w, st, env) => (.stuck w, st, env)
          | (.exit n, st, env) => (.exit n, st, env)
        | .any y =>
          match callLam p fuel self hs st env [(y, x)] body with
          | (.ok r, st, env) =>
            if falsey r then pipeLoop p fuel self hs st env stages sink body acc racc z vals
            else (.normal, pushOut st "true", env)
          | (.err c m k, st, env) => (.err c m k, st, env)
          | (.stuck w, st, env) => (.stuck w, st, env)
          | (.exit n, st, env) => (.exit n, st, env)
        | .zip _ =>
          -- `ZipIterator::next` pulls this pipeline first, then the partner; the first exhausted one ends it
          match z with
          | [] => pipeDone sink st env acc racc
          | w :: z' => pipeLoop p fuel self hs st env stages sink body (acc ++ [s!"({showVal x}, {w})"]) racc z' vals
end

/-- run a program: (stdout lines, status, last line of stderr or "") -/
def runProg (p : Prog) (fuel : Nat) : Array String × String × String :=
  let st : St := { globals := p.globals.map fun (x, n) => (x, .int n) }
  match execBlock p fuel false [] st [] p.main with
  | (.normal, st, _) => (st.out, if st.inconsistent then "SPEC-INCONSISTENT" else "Ok:0", "")
  | (.err c m _, st, _) => (st.out, if st.inconsistent then "SPEC-INCONSISTENT" else "RuntimeError:1", s!"{c}: {m}")
  | (.exit n, st, _) => (st.out, if st.inconsistent then "SPEC-INCONSISTENT" else (if n == 0 then s!"Ok:0" else s!"RuntimeError:{n}"), "")
  | (.stuck w, st, _) => (st.out, s!"SPEC-STUCK:{w}", "")
  | (_, st, _) => (st.out, "SPEC-STUCK:exit statement at top level", "")

end LaytheVerif.TrySpec
