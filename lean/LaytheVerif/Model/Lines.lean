/-
C18 — model of everything between "the compiler attached line `l` to instruction `i`" and "the
traceback / `e.backTrace` / exit status the user sees":

* `ByteCodeEncoder::encode` (laythe_vm/src/byte_code.rs): one entry of the line table per encoded
  byte.  How many bytes / line entries each encoder helper pushes is the *generated* table
  `Gen.Enc.bytes` / `Gen.Enc.lineEntries`; which helper an instruction uses is the generated
  `Gen.Sym.enc`; the `offset` bookkeeping of `encode` uses the generated `Gen.Sym.len`.
* `Chunk::get_line` (laythe_core/src/chunk.rs), `frame_line` / `print_error` / `pause_unwind` /
  `stack_unwind` / `finish_unwind` / `error_backtrace` / `error_while_handling`
  (laythe_vm/src/fiber/mod.rs), `Vm::stack_unwind` (vm/error.rs), `op_continue_unwind` /
  `op_finish_unwind` (vm/ops.rs).
* `Vm::run`'s outcome → status table (generated `Gen.runStatus`), `exit` (laythe_lib misc.rs),
  `main.rs`.

Core Lean only.
-/
import LaytheVerif.Gen.ByteCode
import LaytheVerif.Gen.EncoderEmit
import LaytheVerif.Gen.RunStatus
import LaytheVerif.Model.Peephole
namespace LaytheVerif.Lines
open LaytheVerif.Gen

/-! ## 1. The encoder's line table -/

/-- The line entries `encode` pushes for one instruction: the helper chosen by the `match`
(`Sym.enc`) pushes `Enc.lineEntries` copies of `line`. -/
def emitLines (i : Sym) (line : Nat) : List Nat := List.replicate i.enc.1.lineEntries line

/-- `encode`: `for (instruction, line) in symbolic_code.iter().zip(symbolic_lines)` — the line
table (`encoded_lines`). -/
def encodeLines : List Sym → List Nat → List Nat
  | i :: is, l :: ls => emitLines i l ++ encodeLines is ls
  | _, _ => []

/-- `encode`: the number of bytes pushed onto `encoded_code`. -/
def encodeLen : List Sym → List Nat → Nat
  | i :: is, _ :: ls => i.enc.1.bytes + encodeLen is ls
  | _, _ => 0

/-- Byte offset at which instruction `k` starts: `encode`'s `offset += instruction.len()`. -/
def startOf (code : List Sym) (k : Nat) : Nat := ((code.take k).map Sym.len).sum

/-! ## 2. `Chunk::get_line` and the `ip − 1` of `frame_line` -/

/-- `Chunk::get_line`.  `none` = index out of bounds (host panic). -/
def getLine (lines : List Nat) (off : Nat) : Option Nat :=
  if off = lines.length then lines[off - 1]? else lines[off]?

/-- The offset `print_error` / `error_backtrace` pass to `get_line`: `offset.saturating_sub(1)`. -/
def reportOffset (ip : Nat) : Nat := ip - 1

/-- Line reported for a frame whose saved instruction pointer is `ip` bytes into its code. -/
def frameLineNo (lines : List Nat) (ip : Nat) : Option Nat := getLine lines (reportOffset ip)

/-- Cache-slot pseudo-instructions (`PropertySlot`, `InvokeSlot`): four bytes that are read by the
instruction in front of them. -/
def isSlot : Sym → Bool
  | .InvokeSlot | .PropertySlot => true
  | _ => false

/-- Instructions that read a trailing cache slot. -/
def isOwner : Sym → Bool
  | .GetPropByName _ | .SetPropByName _ | .Invoke _ _ | .SuperInvoke _ _ => true
  | _ => false

/-- Every cache slot directly follows an owner instruction that carries the same line. -/
def slotsOwned : List (Sym × Nat) → Bool
  | a :: b :: r => (!isSlot b.1 || (isOwner a.1 && a.2 == b.2)) && slotsOwned (b :: r)
  | _ => true

/-- The stream does not start with a cache slot. -/
def headNotSlot : List (Sym × Nat) → Bool
  | a :: _ => !isSlot a.1
  | [] => true

/-- What the compiler guarantees (it emits a slot only right after its owner, with the same source
offset) and what the optimiser must keep. -/
def wellSlotted (p : List (Sym × Nat)) : Bool := headNotSlot p && slotsOwned p

/-- Bytes the VM may have consumed while executing instruction `k`: its own and, when the next
pseudo-instruction is a cache slot, that slot's. -/
def extentOf (code : List Sym) (k : Nat) : Nat :=
  (code[k]?.map Sym.len).getD 0 +
    (match code[k + 1]? with
     | some s => if isSlot s then s.len else 0
     | none => 0)

/-! ## 3. Frames, handlers, and the backtrace captured while unwinding -/

/-- `CallFrame`: which function, and the saved instruction pointer as a byte offset into that
function's code. -/
structure Frame where
  fn : Nat
  ip : Nat
  deriving DecidableEq, Repr, Inhabited

/-- `ExceptionHandler` (`offset`, `call_frame_depth`; the slot depth plays no role here). -/
structure Handler where
  offset : Nat
  depth : Nat
  deriving DecidableEq, Repr, Inhabited

/-- The parts of `Fiber` that take part in error reporting.  `frames` is outermost first like the
Rust vector; `handlers` has the active (last pushed) handler at the head; `cur` is the index of the
frame the `frame` pointer designates (`store_ip` writes there). -/
structure Fiber where
  frames : List Frame
  handlers : List Handler
  backtraceIps : List Nat
  cur : Nat
  deriving DecidableEq, Repr, Inhabited

/-- `frames[i].store_ip(ip)` -/
def setIp : List Frame → Nat → Nat → List Frame
  | [], _, _ => []
  | fr :: fs, 0, ip => { fr with ip := ip } :: fs
  | fr :: fs, i + 1, ip => fr :: setIp fs i ip

/-- `Fiber::store_ip` (through `Vm::store_ip`). -/
def storeIp (f : Fiber) (ip : Nat) : Fiber := { f with frames := setIp f.frames f.cur ip }

/-- `Fiber::pause_unwind`. -/
def pauseUnwind (f : Fiber) (newFrameTop : Nat) : Fiber :=
  let currentLen := f.backtraceIps.length
  let additionalLen := ((f.frames.length - newFrameTop) + 1) - currentLen
  let temp := ((f.frames.reverse.drop currentLen).take additionalLen).map Frame.ip
  { f with backtraceIps := f.backtraceIps ++ temp }

inductive UnwindResult where
  | potentiallyHandled (f : Fiber)
  | unhandled
  | unwindStopped
  deriving DecidableEq, Repr

/-- `Fiber::stack_unwind`.  `bottomFrame` is the frame count recorded when a native called back
(`ExecutionMode::CallingNativeCode(depth)`), `none` in the loop started by `Vm::run`.  Only a
handler of a frame pushed *above* that count belongs to the nested loop
(`call_frame_depth() > bottom_frame`, generated `Gen.handlerBelongsToLoop`); a handler at or below it belongs to the caller of the native
and is reached by the calling loop once the native has returned the error. -/
def stackUnwind (f : Fiber) (bottomFrame : Option Nat) : UnwindResult :=
  match f.handlers with
  | h :: _ =>
    if handlerBelongsToLoop h.depth (bottomFrame.getD 0) then
      let f := pauseUnwind f h.depth
      .potentiallyHandled { f with frames := setIp f.frames (h.depth - 1) h.offset, cur := h.depth - 1 }
    else .unwindStopped
  | [] =>
    match bottomFrame with
    | some _ => .unwindStopped
    | none => .unhandled

/-- `Fiber::error_backtrace`: (function, offset handed to `frame_line`) per entry. -/
def errorBacktrace (f : Fiber) (h : Handler) : List (Nat × Nat) :=
  let backtraceLen := (f.frames.length - h.depth) + 1
  ((f.frames.reverse.take backtraceLen).zip f.backtraceIps).map fun (fr, ip) => (fr.fn, reportOffset ip)

/-- `Fiber::finish_unwind` (+ the fiber keeps running in the handler's frame). -/
def finishUnwind (f : Fiber) : Option (List (Nat × Nat) × Fiber) :=
  match f.handlers with
  | h :: _ => some (errorBacktrace f h, { f with frames := f.frames.take h.depth, backtraceIps := [] })
  | [] => none

/-- `Fiber::print_error`: the instruction pointer reported for the `index`-th frame counted from the
top (`self.frames.iter().rev().enumerate()`).  Which one that is, is the generated
`Gen.tracebackIpSource`: `match self.backtrace_ips.get(index) { Some(ip) => *ip, None => frame.ip() }`
— the ip `pause_unwind` saved when the search for a handler reached the frame (`stack_unwind` then
redirects the frame's own ip into its catch clause, and a declining clause leaves it there), and the
frame's own ip for the frames the search never reached. -/
def tracebackIp (f : Fiber) (index : Nat) (fr : Frame) : Nat :=
  match tracebackIpSource with
  | .savedElseLive =>
    match f.backtraceIps[index]? with
    | some ip => ip
    | none => fr.ip
  | .live => fr.ip

/-- `Fiber::print_error`: (function, offset handed to `get_line`) per line of the traceback,
innermost frame first. -/
def tracebackEntries (f : Fiber) : List (Nat × Nat) :=
  f.frames.reverse.mapIdx fun index fr => (fr.fn, reportOffset (tracebackIp f index fr))

/-- `op_continue_unwind`: pop the handler (the `RuntimeError` signal then re-enters
`Vm::stack_unwind`). -/
def continueUnwind (f : Fiber) : Fiber := { f with handlers := f.handlers.tail }

/-- `Fiber::error_while_handling`. -/
def errorWhileHandling (f : Fiber) : Fiber := { f with handlers := f.handlers.tail, backtraceIps := [] }

inductive Outcome where
  /-- a catch clause matched: the backtrace stored into the error, and the fiber that continues -/
  | caught (bt : List (Nat × Nat)) (f : Fiber)
  /-- `UnwindResult::Unhandled`: `print_error` runs on this fiber -/
  | uncaught (f : Fiber)
  /-- `UnwindResult::UnwindStopped`: the error is handed to the native function that called back
  (`rest`: the decisions of the catch clauses not met yet) -/
  | stopped (f : Fiber) (rest : List (Bool × Nat))
  | stuck
  deriving DecidableEq, Repr

/-- The VM's reaction to a `RuntimeError` signal once `Vm::stack_unwind` has stored the running
instruction pointer into the current frame (`g`): search with `Fiber::stack_unwind`; every handler
met either matches (`true`: `CheckHandler` falls through to `FinishUnwind`) or not (`false, ip'`:
`ContinueUnwind` executes at offset `ip'` inside that catch clause, pops the handler, signals
`RuntimeError` again, and `Vm::stack_unwind` stores `ip'` into the current frame — the one the
handler belongs to — before searching on; the ip that frame was suspended at survives in
`backtraceIps` only). -/
def unwindFrom (bottom : Option Nat) (g : Fiber) : List (Bool × Nat) → Outcome
  | [] =>
    match stackUnwind g bottom with
    | .unhandled => .uncaught g
    | .unwindStopped => .stopped g []
    | .potentiallyHandled _ => .stuck
  | (true, ip') :: ds' =>
    match stackUnwind g bottom with
    | .unhandled => .uncaught g
    | .unwindStopped => .stopped g ((true, ip') :: ds')
    | .potentiallyHandled f' =>
      match finishUnwind f' with
      | some (bt, f'') => .caught bt f''
      | none => .stuck
  | (false, ip') :: ds' =>
    match stackUnwind g bottom with
    | .unhandled => .uncaught g
    | .unwindStopped => .stopped g ((false, ip') :: ds')
    | .potentiallyHandled f' => unwindFrom bottom (storeIp (continueUnwind f') ip') ds'

/-- An error is raised while the instruction pointer of the running frame is `ip`. -/
def unwindRun (bottom : Option Nat) (f : Fiber) (ip : Nat) (ds : List (Bool × Nat)) : Outcome :=
  unwindFrom bottom (storeIp f ip) ds

/-- The error travels through nested interpreter loops.  `bottoms` are the frame counts recorded by
the natives that called back, innermost loop first; the loop started by `Vm::run` has none.  When
the search of a loop stops (`UnwindStopped`), `Vm::execute` returns `RuntimeError`,
`to_call_result` hands the error to the native, the native returns it, and `call_native` /
`op_iter_next` of the calling loop set it again (`nativeErrorSignal`): `Vm::stack_unwind` runs
there with that loop's bottom.  Its `store_ip` writes the unchanged `self.ip` into the unchanged
current frame (no frame was popped, `self.ip` was last written by the inner loop's own
`stack_unwind`), so the fiber is as the inner loop left it. -/
def unwindLoops : List Nat → Fiber → List (Bool × Nat) → Outcome
  | [], g, ds => unwindFrom none g ds
  | b :: bs, g, ds =>
    match unwindFrom (some b) g ds with
    | .stopped g' rest => unwindLoops bs g' rest
    | o => o

/-- Handler depths are at least 1, at most `top`, and do not increase towards older handlers. -/
def sortedFrom (top : Nat) : List Handler → Bool
  | [] => true
  | h :: r => decide (1 ≤ h.depth) && decide (h.depth ≤ top) && sortedFrom h.depth r

/-- A fiber that is executing normally: no unwind in progress, `frame` designates the top frame,
every handler belongs to a live frame and handlers are nested like the frames. -/
def running (f : Fiber) : Bool :=
  f.backtraceIps.isEmpty && decide (f.cur + 1 = f.frames.length) && sortedFrom f.frames.length f.handlers

/-! ## 4. Text: `frame_line` and `print_error` -/

/-- What error reporting reads of a function: name, module path, line table. -/
structure FunInfo where
  name : String
  path : String
  lines : List Nat
  deriving Repr, Inhabited

def showLine (lines : List Nat) (offset : Nat) : String :=
  match getLine lines offset with
  | some l => toString l
  | none => "<panic: index out of bounds>"

/-- `frame_line` (used for `e.backTrace`). -/
def frameLine (fi : FunInfo) (offset : Nat) : String :=
  if fi.name = "script" then s!"{fi.path}:{showLine fi.lines offset} in script"
  else s!"{fi.path}:{showLine fi.lines offset} in {fi.name}()"

/-- The strings `op_finish_unwind` stores in the error's `backTrace`. -/
def backtraceText (funs : Nat → FunInfo) (bt : List (Nat × Nat)) : List String :=
  bt.map fun (fn, off) => frameLine (funs fn) off

/-- `Fiber::print_error`: the lines written to stderr, one per entry of `tracebackEntries`. -/
def printError (funs : Nat → FunInfo) (f : Fiber) (cls msg : String) : List String :=
  ["Traceback (most recent call last):"] ++
  ((tracebackEntries f).map fun (fn, offset) =>
    let fi := funs fn
    let location := if fi.name = "script" then "script" else s!"{fi.name}()"
    s!"  {fi.path}:{showLine fi.lines offset} in {location}") ++
  [s!"{cls}: {msg}"]

/-! ## 5. Exit status -/

/-- How a program can end. -/
inductive ProgramEnd where
  /-- the main fiber's last frame returned -/
  | finished
  /-- `exit()` / `exit(n)` (an integral number) was called while `nested` natives that called back
  (`iter.each`, `List.sort`, `print` → `str()`, a lazy iterator driven by `for` / `.list()`, …) are
  between the loop of `Vm::run` and the frame that calls `exit` -/
  | exitCall (arg : Option Int) (nested : Nat)
  /-- an error reached the bottom of a fiber's stack -/
  | uncaughtError
  | compileError
  /-- a module reached through `import` does not compile -/
  | importCompileError
  /-- no runnable fiber left ("Fatal error deadlock.") -/
  | deadlock
  deriving DecidableEq, Repr

/-- Rust's saturating `f64 as uN` on an integral value. -/
def castUnsigned (bits : Nat) (n : Int) : Nat :=
  if n < 0 then 0 else if n > (2 ^ bits - 1 : Nat) then 2 ^ bits - 1 else n.toNat

/-- A nested interpreter loop ended with `r`; what the loop that called the native returns:
`to_call_result` turns an exit into `Call::Err(LyError::Exit(code))`, the native returns it, and
the match on the native's result answers `set_exit(code)` — the `Exit` signal with `exit_code =
code`.  `none`: host panic (`internal_error`) or not a program end. -/
def throughNative (r : ExecResult) : Option ExecResult :=
  match toCallResult r with
  | .ErrExit code => signalResult code nativeExitSignal
  | _ => none

def throughNatives : Nat → ExecResult → Option ExecResult
  | 0, r => some r
  | k + 1, r => (throughNative r).bind (throughNatives k)

/-- What `Vm::execute` returns to `Vm::run` (`none`: host panic on the way). -/
def execResult : ProgramEnd → Option ExecResult
  | .finished => signalResult exitCodeInit .Exit
  | .exitCall none k => throughNatives k (.Exit exitDefault)
  | .exitCall (some n) k => throughNatives k (.Exit (castUnsigned exitCastBits n))
  | .uncaughtError => some unhandledResult
  | .compileError => some .CompileError
  | .importCompileError => signalResult exitCodeInit importCompileErrorSignal
  | .deadlock => some .RuntimeError

/-- `Vm::run(..)`: (status, `VmExit`); `main.rs` hands the status to `process::exit`. -/
def status (e : ProgramEnd) : Option (Int × VmExit) := (execResult e).bind runStatus

end LaytheVerif.Lines
