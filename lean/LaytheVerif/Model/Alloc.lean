/-
Model of laythe_core/src/allocator.rs: the three owner lists (`nursery_obj_heap`, `obj_heap`,
`heap`), temporary roots, byte accounting, the intern table, the collection trigger, and
`collect_garbage` = mark from the context's roots and the temp roots, `sweep_intern_cache`,
nursery-or-full sweep by `gc_count % 10`, `sweep_heap`, accounting, threshold.

Objects are numbered in allocation order.  An object's size is an input (the implementation
reports it); what an object references is its `edges`.
-/
namespace LaytheVerif.Alloc

structure Obj where
  size : Nat
  edges : List Nat
  str : Option String := none      -- content, for interned strings
  plain : Bool := false            -- `true`: lives in `heap` (Box<dyn Manage>), else an object handle
  deriving Repr, Inhabited

structure A where
  objs : List Obj := []            -- by id; entries stay after being freed (ids are never reused here)
  nursery : List Nat := []         -- `nursery_obj_heap`
  old : List Nat := []             -- `obj_heap`
  plain : List Nat := []           -- `heap`
  temp : List Nat := []            -- `temp_roots` (only object-valued ones matter)
  bytes : Nat := 0                 -- `bytes_allocated`
  nextGc : Nat := 1024 * 1024      -- `next_gc`
  gcCount : Nat := 0
  intern : List (String × Nat) := []
  deriving Repr, Inhabited

def GROW : Nat := 2
def FULL_EVERY : Nat := 10

def A.edges (a : A) (x : Nat) : List Nat := (a.objs[x]?.map (·.edges)).getD []
def A.size (a : A) (x : Nat) : Nat := (a.objs[x]?.map (·.size)).getD 0

/-- Work-list marking with fuel: the recursion of `trace()` made explicit.  `vis` = marked so far. -/
def mark (a : A) : Nat → List Nat → List Nat → List Nat
  | _, [], vis => vis
  | 0, _ :: _, vis => vis
  | f + 1, x :: rest, vis =>
    if x ∈ vis then mark a f rest vis
    else mark a f (a.edges x ++ rest) (x :: vis)

/-- Enough fuel for any work list over this heap (each object is expanded at most once). -/
def A.fuel (a : A) (work : List Nat) : Nat :=
  work.length + a.objs.length + (a.objs.map (·.edges.length)).sum + 1

def A.marked (a : A) (roots : List Nat) : List Nat := mark a (a.fuel (roots ++ a.temp)) (roots ++ a.temp) []

def sumSizes (a : A) (l : List Nat) : Nat := (l.map a.size).sum

/-- `collect_garbage(context)` with `context` tracing `roots`; `force` = the verification hook that
overrides the `gc_count % 10` rule. -/
def A.collect (a : A) (roots : List Nat) (force : Option Bool := none) : A :=
  let gc := a.gcCount + 1
  let m := a.marked roots
  let keep (x : Nat) : Bool := m.contains x
  let intern := a.intern.filter fun p => keep p.2              -- sweep_intern_cache
  let full := force.getD (gc % FULL_EVERY == 0)
  let old' := if full then a.old.filter keep ++ a.nursery.filter keep   -- sweep_obj_full
              else a.old ++ a.nursery.filter keep                       -- sweep_obj_nursery
  let plain' := a.plain.filter keep                                     -- sweep_heap
  let bytes := sumSizes a old' + sumSizes a plain'
  { a with gcCount := gc, intern := intern, old := old', nursery := [], plain := plain',
           bytes := bytes, nextGc := bytes * GROW }

/-- `allocate` / `allocate_obj`: account, push to its owner list, then the trigger test; a
collection it triggers also roots the new object.  `hit` = the verification schedule fired. -/
def A.alloc (a : A) (o : Obj) (roots : List Nat) (hit : Bool) : A × Nat :=
  let id := a.objs.length
  let a1 : A := { a with objs := a.objs ++ [o], bytes := a.bytes + o.size,
                         nursery := if o.plain then a.nursery else a.nursery ++ [id],
                         plain := if o.plain then a.plain ++ [id] else a.plain }
  -- `collect_garbage_with_value`: push_root(new); collect; pop_roots(1) — once per trigger
  let a2 := if hit then { (({ a1 with temp := a1.temp ++ [id] } : A).collect roots) with temp := a1.temp } else a1
  let a3 := if a2.bytes > a2.nextGc then { (({ a2 with temp := a2.temp ++ [id] } : A).collect roots) with temp := a2.temp } else a2
  (a3, id)

/-- `manage_str`: the cached object if the content is in the table, else allocate and insert. -/
def A.manageStr (a : A) (s : String) (size : Nat) (roots : List Nat) (hit : Bool) : A × Nat × Bool :=
  match a.intern.find? (·.1 == s) with
  | some p => (a, p.2, true)
  | none =>
    let r := a.alloc { size := size, edges := [], str := some s } roots hit
    ({ r.1 with intern := r.1.intern ++ [(s, r.2)] }, r.2, false)

def A.setEdges (a : A) (x : Nat) (es : List Nat) : A :=
  { a with objs := a.objs.modify x fun o => { o with edges := es } }

def A.owned (a : A) : List Nat := a.nursery ++ a.old ++ a.plain

end LaytheVerif.Alloc
