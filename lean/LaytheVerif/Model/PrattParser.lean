import LaytheVerif.Gen.Pratt
/-!
# The Pratt expression parser of `compiler/parser.rs`, operator fragment

`parsePrec` mirrors `Parser::parse_precedence` and the handlers it dispatches to (`prefix`, `infix`,
`binary`, `and`, `or`, `unary`, `ternary`, `grouping`, `variable`/`assign`, `number`, `literal`), driven by the
**generated** tables `Gen.prefixRule`, `Gen.infixRule`, `Gen.Precedence.higher` and the generated
"which precedence does the handler recurse at" constants.  Handlers outside the operator fragment
(calls, indexing, properties, strings, lambdas, collections, `self`/`super`, channels) answer `none`.

The AST keeps `Primary::Grouping` as a node (`group`), exactly like `ir/ast.rs`.
Loops are fuelled: every recursive call consumes one unit; `parse` supplies `2 * tokens + 2`, which
is enough (each unit of fuel below either consumes a token or returns).
-/
namespace LaytheVerif.Pratt
open LaytheVerif.Gen

structure Tok where
  kind : TokenKind
  text : String
  deriving DecidableEq, Repr, Inhabited

/-- `Expr` of `ir/ast.rs`, operator fragment -/
inductive PExpr where
  | num (s : String)
  | ident (x : String)
  /-- `true`, `false`, `nil` -/
  | lit (k : TokenKind)
  | group (e : PExpr)
  | unary (op : TokenKind) (e : PExpr)
  | binary (op : TokenKind) (a b : PExpr)
  | and (a b : PExpr)
  | or (a b : PExpr)
  | ternary (c t e : PExpr)
  /-- `x = e`, `x += e`, … (`op` is the assignment token) -/
  | assign (x : String) (op : TokenKind) (e : PExpr)
  deriving DecidableEq, Repr, Inhabited

def precLe (a b : Precedence) : Bool := a.toNat ≤ b.toNat

def resolve (own : Precedence) : Recurse → Option Precedence
  | .higherOfOwn => own.higher
  | .fixed p => some p
  | .expr => some exprPrecedence

/-- the assignment tokens the fragment keeps (`<-` is a channel send) -/
def isAssignTok (k : TokenKind) : Bool := assignOps.contains k && k != .LeftArrow

mutual
  /-- `Parser::parse_precedence` -/
  def parsePrec : Nat → Precedence → List Tok → Option (PExpr × List Tok)
    | 0, _, _ => none
    | _ + 1, _, [] => none
    | fuel + 1, prec, t :: rest =>
      -- let can_assign = precedence <= Precedence::Assignment;
      let canAssign := precLe prec .Assignment
      match (prefixRule t.kind).1 with
      | none => none                                  -- "Expected expression."
      | some pre =>
        match prefixAct fuel pre canAssign t rest with
        | none => none
        | some (e, rest) =>
          match infixLoop fuel prec e rest with
          | none => none
          | some (e, rest) =>
            -- if can_assign && self.match_kind(TokenKind::Equal)? { error("Invalid assignment target.") }
            match rest with
            | t' :: _ => if canAssign && t'.kind == .Equal then none else some (e, rest)
            | [] => some (e, rest)

  /-- `Parser::prefix` and the handlers of the fragment -/
  def prefixAct : Nat → Prefix → Bool → Tok → List Tok → Option (PExpr × List Tok)
    | 0, _, _, _, _ => none
    | fuel + 1, pre, canAssign, t, rest =>
      match pre with
      | .Number => some (.num t.text, rest)
      | .Literal => some (.lit t.kind, rest)
      | .Grouping =>
        -- `grouping`: `self.expr()` then `)` (tuples are outside the fragment)
        match parsePrec fuel exprPrecedence rest with
        | some (e, t' :: rest') => if t'.kind == .RightParen then some (.group e, rest') else none
        | _ => none
      | .Unary =>
        match resolve .Unary recurseUnary with
        | none => none
        | some p =>
          match parsePrec fuel p rest with
          | some (e, rest') => some (.unary t.kind e, rest')
          | none => none
      | .Variable =>
        -- `variable`: with can_assign, `assign` looks at the current token
        match canAssign, rest with
        | true, t' :: rest' =>
          if isAssignTok t'.kind then
            match parsePrec fuel exprPrecedence rest' with
            | some (e, rest'') => some (.assign t.text t'.kind e, rest'')
            | none => none
          else some (.ident t.text, rest)
        | _, _ => some (.ident t.text, rest)
      | _ => none

  /-- the `while precedence <= get_infix(self.current.kind()).precedence` loop -/
  def infixLoop : Nat → Precedence → PExpr → List Tok → Option (PExpr × List Tok)
    | 0, _, _, _ => none
    | _ + 1, _, e, [] => some (e, [])
    | fuel + 1, prec, e, t :: rest =>
      let rule := infixRule t.kind
      if precLe prec rule.2 then
        match rule.1 with
        | none => none                                -- "Expected expression."
        | some inf =>
          match infixAct fuel inf rule.2 e t rest with
          | none => none
          | some (e', rest') => infixLoop fuel prec e' rest'
      else some (e, t :: rest)

  /-- `Parser::infix` and the handlers `binary`, `and`, `or`, `ternary` -/
  def infixAct : Nat → Infix → Precedence → PExpr → Tok → List Tok → Option (PExpr × List Tok)
    | 0, _, _, _, _, _ => none
    | fuel + 1, inf, own, lhs, t, rest =>
      match inf with
      | .Binary =>
        match resolve own recurseBinary with
        | none => none
        | some p =>
          match parsePrec fuel p rest with
          | some (rhs, rest') => if (binaryOps.lookup t.kind).isSome then some (.binary t.kind lhs rhs, rest') else none
          | none => none
      | .And =>
        match resolve own recurseAnd with
        | none => none
        | some p =>
          match parsePrec fuel p rest with
          | some (rhs, rest') => some (.and lhs rhs, rest')
          | none => none
      | .Or =>
        match resolve own recurseOr with
        | none => none
        | some p =>
          match parsePrec fuel p rest with
          | some (rhs, rest') => some (.or lhs rhs, rest')
          | none => none
      | .Ternary =>
        match resolve own recurseTernaryThen, resolve own recurseTernaryElse with
        | some p1, some p2 =>
          match parsePrec fuel p1 rest with
          | some (thn, c :: rest') =>
            if c.kind == .Colon then
              match parsePrec fuel p2 rest' with
              | some (els, rest'') => some (.ternary lhs thn els, rest'')
              | none => none
            else none
          | _ => none
        | _, _ => none
      | _ => none
end

/-- a whole expression: `self.expr()` must consume every token -/
def parse (toks : List Tok) : Option PExpr :=
  match parsePrec (4 * toks.length + 4) exprPrecedence toks with
  | some (e, []) => some e
  | _ => none

/-! ## tokens of an expression (the inverse direction: what the renderer writes) -/

def tokensOf : PExpr → List Tok
  | .num s => [⟨.Number, s⟩]
  | .ident x => [⟨.Identifier, x⟩]
  | .lit k => [⟨k, ""⟩]
  | .group e => ⟨.LeftParen, ""⟩ :: tokensOf e ++ [⟨.RightParen, ""⟩]
  | .unary op e => ⟨op, ""⟩ :: tokensOf e
  | .binary op a b => tokensOf a ++ ⟨op, ""⟩ :: tokensOf b
  | .and a b => tokensOf a ++ ⟨.And, ""⟩ :: tokensOf b
  | .or a b => tokensOf a ++ ⟨.Or, ""⟩ :: tokensOf b
  | .ternary c t e => tokensOf c ++ ⟨.QuestionMark, ""⟩ :: tokensOf t ++ ⟨.Colon, ""⟩ :: tokensOf e
  | .assign x op e => ⟨.Identifier, x⟩ :: ⟨op, ""⟩ :: tokensOf e

/-! ## text protocol (driver): space separated tokens -/

def tokOfText (s : String) : Option Tok :=
  match s with
  | "(" => some ⟨.LeftParen, ""⟩ | ")" => some ⟨.RightParen, ""⟩
  | "-" => some ⟨.Minus, ""⟩ | "+" => some ⟨.Plus, ""⟩ | "/" => some ⟨.Slash, ""⟩ | "*" => some ⟨.Star, ""⟩
  | "?" => some ⟨.QuestionMark, ""⟩ | ":" => some ⟨.Colon, ""⟩
  | "!" => some ⟨.Bang, ""⟩ | "!=" => some ⟨.BangEqual, ""⟩ | "=" => some ⟨.Equal, ""⟩ | "==" => some ⟨.EqualEqual, ""⟩
  | ">" => some ⟨.Greater, ""⟩ | ">=" => some ⟨.GreaterEqual, ""⟩ | "<" => some ⟨.Less, ""⟩ | "<=" => some ⟨.LessEqual, ""⟩
  | "+=" => some ⟨.PlusEqual, ""⟩ | "-=" => some ⟨.MinusEqual, ""⟩ | "*=" => some ⟨.StarEqual, ""⟩ | "/=" => some ⟨.SlashEqual, ""⟩
  | "&&" => some ⟨.And, ""⟩ | "||" => some ⟨.Or, ""⟩
  | "true" => some ⟨.True, ""⟩ | "false" => some ⟨.False, ""⟩ | "nil" => some ⟨.Nil, ""⟩
  | s =>
    match s.toList with
    | c :: _ => if c.isDigit then some ⟨.Number, s⟩ else if c.isAlpha || c == '_' then some ⟨.Identifier, s⟩ else none
    | [] => none

def opText (k : TokenKind) : String :=
  match k with
  | .Minus => "-" | .Plus => "+" | .Slash => "/" | .Star => "*" | .Bang => "!" | .BangEqual => "!=" | .Equal => "="
  | .EqualEqual => "==" | .Greater => ">" | .GreaterEqual => ">=" | .Less => "<" | .LessEqual => "<="
  | .PlusEqual => "+=" | .MinusEqual => "-=" | .StarEqual => "*=" | .SlashEqual => "/="
  | .True => "true" | .False => "false" | .Nil => "nil" | _ => "?"

/-- S-expression of the parse (groups dropped), in the vocabulary of `vlib/layref.py` -/
def PExpr.sexp : PExpr → String
  | .num s => s!"(num {s})"
  | .ident x => s!"(var {x})"
  | .lit k => opText k
  | .group e => e.sexp
  | .unary op e => if op == .Bang then s!"(not {e.sexp})" else s!"(neg {e.sexp})"
  | .binary op a b => s!"({opText op} {a.sexp} {b.sexp})"
  | .and a b => s!"(and {a.sexp} {b.sexp})"
  | .or a b => s!"(or {a.sexp} {b.sexp})"
  | .ternary c t e => s!"(tern {c.sexp} {t.sexp} {e.sexp})"
  | .assign x op e =>
    let suffix := match op with | .PlusEqual => "+" | .MinusEqual => "-" | .StarEqual => "*" | .SlashEqual => "/" | _ => ""
    s!"(set{suffix} (var {x}) {e.sexp})"

end LaytheVerif.Pratt
