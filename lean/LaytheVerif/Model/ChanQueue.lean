/-
Model of laythe_core/src/object/channel/channel_queue.rs (ChannelQueue) and the view layer of
channel/mod.rs (Channel).  Written branch for branch from the Rust text; core Lean only.

Waiters are shared heap objects in the implementation (`Ref<ChannelWaiter>` with a mutable
`runnable` flag), so the flag lives in a global table `flags : Nat → Bool`, not in the queue.
-/
namespace LaytheVerif.ChanQueue

inductive Kind | sync | buffered deriving DecidableEq, Repr
inductive QState | ready | closed | closedEmpty deriving DecidableEq, Repr

/-- `ChannelQueue` -/
structure Q where
  queue : List Nat
  cap : Nat
  kind : Kind
  state : QState
  sendW : List Nat
  recvW : List Nat
  deriving Repr

inductive SendRes | ok | noSendAccess | fullBlock (w : Option Nat) | full (w : Option Nat) | closed
  deriving Repr, DecidableEq
inductive RecvRes | ok (v : Nat) | noReceiveAccess | emptyBlock (w : Option Nat) | empty (w : Option Nat) | closed
  deriving Repr, DecidableEq
inductive CloseRes | ok | alreadyClosed deriving Repr, DecidableEq

/-- `ChannelQueue::sync()` -/
def Q.mkSync : Q := { queue := [], cap := 1, kind := .sync, state := .ready, sendW := [], recvW := [] }
/-- `ChannelQueue::with_capacity(c)`; the Rust code asserts `c > 0` (the VM checks `capacity < 1.0` first). -/
def Q.mkBuffered (c : Nat) : Q := { queue := [], cap := c, kind := .buffered, state := .ready, sendW := [], recvW := [] }

/-- `find_runnable_waiter`: pop from the front until a runnable waiter is found; the skipped ones are lost. -/
def findRunnable (flags : Nat → Bool) : List Nat → Option Nat × List Nat
  | [] => (none, [])
  | w :: rest => if flags w then (some w, rest) else findRunnable flags rest

def Q.isClosed (q : Q) : Bool := q.state != .ready

/-- `ChannelQueue::close` -/
def Q.close (q : Q) : Q × CloseRes :=
  if q.isClosed then (q, .alreadyClosed)
  else if q.queue.isEmpty then ({ q with state := .closedEmpty }, .ok)
  else ({ q with state := .closed }, .ok)

/-- `ChannelQueue::send` -/
def Q.send (flags : Nat → Bool) (q : Q) (w : Nat) (v : Nat) : Q × SendRes :=
  match q.state with
  | .ready =>
    if q.kind == .sync && q.queue.isEmpty then
      let r := findRunnable flags q.recvW
      ({ q with queue := q.queue ++ [v], sendW := q.sendW ++ [w], recvW := r.2 }, .fullBlock r.1)
    else if q.queue.length < q.cap then
      ({ q with queue := q.queue ++ [v] }, .ok)
    else
      let r := findRunnable flags q.recvW
      ({ q with sendW := q.sendW ++ [w], recvW := r.2 }, .full r.1)
  | _ => (q, .closed)

/-- `ChannelQueue::receive` -/
def Q.recv (flags : Nat → Bool) (q : Q) (w : Nat) : Q × RecvRes :=
  match q.state with
  | .ready =>
    match q.queue with
    | v :: rest => ({ q with queue := rest }, .ok v)
    | [] =>
      let r := findRunnable flags q.sendW
      let q' := { q with recvW := q.recvW ++ [w], sendW := r.2 }
      if q.kind == .sync then (q', .emptyBlock r.1) else (q', .empty r.1)
  | .closed =>
    match q.queue with
    | v :: rest => ({ q with queue := rest }, .ok v)
    | [] => ({ q with state := .closedEmpty }, .closed)
  | .closedEmpty => (q, .closed)

def Q.popSend (flags : Nat → Bool) (q : Q) : Q × Option Nat :=
  ({ q with sendW := (findRunnable flags q.sendW).2 }, (findRunnable flags q.sendW).1)
def Q.popRecv (flags : Nat → Bool) (q : Q) : Q × Option Nat :=
  ({ q with recvW := (findRunnable flags q.recvW).2 }, (findRunnable flags q.recvW).1)

/-- `ChannelQueue::runnable_waiter` -/
def Q.runnableWaiter (flags : Nat → Bool) (q : Q) : Q × Option Nat :=
  match q.kind with
  | .sync =>
    if q.queue.isEmpty && !q.isClosed then q.popSend flags else q.popRecv flags
  | .buffered =>
    if q.queue.isEmpty && !q.isClosed then q.popSend flags
    else if q.queue.length == q.cap || q.isClosed then q.popRecv flags
    else
      match (q.popSend flags).2 with
      | some w => ((q.popSend flags).1, some w)
      | none => (q.popSend flags).1.popRecv flags

/-! ### The `Channel` view layer (`channel/mod.rs`) -/

inductive View | bi | recvOnly | sendOnly deriving DecidableEq, Repr

def View.readOnly : View → Option View
  | .bi | .recvOnly => some .recvOnly
  | .sendOnly => none
def View.writeOnly : View → Option View
  | .bi | .sendOnly => some .sendOnly
  | .recvOnly => none

def chanSend (flags : Nat → Bool) (view : View) (q : Q) (w v : Nat) : Q × SendRes :=
  match view with
  | .bi | .sendOnly => q.send flags w v
  | .recvOnly => (q, .noSendAccess)

def chanRecv (flags : Nat → Bool) (view : View) (q : Q) (w : Nat) : Q × RecvRes :=
  match view with
  | .bi | .recvOnly => q.recv flags w
  | .sendOnly => (q, .noReceiveAccess)

/-! ### Operation histories -/

inductive Op
  | send (view : View) (w v : Nat)
  | recv (view : View) (w : Nat)
  | close
  | setRunnable (w : Nat) (b : Bool)
  | runnableWaiter
  deriving Repr

/-- Queue + waiter flags + the two history variables the property is stated on. -/
structure H where
  q : Q
  flags : Nat → Bool
  accepted : List Nat      -- values a send call took (`Ok` or `FullBlock`), in call order
  delivered : List Nat     -- values a receive call returned with `Ok`, in call order

def H.init (q : Q) : H := { q := q, flags := fun _ => true, accepted := [], delivered := [] }

def step (h : H) : Op → H
  | .send view w v =>
    let r := chanSend h.flags view h.q w v
    match r.2 with
    | .ok | .fullBlock _ => { h with q := r.1, accepted := h.accepted ++ [v] }
    | _ => { h with q := r.1 }
  | .recv view w =>
    let r := chanRecv h.flags view h.q w
    match r.2 with
    | .ok v => { h with q := r.1, delivered := h.delivered ++ [v] }
    | _ => { h with q := r.1 }
  | .close => { h with q := (h.q.close).1 }
  | .setRunnable w b => { h with flags := fun x => if x = w then b else h.flags x }
  | .runnableWaiter => { h with q := (h.q.runnableWaiter h.flags).1 }

def run (h : H) (ops : List Op) : H := ops.foldl step h

end LaytheVerif.ChanQueue
