/-
Model/Scope.lean — executable model of Laythe's variable resolution (C02).

(a) the resolver (`laythe_vm/src/compiler/resolver.rs`): a stack of symbol tables tagged with
    `fun_depth`/`scope_depth`; `resolve_variable` marks a symbol `capture()`d when it is found in a
    table whose `fun_depth` is smaller than the current one; `end_scope` attaches the final table to
    the AST node (here: the resolver returns the annotated tree);
(b) the compiler (`laythe_vm/src/compiler/mod.rs`): `locals`, `resolve_local` (reverse search by
    name, then the module table), `resolve_capture` (parent local → `CaptureIndex::Local`, else parent
    capture → `CaptureIndex::Enclosing`), `add_capture` (Local-only de-duplication, 255 bound),
    `declare_local_variable`/`declare_and_define_parameter`/`define_local_variable`
    (`EmptyBox`/`Box`/`FillBox`), `variable_get`/`variable_set`, `function` (`Closure` + operands);
(c) the run-time side (`laythe_vm/src/vm/ops.rs`): frames whose slots hold values or box
    references, `op_closure`, `op_box`, `op_empty_box`, `op_fill_box`, `op_get/set_box`,
    `op_get/set_capture`;
and the Spec: lexical environments (`Spec.lookup`: innermost enclosing declaration in scope).

Core Lean only.  Warts are modelled as they are (see the doc comments).
-/
namespace LaytheVerif.Scope

abbrev Name := String

/-! ## The scoping fragment -/

/-- `laythe_core::object::FunKind` (without `Script`). -/
inductive FunKind | fn | method | init | static
  deriving DecidableEq, Repr, Inhabited

/-- `SymbolState` (`compiler/ir/symbol_table.rs`). -/
inductive SymState | uninit | localInit | moduleInit | alreadyInit | globalInit | localCaptured
  deriving DecidableEq, Repr, Inhabited

/-- `symbol_table::Symbol`, plus two ghost fields: the id of the binder it was created for and the
ids of the identifier occurrences that were resolved to it from a more deeply nested function. -/
structure RSym where
  name : Name
  state : SymState
  decl : Nat := 0
  hits : List Nat := []
  deriving DecidableEq, Repr, Inhabited

/-- `SymbolTable`: a `Vec<Symbol>` in declaration order. -/
abbrev Table := List RSym

/-- A parameter: binder id and name. -/
structure Param where
  d : Nat
  name : Name
  deriving DecidableEq, Repr, Inhabited

/-- Operators that have no scoping content: their children are visited left to right.  The tag
only matters to the interpreters. -/
inductive OpKind
  | add | sub | mul | lt | eq | not
  | call            -- args = callee :: arguments
  | list            -- list literal
  | index           -- e[i]
  | push            -- l.push(v)
  | len             -- l.len()
  | getF (f : Name) -- e.f
  | setF (f : Name) -- e.f = v
  | invoke (m : Name) -- e.m(args)
  | exprS           -- expression statement
  | ret             -- return e;   (`return;` without a value — `emit_return` — is outside the fragment)
  | raise           -- raise e;
  deriving DecidableEq, Repr, Inhabited

/-- Programs of the scoping fragment.  Statement lists and argument lists are `seq` chains ending
in `nil`.  `o` are identifier-occurrence ids, `d` binder ids (both ghost: they only label the
outputs).  The `Table` fields are empty in source programs and filled in by the resolver
(`fun.symbols = self.end_scope()` etc.). -/
inductive Tm
  | nil
  | seq (a b : Tm)
  | lit (n : Int)
  | str (s : String)
  /-- the literal `nil` -/
  | nilE
  | var (o : Nat) (x : Name)
  | assign (o : Nat) (x : Name) (e : Tm)
  | op (k : OpKind) (args : Tm)
  /-- lambda `|ps| { body }`; `d0` is the binder id of the hidden slot 0. -/
  | lam (tbl : Table) (d0 : Nat) (ps : List Param) (body : Tm)
  | letS (d : Nat) (x : Name) (e : Tm)
  /-- `let x;` — a declaration without initialiser (`ast::Let { value: None }`): the variable is `nil` -/
  | letN (d : Nat) (x : Name)
  | fnS (d : Nat) (f : Name) (tbl : Table) (d0 : Nat) (ps : List Param) (body : Tm)
  | ifS (c : Tm) (tblT : Table) (t : Tm) (tblE : Table) (e : Tm)
  | whileS (c : Tm) (tbl : Table) (b : Tm)
  | forS (tblF : Table) (dIter d : Nat) (x : Name) (iter : Tm) (tblB : Table) (b : Tm)
  /-- `try { b } catch x: cn { c }`; `o` is the occurrence of the class name `cn`. -/
  | tryS (tblB : Table) (b : Tm) (tblC : Table) (d : Nat) (x : Name) (o : Nat) (cn : Name) (tblCB : Table) (c : Tm)
  /-- `class c : sup { methods }`; `oSup`/`oName` are the hidden occurrences of the superclass name and
  of the class's own name, `dSuper` the binder id of the hidden local `super`. -/
  | classS (d : Nat) (c : Name) (oSup : Nat) (sup : Name) (oName : Nat) (tbl : Table) (dSuper : Nat) (methods : Tm)
  | method (kind : FunKind) (m : Name) (tbl : Table) (d0 : Nat) (ps : List Param) (body : Tm)
  deriving Repr, Inhabited

def SELF : Name := "self"
def SUPER : Name := "super"
def ITER_VAR : Name := "$iter"
def UNINITIALIZED_VAR : Name := "$uninitialized"

/-- Names exported by the global module that the fragment uses (`resolve_variable`'s fallback:
`global_module.get_exported_symbol_by_name`). -/
def globalNames : List Name := ["print", "Error", "Object", "assert", "assertEq", "List", "Number", "String", "Bool", "exit"]

/-- What a resolution designates: a declaration of the program (by binder id) or a global. -/
inductive DeclRef | decl (d : Nat) | global (x : Name)
  deriving DecidableEq, Repr, Inhabited

/-! ## Symbol tables (`compiler/ir/symbol_table.rs`) -/

/-- `SymbolTable::get`: `self.0.iter().rev().find(..)`. -/
def Table.get (t : Table) (x : Name) : Option RSym :=
  match t with
  | [] => none
  | s :: rest =>
    match Table.get rest x with
    | some r => some r
    | none => if s.name = x then some s else none

/-- `get_any_state`: `self.0.iter().find(..)`. -/
def Table.getAny (t : Table) (x : Name) : Option RSym := t.find? (·.name = x)

/-- `get_mut(name)` followed by a mutation of that symbol (the last one with this name). -/
def Table.modifyLast (t : Table) (x : Name) (f : RSym → RSym) : Table :=
  match t with
  | [] => []
  | s :: rest =>
    match Table.get rest x with
    | some _ => s :: Table.modifyLast rest x f
    | none => if s.name = x then f s :: rest else s :: rest

/-- `Symbol::initialize`. -/
def RSym.initialize (s : RSym) : RSym := if s.state = .uninit then { s with state := .localInit } else s
/-- `Symbol::module_initialize`. -/
def RSym.moduleInitialize (s : RSym) : RSym := if s.state = .uninit then { s with state := .moduleInit } else s
/-- `Symbol::capture`: only an initialised, not yet captured local changes state. -/
def RSym.capture (s : RSym) : RSym := if s.state = .localInit then { s with state := .localCaptured } else s

/-! ## (a) The resolver -/

/-- `TrackedSymbolTable`. -/
structure RTable where
  funDepth : Nat
  scopeDepth : Nat
  syms : Table
  deriving Repr, Inhabited

/-- One resolution, for the log (ghost): occurrence, what it designated, the `fun_depth` of the table
it was found in and the current `fun_depth`. -/
structure ResEv where
  o : Nat
  target : Option DeclRef
  tableFun : Nat
  curFun : Nat
  deriving Repr, DecidableEq

/-- `Resolver` (the fields that matter).  The Rust `tables: Vec<TrackedSymbolTable>` is split into its
first element (`mod`) and the rest (`tables`, innermost first); `self.tables.len() == 1` is
`tables = []`. -/
structure RS where
  funDepth : Nat := 0
  scopeDepth : Nat := 0
  /-- `self.tables[1..]`, innermost first -/
  tables : List RTable := []
  /-- `self.tables[0]`: the module table (`fun_depth = 0`, `scope_depth = 0`) -/
  mod : Table := []
  errors : List String := []
  log : List ResEv := []
  deriving Repr, Inhabited

/-- `begin_scope`. -/
def RS.beginScope (rs : RS) : RS :=
  { rs with scopeDepth := rs.scopeDepth + 1,
            tables := { funDepth := rs.funDepth, scopeDepth := rs.scopeDepth + 1, syms := [] } :: rs.tables }

/-- `end_scope`: pops the table and hands it to the caller (who stores it in the AST). -/
def RS.endScope (rs : RS) : Table × RS :=
  match rs.tables with
  | [] => (rs.mod, { rs with scopeDepth := rs.scopeDepth - 1 })
  | t :: rest => (t.syms, { rs with scopeDepth := rs.scopeDepth - 1, tables := rest })

/-- `add_symbol_to_table` on the current table (`SymbolTable::add_symbol`: duplicate ⇒ error). -/
def dupError : String := "Variable with this name already declared in this scope."

def RS.addSymbol (rs : RS) (d : Nat) (x : Name) : RS :=
  match rs.tables with
  | [] =>
    match rs.mod.getAny x with
    | some _ => { rs with errors := rs.errors ++ [dupError] }
    | none => { rs with mod := rs.mod ++ [{ name := x, state := .uninit, decl := d }] }
  | t :: rest =>
    match t.syms.getAny x with
    | some _ => { rs with errors := rs.errors ++ [dupError] }
    | none => { rs with tables := { t with syms := t.syms ++ [{ name := x, state := .uninit, decl := d }] } :: rest }

/-- `declare_variable`: module scoped variables have already been declared. -/
def RS.declare (rs : RS) (d : Nat) (x : Name) : RS :=
  match rs.tables with
  | [] => rs
  | _ :: _ => rs.addSymbol d x

/-- `define_variable`. -/
def RS.define (rs : RS) (x : Name) : RS :=
  match rs.tables with
  | [] => { rs with mod := rs.mod.modifyLast x RSym.moduleInitialize }
  | t :: rest => { rs with tables := { t with syms := t.syms.modifyLast x RSym.initialize } :: rest }

def RSym.ref (s : RSym) : DeclRef := if s.state = .globalInit then .global s.name else .decl s.decl

/-- The loop of `resolve_variable` over `self.tables.iter_mut().rev()`: the first table (innermost
first) that knows the name decides.  Returns the updated tables, whether the "own initializer" error
fires, and the log entry. -/
def resolveIn (curFun o : Nat) (x : Name) : List RTable → Option (List RTable × Bool × ResEv)
  | [] => none
  | t :: rest =>
    match t.syms.get x with
    | some sym =>
      let deeper := decide (t.funDepth < curFun)
      let ev : ResEv := { o := o, target := some sym.ref, tableFun := t.funDepth, curFun := curFun }
      let hit : RSym → RSym := fun s => if deeper then { s with hits := s.hits ++ [o] } else s
      match sym.state with
      | .uninit => some ({ t with syms := t.syms.modifyLast x hit } :: rest, decide (t.scopeDepth > 0), ev)
      | .localInit =>
        if deeper then some ({ t with syms := t.syms.modifyLast x (fun s => (hit s).capture) } :: rest, false, ev)
        else some (t :: rest, false, ev)
      | _ => some ({ t with syms := t.syms.modifyLast x hit } :: rest, false, ev)
    | none =>
      match resolveIn curFun o x rest with
      | some (r, e, ev) => some (t :: r, e, ev)
      | none => none

/-- The module table's turn in that loop (`fun_depth = 0`, `scope_depth = 0`: no error for a symbol
that is still uninitialised — "we'll defer to a runtime error"). -/
def resolveMod (curFun o : Nat) (x : Name) (m : Table) : Option (Table × ResEv) :=
  match m.get x with
  | some sym =>
    let deeper := decide (0 < curFun)
    let hit : RSym → RSym := fun s => if deeper then { s with hits := s.hits ++ [o] } else s
    some (m.modifyLast x (fun s => if s.state = .localInit ∧ deeper then (hit s).capture else hit s),
          { o := o, target := some sym.ref, tableFun := 0, curFun := curFun })
  | none => none

/-- `resolve_variable`. -/
def RS.resolveVar (rs : RS) (o : Nat) (x : Name) : RS :=
  match resolveIn rs.funDepth o x rs.tables with
  | some (tables, err, ev) =>
    { rs with tables := tables, log := rs.log ++ [ev],
              errors := if err then rs.errors ++ ["Cannot read local variable in its own initializer."] else rs.errors }
  | none =>
    match resolveMod rs.funDepth o x rs.mod with
    | some (m, ev) => { rs with mod := m, log := rs.log ++ [ev] }
    | none =>
    -- `add_symbol_from_global` on `self.tables.first_mut()`
    if x ∈ globalNames then
      { rs with mod := rs.mod ++ [{ name := x, state := .globalInit }],
                log := rs.log ++ [{ o := o, target := some (.global x), tableFun := 0, curFun := rs.funDepth }] }
    else
      { rs with errors := rs.errors ++ ["Attempted to access undeclared variable " ++ x],
                log := rs.log ++ [{ o := o, target := none, tableFun := 0, curFun := rs.funDepth }] }

def RS.declareDefine (rs : RS) (d : Nat) (x : Name) : RS := (rs.declare d x).define x

/-- `call_sig`. -/
def RS.params (rs : RS) : List Param → RS
  | [] => rs
  | p :: ps => RS.params (rs.declareDefine p.d p.name) ps

/-- The name put in slot 0 of a function (`function`: `SELF_TOKEN` for methods and initialisers,
`UNINITIALIZED_TOKEN` otherwise). -/
def slot0Name : FunKind → Name
  | .method | .init => SELF
  | .fn | .static => UNINITIALIZED_VAR

/-- `Resolver::decl/stmt/expr/...` over the fragment; returns the tree with the symbol tables attached. -/
def res : Tm → RS → Tm × RS
  | .nil, rs => (.nil, rs)
  | .seq a b, rs =>
    let (a', rs) := res a rs
    let (b', rs) := res b rs
    (.seq a' b', rs)
  | .lit n, rs => (.lit n, rs)
  | .str s, rs => (.str s, rs)
  | .nilE, rs => (.nilE, rs)
  | .var o x, rs => (.var o x, rs.resolveVar o x)
  | .assign o x e, rs =>
    -- `assign`: `self.atom(lhs); self.expr(rhs)`
    let rs := rs.resolveVar o x
    let (e', rs) := res e rs
    (.assign o x e', rs)
  | .op k args, rs =>
    let (a', rs) := res args rs
    (.op k a', rs)
  | .lam _ d0 ps body, rs =>
    -- `function(fun, FunKind::Fun)`
    let rs := { rs with funDepth := rs.funDepth + 1 }.beginScope
    let rs := (rs.declareDefine d0 (slot0Name .fn)).params ps
    let (b', rs) := res body rs
    let (tbl, rs) := rs.endScope
    (.lam tbl d0 ps b', { rs with funDepth := rs.funDepth - 1 })
  | .letS d x e, rs =>
    let rs := rs.declare d x
    let (e', rs) := res e rs
    (.letS d x e', rs.define x)
  | .letN d x, rs =>
    -- `let_`: `declare_variable; if let Some(v) = value { expr(v) }; define_variable` with `value = None`
    (.letN d x, (rs.declare d x).define x)
  | .fnS d f _ d0 ps body, rs =>
    let rs := rs.declareDefine d f
    let rs := { rs with funDepth := rs.funDepth + 1 }.beginScope
    let rs := (rs.declareDefine d0 (slot0Name .fn)).params ps
    let (b', rs) := res body rs
    let (tbl, rs) := rs.endScope
    (.fnS d f tbl d0 ps b', { rs with funDepth := rs.funDepth - 1 })
  | .ifS c _ t _ e, rs =>
    let (c', rs) := res c rs
    let (t', rs) := res t rs.beginScope
    let (tblT, rs) := rs.endScope
    let (e', rs) := res e rs.beginScope
    let (tblE, rs) := rs.endScope
    (.ifS c' tblT t' tblE e', rs)
  | .whileS c _ b, rs =>
    let (c', rs) := res c rs
    let (b', rs) := res b rs.beginScope
    let (tbl, rs) := rs.endScope
    (.whileS c' tbl b', rs)
  | .forS _ dIter d x iter _ b, rs =>
    -- `for_`: the iterable is resolved inside the loop's scope but *before* the hidden `$iter` and the item are
    -- declared (the compiler's order; repo commit 22c8429 — until then the declarations came first, finding D31)
    let rs := rs.beginScope
    let (iter', rs) := res iter rs
    let rs := (rs.declareDefine dIter ITER_VAR).declareDefine d x
    let (b', rs) := res b rs.beginScope
    let (tblB, rs) := rs.endScope
    let (tblF, rs) := rs.endScope
    (.forS tblF dIter d x iter' tblB b', rs)
  | .tryS _ b _ d x o cn _ c, rs =>
    let (b', rs) := res b rs.beginScope
    let (tblB, rs) := rs.endScope
    let rs := rs.beginScope
    -- `catch`: the class is looked up before the catch variable is declared (repo commit b3a40ba)
    let rs := (rs.resolveVar o cn).declareDefine d x
    let (c', rs) := res c rs.beginScope
    let (tblCB, rs) := rs.endScope
    let (tblC, rs) := rs.endScope
    (.tryS tblB b' tblC d x o cn tblCB c', rs)
  | .classS d c oSup sup oName _ dSuper ms, rs =>
    let rs := rs.declareDefine d c
    let rs := rs.resolveVar oSup sup
    let rs := rs.beginScope
    let rs := (rs.declareDefine dSuper SUPER).resolveVar oName c
    let (ms', rs) := res ms rs
    let (tbl, rs) := rs.endScope
    (.classS d c oSup sup oName tbl dSuper ms', rs)
  | .method kind m _ d0 ps body, rs =>
    let rs := { rs with funDepth := rs.funDepth + 1 }.beginScope
    let rs := (rs.declareDefine d0 (slot0Name kind)).params ps
    let (b', rs) := res body rs
    let (tbl, rs) := rs.endScope
    (.method kind m tbl d0 ps b', { rs with funDepth := rs.funDepth - 1 })

/-- The module-level declarations of a program (the `seq` spine of the root): `decl_module`. -/
def moduleDecls : Tm → List (Nat × Name)
  | .seq (.letS d x _) rest => (d, x) :: moduleDecls rest
  | .seq (.letN d x) rest => (d, x) :: moduleDecls rest
  | .seq (.fnS d f _ _ _ _) rest => (d, f) :: moduleDecls rest
  | .seq (.classS d c _ _ _ _ _ _) rest => (d, c) :: moduleDecls rest
  | .seq _ rest => moduleDecls rest
  | _ => []

def RS.declareModule (rs : RS) : List (Nat × Name) → RS
  | [] => rs
  | (d, x) :: more => RS.declareModule (rs.addSymbol d x) more

/-- `declare_module_scoped` for a fresh (non-REPL) module. -/
def RS.start (p : Tm) : RS :=
  let rs : RS := {}
  let rs := (rs.addSymbol 0 UNINITIALIZED_VAR).define UNINITIALIZED_VAR
  rs.declareModule (moduleDecls p)

structure Resolved where
  tree : Tm
  modTable : Table
  errors : List String
  log : List ResEv
  deriving Repr, Inhabited

/-- `Resolver::resolve`. -/
def resolve (p : Tm) : Resolved :=
  let (t, rs) := res p (RS.start p)
  let (mt, rs) := rs.endScope
  { tree := t, modTable := mt, errors := rs.errors, log := rs.log }

/-! ## (b) The compiler -/

/-- `CaptureIndex` (`byte_code.rs`). -/
inductive CapIdx | loc (s : Nat) | enc (i : Nat)
  deriving DecidableEq, Repr, Inhabited

/-- `compiler::Local { symbol: &Symbol, depth }` plus the ghost binder id taken from the AST. -/
structure Local where
  sym : RSym
  depth : Nat
  decl : Nat := 0
  deriving Repr, Inhabited, DecidableEq

/-- How an identifier occurrence is accessed. -/
inductive Path | local (s : Nat) | box (s : Nat) | capture (i : Nat) | modsym (slot : Nat)
  deriving DecidableEq, Repr, Inhabited

/-- The scope-relevant instructions, in emission order. -/
inductive Ev
  | get (p : Path) | set (p : Path)
  | emptyBox | fillBox | box (s : Nat)
  /-- the `Nil` instruction: the value of a declaration without initialiser (`let_`), of the item of a `for`
  before the first iteration, of the literal `nil`, and of the implicit `return` at the end of a function -/
  | nil
  | closure (f : Name) (caps : List CapIdx)
  | funConst (f : Name)
  deriving DecidableEq, Repr, Inhabited

/-- One `Compiler` (one function being compiled). -/
structure Comp where
  name : Name := "script"
  kind : Option FunKind := none       -- `none` = `FunKind::Script`
  locals : List Local := []            -- index = slot
  captures : List CapIdx := []
  captureCount : Nat := 0              -- `self.fun.capture_count()`
  scopeDepth : Nat := 0
  localTables : List Table := []       -- innermost first
  isScript : Bool := false             -- `module_table.is_some()`
  evs : List Ev := []
  d0 : Nat := 0                        -- ghost
  deriving Repr, Inhabited

/-- A finished function, in completion order (as the compile log of the harness lists them). -/
structure FunRec where
  name : Name
  captures : List CapIdx
  evs : List Ev
  d0 : Nat := 0                -- ghost: binder id of its slot 0 (identifies the function)
  deriving Repr, Inhabited, DecidableEq

/-- Ghost record of one compiled declaration: where the variable lives (a frame slot, or a module
slot when `st` is a module state) and the state of its symbol. -/
structure DeclInfo where
  d : Nat
  slot : Nat
  st : SymState
  deriving Repr, Inhabited, DecidableEq

/-- Ghost record of one compiled identifier occurrence. -/
structure OccRec where
  o : Nat
  x : Name
  write : Bool
  path : Option Path
  target : Option DeclRef       -- the declaration the emitted path designates in the compile-time chain (`pathDecl`)
  sym : Option RSym             -- the table symbol `variable_get` looked at
  ovf : Bool                    -- the 255-capture bound fired during this resolution
  funLevel : Nat                -- length of the compiler chain
  deriving Repr, DecidableEq

structure CS where
  chain : List Comp := []              -- innermost first
  modTable : Table := []
  modOffsets : List (Name × Nat) := []
  modCount : Nat := 0
  funs : List FunRec := []
  errors : List String := []
  panics : List String := []
  occs : List OccRec := []
  decls : List DeclInfo := []
  deriving Repr, Inhabited

/-- `resolve_local` on one compiler: the locals in reverse, then (script only) the module table.
Returns slot, symbol and (ghost) the binder id. -/
def resolveLocalIn (locals : List Local) (x : Name) : Option (Nat × Local) :=
  match locals with
  | [] => none
  | l :: rest =>
    match resolveLocalIn rest x with
    | some (i, r) => some (i + 1, r)
    | none => if l.sym.name = x then some (0, l) else none

def Comp.resolveLocal (c : Comp) (modTable : Table) (x : Name) : Option (Nat × RSym × Nat) :=
  match resolveLocalIn c.locals x with
  | some (i, l) => some (i, l.sym, l.decl)
  | none =>
    if c.isScript then
      match modTable.get x with
      | some s => some (0, s, s.decl)
      | none => none
    else none

/-- position of the first `Local s` capture, if any — the only de-duplication `add_capture` does. -/
def findLoc (caps : List CapIdx) (s : Nat) : Option Nat :=
  match caps with
  | [] => none
  | c :: rest => if c = .loc s then some 0 else (findLoc rest s).map (· + 1)

def dedup (caps : List CapIdx) : CapIdx → Option Nat
  | .loc s => findLoc caps s
  | .enc _ => none

/-- `add_capture`: returns the compiler, the index and whether "Too many closure variables" fired. -/
def Comp.addCapture (f : Comp) (ci : CapIdx) : Comp × Nat × Bool :=
  match dedup f.captures ci with
  | some i => (f, i, false)
  | none =>
    if f.captureCount = 255 then (f, 0, true)
    else ({ f with captures := f.captures ++ [ci], captureCount := f.captureCount + 1 }, f.captureCount, false)

def isModuleState : SymState → Bool
  | .globalInit | .moduleInit => true
  | _ => false

/-- `resolve_capture` over the compiler chain (innermost first).  Returns the updated chain (captures
are added to every level the variable passes through), the index, the symbol, the ghost binder id and
whether the 255 bound fired. -/
def resolveCapture (modTable : Table) : List Comp → Name → Option (List Comp × Nat × RSym × Nat × Bool)
  | f :: parent :: rest, x =>
    match parent.resolveLocal modTable x with
    | some (s, sym, d) =>
      if isModuleState sym.state then some (f :: parent :: rest, 0, sym, d, false)
      else
        let r := f.addCapture (.loc s)
        some (r.1 :: parent :: rest, r.2.1, sym, d, r.2.2)
    | none =>
      match resolveCapture modTable (parent :: rest) x with
      | some (chain', j, sym, d, ovf) =>
        if isModuleState sym.state then some (f :: chain', 0, sym, d, ovf)
        else
          let r := f.addCapture (.enc j)
          some (r.1 :: chain', r.2.1, sym, d, ovf || r.2.2)
      | none => none
  | _, _ => none

def CS.emit (cs : CS) (e : Ev) : CS :=
  match cs.chain with
  | [] => cs
  | c :: rest => { cs with chain := { c with evs := c.evs ++ [e] } :: rest }

def CS.panic (cs : CS) (m : String) : CS := { cs with panics := cs.panics ++ [m] }
def CS.error (cs : CS) (m : String) : CS := { cs with errors := cs.errors ++ [m] }

def CS.modOffset (cs : CS) (x : Name) : Option Nat := (cs.modOffsets.find? (·.1 = x)).map (·.2)

def RSym.refC (s : RSym) (d : Nat) : DeclRef := if s.state = .globalInit then .global s.name else .decl d

/-- `variable_get`/`variable_set`, first `match`: the name was found by `resolve_local`. -/
def CS.localPath (cs : CS) (x : Name) (slot : Nat) (sym : RSym) (d : Nat) : CS × Option Path × Option (RSym × Nat) × Bool :=
  match sym.state with
  | .localInit => (cs, some (.local slot), some (sym, d), false)
  | .localCaptured => (cs, some (.box slot), some (sym, d), false)
  | .moduleInit | .globalInit | .alreadyInit =>
    match cs.modOffset x with
    | some k => (cs, some (.modsym k), some (sym, d), false)
    | none => (cs.panic "Unable to find module symbol offset", none, some (sym, d), false)
  | .uninit => (cs.panic ("Unexpected symbol " ++ x ++ " with state Uninitialized."), none, some (sym, d), false)

/-- `variable_get`/`variable_set`, second `match`: the name was found by `resolve_capture`. -/
def CS.capturePath (cs : CS) (x : Name) (idx : Nat) (sym : RSym) (d : Nat) (ovf : Bool) : CS × Option Path × Option (RSym × Nat) × Bool :=
  match sym.state with
  | .localCaptured => (cs, some (.capture idx), some (sym, d), ovf)
  | .moduleInit | .globalInit | .alreadyInit =>
    match cs.modOffset x with
    | some k => (cs, some (.modsym k), some (sym, d), ovf)
    | none => (cs.panic "Unable to find module symbol offset", none, some (sym, d), ovf)
  | .localInit => (cs.panic ("Unexpected symbol " ++ x ++ " with state LocalInitialized."), none, some (sym, d), ovf)
  | .uninit => (cs.panic ("Unexpected symbol " ++ x ++ " with state Uninitialized."), none, some (sym, d), ovf)

/-- The common part of `variable_get` / `variable_set`: which access path, if any. -/
def CS.variablePath (cs : CS) (x : Name) : CS × Option Path × Option (RSym × Nat) × Bool :=
  match cs.chain with
  | [] => (cs.panic "no compiler", none, none, false)
  | c :: _ =>
    match c.resolveLocal cs.modTable x with
    | some (slot, sym, d) => cs.localPath x slot sym d
    | none =>
      match resolveCapture cs.modTable cs.chain x with
      | some (chain', idx, sym, d, ovf) =>
        let cs := { cs with chain := chain' }
        let cs := if ovf then cs.error "Too many closure variables in function." else cs
        cs.capturePath x idx sym d ovf
      | none => (cs.panic ("Symbol " ++ x ++ " not found."), none, none, false)

/-- What the module table says about a name (the fallback of every lookup). -/
def tableLookup (mt : Table) (x : Name) : Option DeclRef := (mt.get x).map (fun s => s.refC s.decl)

/-- The binder designated by capture index `i` of the innermost compiler: follow the compile-time
chain (`Local s` = slot `s` of the parent, `Enclosing j` = capture `j` of the parent). -/
def capDecl : List Comp → Nat → Option Nat
  | f :: parent :: rest, i =>
    match f.captures[i]? with
    | some (.loc s) => parent.locals[s]?.map (·.decl)
    | some (.enc j) => capDecl (parent :: rest) j
    | none => none
  | _, _ => none

/-- The declaration an access path for the name `x` designates in the current compile-time state. -/
def CS.pathDecl (cs : CS) (x : Name) : Path → Option DeclRef
  | .local s | .box s => ((cs.chain.head?.bind (·.locals[s]?)).map (fun l => DeclRef.decl l.decl))
  | .capture i => (capDecl cs.chain i).map DeclRef.decl
  | .modsym k => if cs.modOffset x = some k then tableLookup cs.modTable x else none

def CS.recordOcc (cs : CS) (o : Nat) (x : Name) (w : Bool) (p : Option Path) (t : Option (RSym × Nat)) (ovf : Bool) : CS :=
  { cs with occs := cs.occs ++ [{ o := o, x := x, write := w, path := p, target := p.bind (cs.pathDecl x),
                                  sym := t.map (·.1), ovf := ovf, funLevel := cs.chain.length }] }

/-- `variable_get`. -/
def CS.variableGet (cs : CS) (o : Nat) (x : Name) : CS :=
  let (cs, p, t, ovf) := cs.variablePath x
  let cs := cs.recordOcc o x false p t ovf
  match p with
  | some p => cs.emit (.get p)
  | none => cs

/-- `variable_set`. -/
def CS.variableSet (cs : CS) (o : Nat) (x : Name) : CS :=
  let (cs, p, t, ovf) := cs.variablePath x
  let cs := cs.recordOcc o x true p t ovf
  match p with
  | some p => cs.emit (.set p)
  | none => cs

/-- `begin_scope`. -/
def CS.beginScope (cs : CS) (tbl : Table) : CS :=
  match cs.chain with
  | [] => cs
  | c :: rest => { cs with chain := { c with scopeDepth := c.scopeDepth + 1, localTables := tbl :: c.localTables } :: rest }

/-- `drop_local_count`: the number of locals that stay when leaving to `scopeDepth`. -/
def dropLocalCount (locals : List Local) (scopeDepth : Nat) : Nat :=
  (locals.reverse.dropWhile (fun l => decide (l.depth > scopeDepth))).length

/-- `end_scope` (the `Drop`s it emits are not scope events). -/
def CS.endScope (cs : CS) : CS :=
  match cs.chain with
  | [] => cs
  | c :: rest =>
    let sd := c.scopeDepth - 1
    { cs with chain := { c with scopeDepth := sd, locals := c.locals.take (dropLocalCount c.locals sd),
                                localTables := c.localTables.drop 1 } :: rest }

/-- `push_local` after looking the symbol up in the innermost attached table
(`self.local_tables.last().get(name).expect("Expected symbol.")`).  Rust stops at the `expect`; the
model records the panic and goes on with a placeholder symbol, so that the shape of `locals` never
depends on the tables. -/
def CS.pushLocal (cs : CS) (d : Nat) (x : Name) : CS × SymState :=
  match cs.chain with
  | [] => (cs.panic "no compiler", .uninit)
  | c :: rest =>
    let cs := if c.locals.length = 255 then cs.error "too many local variables in function" else cs
    let found := (c.localTables.head?.getD []).get x
    let cs := if found.isNone then cs.panic ("Expected symbol. " ++ x) else cs
    let sym : RSym := found.getD { name := x, state := .uninit }
    ({ cs with chain := { c with locals := c.locals ++ [{ sym := sym, depth := c.scopeDepth, decl := d }] } :: rest,
               decls := cs.decls ++ [{ d := d, slot := c.locals.length, st := sym.state }] }, sym.state)

/-- `declare_local_variable`: push the local; a captured one gets its (empty) box now. -/
def CS.declareLocal (cs : CS) (d : Nat) (x : Name) : CS × SymState :=
  let (cs, st) := cs.pushLocal d x
  (if st = .localCaptured then cs.emit .emptyBox else cs, st)

/-- `declare_and_define_parameter`: a captured parameter is boxed in place. -/
def CS.declareParam (cs : CS) (d : Nat) (x : Name) : CS :=
  let (cs, st) := cs.pushLocal d x
  if st = .localCaptured then
    match cs.chain with
    | c :: _ =>
      match c.resolveLocal cs.modTable x with
      | some (slot, _, _) => cs.emit (.box slot)
      | none => cs.panic "Expected local symbol."
    | [] => cs
  else cs

def CS.scopeDepth (cs : CS) : Nat := (cs.chain.head?.map (·.scopeDepth)).getD 0

/-- `declare_variable`: at module scope (`scope_depth == 1`) only the state is loaded. -/
def CS.declareVariable (cs : CS) (d : Nat) (x : Name) : CS × SymState :=
  if cs.scopeDepth = 1 then
    match cs.modTable.get x with
    | some s => ({ cs with decls := cs.decls ++ [{ d := d, slot := (cs.modOffset x).getD 0, st := s.state }] }, s.state)
    | none => (cs.panic "Expected symbol.", .uninit)
  else cs.declareLocal d x

/-- `define_variable`: a module variable is an assignment to its slot, a captured local fills its box. -/
def CS.defineVariable (cs : CS) (x : Name) (st : SymState) : CS :=
  if cs.scopeDepth > 1 then
    (if st = .localCaptured then cs.emit .fillBox else cs)
  else
    match cs.modOffset x with
    | some k => cs.emit (.set (.modsym k))
    | none => cs.panic "Unable to find module symbol offset"

def CS.params (cs : CS) : List Param → CS
  | [] => cs
  | p :: ps => CS.params (cs.declareParam p.d p.name) ps

/-- Entry of `function`: the child compiler, its scope, slot 0 and the parameters. -/
def CS.enterFunction (cs : CS) (kind : FunKind) (name : Name) (tbl : Table) (d0 : Nat) (ps : List Param) : CS :=
  let sd := cs.scopeDepth
  let child : Comp := { name := name, kind := some kind, scopeDepth := sd, d0 := d0 }
  let cs := { cs with chain := child :: cs.chain }
  let cs := cs.beginScope tbl
  let cs := match kind with
    | .method | .init => cs.declareParam d0 SELF
    | .fn | .static => (cs.declareLocal d0 UNINITIALIZED_VAR).1
  cs.params ps

/-- What `emit_return` of an initialiser emits: `variable_get(self)`.  `self` is the parameter in slot 0, so the
lookup is `resolve_local` answering slot 0: a plain local, or its box when a closure inside the initialiser captured
it (repair 7304c16 — before it the instruction was `GetLocal(0)` whatever the state of `self` was, and an initialiser
with such a closure answered the box instead of the instance). -/
def Comp.selfReturn (c : Comp) : Ev :=
  match c.locals.head? with
  | some l => if l.sym.state = .localCaptured then .get (.box 0) else .get (.local 0)
  | none => .get (.local 0)

/-- Exit of `function`: `end_compiler` (`emit_return`: an initialiser returns `self` the way every other use reads it,
every other function returns `Nil`), then the parent emits the constant or the closure with its capture operands. -/
def CS.exitFunction (cs : CS) : CS :=
  match cs.chain with
  | [] => cs
  | c :: rest =>
    let evs := if c.kind = some .init then c.evs ++ [c.selfReturn] else c.evs ++ [.nil]
    let fr : FunRec := { name := c.name, captures := c.captures, evs := evs, d0 := c.d0 }
    let cs : CS := { cs with chain := rest, funs := cs.funs ++ [fr] }
    if c.captureCount = 0 ∧ c.kind = some .fn then cs.emit (.funConst c.name)
    else cs.emit (.closure c.name c.captures)

/-- `for_` between the iterable and the body: the hidden `$iter` and the item are declared and
defined once, before the loop label; then `emit_local_get($iter)` twice and `emit_local_set(item)`. -/
def CS.forPrologue (cs : CS) (dIter d : Nat) (x : Name) : CS :=
  let cs := (cs.declareVariable dIter ITER_VAR).1
  let cs := cs.defineVariable ITER_VAR .localInit
  let r := cs.declareVariable d x
  -- "initial fill iteration item with nil and define"
  let cs := (r.1.emit .nil).defineVariable x r.2
  match cs.chain with
  | c :: _ =>
    match c.resolveLocal cs.modTable ITER_VAR, c.resolveLocal cs.modTable x with
    | some (si, symi, _), some (sx, symx, _) =>
      let g : Ev := if symi.state = SymState.localCaptured then .get (.box si) else .get (.local si)
      let s : Ev := if symx.state = SymState.localCaptured then .set (.box sx) else .set (.local sx)
      ((cs.emit g).emit g).emit s
    | _, _ => cs.panic "Iterator variable was not defined."
  | [] => cs

/-- `catch` before its block: the class name is read, then the catch variable is declared and
defined (`GetError`). -/
def CS.catchPrologue (cs : CS) (o : Nat) (cn : Name) (d : Nat) (x : Name) : CS :=
  let cs := cs.variableGet o cn
  let r := cs.declareVariable d x
  r.1.defineVariable x r.2

/-- `class` before its methods: the class variable, the scope with the hidden `super`, the reads of
the superclass and of the class itself. -/
def CS.classPrologue (cs : CS) (d : Nat) (c : Name) (oSup : Nat) (sup : Name) (oName : Nat) (tbl : Table) (dSuper : Nat) : CS :=
  let r := cs.declareVariable d c
  let cs := r.1.defineVariable c r.2
  let cs := cs.beginScope tbl
  let r := cs.declareVariable dSuper SUPER
  let cs := r.1.variableGet oSup sup
  let cs := cs.defineVariable SUPER r.2
  cs.variableGet oName c

/-- `Compiler::decl/stmt/expr/...` over the fragment (only the scope-relevant emissions). -/
def comp : Tm → CS → CS
  | .nil, cs => cs
  | .seq a b, cs => comp b (comp a cs)
  | .lit _, cs => cs
  | .str _, cs => cs
  | .nilE, cs => cs.emit .nil
  | .var o x, cs => cs.variableGet o x
  | .assign o x e, cs => (comp e cs).variableSet o x
  | .op _ args, cs => comp args cs
  | .lam tbl d0 ps body, cs =>
    (comp body (cs.enterFunction .fn "lambda" tbl d0 ps)).exitFunction
  | .letS d x e, cs =>
    (comp e (cs.declareVariable d x).1).defineVariable x (cs.declareVariable d x).2
  | .letN d x, cs =>
    -- `let_` with `value = None`: the same three steps with `Nil` in the place of the initialiser — in every storage
    -- class (module symbol: `Nil; SetModSym`, plain local: `Nil` stays in the new slot, boxed local: `EmptyBox; Nil; FillBox`)
    ((cs.declareVariable d x).1.emit .nil).defineVariable x (cs.declareVariable d x).2
  | .fnS d f tbl d0 ps body, cs =>
    ((comp body ((cs.declareVariable d f).1.enterFunction .fn f tbl d0 ps)).exitFunction).defineVariable f (cs.declareVariable d f).2
  | .ifS c tblT t tblE e, cs =>
    (comp e ((comp t ((comp c cs).beginScope tblT)).endScope.beginScope tblE)).endScope
  | .whileS c tbl b, cs =>
    (comp b ((comp c cs).beginScope tbl)).endScope
  | .forS tblF dIter d x iter tblB b, cs =>
    -- `for_`: the iterable is compiled inside the loop's scope but *before* `$iter` and the item are pushed
    ((comp b (((comp iter (cs.beginScope tblF)).forPrologue dIter d x).beginScope tblB)).endScope).endScope
  | .tryS tblB b tblC d x o cn tblCB c, cs =>
    ((comp c ((((comp b (cs.beginScope tblB)).endScope.beginScope tblC).catchPrologue o cn d x).beginScope tblCB)).endScope).endScope
  | .classS d c oSup sup oName tbl dSuper ms, cs =>
    (comp ms (cs.classPrologue d c oSup sup oName tbl dSuper)).endScope
  | .method kind m tbl d0 ps body, cs =>
    (comp body (cs.enterFunction kind m tbl d0 ps)).exitFunction

/-- `begin_module_scope`: slot 0 of the script is the hidden `$uninitialized` local; the module slots
are numbered: first the module's own declarations (table order), then the globals that were used
(in order of first use). -/
def CS.start (r : Resolved) : CS :=
  let own := (r.modTable.filter (fun s => s.state = .moduleInit ∧ s.name ≠ UNINITIALIZED_VAR)).map (·.name)
  let glob := (r.modTable.filter (fun s => s.state = .globalInit ∧ s.name ≠ UNINITIALIZED_VAR)).map (·.name)
  let names := own ++ glob
  let uninit := (r.modTable.get UNINITIALIZED_VAR).getD { name := UNINITIALIZED_VAR, state := .moduleInit }
  { chain := [{ name := "script", kind := none, scopeDepth := 1, isScript := true,
                locals := [{ sym := uninit, depth := 1 }],
                -- `LoadGlobal; SetModSym slot; Drop` for every global that is used
                evs := (List.range glob.length).map (fun i => Ev.set (.modsym (own.length + i))) }],
    modTable := r.modTable,
    modOffsets := names.zipIdx,
    modCount := names.length }

structure Compiled where
  funs : List FunRec
  errors : List String
  panics : List String
  occs : List OccRec
  decls : List DeclInfo
  deriving Repr, Inhabited

/-- `Compiler::compile` of a resolved module. -/
def compile (r : Resolved) : Compiled :=
  let cs := comp r.tree (CS.start r)
  let script : List FunRec := match cs.chain with
    | c :: _ => [{ name := c.name, captures := c.captures, evs := c.evs ++ [.nil] }]
    | [] => []
  { funs := cs.funs ++ script, errors := cs.errors, panics := cs.panics, occs := cs.occs, decls := cs.decls }

/-- Resolver, then compiler. -/
def frontEnd (p : Tm) : Resolved × Compiled := (resolve p, compile (resolve p))

/-! ## Spec: lexical environments

A scope is the list of its declarations, latest first; an environment is a list of function levels
(innermost first), each a list of scopes (innermost first).  `lookup` does not look at the level
structure at all: a name denotes the innermost enclosing declaration in scope.  The module scope is
hoisted (`moduleDecls`), globals come last. -/
namespace Spec

abbrev Scope := List (Name × Nat)
abbrev Env := List (List Scope)

def scopeFind (x : Name) (s : Scope) : Option Nat := (s.find? (·.1 = x)).map (·.2)

def lookupScopes (x : Name) : List Scope → Option Nat
  | [] => none
  | s :: rest => match scopeFind x s with
    | some d => some d
    | none => lookupScopes x rest

/-- The innermost enclosing declaration of `x`; failing that, what the module level (`mod`: hoisted
module declarations, then globals) says. -/
def lookup (mod : Name → Option DeclRef) (env : Env) (x : Name) : Option DeclRef :=
  match lookupScopes x env.flatten with
  | some d => some (.decl d)
  | none => mod x

def declare (env : Env) (d : Nat) (x : Name) : Env :=
  match env with
  | (s :: ss) :: ls => (((x, d) :: s) :: ss) :: ls
  | ls => ls

def pushScope (env : Env) : Env :=
  match env with
  | l :: ls => ([] :: l) :: ls
  | [] => []

def popScope (env : Env) : Env :=
  match env with
  | (_ :: ss) :: ls => ss :: ls
  | ls => ls

def declareParams (env : Env) : List Param → Env
  | [] => env
  | p :: ps => declareParams (declare env p.d p.name) ps

def enterFun (env : Env) (kind : FunKind) (d0 : Nat) (ps : List Param) : Env :=
  declareParams (declare ([[]] :: env) d0 (slot0Name kind)) ps

structure Occ where
  o : Nat
  target : Option DeclRef
  deriving DecidableEq, Repr

/-- At module scope (`env = [[ [] ]]`-like bottom: one level, one scope) declarations are module
symbols and are already in `mod`; inside any other scope they extend the innermost scope. -/
def atModule (env : Env) : Bool :=
  match env with
  | [[_]] => true
  | _ => false

def declareVar (env : Env) (d : Nat) (x : Name) : Env := if atModule env then env else declare env d x

/-- The occurrences of a program with what each denotes, in the order the compiler meets them.
The iterable of a `for` is outside the scope of the item; the initialiser of a `let` is inside
the scope of its variable (reading it there is rejected by the resolver). -/
def occs (mod : Name → Option DeclRef) : Tm → Env → Env × List Occ
  | .nil, env => (env, [])
  | .seq a b, env =>
    let (env, l1) := occs mod a env
    let (env, l2) := occs mod b env
    (env, l1 ++ l2)
  | .lit _, env => (env, [])
  | .str _, env => (env, [])
  | .nilE, env => (env, [])
  | .var o x, env => (env, [⟨o, lookup mod env x⟩])
  | .assign o x e, env =>
    let (env, l) := occs mod e env
    (env, l ++ [⟨o, lookup mod env x⟩])
  | .op _ args, env => occs mod args env
  | .lam _ d0 ps body, env =>
    let (_, l) := occs mod body (enterFun env .fn d0 ps)
    (env, l)
  | .letS d x e, env =>
    let env := declareVar env d x
    occs mod e env
  | .letN d x, env => (declareVar env d x, [])
  | .fnS d f _ d0 ps body, env =>
    let env := declareVar env d f
    let (_, l) := occs mod body (enterFun env .fn d0 ps)
    (env, l)
  | .ifS c _ t _ e, env =>
    let (env, l1) := occs mod c env
    let (env2, l2) := occs mod t (pushScope env)
    let env := popScope env2
    let (env3, l3) := occs mod e (pushScope env)
    (popScope env3, l1 ++ l2 ++ l3)
  | .whileS c _ b, env =>
    let (env, l1) := occs mod c env
    let (env2, l2) := occs mod b (pushScope env)
    (popScope env2, l1 ++ l2)
  | .forS _ dIter d x iter _ b, env =>
    let env := pushScope env
    let (env, l1) := occs mod iter env
    let env := declare (declare env dIter ITER_VAR) d x
    let (env2, l2) := occs mod b (pushScope env)
    (popScope (popScope env2), l1 ++ l2)
  | .tryS _ b _ d x o cn _ c, env =>
    let (env1, l1) := occs mod b (pushScope env)
    let env := pushScope (popScope env1)
    let l2 : List Occ := [⟨o, lookup mod env cn⟩]
    let env := declare env d x
    let (env2, l3) := occs mod c (pushScope env)
    (popScope (popScope env2), l1 ++ l2 ++ l3)
  | .classS d c oSup sup oName _ dSuper ms, env =>
    let env := declareVar env d c
    let env := declare (pushScope env) dSuper SUPER
    let l1 : List Occ := [⟨oSup, lookup mod env sup⟩, ⟨oName, lookup mod env c⟩]
    let (env2, l2) := occs mod ms env
    (popScope env2, l1 ++ l2)
  | .method kind _ _ d0 ps body, env =>
    let (_, l) := occs mod body (enterFun env kind d0 ps)
    (env, l)

/-- The module level of a program: its hoisted module declarations, then the globals. -/
def moduleScope (p : Tm) (x : Name) : Option DeclRef :=
  match (moduleDecls p).find? (·.2 = x) with
  | some dx => some (.decl dx.1)
  | none => if x ∈ globalNames then some (.global x) else none

/-- Bottom environment: one level (the script) with one scope holding its hidden slot 0. -/
def startEnv : Env := [[[(UNINITIALIZED_VAR, 0)]]]

def programOccs (p : Tm) : List Occ := (occs (moduleScope p) p startEnv).2

end Spec

end LaytheVerif.Scope
