import LaytheVerif.Gen.Tokens
/-!
# Model of `laythe_vm/src/compiler/scanner.rs`

The scanner is modelled over `List Char`.  Positions are **character indices** (number of characters consumed);
the driver converts them to the byte offsets the Rust scanner reports (`byteOff`), so "every span lies on a
character boundary" holds by construction and is what the differential tie checks against the real byte offsets.

Rust state → model state
* `char_indices` (peekable iterator)      → `rest : List Char` (unread input)
* `current` (byte index of the last char) → `k - 1` where `k` = number of characters consumed
* `current_offset()`                       → `off k` (`= k`, except the wart `1` while nothing was consumed: the scanner
                                              starts with `current = 0`, `current_char = 'a'`)
* `interpolations: Vec<Interpolation>`    → `interps : List (Nat × Char)` (head = innermost)
* `line_offsets`                           → `lines` (reversed, without the leading 0)

Every loop of the Rust code is a structural recursion over `rest` here (one character per step), so the model is
total by construction; `scan` iterates `scanToken` with fuel `length + 1` and `C15_scanner_total` proves the fuel
is never exhausted.
-/
namespace LaytheVerif.Scanner
open LaytheVerif.Gen (TokenKind)

/-- The scanner's error tokens (`error_token` / `error_token_owned` call sites in scanner.rs). -/
inductive Err where
  | unexpectedChar      -- "Unexpected character."
  | unterminatedString  -- "Unterminated string."
  | unterminatedSci     -- "Unterminated scientific notation."
  | expectedBrace       -- "Expected '{' unicode escape '\\u'"
  | expectedClose       -- "Expected '}' after unicode escape sequence."
  | tooLong             -- "Unicode escape sequence has a hexidecimal longer than length 6."
  | invalidUnicode      -- "Invalid unicode escape …."
  | invalidHex          -- "Invalid hexadecimal unicode escape sequence …."
  | invalidEscape       -- "Invalid escape character '…'."
  deriving DecidableEq, Repr, Inhabited

/-- The fixed prefix of the message each error token carries (compared with the real diagnostics). -/
def Err.prefix : Err → String
  | .unexpectedChar => "Unexpected character."
  | .unterminatedString => "Unterminated string."
  | .unterminatedSci => "Unterminated scientific notation."
  | .expectedBrace => "Expected '{' unicode escape '\\u'"
  | .expectedClose => "Expected '}' after unicode escape sequence."
  | .tooLong => "Unicode escape sequence has a hexidecimal longer than length 6."
  | .invalidUnicode => "Invalid unicode escape "
  | .invalidHex => "Invalid hexadecimal unicode escape sequence "
  | .invalidEscape => "Invalid escape character '"

structure Token where
  kind : TokenKind
  start : Nat
  stop : Nat
  err : Option Err := none
  deriving DecidableEq, Repr, Inhabited

/-- `is_digit` -/
def isDigit (c : Char) : Bool := c.isDigit
/-- `is_alpha` -/
def isAlpha (c : Char) : Bool := c.isUpper || c.isLower || c == '_'
/-- `is_identifier_postfix` -/
def isPostfix (c : Char) : Bool := c == '?' || c == '!'
def isAlnum (c : Char) : Bool := isAlpha c || isDigit c

/-- number of leading characters satisfying `p` (`while self.next_if(p).is_some() {}`) -/
def countWhile (p : Char → Bool) : List Char → Nat
  | [] => 0
  | c :: r => if p c then countWhile p r + 1 else 0

/-- `identifier_type`: the trie is the generated keyword table (exact match of the whole slice). -/
def keywordKind (slice : List Char) : TokenKind :=
  match LaytheVerif.Gen.keywords.find? (fun kw => kw.1.toList == slice) with
  | some kw => kw.2
  | none => .Identifier

structure St where
  rest : List Char
  k : Nat := 0
  interps : List (Nat × Char) := []
  lines : List Nat := []
  deriving Repr, Inhabited

/-- `current_offset()`; `1` while nothing has been consumed (`current = 0`, `current_char = 'a'`). -/
def off (k : Nat) : Nat := if k = 0 then 1 else k

/-- `Scanner::new`: `initial_skip_comment` consumes a leading `//…` up to (not including) the newline. -/
def init (input : List Char) : St :=
  match input with
  | '/' :: '/' :: _ =>
    let n := countWhile (fun c => c != '\n') input
    { rest := input.drop n, k := n }
  | _ => { rest := input }

/-- `skip_white_space`.  `inComment = true` is the inner `while self.next_if(|c| *c != '\n')` loop.
Wart mirrored: the look-ahead slices `source[current_offset()..]`, which is off by one while nothing has been
consumed (`k = 0`): the character examined is then the *third* one. -/
def skipWs : Bool → List Char → Nat → List Nat → List Char × Nat × List Nat
  | _, [], k, ls => ([], k, ls)
  | true, c :: r, k, ls =>
    if c == '\n' then skipWs false r (k + 1) ((k + 1) :: ls) else skipWs true r (k + 1) ls
  | false, c :: r, k, ls =>
    if c == ' ' || c == '\r' || c == '\t' then skipWs false r (k + 1) ls
    else if c == '\n' then skipWs false r (k + 1) ((k + 1) :: ls)
    else if c == '/' then
      let second := if k = 0 then (r.drop 1).head? else r.head?
      if second == some '/' then skipWs true r (k + 1) ls else (c :: r, k, ls)
    else (c :: r, k, ls)

/-- `u32::from_str_radix(s, 16)` followed by `char::from_u32`: `none` = parse error, `some false` = not a scalar value. -/
def hexDigit? (c : Char) : Option Nat :=
  if c.isDigit then some (c.toNat - '0'.toNat)
  else if 'a' ≤ c ∧ c ≤ 'f' then some (c.toNat - 'a'.toNat + 10)
  else if 'A' ≤ c ∧ c ≤ 'F' then some (c.toNat - 'A'.toNat + 10)
  else none

def hexVal? : List Char → Nat → Option Nat
  | [], acc => some acc
  | c :: r, acc => match hexDigit? c with
    | some d => hexVal? r (acc * 16 + d)
    | none => none

def unicodeCheck (body : List Char) : Option Err :=
  let digits := match body with
    | '+' :: r => r
    | r => r
  if digits.isEmpty then some .invalidHex
  else match hexVal? digits 0 with
    | none => some .invalidHex
    | some v => if v > 0x10FFFF || (0xD800 ≤ v && v ≤ 0xDFFF) then some .invalidUnicode else none

/-- where the `loop` of `Scanner::string` is -/
inductive SMode where
  | str                                   -- top of the loop
  | esc                                   -- after a backslash
  | uniOpen                               -- after `\u`
  | uni (len : Nat) (acc : List Char)     -- inside `\u{…`
  deriving Repr

structure SRes where
  kind : TokenKind
  err : Option Err
  rest : List Char
  k : Nat
  lines : List Nat
  push : Bool          -- an interpolation was opened (`${`)
  deriving Repr, Inhabited

def simpleEscape (c : Char) : Bool :=
  c == '0' || c == 'n' || c == 't' || c == 'r' || c == '\\' || c == '\'' || c == '"'

/-- `Scanner::string(kind, quote_char)`, one character per step. -/
def strLoop (quote : Char) (kind : TokenKind) : SMode → List Char → Nat → List Nat → SRes
  | .str, [], k, ls => ⟨.Error, some .unterminatedString, [], k, ls, false⟩
  | .esc, [], k, ls => ⟨.Error, some .invalidEscape, [], k, ls, false⟩
  | .uniOpen, [], k, ls => ⟨.Error, some .expectedBrace, [], k, ls, false⟩
  | .uni _ _, [], k, ls => ⟨.Error, some .unterminatedString, [], k, ls, false⟩
  | .str, c :: r, k, ls =>
    if c == '\n' then strLoop quote kind .str r (k + 1) ((k + 1) :: ls)
    else if c == '\\' then strLoop quote kind .esc r (k + 1) ls
    else if c == '$' then
      match r with
      | '{' :: r2 => ⟨if kind = .String then .StringStart else kind, none, r2, k + 2, ls, true⟩
      | _ => strLoop quote kind .str r (k + 1) ls
    else if c == quote then ⟨if kind = .StringSegment then .StringEnd else kind, none, r, k + 1, ls, false⟩
    else strLoop quote kind .str r (k + 1) ls
  | .esc, c :: r, k, ls =>
    if simpleEscape c then strLoop quote kind .str r (k + 1) ls
    else if c == 'u' then strLoop quote kind .uniOpen r (k + 1) ls
    else ⟨.Error, some .invalidEscape, r, k + 1, ls, false⟩
  | .uniOpen, c :: r, k, ls =>
    if c == '{' then strLoop quote kind (.uni 0 []) r (k + 1) ls
    else ⟨.Error, some .expectedBrace, r, k + 1, ls, false⟩
  | .uni len acc, c :: r, k, ls =>
    if c == '}' then
      match unicodeCheck acc with
      | some e => ⟨.Error, some e, r, k + 1, ls, false⟩
      | none => strLoop quote kind .str r (k + 1) ls
    else if c == quote then ⟨.Error, some .expectedClose, r, k + 1, ls, false⟩
    else if len > 6 then ⟨.Error, some .tooLong, r, k + 1, ls, false⟩
    else strLoop quote kind (.uni (len + 1) (acc ++ [c])) r (k + 1) ls

/-- run `Scanner::string` for a token that started at `start`; `k` counts the opening character already. -/
def scanString (s : St) (start : Nat) (kind : TokenKind) (quote : Char) (r : List Char) (k : Nat)
    (interps : List (Nat × Char)) (ls : List Nat) : Token × St :=
  let res := strLoop quote kind .str r k ls
  (⟨res.kind, start, res.k, res.err⟩,
   { s with rest := res.rest, k := res.k, lines := res.lines,
            interps := if res.push then (1, quote) :: interps else interps })

/-- `Scanner::number` after the first digit; returns (kind, error, number of further characters consumed). -/
def numberTail (r : List Char) : TokenKind × Option Err × Nat :=
  let n1 := countWhile isDigit r
  let r1 := r.drop n1
  let n2 := match r1 with
    | '.' :: d :: r' => if isDigit d then 2 + countWhile isDigit r' else 0
    | _ => 0
  let r2 := r1.drop n2
  match r2 with
  | e :: r3 =>
    if e == 'e' || e == 'E' then
      let sgn := match r3 with
        | '+' :: _ => 1
        | '-' :: _ => 1
        | _ => 0
      let r4 := r3.drop sgn
      match r4 with
      | d :: r5 =>
        if isDigit d then (.Number, none, n1 + n2 + 1 + sgn + 1 + countWhile isDigit r5)
        else (.Error, some .unterminatedSci, n1 + n2 + 1 + sgn)
      | [] => (.Error, some .unterminatedSci, n1 + n2 + 1 + sgn)
    else (.Number, none, n1 + n2)
  | [] => (.Number, none, n1 + n2)

/-- characters of an identifier / instance access after its first character -/
def identTail (r : List Char) : Nat :=
  let n := countWhile isAlnum r
  match r.drop n with
  | p :: _ => if isPostfix p then n + 1 else n
  | [] => n

/-- the one- and two-character punctuators of `scan_token`: (kind, characters consumed after the first) -/
def punct (c : Char) (r : List Char) : Option (TokenKind × Nat) :=
  let two (x : Char) (a b : TokenKind) : Option (TokenKind × Nat) :=
    match r with
    | y :: _ => if y == x then some (a, 1) else some (b, 0)
    | [] => some (b, 0)
  match c with
  | '(' => some (.LeftParen, 0)
  | ')' => some (.RightParen, 0)
  | '[' => some (.LeftBracket, 0)
  | ']' => some (.RightBracket, 0)
  | ':' => some (.Colon, 0)
  | '?' => some (.QuestionMark, 0)
  | ';' => some (.Semicolon, 0)
  | ',' => some (.Comma, 0)
  | '.' => some (.Dot, 0)
  | '-' => match r with
    | '>' :: _ => some (.RightArrow, 1)
    | '=' :: _ => some (.MinusEqual, 1)
    | _ => some (.Minus, 0)
  | '&' => two '&' .And .Amp
  | '+' => two '=' .PlusEqual .Plus
  | '|' => two '|' .Or .Pipe
  | '/' => two '=' .SlashEqual .Slash
  | '*' => two '=' .StarEqual .Star
  | '=' => two '=' .EqualEqual .Equal
  | '<' => match r with
    | '=' :: _ => some (.LessEqual, 1)
    | '-' :: _ => some (.LeftArrow, 1)
    | _ => some (.Less, 0)
  | '>' => two '=' .GreaterEqual .Greater
  | '!' => two '=' .BangEqual .Bang
  | _ => none

/-- a token made of the first character and `n` further ones (`make_token_source` / `error_token`) -/
def simpleTok (r : List Char) (k : Nat) (ls : List Nat) (interps : List (Nat × Char)) (kind : TokenKind) (n : Nat)
    (e : Option Err) : Token × St :=
  (⟨kind, k, k + 1 + n, e⟩, { rest := r.drop n, k := k + 1 + n, interps := interps, lines := ls })

/-- `Scanner::scan_token` -/
def scanToken (s : St) : Token × St :=
  match skipWs false s.rest s.k s.lines with
  | ([], k, ls) => (⟨.Eof, k - 1, off k, none⟩, { s with rest := [], k := k, lines := ls })
  | (c :: r, k, ls) =>
    if c == '{' then
      match s.interps with
      | (b, q) :: is => simpleTok r k ls ((b + 1, q) :: is) .LeftBrace 0 none
      | [] => simpleTok r k ls [] .LeftBrace 0 none
    else if c == '}' then
      match s.interps with
      | (b, q) :: is =>
        if b - 1 = 0 then scanString s k .StringSegment q r (k + 1) is ls
        else simpleTok r k ls ((b - 1, q) :: is) .RightBrace 0 none
      | [] => simpleTok r k ls [] .RightBrace 0 none
    else if c == '"' || c == '\'' then scanString s k .String c r (k + 1) s.interps ls
    else if c == '@' then simpleTok r k ls s.interps .InstanceAccess (identTail r) none
    else match punct c r with
      | some (kind, n) => simpleTok r k ls s.interps kind n none
      | none =>
        if isDigit c then
          match numberTail r with
          | (kind, e, n) => simpleTok r k ls s.interps kind n e
        else if isAlpha c then
          simpleTok r k ls s.interps (keywordKind (c :: r.take (identTail r))) (identTail r) none
        else simpleTok r k ls s.interps .Error 0 (some .unexpectedChar)

/-- tokens until the first `Eof` (inclusive); `fuel` bounds the number of `scan_token` calls -/
def scanAll : Nat → St → List Token
  | 0, _ => []
  | fuel + 1, s =>
    let (t, s') := scanToken s
    if t.kind = .Eof then [t] else t :: scanAll fuel s'

/-- the token stream the parser pulls from the scanner -/
def scan (input : List Char) : List Token := scanAll (input.length + 1) (init input)

/-- the states along the scan (used by the driver for the line table) -/
def scanStates : Nat → St → List (Token × St)
  | 0, _ => []
  | fuel + 1, s =>
    let (t, s') := scanToken s
    if t.kind = .Eof then [(t, s')] else (t, s') :: scanStates fuel s'

/-- `Scanner::line_offsets`: sweep whatever was not scanned yet, counting every newline -/
def sweepLines : List Char → Nat → List Nat → List Nat
  | [], _, ls => ls
  | c :: r, k, ls => if c == '\n' then sweepLines r (k + 1) ((k + 1) :: ls) else sweepLines r (k + 1) ls

/-- the line table when the parser stops pulling tokens in state `s` -/
def lineTable (s : St) : List Nat := 0 :: (sweepLines s.rest s.k s.lines).reverse

end LaytheVerif.Scanner
