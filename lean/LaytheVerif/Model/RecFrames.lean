import LaytheVerif.Model.Signature
/-!
# Structured model of call frames and temporary roots: recursion through natives, `try`, unwinding  (C16)

`Model/Signature.lean` has the flat frame counter (`frameStep`).  This module adds what the clause *"unbounded recursion is
reported as a catchable stack-overflow error, also when the recursion passes through native callbacks"* needs in addition:

* the **temporary roots** of the collector (`Allocator::temp_roots`): `Vm::call_native` roots the stub `Fun` of a stack-using
  native across `push_frame` and the debug build asserts, when a native returns `Call::Ok`, that the number of temporary roots is
  the one it started with (`assert_roots`: *"Native function … increased roots by …"* is a host panic);
* the order of the events of `call_native`'s arm `NativeEnvironment::Normal` (`Micro`, `nativeArm`; regenerated as
  `Limits.callNativeNormalPre`): a frame-limit test that sits *behind* `push_root` leaves a root on its error exit;
* **programs** (`Stm`): Laythe calls, stack-using natives that call back, stack-less natives, `try … catch`, and a recursive
  function (`rec_` calls the definition `d`), with the error (`Stack overflow.`) propagating to the dynamically innermost `try`,
  which truncates the frames to its own depth (`Fiber::stack_unwind`; that the innermost handler above the re-entry depth of
  every native on the way is the one selected is C04's `raiseThrough` theorem).

`run` is executable (driver `drv_sig rec`) and total (fuel bounds the *nesting* of the model's recursion only).
Core Lean only.
-/
namespace LaytheVerif.RecFrames
open LaytheVerif.Gen LaytheVerif.Signature

/-- the events of `call_native` (arm `NativeEnvironment::Normal`) in front of `native.call(..)`:
    `if self.fiber.frames().len() >= MAX_FRAME_SIZE { return Stack overflow. }`, `self.push_root(stub)`,
    `self.push_frame(stub, ..)`, `self.pop_roots(n)` -/
inductive Micro where
  | guard | pushRoot | pushFrame
  | popRoots (n : Nat)
  deriving DecidableEq, Repr

/-- the arm as it is written: test, root the stub, push the stub frame, drop the root -/
def nativeArm : List Micro := [.guard, .pushRoot, .pushFrame, .popRoots 1]

/-- token of `Limits.callNativeNormalPre` → event (a frame-limit test with any other comparison, bound or block has no event) -/
def parseMicro : String → Option Micro
  | "guard >= MAX_FRAME_SIZE" => some .guard
  | "push_root" => some .pushRoot
  | "push_frame" => some .pushFrame
  | "pop_roots 1" => some (.popRoots 1)
  | "pop_roots 2" => some (.popRoots 2)
  | _ => none

/-- what the model tracks of a VM while a program runs -/
structure VmSt where
  /-- `fiber.frames().len()` -/
  frames : Nat
  /-- `gc.temp_roots()` -/
  roots : Nat
  /-- the largest frame count reached so far -/
  peak : Nat
  /-- Laythe activations admitted so far (what the counter `d` of a generated program counts) -/
  calls : Nat
  /-- `catch` blocks entered so far (counter `k`) -/
  caught : Nat
  /-- what the first refused push was: 0 = none yet, 1 = a Laythe frame (`call` / `call_closure`), 2 = a native's stub frame -/
  firstAt : Nat
  deriving DecidableEq, Repr

/-- how a statement ends: normally, with the `Stack overflow.` error on its way to a handler, or in the host panic of
    `assert_roots` -/
inductive Out where
  | ok | err | panic
  deriving DecidableEq, Repr

/-- programs -/
inductive Stm where
  | skip
  | seq (a b : Stm)
  /-- call of the recursive function: a Laythe call whose body is the definition -/
  | rec_
  /-- call of a Laythe function / closure / method / initialiser with this body: test, one frame -/
  | call (body : Stm)
  /-- a stack-using native (`NativeEnvironment::Normal`) whose body runs `body` (its callbacks are `call`s in there) -/
  | native (body : Stm)
  /-- a stack-less native whose body runs `body` (`Iter.next` over a lazy `map`, `List.collect`, …): no frame, no test -/
  | stackless (body : Stm)
  /-- `try { body } catch _: Error { handler }` -/
  | try_ (body handler : Stm)
  deriving DecidableEq, Repr

def VmSt.push (s : VmSt) : VmSt := { s with frames := s.frames + 1, peak := max s.peak (s.frames + 1) }
def VmSt.pop (s : VmSt) : VmSt := { s with frames := s.frames - 1 }
def VmSt.refused (s : VmSt) (kind : Nat) : VmSt := { s with firstAt := if s.firstAt = 0 then kind else s.firstAt }

/-- the events in front of `native.call(..)`; `true` = a frame-limit test tripped: the function returns the error with the
    state as it is *at that point* -/
def armPre : List Micro → VmSt → VmSt × Bool
  | [], s => (s, false)
  | .guard :: rest, s => if guardTrips s.frames then (s.refused 2, true) else armPre rest s
  | .pushRoot :: rest, s => armPre rest { s with roots := s.roots + 1 }
  | .pushFrame :: rest, s => armPre rest s.push
  | .popRoots n :: rest, s => armPre rest { s with roots := s.roots - n }

/-- run a statement.  `arm` = the events of `call_native` in front of the native's body, `d` = the body of the recursive
    function.  `none` = the fuel (nesting of the model's own recursion) ran out.

    * `call`: `call` / `call_closure` — the test, then `push_frame`; `op_return` pops the frame.  An error leaves the frames
      where they are: they are truncated by the handler that takes it.
    * `native`: `call_native`, `Normal` — `arm`, the body, then on `Call::Ok`: `pop_frame`, `assert_roots`; on `Call::Err`:
      `set_error` (no pop, no assertion).
    * `stackless`: `call_native`, `StackLess` — the body, then on `Call::Ok`: `assert_roots`.
    * `try_`: the handler records the frame depth; `Fiber::stack_unwind` truncates the frames to it and the `catch` block runs. -/
def run (arm : List Micro) (d : Stm) : Nat → Stm → VmSt → Option (VmSt × Out)
  | 0, _, _ => none
  | _ + 1, .skip, s => some (s, .ok)
  | fuel + 1, .seq a b, s =>
    match run arm d fuel a s with
    | some (s1, .ok) => run arm d fuel b s1
    | r => r
  | fuel + 1, .rec_, s => run arm d fuel (.call d) s
  | fuel + 1, .call b, s =>
    if guardTrips s.frames then some (s.refused 1, .err)
    else match run arm d fuel b { s.push with calls := s.calls + 1 } with
      | some (s1, .ok) => some (s1.pop, .ok)
      | r => r
  | fuel + 1, .native b, s =>
    match armPre arm s with
    | (s0, true) => some (s0, .err)
    | (s0, false) =>
      match run arm d fuel b s0 with
      | some (s1, .ok) => if s1.roots = s.roots then some (s1.pop, .ok) else some (s1.pop, .panic)
      | r => r
  | fuel + 1, .stackless b, s =>
    match run arm d fuel b s with
    | some (s1, .ok) => if s1.roots = s.roots then some (s1, .ok) else some (s1, .panic)
    | r => r
  | fuel + 1, .try_ b h, s =>
    match run arm d fuel b s with
    | some (s1, .err) => run arm d fuel h { s1 with frames := s.frames, caught := s1.caught + 1 }
    | r => r

/-- a fresh fiber running the script: one frame, whatever number of temporary roots the VM holds (`r`) -/
def VmSt.script (r : Nat) : VmSt := { frames := 1, roots := r, peak := 1, calls := 0, caught := 0, firstAt := 0 }

/-- the state invariant: the frame count is at most the recorded peak and the peak respects the limit -/
def VmSt.Inv (s : VmSt) : Prop := s.frames ≤ s.peak ∧ s.peak ≤ Limits.maxFrameSize

end LaytheVerif.RecFrames
