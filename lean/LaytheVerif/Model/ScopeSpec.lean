/-
Model/ScopeSpec.lean — the executable Spec for C02's program-level stream: a definitional interpreter
with *cell environments* for the scoping fragment of `Model/Scope.lean`.

* an environment maps names to cells (innermost binding first); a cell is a mutable store location;
* every executed declaration (`let`, `fn`, `class`, parameter, `catch` variable, `self`) allocates a
  fresh cell; leaving a block restores the environment (the cells live on in closures);
* a closure holds the environment (the cells, not the values) of the place that created it;
* the item of a `for` loop is one cell for the whole loop;
* module-level names are hoisted: they have a cell from the start (holding `undef`);
* a declaration without initialiser (`let x;`) puts `nil` into its cell — whatever the scope it is in and
  whoever reads it first (the declaring scope or a closure).

Nothing here knows about slots, boxes, capture indices or symbol states.
-/
import LaytheVerif.Model.Scope
namespace LaytheVerif.Scope.Sem

abbrev Env := List (Name × Nat)

inductive Val
  | undef | nil | num (n : Int) | bool (b : Bool) | str (s : String)
  | clo (name : Name) (ps : List Name) (body : Tm) (env : Env)
  | list (id : Nat) | obj (id : Nat) | cls (id : Nat) | err (msg : String) | builtin (x : Name)
  deriving Inhabited, Repr

structure ClassInfo where
  name : Name
  methods : List (FunKind × Name × List Name × Tm)
  env : Env
  deriving Inhabited, Repr

structure St where
  cells : Array Val := #[]
  lists : Array (Array Val) := #[]
  objs : Array (Nat × List (Name × Val)) := #[]
  classes : Array ClassInfo := #[]
  out : Array String := #[]
  deriving Inhabited

inductive Ctl
  | norm (v : Val) | ret (v : Val) | raise (v : Val) | fail (m : String)
  deriving Inhabited

def St.alloc (st : St) (v : Val) : Nat × St := (st.cells.size, { st with cells := st.cells.push v })
def St.write (st : St) (c : Nat) (v : Val) : St := { st with cells := st.cells.setIfInBounds c v }
def St.read (st : St) (c : Nat) : Val := st.cells.getD c .undef

def envFind (env : Env) (x : Name) : Option Nat := (env.find? (·.1 = x)).map (·.2)

def showVal : Val → String
  | .undef => "<undef>" | .nil => "nil" | .num n => toString n | .bool b => if b then "true" else "false"
  | .str s => s | .clo n _ _ _ => "<fn " ++ n ++ ">" | .list _ => "<list>" | .obj _ => "<obj>"
  | .cls _ => "<class>" | .err m => "<error " ++ m ++ ">" | .builtin x => "<native " ++ x ++ ">"

/-- fresh cells for the parameters, bound in front of `env` -/
def bindParams (st : St) (env : Env) : List Name → List Val → Env × St
  | p :: ps, v :: vs =>
    let (c, st) := st.alloc v
    bindParams st ((p, c) :: env) ps vs
  | _, _ => (env, st)

/-- the `method` nodes of a class body -/
def collectMethods : Tm → List (FunKind × Name × List Name × Tm)
  | .seq (.method k m _ _ ps body) rest => (k, m, ps.map (·.name), body) :: collectMethods rest
  | .seq _ rest => collectMethods rest
  | _ => []

/-- Laythe numbers are f64: integer arithmetic is exact only up to 2^53.  A result beyond that is outside the fragment
(`fail:range`: the run is not judged), so that the unbounded integers of this interpreter never disagree with the VM for
a reason that has nothing to do with scoping. -/
def inRange (r : Int) : Ctl := if r.natAbs ≤ 9007199254740992 then .norm (.num r) else .fail "range"

/-- the kind of a value, for `==` between values of different kinds (never equal) -/
def Val.kind : Val → Nat
  | .undef => 0 | .nil => 1 | .num _ => 2 | .bool _ => 3 | .str _ => 4 | .clo .. => 5
  | .list _ => 6 | .obj _ => 7 | .cls _ => 8 | .err _ => 9 | .builtin _ => 10

/-- `==` (`Value::eq`): numbers, booleans, `nil` and (interned) strings by value, lists/instances/classes by
identity, values of different kinds are different (in particular `nil == 3` and `nil == <closure>` are `false`).
Undefined: anything involving `undef`, and two closures/errors/natives (identity is not tracked). -/
def valEq (a b : Val) : Ctl :=
  match a, b with
  | .undef, _ | _, .undef => .fail "operands"
  | .num x, .num y => .norm (.bool (x == y))
  | .bool x, .bool y => .norm (.bool (x == y))
  | .nil, .nil => .norm (.bool true)
  | .str x, .str y => .norm (.bool (x == y))
  | .list x, .list y => .norm (.bool (x == y))
  | .obj x, .obj y => .norm (.bool (x == y))
  | .cls x, .cls y => .norm (.bool (x == y))
  | a, b => if a.kind ≠ b.kind then .norm (.bool false) else .fail "operands"

def arith (k : OpKind) (a b : Val) : Ctl :=
  match k, a, b with
  | .add, .num x, .num y => inRange (x + y)
  | .sub, .num x, .num y => inRange (x - y)
  | .mul, .num x, .num y => inRange (x * y)
  | .lt, .num x, .num y => .norm (.bool (x < y))
  | .eq, a, b => valEq a b
  | _, _, _ => .fail "operands"

/-- `let x;`: the variable's cell (the hoisted one on the module's statement spine, a fresh one anywhere
else) holds `nil` from the declaration on. -/
def letNStep (top : Bool) (x : Name) (env : Env) (st : St) : Ctl × Env × St :=
  match top, envFind env x with
  | true, some c => (.norm .nil, env, st.write c .nil)
  | _, _ => let (c, st) := st.alloc .nil; (.norm .nil, (x, c) :: env, st)

mutual
/-- `ev fuel top t env st`: run `t`; `top` = we are on the module's statement spine. -/
def ev : Nat → Bool → Tm → Env → St → Ctl × Env × St
  | 0, _, _, env, st => (.fail "fuel", env, st)
  | fuel + 1, top, t, env, st =>
    match t with
    | .nil => (.norm .nil, env, st)
    | .seq a b =>
      match ev fuel top a env st with
      | (.norm _, env, st) => ev fuel top b env st
      | r => r
    | .lit n => (.norm (.num n), env, st)
    | .str s => (.norm (.str s), env, st)
    | .nilE => (.norm .nil, env, st)
    | .var _ x =>
      match envFind env x with
      | some c =>
        match st.read c with
        | .undef => (.fail ("undefined " ++ x), env, st)
        | v => (.norm v, env, st)
      | none => if x ∈ globalNames then (.norm (.builtin x), env, st) else (.fail ("unbound " ++ x), env, st)
    | .assign _ x e =>
      match ev fuel false e env st with
      | (.norm v, _, st) =>
        match envFind env x with
        | some c => (.norm v, env, st.write c v)
        | none => (.fail ("unbound " ++ x), env, st)
      | r => r
    | .op k args =>
      match evArgs fuel args env st with
      | (.error c, st) => (c, env, st)
      | (.ok vs, st) =>
        match k, vs with
        | .not, [.bool b] => (.norm (.bool (!b)), env, st)
        | .call, f :: as => let (c, st) := callVal fuel f as st; (c, env, st)
        | .list, vs => (.norm (.list st.lists.size), env, { st with lists := st.lists.push vs.toArray })
        | .index, [.list id, .num i] =>
          match (st.lists.getD id #[])[i.toNat]? with
          | some v => (if i < 0 then .fail "index" else .norm v, env, st)
          | none => (.fail "index", env, st)
        | .push, [.list id, v] => (.norm .nil, env, { st with lists := st.lists.modify id (·.push v) })
        | .len, [.list id] => (.norm (.num (st.lists.getD id #[]).size), env, st)
        | .getF "message", [.err m] => (.norm (.str m), env, st)
        | .getF f, [.obj id] =>
          match ((st.objs.getD id (0, [])).2.find? (·.1 = f)) with
          | some fv => (.norm fv.2, env, st)
          | none => (.fail ("no field " ++ f), env, st)
        | .setF f, [.obj id, v] =>
          (.norm v, env, { st with objs := st.objs.modify id (fun o => (o.1, (f, v) :: o.2.filter (·.1 ≠ f))) })
        | .invoke m, (.obj id) :: as =>
          let cid := (st.objs.getD id (0, [])).1
          let ci := st.classes.getD cid default
          match ci.methods.find? (fun me => me.2.1 = m) with
          | some (_, _, ps, body) =>
            if ps.length ≠ as.length then (.fail "arity", env, st) else
            let (sc, st) := st.alloc (.obj id)
            let (fenv, st) := bindParams st ((SELF, sc) :: ci.env) ps as
            match ev fuel false body fenv st with
            | (.ret v, _, st) => (.norm v, env, st)
            | (.norm _, _, st) => (.norm .nil, env, st)
            | (c, _, st) => (c, env, st)
          | none => (.fail ("no method " ++ m), env, st)
        | .exprS, _ => (.norm .nil, env, st)
        | .ret, [v] => (.ret v, env, st)
        | .ret, [] => (.ret .nil, env, st)
        | .raise, [v] => (.raise v, env, st)
        | k, [a, b] => (arith k a b, env, st)
        | _, _ => (.fail "op", env, st)
    | .lam _ _ ps body => (.norm (.clo "lambda" (ps.map (·.name)) body env), env, st)
    | .letS _ x e =>
      -- the variable is in scope (still undefined) while its initialiser runs
      let (c, env, st) : Nat × Env × St :=
        match top, envFind env x with
        | true, some c => (c, env, st)
        | _, _ => let (c, st) := st.alloc .undef; (c, (x, c) :: env, st)
      match ev fuel false e env st with
      | (.norm v, _, st) => (.norm .nil, env, st.write c v)
      | (r, _, st) => (r, env, st)
    | .letN _ x => letNStep top x env st
    | .fnS _ f _ _ ps body =>
      let (c, env, st) : Nat × Env × St :=
        match top, envFind env f with
        | true, some c => (c, env, st)
        | _, _ => let (c, st) := st.alloc .undef; (c, (f, c) :: env, st)
      (.norm .nil, env, st.write c (.clo f (ps.map (·.name)) body env))
    | .ifS c _ t _ e =>
      match ev fuel false c env st with
      | (.norm (.bool true), _, st) => let (r, _, st) := ev fuel false t env st; (r, env, st)
      | (.norm (.bool false), _, st) => let (r, _, st) := ev fuel false e env st; (r, env, st)
      | (.norm _, _, st) => (.fail "condition", env, st)
      | r => r
    | .whileS c _ b => whileLoop fuel c b env st
    | .forS _ _ _ x iter _ b =>
      match ev fuel false iter env st with
      | (.norm (.list id), _, st) =>
        -- one cell for the item, for the whole loop
        let (c, st) := st.alloc .nil
        forLoop fuel c id 0 b ((x, c) :: env) env st
      | (.norm _, _, st) => (.fail "iterable", env, st)
      | r => r
    | .tryS _ b _ _ x _ _ _ c =>
      match ev fuel false b env st with
      | (.raise v, _, st) =>
        let (cell, st) := st.alloc v
        let (r, _, st) := ev fuel false c ((x, cell) :: env) st
        (r, env, st)
      | (r, _, st) => (r, env, st)
    | .classS _ cn _ _ _ _ _ ms =>
      let (c, env, st) : Nat × Env × St :=
        match top, envFind env cn with
        | true, some c => (c, env, st)
        | _, _ => let (c, st) := st.alloc .undef; (c, (cn, c) :: env, st)
      let cid := st.classes.size
      let st := { st with classes := st.classes.push { name := cn, methods := collectMethods ms, env := env } }
      (.norm .nil, env, st.write c (.cls cid))
    | .method .. => (.norm .nil, env, st)

/-- evaluate a `seq` chain of expressions left to right -/
def evArgs : Nat → Tm → Env → St → Except Ctl (List Val) × St
  | 0, _, _, st => (.error (.fail "fuel"), st)
  | fuel + 1, t, env, st =>
    match t with
    | .nil => (.ok [], st)
    | .seq a b =>
      match ev fuel false a env st with
      | (.norm v, _, st) =>
        match evArgs fuel b env st with
        | (.ok vs, st) => (.ok (v :: vs), st)
        | r => r
      | (c, _, st) => (.error c, st)
    | t =>
      match ev fuel false t env st with
      | (.norm v, _, st) => (.ok [v], st)
      | (c, _, st) => (.error c, st)

def callVal : Nat → Val → List Val → St → Ctl × St
  | 0, _, _, st => (.fail "fuel", st)
  | fuel + 1, f, as, st =>
    match f with
    | .clo _ ps body cenv =>
      if ps.length ≠ as.length then (.fail "arity", st) else
      -- every call creates fresh cells for the parameters
      let (fenv, st) := bindParams st cenv ps as
      match ev fuel false body fenv st with
      | (.ret v, _, st) => (.norm v, st)
      | (.norm _, _, st) => (.norm .nil, st)
      | (c, _, st) => (c, st)
    | .builtin "print" =>
      match as with
      | [v] => (.norm .nil, { st with out := st.out.push (showVal v) })
      | _ => (.fail "print arity", st)
    | .builtin "Error" =>
      match as with
      | [.str m] => (.norm (.err m), st)
      | _ => (.fail "Error arity", st)
    | .cls cid =>
      let ci := st.classes.getD cid default
      let oid := st.objs.size
      let st := { st with objs := st.objs.push (cid, []) }
      match ci.methods.find? (fun me => me.1 = .init) with
      | some (_, _, ps, body) =>
        if ps.length ≠ as.length then (.fail "arity", st) else
        let (sc, st) := st.alloc (.obj oid)
        let (fenv, st) := bindParams st ((SELF, sc) :: ci.env) ps as
        match ev fuel false body fenv st with
        | (.ret _, _, st) => (.norm (.obj oid), st)
        | (.norm _, _, st) => (.norm (.obj oid), st)
        | (c, _, st) => (c, st)
      | none => if as.isEmpty then (.norm (.obj oid), st) else (.fail "arity", st)
    | _ => (.fail "not callable", st)

def whileLoop : Nat → Tm → Tm → Env → St → Ctl × Env × St
  | 0, _, _, env, st => (.fail "fuel", env, st)
  | fuel + 1, c, b, env, st =>
    match ev fuel false c env st with
    | (.norm (.bool true), _, st) =>
      -- the body is a scope of its own: its declarations get fresh cells every time round
      match ev fuel false b env st with
      | (.norm _, _, st) => whileLoop fuel c b env st
      | (r, _, st) => (r, env, st)
    | (.norm (.bool false), _, st) => (.norm .nil, env, st)
    | (.norm _, _, st) => (.fail "condition", env, st)
    | (r, _, st) => (r, env, st)

def forLoop : Nat → Nat → Nat → Nat → Tm → Env → Env → St → Ctl × Env × St
  | 0, _, _, _, _, _, outer, st => (.fail "fuel", outer, st)
  | fuel + 1, cell, id, i, b, env, outer, st =>
    match (st.lists.getD id #[])[i]? with
    | none => (.norm .nil, outer, st)
    | some v =>
      match ev fuel false b env (st.write cell v) with
      | (.norm _, _, st) => forLoop fuel cell id (i + 1) b env outer st
      | (r, _, st) => (r, outer, st)
end

/-- Run a program: hoist the module-level names, run the statement spine. Returns the printed lines
and how it ended (`ok`, `raise`, or `fail:<why>` when the Spec does not define the run). -/
def run (fuel : Nat) (p : Tm) : List String × String :=
  let (env, st) := (moduleDecls p).foldl (fun (acc : Env × St) dx =>
      match envFind acc.1 dx.2 with
      | some _ => acc
      | none => let (c, st) := acc.2.alloc .undef; ((dx.2, c) :: acc.1, st)) (([] : Env), ({} : St))
  match ev fuel true p env st with
  | (.norm _, _, st) => (st.out.toList, "ok")
  | (.ret _, _, st) => (st.out.toList, "ok")
  | (.raise v, _, st) => (st.out.toList, "raise " ++ showVal v)
  | (.fail m, _, st) => (st.out.toList, "fail:" ++ m)

end LaytheVerif.Scope.Sem
