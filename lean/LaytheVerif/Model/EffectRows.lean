/-
The compiler's per-instruction `stack_effect` table (regenerated: `Gen.Sym.stackEffect`) against the
model (`Verifier.vmEffect`, written from `vm/ops.rs`), row by row and *executable*: when the [G] lemma
`C06_stackEffect_eq_modelDelta` re-opens, `differingRows` names the instructions whose rows differ, and the
check's search generates programs around exactly those instructions (C06, directed stream).
-/
import LaytheVerif.Model.Verifier
namespace LaytheVerif.Verifier
open LaytheVerif.Gen

/-- What the linear simulation of `peephole.rs: apply_stack_effects` must add for an instruction so that
its running count is the interpreter's depth: pushes − pops of the fall-through branch (`vmEffect`); for
the instructions that never fall through the value they consume (`Return`, `Raise`: one value, the frame
is left) or nothing (`Jump`, `Loop`, `ContinueUnwind`, and the operand pseudo-instruction
`CaptureIndex`). -/
def modelDelta (i : Sym) : Int :=
  match vmEffect i with
  | some (po, pu) => (pu : Int) - (po : Int)
  | none =>
    match i with
    | .Return | .Raise => -1
    | _ => 0

/-- The table row of `i` is the model's. -/
def rowAgrees (i : Sym) : Bool := i.stackEffect == modelDelta i

/-- Name of the variant (first word of the line-protocol text). -/
def variantName (i : Sym) : String := (i.toText.splitOn " ").headD ""

/-- A few instances of every variant of the regenerated instruction set (every name of `Gen.symNames`
with operand shapes of zero, one and two numbers and the two capture operands; `Sym.ofTokens` keeps the
well-formed ones).  Rows are affine in their operand in every table seen so far, so two or three operand
values separate any two of them. -/
def sampleSyms : List Sym :=
  symNames.flatMap fun n =>
    ([[n], [n, "0"], [n, "1"], [n, "2"], [n, "5"], [n, "0", "0"], [n, "1", "2"], [n, "2", "1"], [n, "4", "3"],
      [n, "Local", "1"], [n, "Enclosing", "0"]] : List (List String)).filterMap Sym.ofTokens

/-- The sample instructions whose table row is not the model's. -/
def differingRows : List Sym := sampleSyms.filter fun i => !rowAgrees i

/-- One word per differing sample: `Name:operands:table=<n>:model=<n>` (operands joined by `_`). -/
def showRow (i : Sym) : String :=
  let ws := i.toText.splitOn " "
  s!"{ws.headD ""}:{"_".intercalate ws.tail}:table={i.stackEffect}:model={modelDelta i}"

end LaytheVerif.Verifier
