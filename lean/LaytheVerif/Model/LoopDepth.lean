/-!
# The parser's `loop_depth` and the compiler's `loop_attributes` (core Lean only)

parser.rs keeps one counter `loop_depth: u16`:
* `loop_(cb)` (used by `for_` and `while_` around the WHOLE statement: iterable / condition and body):
  `self.loop_depth += 1; let result = cb(self); self.loop_depth -= 1; result`
* `function` (after the signature) and `lambda` (after the parameters):
  `let loop_depth = mem::replace(&mut self.loop_depth, 0); … body … ; self.loop_depth = loop_depth;` — the body result is
  kept in a variable, there is no `?` / `return` between the two statements, so the depth is restored on success AND on
  failure (repo commits 23aed49 for `function`, a54a572 for `lambda`)
* `break_` / `continue_`: `if self.loop_depth == 0 { return self.error("Cannot break from outside of a loop.") }`
* `decl()` ends with `.or_else(|error| self.synchronize(error))`: a failure below becomes `Decl::Error` plus a diagnostic
  and parsing continues with the NEXT declaration of the same block — at whatever depth the failed call left behind.

compiler/mod.rs keeps `loop_attributes: Option<LoopAttributes>`: `None` in a fresh compiler (`Compiler::child`: every
function, method and lambda has its own), `Some` inside `loop_scope` (the BODY of a `for`/`while`, restored afterwards);
`break_` / `continue_` do `self.loop_attributes.expect("Parser should have caught the loop constraint")`.

The model is the dynamic call tree of the parser restricted to the calls that touch the counter.  The shape facts above
are regenerated from the Rust text (`Gen.loopDepthSites`, `Gen.loopDepthShape`, `C15_loop_depth_gen`).
-/
namespace LaytheVerif.LoopDepth

mutual
  /-- one call of a parser function -/
  inductive Call where
    | brk                                  -- `break_` / `continue_`
    | fail                                 -- a syntax error is raised here (`return self.error(…)`)
    | loop (cond body : Calls)             -- `loop_(…)` of `for_` / `while_`: iterable or condition, then the block
    | fn (sig body : Calls)                -- `function` / `lambda`: signature (depth untouched), then the body at depth 0
    | decl (c : Calls) (recovers : Bool)   -- `decl()`: on failure `synchronize` (which fails itself on a scanner error token)
    | node (c : Calls)                     -- any other parser function: its calls in order, `?` after each
  /-- calls in sequence; the first failure aborts the rest (`?`) -/
  inductive Calls where
    | nil
    | cons (hd : Call) (tl : Calls)
end

def Calls.ofList : List Call → Calls
  | [] => .nil
  | c :: r => .cons c (Calls.ofList r)

structure PS where
  depth : Nat := 0          -- `loop_depth`
  diags : Nat := 0          -- `self.errors.len()`
  underflow : Bool := false -- `loop_depth -= 1` was executed at 0 (debug build: panic "attempt to subtract with overflow")
  deriving Repr, DecidableEq

/-- `self.loop_depth -= 1` -/
def PS.dec (s : PS) : PS := if s.depth = 0 then { s with underflow := true } else { s with depth := s.depth - 1 }

mutual
  /-- the parser as it is; the `Bool` is `Ok`/`Err` of the `ParseResult` -/
  def Call.run : Call → PS → PS × Bool
    | .brk, s => (s, decide (s.depth ≠ 0))
    | .fail, s => (s, false)
    | .loop cond body, s =>
      match Calls.run cond { s with depth := s.depth + 1 } with
      | (s1, false) => (s1.dec, false)
      | (s1, true) => ((Calls.run body s1).1.dec, (Calls.run body s1).2)
    | .fn sig body, s =>
      match Calls.run sig s with
      | (s1, false) => (s1, false)
      | (s1, true) =>
        let r := Calls.run body { s1 with depth := 0 }
        ({ r.1 with depth := s1.depth }, r.2)
    | .decl c recovers, s =>
      match Calls.run c s with
      | (s1, true) => (s1, true)
      | (s1, false) => ({ s1 with diags := s1.diags + 1 }, recovers)
    | .node c, s => Calls.run c s
  def Calls.run : Calls → PS → PS × Bool
    | .nil, s => (s, true)
    | .cons c r, s =>
      match Call.run c s with
      | (s1, false) => (s1, false)
      | (s1, true) => Calls.run r s1
end

mutual
  /-- the parser as it WAS (before repo commits 23aed49 and a54a572): `function` zeroed the depth before the signature and
  restored it only when the body parsed (`lam = false`: every `fn` node is read as a `function`); `lambda` did not touch
  the depth (`lam = true`: every `fn` node is read as a `lambda`). -/
  def Call.runOld (lam : Bool) : Call → PS → PS × Bool
    | .brk, s => (s, decide (s.depth ≠ 0))
    | .fail, s => (s, false)
    | .loop cond body, s =>
      match Calls.runOld lam cond { s with depth := s.depth + 1 } with
      | (s1, false) => (s1.dec, false)
      | (s1, true) => ((Calls.runOld lam body s1).1.dec, (Calls.runOld lam body s1).2)
    | .fn sig body, s =>
      match Calls.runOld lam sig (if lam then s else { s with depth := 0 }) with
      | (s1, false) => (s1, false)
      | (s1, true) =>
        match Calls.runOld lam body s1 with
        | (s2, false) => (s2, false)
        | (s2, true) => (if lam then s2 else { s2 with depth := s.depth }, true)
    | .decl c recovers, s =>
      match Calls.runOld lam c s with
      | (s1, true) => (s1, true)
      | (s1, false) => ({ s1 with diags := s1.diags + 1 }, recovers)
    | .node c, s => Calls.runOld lam c s
  def Calls.runOld (lam : Bool) : Calls → PS → PS × Bool
    | .nil, s => (s, true)
    | .cons c r, s =>
      match Call.runOld lam c s with
      | (s1, false) => (s1, false)
      | (s1, true) => Calls.runOld lam r s1
end

mutual
  /-- the compiler over the tree of a text that parsed without diagnostics: `inLoop` = `loop_attributes.is_some()`;
  `false` = an `expect("Parser should have caught the loop constraint")` was reached -/
  def Call.comp : Call → Bool → Bool
    | .brk, inLoop => inLoop
    | .fail, _ => true
    | .loop cond body, inLoop => Calls.comp cond inLoop && Calls.comp body true
    | .fn sig body, inLoop => Calls.comp sig inLoop && Calls.comp body false
    | .decl c _, inLoop => Calls.comp c inLoop
    | .node c, inLoop => Calls.comp c inLoop
  def Calls.comp : Calls → Bool → Bool
    | .nil, _ => true
    | .cons c r, inLoop => Call.comp c inLoop && Calls.comp r inLoop
end

mutual
  /-- `break` / `continue` are statements and expressions contain statements only inside the bodies of function
  literals: below an expression position (`expr = true`: the iterable / condition of a loop, a signature) a `brk` occurs
  only under a `fn` body. -/
  def Call.gram : Call → Bool → Bool
    | .brk, expr => !expr
    | .fail, _ => true
    | .loop cond body, expr => !expr && Calls.gram cond true && Calls.gram body false
    | .fn sig body, _ => Calls.gram sig true && Calls.gram body false
    | .decl c _, expr => Calls.gram c expr
    | .node c, expr => Calls.gram c expr
  def Calls.gram : Calls → Bool → Bool
    | .nil, _ => true
    | .cons c r, expr => Call.gram c expr && Calls.gram r expr
end

end LaytheVerif.LoopDepth
