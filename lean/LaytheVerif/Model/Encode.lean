/-
Model of `compute_label_offsets` (compiler/peephole.rs) and `ByteCodeEncoder::encode`
(byte_code.rs), driven by the *generated* tables `Sym.len`, `Sym.enc`, `opcodes`.
Bytes are `Nat`s below 256; `u16`/`u32` operands are native-endian = little-endian on the
supported targets.  Cache-slot ids (`PropertySlot`/`InvokeSlot`) depend on a module-wide counter and
are emitted as four wildcard bytes (`wild`).
-/
import LaytheVerif.Gen.ByteCode
namespace LaytheVerif.Encode
open LaytheVerif.Gen

def wild : Nat := 256

/-- Byte offset of instruction index `i` (sum of the lengths before it). -/
def offsetOf (code : List Sym) (i : Nat) : Nat := ((code.take i).map Sym.len).sum

/-- `compute_label_offsets`: the offset recorded for `Label l` (the last one wins, as in the loop). -/
def labelOffsets (code : List Sym) : List (Nat × Nat) :=
  (code.foldl (fun (acc : List (Nat × Nat) × Nat) i =>
      match i with
      | .Label l => ((l, acc.2) :: acc.1.filter (·.1 != l), acc.2 + i.len)
      | _ => (acc.1, acc.2 + i.len)) ([], 0)).1

def labelOffset (code : List Sym) (l : Nat) : Option Nat := ((labelOffsets code).find? (·.1 == l)).map (·.2)

def lo (n : Nat) : Nat := n % 256
def hi (n : Nat) : Nat := (n / 256) % 256
def u16 (n : Nat) : List Nat := [lo n, hi n]

def opcode (name : String) : Nat := opcodes.findIdx (· == name)

/-- The operands of an instruction, in encoding order. -/
def operands : Sym → List Nat
  | .And a | .Or a | .Constant a | .ConstantLong a | .List a | .Tuple a | .Map a | .Launch a | .Interpolate a
  | .IterNext a | .IterCurrent a | .DropN a | .Import a | .Export a | .LoadGlobal a | .GetModSym a | .SetModSym a
  | .Box a | .GetBox a | .SetBox a | .GetLocal a | .SetLocal a | .GetCapture a | .SetCapture a | .GetPropByName a
  | .SetPropByName a | .GetProp a | .SetProp a | .JumpIfFalse a | .Jump a | .Loop a | .CheckHandler a | .Label a
  | .Call a | .Closure a | .Method a | .Field a | .StaticMethod a | .Class a | .GetSuper a => [a]
  | .ImportSym a b | .DeclareModSym a b | .PushHandler a b | .Invoke a b | .SuperInvoke a b => [a, b]
  | .CaptureIndex (.Local i) => [0, i]
  | .CaptureIndex (.Enclosing i) => [1, i]
  | _ => []

/-- Encode one instruction at byte offset `off`; `none` = a jump the encoder cannot express
(label missing, target on the wrong side, distance over `u16::MAX`). -/
def encodeOne (code : List Sym) (off : Nat) (i : Sym) : Option (List Nat) :=
  let op := opcode i.enc.2
  match i.enc.1, operands i with
  | .none, _ => some []
  | .op, _ => some [op]
  | .byte, [a] => some [op, lo a]
  | .short, [a] => some (op :: u16 a)
  | .invoke, [a, b] => some (op :: u16 a ++ [lo b])
  | .tuple, [a, b] => some (op :: u16 a ++ u16 b)
  | .capture, [t, x] => some [t, lo x]
  | .propSlot, _ => some [wild, wild, wild, wild]
  | .invokeSlot, _ => some [wild, wild, wild, wild]
  | .jumpFwd k, [l] =>
    match labelOffset code l with
    | some t => if off + k ≤ t ∧ t - off - k < 65536 then some (op :: u16 (t - off - k)) else none
    | none => none
  | .jumpBack k, [l] =>
    match labelOffset code l with
    | some t => if t ≤ off ∧ off - t + k < 65536 then some (op :: u16 (off - t + k)) else none
    | none => none
  | .handlerFwd k, [d, l] =>
    match labelOffset code l with
    | some t => if off + k ≤ t ∧ t - off - k < 65536 then some (op :: u16 d ++ u16 (t - off - k)) else none
    | none => none
  | _, _ => none

def encodeFrom (code : List Sym) : Nat → List Sym → Option (List Nat)
  | _, [] => some []
  | off, i :: r =>
    match encodeOne code off i, encodeFrom code (off + i.len) r with
    | some a, some b => some (a ++ b)
    | _, _ => none

def encode (code : List Sym) : Option (List Nat) := encodeFrom code 0 code

/-- Where the VM lands after executing a branch encoded at `off` with 16-bit operand `x`:
`update_ip(jump)` after the operand was read (`op_jump`, `op_and`, …), `update_ip(-jump)` for
`op_loop`, `ip - start + jump` for `op_push_handler`. -/
def landing (e : Enc) (off x : Nat) : Option Nat :=
  match e with
  | .jumpFwd _ => some (off + 3 + x)
  | .jumpBack _ => if x ≤ off + 3 then some (off + 3 - x) else none
  | .handlerFwd _ => some (off + 5 + x)
  | _ => none

end LaytheVerif.Encode
