/-
C18, program level.  A *call chain description* is what the generator of call-chain programs knows
about the program it wrote: the frames that are active when the innermost one raises / exits /
finishes (function name, file, the source lines of the active call or raise site), the native
functions in between that keep a stack frame, the `try` handlers with their class filter and what
the catch clause does.

* `Spec.run` — the **Spec**: what the property demands of such a program, computed directly from
  the description (no instruction pointers, no line tables): who catches, which frames the
  backtrace lists, what is printed, which status.  Lines are given as a source span `lo..hi` of the
  call / raise expression (the property: "true line numbers") plus the `anchor` line the compiler
  is documented to attach (the token that ends the expression).
* `Model.run` — the same program run through the **model** of the VM's error reporting
  (`Lines.unwindRun`, `Lines.printError`, `Lines.backtraceText`, `Lines.status`) on an abstract
  chunk with one byte per site.
-/
import LaytheVerif.Model.Lines
namespace LaytheVerif.Chain
open LaytheVerif.Lines LaytheVerif.Gen

/-- Source lines of a call / raise site: the expression spans `lo..hi`; `anchor` is the line the
compiler attaches to the instruction (documented rule, see `vlib/props/c18.py`). -/
structure Site where
  lo : Nat
  hi : Nat
  anchor : Nat
  deriving Repr, Inhabited, DecidableEq

inductive Action where
  /-- the catch clause ends normally; everything below returns normally -/
  | cont
  /-- `exit(n);` inside the clause -/
  | exit (n : Int)
  /-- `raise C(msg[, e]);` inside the clause (`cls` = C's ancestor chain up to `Error`) -/
  | wrap (cls : List String) (msg : String) (site : Site) (inner : Bool)
  /-- `raise e;` inside the clause -/
  | rethrow (site : Site)
  deriving Repr, Inhabited

structure HandlerD where
  /-- printed by the clause (`H <tag> <message>`) -/
  tag : String
  /-- `catch e: C` — `none` for a blank `catch e` -/
  filter : Option String
  /-- line of the closing brace of the catch clause (where `ContinueUnwind` lives; the own ip of a
  frame whose clause declined points there, which no report shows: `Lines.tracebackIp`) -/
  contLine : Nat
  action : Action
  /-- the clause prints `e.cls().name()` -/
  printCls : Bool
  deriving Repr, Inhabited

structure FrameD where
  marker : String
  /-- name shown in tracebacks (`script`, function / method name, `init`, `lambda`, …) -/
  name : String
  file : Nat
  /-- the call to the next frame (for the innermost frame: the raise / exit site) -/
  site : Site
  /-- native functions with a stack frame between this frame and the next (outermost first) -/
  natives : List String
  /-- the `try` blocks around the site, outermost first -/
  handlers : List HandlerD
  /-- lines the frame prints when its call returns normally, before `ret <marker>` -/
  afterReturn : List String
  /-- the call to the next frame goes through a native function that calls back (`iter.each`,
  `List.sort`, `print` → `str()`, a lazy `map` driven by `.list()` / `for`, …): the next frame runs
  in a nested interpreter loop -/
  nested : Bool := false
  /-- lines the frame prints between `in <marker>` and its site (`print()` writes an empty line) -/
  preLines : List String := []
  deriving Repr, Inhabited

inductive Final where
  /-- the innermost frame raises an error whose class has the ancestor chain `cls`; `natives`:
  native frames on top of it (`[]` for an index error) -/
  | raise (cls : List String) (msg : String) (natives : List String)
  | exit (n : Option Int)
  | finish
  /-- the innermost frame is the script of a module and imports a module that does not compile -/
  | importFail
  deriving Repr, Inhabited

structure Chain where
  files : List String
  frames : List FrameD
  final : Final
  deriving Repr, Inhabited

/-- One expected output line: literal, or a frame line whose line number may be anywhere in the
site's span (Spec) / must be the anchor (documented compiler rule). -/
inductive Pat where
  | lit (s : String)
  | fr (pre : String) (path : String) (site : Site) (suffix : String)
  deriving Repr, Inhabited

def Pat.render (n : Nat) : Pat → String
  | .lit s => s
  | .fr pre path _ suffix => s!"{pre}{path}:{n}{suffix}"

def Pat.exact : Pat → String
  | .lit s => s
  | .fr pre path site suffix => s!"{pre}{path}:{site.anchor}{suffix}"

def Pat.loose : Pat → String
  | .lit s => s
  | .fr pre path site suffix => s!"{pre}{path}:{site.lo}..{site.hi}{suffix}"

/-- Does the actual line satisfy the pattern with *some* line of the span? -/
def Pat.accepts (p : Pat) (actual : String) : Bool :=
  match p with
  | .lit s => s == actual
  | .fr _ _ site _ => (List.range (site.hi + 1 - site.lo)).any fun k => p.render (site.lo + k) == actual

structure Expected where
  status : String
  stdout : List Pat
  stderr : List Pat
  /-- stderr holds the compiler's diagnostics of another module (text not judged here: at least one
  line, the first one starts with `error`) -/
  stderrDiag : Bool := false
  deriving Repr, Inhabited

def statusText (e : ProgramEnd) : String :=
  match status e with
  | some (code, .Ok) => s!"Ok:{code}"
  | some (code, .RuntimeError) => s!"RuntimeError:{code}"
  | some (code, .CompileError) => s!"CompileError:{code}"
  | none => "PANIC"

/-- The **documented** status table (property text + harness rendering `VmExit:code`), written out
independently of the generated `Gen.runStatus`: 0 for a normal finish and for `exit()`/`exit(0)`,
`n` for `exit(n)` (saturating outside `0..65535`) wherever `exit` is called, 1 for an uncaught error
and for a compile error (of the script or of a module it imports). -/
def specStatusText : ProgramEnd → String
  | .finished => "Ok:0"
  | .exitCall none _ => "Ok:0"
  | .exitCall (some n) _ =>
    if n ≤ 0 then "Ok:0" else if n ≥ 65535 then "RuntimeError:65535" else s!"RuntimeError:{n}"
  | .uncaughtError => "RuntimeError:1"
  | .compileError => "CompileError:1"
  | .importCompileError => "CompileError:1"
  | .deadlock => "RuntimeError:1"

def location (name : String) : String := if name = "script" then "script" else s!"{name}()"

/-- An error value as the program can observe it: class (ancestor chain), message, backtrace, and
the chain of inner errors (message and backtrace of each, nearest first). -/
structure Err where
  cls : List String
  msg : String
  bt : List Pat
  inners : List (String × List Pat)
  deriving Inhabited

def Err.withBt (e : Err) (bt : List Pat) : Err := { e with bt := bt }

/-- `C(msg)` / `C(msg, inner)` -/
def Err.new (cls : List String) (msg : String) (inner : Option Err) : Err :=
  { cls := cls, msg := msg, bt := [],
    inners := match inner with
      | some i => (i.msg, i.bt) :: i.inners
      | none => [] }

def matchesFilter (filter : Option String) (cls : List String) : Bool :=
  match filter with
  | none => true
  | some c => cls.contains c

/-- What the generated catch clause prints for the inner-error chain. -/
def innerLines (inners : List (String × List Pat)) : List Pat :=
  (inners.flatMap fun (msg, bt) => [Pat.lit s!"inner {msg}", Pat.lit s!"bt {bt.length}"] ++ bt) ++
  [.lit "inner nil"]

/-- What the generated catch clause prints. -/
def handlerLines (h : HandlerD) (e : Err) : List Pat :=
  [.lit s!"H {h.tag} {e.msg}"] ++
  (if h.printCls then [.lit s!"cls {e.cls.headD "?"}"] else []) ++
  [.lit s!"bt {e.bt.length}"] ++ e.bt ++ innerLines e.inners

/-- What is printed when frame `c` carries on normally and everything below it returns: frame `c`
prints `ret`; every frame below first sees its call return (`afterReturn`), then prints `ret`. -/
def returnLines (frames : List FrameD) (c : Nat) : List Pat :=
  [.lit s!"ret {(frames[c]!).marker}"] ++
  ((frames.take c).reverse.flatMap fun f => f.afterReturn.map Pat.lit ++ [.lit s!"ret {f.marker}"])

def nativePat (pre : String) (name : String) : Pat := .lit s!"{pre}native:0 in {name}()"

/-- What has been printed when the innermost frame reaches its site. -/
def enteredLines (ch : Chain) : List Pat :=
  ch.frames.flatMap fun f => [Pat.lit s!"in {f.marker}"] ++ f.preLines.map Pat.lit

/-- Number of natives that called back (nested interpreter loops) below frame `c`. -/
def nestedBelow (ch : Chain) (c : Nat) : Nat := ((ch.frames.take c).filter (·.nested)).length

namespace Spec

/-- The frames an error raised in frame `depth` (at `site`, below the native frames `top`) passes on
its way down to frame `c` inclusive, innermost first. -/
def entries (ch : Chain) (pre : String) (depth c : Nat) (site : Site) (top : List String) : List Pat :=
  top.reverse.map (nativePat pre) ++
  ((List.range (depth + 1 - c)).flatMap fun k =>
    let j := depth - k
    let f := ch.frames[j]!
    let s := if j = depth then site else f.site
    [Pat.fr pre (ch.files[f.file]!) s s!" in {location f.name}"] ++
    (if j > c then (ch.frames[j - 1]!).natives.reverse.map (nativePat pre) else []))

/-- All handlers of the chain, innermost first, each with the index of its frame. -/
def allHandlers (ch : Chain) : List (Nat × HandlerD) :=
  ((List.range ch.frames.length).flatMap fun i => (ch.frames[i]!).handlers.map fun h => (i, h)).reverse

/-- An error `e` has been raised in frame `depth` at `site`; `hs` are the handlers that may still
catch it (innermost first).  `out` is what has been printed so far. -/
def unwind (ch : Chain) (out : List Pat) : List (Nat × HandlerD) → (depth : Nat) → Err → Site → List String → Expected
  | [], depth, e, site, top =>
    { status := specStatusText .uncaughtError, stdout := out,
      stderr := [.lit "Traceback (most recent call last):"] ++ entries ch "  " depth 0 site top ++
                [.lit s!"{e.cls.headD "?"}: {e.msg}"] }
  | (c, h) :: rest, depth, e, site, top =>
    if matchesFilter h.filter e.cls then
      let e' := e.withBt (entries ch "" depth c site top)
      let out := out ++ handlerLines h e'
      match h.action with
      | .cont => { status := specStatusText .finished, stdout := out ++ returnLines ch.frames c, stderr := [] }
      | .exit n => { status := specStatusText (.exitCall (some n) 0), stdout := out, stderr := [] }
      | .wrap cls msg s inner => unwind ch out rest c (Err.new cls msg (if inner then some e' else none)) s []
      | .rethrow s => unwind ch out rest c e' s []
    else unwind ch out rest depth e site top

def run (ch : Chain) : Expected :=
  let entered := enteredLines ch
  let d := ch.frames.length - 1
  match ch.final with
  | .finish => { status := specStatusText .finished, stdout := entered ++ returnLines ch.frames d, stderr := [] }
  | .exit n => { status := specStatusText (.exitCall n 0), stdout := entered, stderr := [] }
  -- the diagnostics are reported, nothing after the import runs, compile-error status
  | .importFail => { status := specStatusText .importCompileError, stdout := entered, stderr := [], stderrDiag := true }
  | .raise cls msg top => unwind ch entered (allHandlers ch) d (Err.new cls msg none) (ch.frames[d]!).site top

end Spec

namespace Model

def actionAnchor (h : HandlerD) : Nat :=
  match h.action with
  | Action.wrap _ _ s _ => s.anchor
  | Action.rethrow s => s.anchor
  | _ => 0

/-- The abstract chunk of a chain frame: byte 0 = the call / raise site; for its `t`-th handler
byte `1 + 2t` = the `ContinueUnwind` of the catch clause and byte `2 + 2t` = the `raise` inside the
clause. -/
def funInfo (ch : Chain) (f : FrameD) : FunInfo :=
  { name := f.name, path := ch.files[f.file]!,
    lines := [f.site.anchor] ++ f.handlers.flatMap fun h => [h.contLine, actionAnchor h] }

/-- `Fun::stub` + `Chunk::stub`: module `native`, instructions `[0]`, lines `[0]`. -/
def nativeInfo (name : String) : FunInfo := { name := name, path := "native", lines := [0] }

structure HInfo where
  /-- position of the handler's frame in the fiber's frame vector -/
  pos : Nat
  /-- chain index of that frame -/
  frame : Nat
  /-- index of the handler among its frame's handlers -/
  t : Nat
  h : HandlerD

structure State where
  funs : List FunInfo := []
  frames : List Frame := []
  /-- innermost first -/
  handlers : List HInfo := []

/-- The fiber at the moment the innermost frame acts: every chain frame is suspended behind its
call instruction (ip 1), every native stub sits at ip 0. -/
def build (ch : Chain) (top : List String) : State := Id.run do
  let mut st : State := {}
  let mut i := 0
  for f in ch.frames do
    let pos := st.frames.length
    st := { st with funs := st.funs ++ [funInfo ch f], frames := st.frames ++ [⟨st.funs.length, 1⟩] }
    let mut t := 0
    for h in f.handlers do
      st := { st with handlers := ⟨pos, i, t, h⟩ :: st.handlers }
      t := t + 1
    let nats := if i + 1 = ch.frames.length then top else f.natives
    for n in nats do
      st := { st with funs := st.funs ++ [nativeInfo n], frames := st.frames ++ [⟨st.funs.length, 0⟩] }
    i := i + 1
  return st

def funAt (funs : List FunInfo) (i : Nat) : FunInfo := funs[i]!

/-- An error has been raised on fiber `f` while the running frame's ip is `ip`. -/
def unwind (ch : Chain) (funs : List FunInfo) (out : List Pat) :
    (fuel : Nat) → Fiber → List HInfo → Err → Nat → Expected
  | 0, _, _, _, _ => { status := "FUEL", stdout := out, stderr := [] }
  | fuel + 1, f, hs, e, ip =>
    -- a declining clause `t` runs `ContinueUnwind` behind byte `1 + 2t`
    let ds := hs.map fun hi => (matchesFilter hi.h.filter e.cls, 2 + 2 * hi.t)
    match unwindRun none f ip ds with
    | .uncaught f' =>
      { status := statusText .uncaughtError, stdout := out,
        stderr := (printError (funAt funs) f' (e.cls.headD "?") e.msg).map Pat.lit }
    | .caught bt f' =>
      let declined := (ds.takeWhile fun d => !d.1).length
      match hs.drop declined with
      | [] => { status := "STUCK", stdout := out, stderr := [] }
      | hi :: rest =>
        let e' := e.withBt ((backtraceText (funAt funs) bt).map Pat.lit)
        let out := out ++ handlerLines hi.h e'
        -- `PopHandler` follows `FinishUnwind`
        let f'' := { f' with handlers := f'.handlers.tail }
        -- a `raise` inside clause `t` is behind byte `2 + 2t`
        let rip := 3 + 2 * hi.t
        match hi.h.action with
        | .cont => { status := statusText .finished, stdout := out ++ returnLines ch.frames hi.frame, stderr := [] }
        | .exit n => { status := statusText (.exitCall (some n) (nestedBelow ch hi.frame)), stdout := out, stderr := [] }
        | .wrap cls msg _ inner => unwind ch funs out fuel f'' rest (Err.new cls msg (if inner then some e' else none)) rip
        | .rethrow _ => unwind ch funs out fuel f'' rest e' rip
    | .stopped _ _ => { status := "STOPPED", stdout := out, stderr := [] }
    | .stuck => { status := "STUCK", stdout := out, stderr := [] }

def run (ch : Chain) : Expected :=
  let entered := enteredLines ch
  let d := ch.frames.length - 1
  match ch.final with
  | .finish => { status := statusText .finished, stdout := entered ++ returnLines ch.frames d, stderr := [] }
  -- the exit crosses every native that called back below the exiting frame
  | .exit n => { status := statusText (.exitCall n (nestedBelow ch d)), stdout := entered, stderr := [] }
  | .importFail => { status := statusText .importCompileError, stdout := entered, stderr := [], stderrDiag := true }
  | .raise cls msg top =>
    let st := build ch top
    let fiber : Fiber :=
      { frames := st.frames, backtraceIps := [], cur := st.frames.length - 1,
        handlers := st.handlers.map fun hi => ⟨1, hi.pos + 1⟩ }
    -- a chain frame raises behind its site byte (ip 1); a native stub "raises" at ip 0
    unwind ch st.funs entered (st.handlers.length + 1) fiber st.handlers (Err.new cls msg none) (if top.isEmpty then 1 else 0)

end Model

/-! ### judging an observed run -/

def firstDiff (exp : List String) (act : List String) : Option (Nat × String × String) :=
  let n := max exp.length act.length
  (List.range n).findSome? fun i =>
    let a := exp[i]?.getD "<missing>"
    let b := act[i]?.getD "<missing>"
    if a == b then none else some (i, a, b)

def accepts (pats : List Pat) (act : List String) : Option (Nat × String × String) :=
  let n := max pats.length act.length
  (List.range n).findSome? fun i =>
    match pats[i]?, act[i]? with
    | some p, some a => if p.accepts a then none else some (i, p.loose, a)
    | some p, none => some (i, p.loose, "<missing>")
    | none, some a => some (i, "<nothing>", a)
    | none, none => none

/-- stderr of a run that ends with another module's compile error: the diagnostics are there. -/
def diagOk (err : List String) : Bool :=
  match err with
  | l :: _ => l.startsWith "error"
  | [] => false

def compareTo (what : String) (e : Expected) (status : String) (out err : List String) : String :=
  if e.status != status then s!"{what} status expected {e.status} got {status}"
  else match firstDiff (e.stdout.map Pat.exact) out with
  | some (i, a, b) => s!"{what} stdout line {i}: expected [{a}] got [{b}]"
  | none =>
  if e.stderrDiag then (if diagOk err then "ok" else s!"{what} stderr: expected the compiler's diagnostics got [{err.headD "<nothing>"}]") else
  match firstDiff (e.stderr.map Pat.exact) err with
  | some (i, a, b) => s!"{what} stderr line {i}: expected [{a}] got [{b}]"
  | none => "ok"

/-- Three verdicts on an observed (status, stdout lines, stderr lines), tab separated:
`spec`   — the property: status, who is listed, class, message, and every line number inside the
           span of its call / raise expression;
`model`  — the model of the VM's error reporting predicts exactly what was observed;
`anchor` — every line number is the one the documented compiler rule gives. -/
def judge (ch : Chain) (status : String) (out err : List String) : String :=
  let s := Spec.run ch
  let m := Model.run ch
  let spec :=
    if s.status != status then s!"spec status expected {s.status} got {status}"
    else match accepts s.stdout out with
    | some (i, a, b) => s!"spec stdout line {i}: expected [{a}] got [{b}]"
    | none =>
    if s.stderrDiag then (if diagOk err then "ok" else s!"spec stderr: expected the compiler's diagnostics got [{err.headD "<nothing>"}]") else
    match accepts s.stderr err with
    | some (i, a, b) => s!"spec stderr line {i}: expected [{a}] got [{b}]"
    | none => "ok"
  s!"{spec}\t{compareTo "model" m status out err}\t{compareTo "anchor" s status out err}"

end LaytheVerif.Chain
