/-
IEEE-754 binary64 on bit patterns: the meaning of the two `f64` primitives that
`laythe_core/src/value.rs` applies to the payload of a number — `f64 == f64` and the saturating
cast `f64 as u64`.  Hand-written (Rust / IEEE semantics, trusted); cross-checked on every sampled
value against Lean's `Float` (driver self-check) and against the compiled code (value stream of
`vlib/props/c14.py`).  Imported by the generated `Gen/NanBox.lean`, whose translation of the boxed
`PartialEq`/`Hash` impls refers to `ieeeEq` and `f64ToU64`.  Core Lean only.
-/
namespace LaytheVerif.NanBox

def EXP_MASK : BitVec 64 := 0x7ff0000000000000#64
def MAN_MASK : BitVec 64 := 0x000fffffffffffff#64
def ABS_MASK : BitVec 64 := 0x7fffffffffffffff#64

/-- exponent all ones, mantissa non-zero -/
def isNaN (a : BitVec 64) : Bool := (a &&& EXP_MASK) == EXP_MASK && (a &&& MAN_MASK) != 0#64
/-- `+0` or `-0` -/
def isZero (a : BitVec 64) : Bool := (a &&& ABS_MASK) == 0#64

/-- IEEE `==` on bit patterns (the Spec of number equality; Rust's `f64 == f64`). -/
def ieeeEq (a b : BitVec 64) : Bool := !isNaN a && !isNaN b && (a == b || (isZero a && isZero b))

/-- Rust's saturating `f64 as u64` on the bit pattern (used by both `Hash` impls):
NaN ↦ 0, negative ↦ 0, too large ↦ `u64::MAX`, otherwise truncation. -/
def f64ToU64 (x : BitVec 64) : Nat :=
  let e := (x.toNat / 2 ^ 52) % 2048
  let m := x.toNat % 2 ^ 52
  if e = 2047 then (if m ≠ 0 then 0 else if x.msb then 0 else 2 ^ 64 - 1)
  else if x.msb then 0
  else if e = 0 then 0
  else if e ≥ 1075 then min ((m + 2 ^ 52) * 2 ^ (e - 1075)) (2 ^ 64 - 1)
  else (m + 2 ^ 52) / 2 ^ (1075 - e)

end LaytheVerif.NanBox
