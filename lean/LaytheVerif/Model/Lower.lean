import LaytheVerif.Gen.ByteCode
import LaytheVerif.Model.LayRef.Ops
/-!
# Lowering of expressions to symbolic bytecode (`compiler/mod.rs`), operator fragment

`Lower.expr` mirrors `Compiler::expr` and the handlers it dispatches to: `binary` (operands, then the
operator; `&&`/`||` emit `And`/`Or` with a fresh label after the left operand and the label after the
right operand), `unary`, `ternary` (`JumpIfFalse then_label`, then-branch, `Jump else_label`,
`Label then_label`, else-branch, `Label else_label`; labels are drawn from the function's
`LabelEmitter` in that order), `assign`/`assign_binary` on a plain local, `Primary::Grouping`,
literals (`emit_constant` with the chunk's constant index).

Variables are already resolved to local slots (`resolve_local` of an uncaptured, initialized local:
`GetLocal`/`SetLocal`); number literals carry the index `make_constant` gives them.
-/
namespace LaytheVerif.Lower
open LaytheVerif.LayRef (Value BinOp UnOp AssignOp)
open LaytheVerif.Gen (Sym)

/-- the fragment after name resolution -/
inductive FExpr where
  | const (v : Value) (idx : Nat)     -- number literal with its constant-table index
  | nil | true_ | false_
  | local_ (slot : Nat)
  | group (e : FExpr)
  | un (op : UnOp) (e : FExpr)
  | bin (op : BinOp) (a b : FExpr)
  | and (a b : FExpr)
  | or (a b : FExpr)
  | tern (c t e : FExpr)
  | assign (op : AssignOp) (slot : Nat) (e : FExpr)
  deriving Inhabited

def binSym : BinOp → Sym
  | .add => .Add | .sub => .Subtract | .mul => .Multiply | .div => .Divide
  | .lt => .Less | .le => .LessEqual | .gt => .Greater | .ge => .GreaterEqual
  | .eq => .Equal | .ne => .NotEqual

def unSym : UnOp → Sym
  | .not => .Not | .neg => .Negate

/-- `emit_constant`: one byte operand when the index fits -/
def constSym (idx : Nat) : Sym := if idx ≤ 255 then .Constant idx else .ConstantLong idx

/-- `(code, next label)`; `n` is the state of the function's label emitter -/
def expr : FExpr → Nat → List Sym × Nat
  | .const _ idx, n => ([constSym idx], n)
  | .nil, n => ([.Nil], n)
  | .true_, n => ([.True], n)
  | .false_, n => ([.False], n)
  | .local_ s, n => ([.GetLocal s], n)
  | .group e, n => expr e n
  | .un op e, n =>
    let ce := expr e n
    (ce.1 ++ [unSym op], ce.2)
  | .bin op a b, n =>
    let ca := expr a n
    let cb := expr b ca.2
    (ca.1 ++ cb.1 ++ [binSym op], cb.2)
  | .and a b, n =>
    let ca := expr a n
    let cb := expr b (ca.2 + 1)
    (ca.1 ++ [.And ca.2] ++ cb.1 ++ [.Label ca.2], cb.2)
  | .or a b, n =>
    let ca := expr a n
    let cb := expr b (ca.2 + 1)
    (ca.1 ++ [.Or ca.2] ++ cb.1 ++ [.Label ca.2], cb.2)
  | .tern c t e, n =>
    let cc := expr c n
    let ct := expr t (cc.2 + 1)
    let ce := expr e (ct.2 + 1)
    (cc.1 ++ [.JumpIfFalse cc.2] ++ ct.1 ++ [.Jump ct.2, .Label cc.2] ++ ce.1 ++ [.Label ct.2], ce.2)
  | .assign op s e, n =>
    match op.binop with
    | none =>
      let ce := expr e n
      (ce.1 ++ [.SetLocal s], ce.2)
    | some bop =>
      let ce := expr e n
      ([.GetLocal s] ++ ce.1 ++ [binSym bop, .SetLocal s], ce.2)

end LaytheVerif.Lower

/-! ## the reference evaluator of the fragment (same operator definitions as `LayRef.evalExpr`) -/
namespace LaytheVerif.Lower
open LaytheVerif.LayRef (Value BinOp UnOp AssignOp OpErr binop unop)

abbrev Env := Nat → Value

def Env.set (env : Env) (s : Nat) (v : Value) : Env := fun j => if j = s then v else env j

/-- source-level meaning: left-to-right, `&&`/`||` yield an operand, only nil/false are falsey,
assignment yields the assigned value -/
def eval : FExpr → Env → Except OpErr (Value × Env)
  | .const v _, env => .ok (v, env)
  | .nil, env => .ok (.nil, env)
  | .true_, env => .ok (.bool true, env)
  | .false_, env => .ok (.bool false, env)
  | .local_ s, env => .ok (env s, env)
  | .group e, env => eval e env
  | .un op e, env =>
    match eval e env with
    | .error m => .error m
    | .ok (v, env1) =>
      match unop op v with
      | .ok r => .ok (r, env1)
      | .error m => .error m
  | .bin op a b, env =>
    match eval a env with
    | .error m => .error m
    | .ok (va, env1) =>
      match eval b env1 with
      | .error m => .error m
      | .ok (vb, env2) =>
        match binop op va vb with
        | .ok r => .ok (r, env2)
        | .error m => .error m
  | .and a b, env =>
    match eval a env with
    | .error m => .error m
    | .ok (va, env1) => if va.falsey then .ok (va, env1) else eval b env1
  | .or a b, env =>
    match eval a env with
    | .error m => .error m
    | .ok (va, env1) => if va.falsey then eval b env1 else .ok (va, env1)
  | .tern c t e, env =>
    match eval c env with
    | .error m => .error m
    | .ok (vc, env1) => if vc.falsey then eval e env1 else eval t env1
  | .assign op s e, env =>
    match op.binop with
    | none =>
      match eval e env with
      | .error m => .error m
      | .ok (v, env1) => .ok (v, env1.set s v)
    | some bop =>
      -- `x op= e`: the old value of `x` is read before `e` is evaluated
      match eval e env with
      | .error m => .error m
      | .ok (v, env1) =>
        match binop bop (env s) v with
        | .ok r => .ok (r, env1.set s r)
        | .error m => .error m

end LaytheVerif.Lower
