/-
Model of the REPL's per-entry compilation into one module (C19).

Mirrors:
* `laythe_vm/src/vm/mod.rs`: `repl` (one module for the session; every line goes through
  `interpret(true, main_module, ..)`; a failing line is reported and the loop continues);
* `laythe_vm/src/compiler/resolver.rs`: `declare_module_scoped` (the module's existing symbols are
  re-declared, in slot order, as `AlreadyInitialized`; then the entry's own module-level
  declarations; a clash is the "already declared" error), `resolve_variable` (unknown names must be
  exported by the global module, and are then added as `GlobalInitialized`), `resolve_global` (the
  implicit superclass `Object` of a class declared without a parent is added as a global only if
  no open scope — the module table with the re-declared and the entry's own symbols included —
  holds that name);
* `laythe_vm/src/compiler/mod.rs`: `begin_module_scope` (`stuff` gives the existing symbols the slots
  `0..k`, `declare_module_variable` gives new declarations, then newly used globals, the following
  slots and emits `DeclareModSym`), `with_cache_id_emitter` (the emitter the compile numbers its
  inline-cache sites with is supplied by the caller), `class` → `global_get` / `is_global` (the
  implicit superclass is `GetModSym(slot of Object)` only while the module table's `Object` is in
  state `GlobalInitialized` — it became a module symbol in *this* entry, as a global — and no local
  of that name is in scope; otherwise `LoadGlobal("Object")`, which touches no module symbol: the
  case of every entry after the one that brought `Object` in (`AlreadyInitialized`), and of a
  session that declares its own `Object`);
* `laythe_vm/src/byte_code.rs`: `op_property_slot` / `op_invoke_slot` (ids are handed out in
  encoding order: every function when it is finished, the script last);
* `laythe_vm/src/vm/source_loader.rs`: `compile` (a module that already has an inline cache — the
  REPL's module from its second compiled entry on — is numbered by
  `CacheIdEmitter::new(cache.property_slots(), cache.invoke_slots())`, i.e. after the ids already
  handed out, and after a successful compile `inline_cache[module.id()].grow(property_count,
  invoke_count)` lengthens the module's vectors in place; a module without a cache yet starts at
  `CacheIdEmitter::default()` and gets `InlineCache::new(..)` — the lengths `0, 0` of `St.empty`);
* `laythe_vm/src/cache.rs`: `InlineCache::grow` (`resize` to the new lengths), `CacheIdEmitter::new`,
  `get_property_cache` / `get_invoke_cache` (`debug_assert!(slot < len)` followed by `get_unchecked`);
* `laythe_vm/src/vm/ops.rs`: `op_declare_module_symbol` (symbols are appended to the module when the
  entry starts to run, whatever happens later in the entry).

`BeforeRepair` keeps the numbering of the code before the repair of D13 (every compile restarted at
0 and the vectors were replaced by vectors sized for that entry) as a regression fact: it shows that
the ghost fault detector of `step` does detect (Props/C19 `C19_regression_restarted_numbering`).
-/
namespace LaytheVerif.Repl

/-- what a compiled function does with module-level state, in emission order -/
inductive Op
  | get (name : String)      -- GetModSym
  | set (name : String)      -- SetModSym
  | prop                     -- an instruction followed by a PropertySlot
  | invoke                   -- an instruction followed by an InvokeSlot
  | super                    -- the implicit superclass of a class declared without a parent, not under a
                             -- local called `Object` (`global_get`): GetModSym or LoadGlobal, see `superSlot`
  deriving DecidableEq, Repr, Inhabited

/-- the same after name resolution and cache-id assignment -/
inductive ROp
  | decl (slot : Nat)        -- DeclareModSym
  | get (slot : Nat)
  | set (slot : Nat)
  | prop (id : Nat)
  | invoke (id : Nat)
  deriving DecidableEq, Repr, Inhabited

structure FunDef where
  name : String
  ops : List Op
  deriving DecidableEq, Repr, Inhabited

structure RFun where
  name : String
  ops : List ROp
  deriving DecidableEq, Repr, Inhabited

/-- One prompt entry (one line, any number of statements). -/
structure Entry where
  /-- the parser accepts the line -/
  syntaxOk : Bool
  /-- the compiler proper (after the resolver) reports no error for the line; it can only fail on a
  limit (e.g. "too many local variables in function"), and by then it has encoded — and numbered the
  cache sites of — every function of the line -/
  compilerOk : Bool := true
  /-- module-level declarations (`let` / `fn` / `class` names) in source order -/
  decls : List String
  /-- every non-local name referenced, in source order (functions' bodies included); a class
  declared without a parent (not under a local called `Object`) references `Object` -/
  refs : List String
  /-- functions and methods in the order they are finished (= encoded) -/
  funs : List FunDef
  /-- the script's own instructions after the declaration prologue -/
  script : List Op
  /-- the functions whose bodies execute while this entry runs (until its error, if any) -/
  calls : List String
  deriving DecidableEq, Repr, Inhabited

inductive CompileError | syntax | duplicate (name : String) | undeclared (name : String) | compiler
  deriving DecidableEq, Repr, Inhabited

/-- the module of the session, and the VM state attached to it -/
structure St where
  /-- `symbols_by_name`, in slot order -/
  symbols : List String
  /-- lengths of `inline_cache[module.id()].property` / `.invoke` -/
  propLen : Nat
  invLen : Nat
  /-- functions defined so far (still reachable through module symbols) -/
  live : List RFun
  /-- ghost: out-of-range cache accesses so far: (function, kind, id, vector length) -/
  faults : List (String × String × Nat × Nat)
  deriving DecidableEq, Repr, Inhabited

def St.empty : St := { symbols := [], propLen := 0, invLen := 0, live := [], faults := [] }

def idxOf (name : String) : List String → Nat
  | [] => 0
  | x :: rest => if x = name then 0 else idxOf name rest + 1

def dedup : List String → List String
  | [] => []
  | x :: rest => if x ∈ dedup rest then dedup rest else x :: dedup rest

/-- first element of `l` satisfying `p` -/
def firstThat (p : String → Bool) : List String → Option String
  | [] => none
  | x :: rest => if p x then some x else firstThat p rest

def firstDup : List String → List String → Option String
  | _, [] => none
  | seen, x :: rest => if x ∈ seen then some x else firstDup (x :: seen) rest

/-- order-preserving de-duplication (first occurrence wins) -/
def uniq : List String → List String → List String
  | _, [] => []
  | seen, x :: rest => if x ∈ seen then uniq seen rest else x :: uniq (x :: seen) rest

/-- resolve names against the slot table and hand out cache ids starting at `(np, ni)` -/
def number (tbl : List String) (sup : Option Nat) : Nat → Nat → List Op → List ROp × Nat × Nat
  | np, ni, [] => ([], np, ni)
  | np, ni, .get n :: rest => let r := number tbl sup np ni rest; (.get (idxOf n tbl) :: r.1, r.2)
  | np, ni, .set n :: rest => let r := number tbl sup np ni rest; (.set (idxOf n tbl) :: r.1, r.2)
  | np, ni, .prop :: rest => let r := number tbl sup (np + 1) ni rest; (.prop np :: r.1, r.2)
  | np, ni, .invoke :: rest => let r := number tbl sup np (ni + 1) rest; (.invoke ni :: r.1, r.2)
  | np, ni, .super :: rest =>
    let r := number tbl sup np ni rest
    match sup with
    | some slot => (.get slot :: r.1, r.2)     -- `variable_get`: GetModSym
    | none => r                                 -- LoadGlobal: no module symbol involved

def numberFuns (tbl : List String) (sup : Option Nat) : Nat → Nat → List FunDef → List RFun × Nat × Nat
  | np, ni, [] => ([], np, ni)
  | np, ni, f :: rest =>
    let r := number tbl sup np ni f.ops
    let r2 := numberFuns tbl sup r.2.1 r.2.2 rest
    ({ name := f.name, ops := r.1 } :: r2.1, r2.2)

/-- `Compiler::is_global("Object")` for the implicit superclass of the entry's class declarations:
the module slot it is read from, if the module's `Object` is the copy of the global that *this*
entry adds (`GlobalInitialized`).  A name the module already has (from any earlier entry — it is
re-declared as `AlreadyInitialized`, whether it was a global or the user's own) or that the entry
declares itself is not: the class is then loaded from the global module directly. -/
def superSlot (symbols decls table : List String) : Option Nat :=
  if "Object" ∈ symbols || "Object" ∈ decls then none else some (idxOf "Object" table)

structure Compiled where
  table : List String          -- module slot table the entry was compiled against
  funs : List RFun
  script : List ROp
  propCount : Nat              -- first unused property id after this compile
  invCount : Nat
  deriving DecidableEq, Repr, Inhabited

/-- `Vm::compile(repl = true, ..)`: parse, resolve, compile, the cache ids of the entry starting at
`(np0, ni0)`.  When the compiler proper fails, `result.map(..)` in `Vm::compile` does not run: the
emitter that numbered the failed entry's sites is dropped and the module's vectors keep their
lengths, so the next entry is numbered from the same ids again. -/
def compileAt (np0 ni0 : Nat) (globals : List String) (st : St) (e : Entry) : Except CompileError Compiled :=
  if !e.syntaxOk then .error .syntax
  else
    match firstDup st.symbols e.decls with
    | some d => .error (.duplicate d)
    | none =>
      match firstThat (fun r => !(r ∈ st.symbols || r ∈ e.decls || r ∈ globals)) e.refs with
      | some r => .error (.undeclared r)
      | none =>
        if !e.compilerOk then .error .compiler
        else
        let newGlobals := uniq (st.symbols ++ e.decls) (e.refs.filter (fun r => !(r ∈ st.symbols || r ∈ e.decls)))
        let table := st.symbols ++ e.decls ++ newGlobals
        let sup := superSlot st.symbols e.decls table
        let fs := numberFuns table sup np0 ni0 e.funs
        let prologue : List ROp :=
          (e.decls.map fun d => ROp.decl (idxOf d table)) ++
          (newGlobals.flatMap fun gname => [ROp.decl (idxOf gname table), ROp.set (idxOf gname table)])
        let sc := number table sup fs.2.1 fs.2.2 e.script
        .ok { table, funs := fs.1, script := prologue ++ sc.1, propCount := sc.2.1, invCount := sc.2.2 }

/-- The code: the entry's cache ids continue after the module's current vector lengths
(`CacheIdEmitter::new(cache.property_slots(), cache.invoke_slots())`). -/
def compile (globals : List String) (st : St) (e : Entry) : Except CompileError Compiled :=
  compileAt st.propLen st.invLen globals st e

def ROp.fault (propLen invLen : Nat) (fname : String) : ROp → Option (String × String × Nat × Nat)
  | .prop id => if id < propLen then none else some (fname, "property", id, propLen)
  | .invoke id => if id < invLen then none else some (fname, "invoke", id, invLen)
  | _ => none

def RFun.faults (propLen invLen : Nat) (f : RFun) : List (String × String × Nat × Nat) :=
  f.ops.filterMap (ROp.fault propLen invLen f.name)

/-- The effect of one prompt entry given the result of its compile: a compile error leaves the state
alone; otherwise the module's cache vectors get the lengths the emitter ended at (`grow`: `resize`),
the new symbols are appended, the new functions become live, and every function body that runs
indexes the *current* vectors with its own ids (ghost `faults`: the accesses that would be out of
range). -/
def stepWith (r : Except CompileError Compiled) (st : St) (e : Entry) : St :=
  match r with
  | .error _ => st
  | .ok c =>
    let live := st.live ++ c.funs
    let called := live.filter (fun f => f.name ∈ e.calls)
    { symbols := c.table, propLen := c.propCount, invLen := c.invCount, live,
      faults := st.faults ++ called.flatMap (RFun.faults c.propCount c.invCount) }

/-- One prompt entry (`Vm::repl` → `interpret(true, ..)` → `compile` → run). -/
def step (globals : List String) (st : St) (e : Entry) : St :=
  stepWith (compile globals st e) st e

def runSession (globals : List String) (st : St) : List Entry → St
  | [] => st
  | e :: rest => runSession globals (step globals st e) rest

/-- every instruction the session's compiles emitted, in emission order (per compiled entry: its
functions in the order they are finished, then its script) -/
def sessionOps (globals : List String) (st : St) : List Entry → List ROp
  | [] => []
  | e :: rest =>
    (match compile globals st e with
     | .error _ => []
     | .ok c => c.funs.flatMap (·.ops) ++ c.script) ++ sessionOps globals (step globals st e) rest

def propIds (ops : List ROp) : List Nat := ops.filterMap fun | .prop id => some id | _ => none
def invIds (ops : List ROp) : List Nat := ops.filterMap fun | .invoke id => some id | _ => none

/-! The code before the repair of D13 (`CacheIdEmitter::default()` in `Compiler::new` for every
compile, `self.inline_cache[module.id()] = cache`): numbering restarted, vectors replaced. -/
namespace BeforeRepair

def compile (globals : List String) (st : St) (e : Entry) : Except CompileError Compiled :=
  compileAt 0 0 globals st e

def step (globals : List String) (st : St) (e : Entry) : St :=
  stepWith (compile globals st e) st e

def runSession (globals : List String) (st : St) : List Entry → St
  | [] => st
  | e :: rest => runSession globals (step globals st e) rest

end BeforeRepair

/-! Module ids and the table of per-module caches (`Vm.emitter`, `Vm.inline_cache`), for the known
finding DC19.1.  `laythe_vm/src/vm/source_loader.rs`: `load_missing_module` calls `self.module(..)`
(`let id = self.emitter.emit()`), attaches the module to its parent, and only then compiles the
file; `Vm::compile` reaches `inline_cache.push(InlineCache::new(..))` (the branch for a module whose
id is not below `inline_cache.len()`) inside `result.map(..)`, i.e. only when the compile succeeded.
`Vm::inline_cache()` (basic.rs) is `inline_cache.get_unchecked(current_fun.module_id())`. -/
namespace ModuleIds

structure Tbl where
  /-- the id the next `Vm::module` hands out -/
  nextId : Nat
  /-- `inline_cache.len()` -/
  caches : Nat
  deriving DecidableEq, Repr, Inhabited

/-- one `load_missing_module` whose file was found; returns the new module's id -/
def load (compiles : Bool) (t : Tbl) : Tbl × Nat :=
  ({ nextId := t.nextId + 1,
     caches := if compiles then (if t.nextId < t.caches then t.caches else t.caches + 1) else t.caches },
   t.nextId)

/-- a sequence of loads (`true` = the file compiles); the ids of the modules whose code can run -/
def loads : Tbl → List Bool → Tbl × List Nat
  | t, [] => (t, [])
  | t, c :: rest =>
    let r := load c t
    let r2 := loads r.1 rest
    (r2.1, if c then r.2 :: r2.2 else r2.2)

/-- the unchecked index of `Vm::inline_cache()` is inside the vector -/
def inRange (t : Tbl) (id : Nat) : Bool := id < t.caches

end ModuleIds

end LaytheVerif.Repl
