/-
Model for C10 (object identity under mutation).  Written from the Rust text, warts included:

* laythe_core/src/object/list.rs            List::{state,push,insert,ensure_capacity,grow,pop,remove}
* laythe_core/src/collections/shared_vector/raw_shared_vector.rs
                                             state / has_moved / len / item_ptr follow the forward;
                                             mark_moved + write_len(new) turn the old header into
                                             `Forwarded(new)`
* laythe_core/src/value.rs, reference/obj_reference.rs
                                             `Value == Value` and `Hash for Value` on objects are the
                                             derived ones of `ObjectRef` = the raw address (the
                                             forward-aware `PartialEq for List` is never used by `==`,
                                             `contains`, `position` or the map)
* laythe_vm/src/fiber/mod.rs                 Fiber::scan_roots: every slot of the *current* fiber's
                                             stack array (live or dead); a slot holding a forwarded
                                             list is rewritten by ONE hop; the elements of a list /
                                             tuple / instance and the *values* (not keys) of a map
                                             held directly in a slot are rewritten by one hop; boxes,
                                             closures, module variables, other fibers, channel
                                             buffers and deeper levels are not visited
* laythe_lib/src/global/primitives/{list,map,tuple}.rs   the natives (order of reads/scans kept)
* laythe_vm/src/vm/ops.rs                    call_native: `with_stack()` natives get a *copy* of the
                                             argument slice, the others the stack slice itself;
                                             `check_native_arity` rejects a non-number `index` before
                                             the native runs
* rejected operations                        every failing branch of the list natives (fractional /
                                             negative / out-of-range / non-number index, `determine_index`)
                                             raises: `Call::Err` → `Fiber::stack_unwind` to the handler
                                             pushed by `try` (PushHandler) or, without one, the end of
                                             the run.  `List::insert` checks the bound BEFORE
                                             `ensure_capacity`, so a rejected insert never relocates.

Heap mutations go through a tiny command language (`HCmd`) so that well-formedness and the
immutability of identities are proved once for *every* program of the machine (Props/C10.lean).
Core Lean only.
-/
namespace LaytheVerif.ListFwd

/-- addresses are natural numbers; allocation is a bump pointer, nothing is ever reused -/
abbrev Addr := Nat

/-- `Value` (unboxed variant).  `bound a` is a `Method` object binding receiver `a`
(`GetPropByName` on a non-instance); `undef` doubles as any non-collection object the history
does not care about (functions, classes, channels, strings, error instances).  `neg k` is the number
`-(k+1)`, `frac n` the number `n + 1/2` (only ever used as rejected / normalised indexes). -/
inductive Val where
  | undef | nil | bool (b : Bool) | num (n : Nat) | ref (a : Nat) | bound (a : Nat)
  | neg (k : Nat) | frac (n : Nat)
  deriving DecidableEq, Repr, Inhabited

/-- Objects that never relocate. `clos c`: a closure with one capture (a box). -/
inductive OCell where
  | tuple (items : List Val)
  | inst (fields : List Val)
  | map (entries : List (Val × Val))
  | box (v : Val)
  | clos (cap : Val)
  deriving DecidableEq, Repr

/-- One allocation.  `vec oid cap items` is `ListLocation::Here(cap)`; `oid` is a ghost field:
the address the list had when it was created (never read by the model's operations).
`fwd to` is `ListLocation::Forwarded(to)`. -/
inductive Cell where
  | free
  | vec (oid cap : Nat) (items : List Val)
  | fwd (to : Nat)
  | obj (o : OCell)
  deriving DecidableEq, Repr, Inhabited

structure Heap where
  mem : Nat → Cell
  next : Nat

def Heap.empty : Heap := ⟨fun _ => .free, 0⟩

def Heap.set (h : Heap) (a : Nat) (c : Cell) : Heap :=
  { h with mem := fun x => if x = a then c else h.mem x }

/-! ### the seven heap primitives -/

/-- `hooks.manage_obj(list!(..))` / `VecBuilder::new(slice, cap)`: a fresh vector; its identity is
its first address. -/
def Heap.allocVec (h : Heap) (cap : Nat) (items : List Val) : Heap × Nat :=
  ({ mem := fun x => if x = h.next then .vec h.next cap items else h.mem x, next := h.next + 1 }, h.next)

def Heap.allocObj (h : Heap) (o : OCell) : Heap × Nat :=
  ({ mem := fun x => if x = h.next then .obj o else h.mem x, next := h.next + 1 }, h.next)

/-- in-place write of the items of a `Here` vector (`write_value`/`write_len`/`ptr::copy`) -/
def Heap.setItems (h : Heap) (b : Nat) (items : List Val) : Heap :=
  match h.mem b with
  | .vec o cap _ => h.set b (.vec o cap items)
  | _ => h

def Heap.setObj (h : Heap) (a : Nat) (o : OCell) : Heap :=
  match h.mem a with
  | .obj _ => h.set a (.obj o)
  | _ => h

/-- `List::grow(cap, new_cap)`: allocate `VecBuilder::new(self, new_cap)`, then
`write_len(new_list); mark_moved(cap)` on the old header. -/
def Heap.grow (h : Heap) (b : Nat) (newCap : Nat) : Heap × Nat :=
  match h.mem b with
  | .vec o _ xs =>
    ({ mem := fun x => if x = h.next then .vec o newCap xs else if x = b then .fwd h.next else h.mem x,
       next := h.next + 1 }, h.next)
  | _ => (h, b)

/-- Programs over the heap.  Everything the machine does to the heap is one of these. -/
inductive HCmd (α : Type) where
  | ret (x : α)
  | read (a : Nat) (k : Cell → HCmd α)
  | limit (k : Nat → HCmd α)
  | allocVec (cap : Nat) (items : List Val) (k : Nat → HCmd α)
  | allocObj (o : OCell) (k : Nat → HCmd α)
  | setItems (b : Nat) (items : List Val) (k : HCmd α)
  | setObj (a : Nat) (o : OCell) (k : HCmd α)
  | grow (b : Nat) (newCap : Nat) (k : Nat → HCmd α)

namespace HCmd

def run : HCmd α → Heap → α × Heap
  | .ret x, h => (x, h)
  | .read a k, h => (k (h.mem a)).run h
  | .limit k, h => (k h.next).run h
  | .allocVec cap items k, h => (k (h.allocVec cap items).2).run (h.allocVec cap items).1
  | .allocObj o k, h => (k (h.allocObj o).2).run (h.allocObj o).1
  | .setItems b items k, h => k.run (h.setItems b items)
  | .setObj a o k, h => k.run (h.setObj a o)
  | .grow b nc k, h => (k (h.grow b nc).2).run (h.grow b nc).1

/-- number of relocations (`List::grow`) a program performs from `h` -/
def grows : HCmd α → Heap → Nat
  | .ret _, _ => 0
  | .read a k, h => (k (h.mem a)).grows h
  | .limit k, h => (k h.next).grows h
  | .allocVec cap items k, h => (k (h.allocVec cap items).2).grows (h.allocVec cap items).1
  | .allocObj o k, h => (k (h.allocObj o).2).grows (h.allocObj o).1
  | .setItems b items k, h => k.grows (h.setItems b items)
  | .setObj a o k, h => k.grows (h.setObj a o)
  | .grow b nc k, h => (match h.mem b with | .vec .. => 1 | _ => 0) + (k (h.grow b nc).2).grows (h.grow b nc).1

def bind : HCmd α → (α → HCmd β) → HCmd β
  | .ret x, f => f x
  | .read a k, f => .read a (fun c => (k c).bind f)
  | .limit k, f => .limit (fun n => (k n).bind f)
  | .allocVec cap items k, f => .allocVec cap items (fun a => (k a).bind f)
  | .allocObj o k, f => .allocObj o (fun a => (k a).bind f)
  | .setItems b items k, f => .setItems b items (k.bind f)
  | .setObj a o k, f => .setObj a o (k.bind f)
  | .grow b nc k, f => .grow b nc (fun a => (k a).bind f)

instance : Monad HCmd where
  pure := .ret
  bind := HCmd.bind

def readM (a : Nat) : HCmd Cell := .read a .ret
def limitM : HCmd Nat := .limit .ret
def allocVecM (cap : Nat) (items : List Val) : HCmd Nat := .allocVec cap items .ret
def allocObjM (o : OCell) : HCmd Nat := .allocObj o .ret
def setItemsM (b : Nat) (items : List Val) : HCmd Unit := .setItems b items (.ret ())
def setObjM (a : Nat) (o : OCell) : HCmd Unit := .setObj a o (.ret ())
def growM (b : Nat) (nc : Nat) : HCmd Nat := .grow b nc .ret

end HCmd
open HCmd

/-! ### following the forward (pure versions, used by the Spec functions and the theorems) -/

/-- `RawSharedVector::as_alloc_ptr` with fuel -/
def resolve (h : Heap) : Nat → Nat → Nat
  | 0, a => a
  | f + 1, a => match h.mem a with
    | .fwd t => resolve h f t
    | _ => a

/-- the allocation an address finally denotes -/
def final (h : Heap) (a : Nat) : Nat := resolve h h.next a

/-- contents read through alias `a` (`Deref for List`: `item_ptr(0)`, `len()` follow the forward) -/
def items (h : Heap) (a : Nat) : List Val :=
  match h.mem (final h a) with
  | .vec _ _ xs => xs
  | _ => []

/-- **Spec identity** of an object: for a list, the address it was created at (ghost `oid` of the
vector its alias finally denotes); for anything else its address. -/
def ident (h : Heap) (a : Nat) : Nat :=
  match h.mem (final h a) with
  | .vec o _ _ => o
  | _ => a

/-- `List::has_moved` on the header at `a` -/
def isFwd (h : Heap) (a : Nat) : Bool :=
  match h.mem a with
  | .fwd _ => true
  | _ => false

/-! ### `List` (list.rs), every operation with the shape
`match self.state() { Here(cap) => …, Forwarded(l) => l.op(…) }` -/

/-- the shared shape of every `List` method -/
def withHere (dflt : β) (act : Nat → Nat → Nat → List Val → HCmd β) : Nat → Nat → HCmd β
  | 0, _ => pure dflt
  | f + 1, a => .read a fun c =>
    match c with
    | .vec o cap xs => act a o cap xs
    | .fwd t => withHere dflt act f t
    | _ => pure dflt

/-- `ensure_capacity(needed, cap)`: `if needed > cap { self.grow(cap, (cap * 2).max(needed)) } else { *self }`
(the `.max(needed)` is the repair of the capacity-0 defect D42/DC16.8: doubling 0 made no room).
`reloc = false` is the **Spec**: a list never relocates. -/
def ensureCapacity (reloc : Bool) (b : Nat) (needed cap : Nat) : HCmd Nat :=
  if reloc && needed > cap then growM b (max (cap * 2) needed) else pure b

/-- `List::push` -/
def listPush (reloc : Bool) (fuel : Nat) (a : Nat) (v : Val) : HCmd Unit :=
  withHere () (fun b _ cap xs => do
    let l ← ensureCapacity reloc b (xs.length + 1) cap
    setItemsM l (xs ++ [v])) fuel a

/-- insert `v` before position `i` (`ptr::copy` + `write_value`) -/
def insertAt : List Val → Nat → Val → List Val
  | xs, 0, v => v :: xs
  | [], _ + 1, v => [v]
  | x :: xs, i + 1, v => x :: insertAt xs i v

/-- `List::insert`; `false` = `IndexedResult::OutOfBounds` -/
def listInsert (reloc : Bool) (fuel : Nat) (a : Nat) (i : Nat) (v : Val) : HCmd Bool :=
  withHere false (fun b _ cap xs =>
    if i > xs.length then pure false else do
      let l ← ensureCapacity reloc b (xs.length + 1) cap
      setItemsM l (insertAt xs i v)
      pure true) fuel a

/-- `List::pop` -/
def listPop (fuel : Nat) (a : Nat) : HCmd (Option Val) :=
  withHere none (fun b _ _ xs =>
    match xs.getLast? with
    | none => pure none
    | some v => do setItemsM b xs.dropLast; pure (some v)) fuel a

/-- `List::remove` -/
def listRemove (fuel : Nat) (a : Nat) (i : Nat) : HCmd (Option Val) :=
  withHere none (fun b _ _ xs =>
    match xs[i]? with
    | none => pure none
    | some v => do setItemsM b (xs.eraseIdx i); pure (some v)) fuel a

/-- `Deref for List` -/
def listItems (fuel : Nat) (a : Nat) : HCmd (List Val) :=
  withHere [] (fun _ _ _ xs => pure xs) fuel a

/-- `DerefMut for List`, `list[i] = v` -/
def listSet (fuel : Nat) (a : Nat) (i : Nat) (v : Val) : HCmd Unit :=
  withHere () (fun b _ _ xs => setItemsM b (xs.set i v)) fuel a

/-- `while list.pop().is_some() {}` -/
def listClear (fuel : Nat) (a : Nat) : HCmd Unit :=
  withHere () (fun b _ _ _ => setItemsM b []) fuel a

/-- overwrite the items wholesale (used by `scan_roots`' `compact_slice(&mut list)`) -/
def listReplace (fuel : Nat) (a : Nat) (f : List Val → HCmd (List Val)) : HCmd Unit :=
  withHere () (fun b _ _ xs => do let ys ← f xs; setItemsM b ys) fuel a

def hasMoved (a : Nat) : HCmd Bool := do
  let c ← readM a
  pure (match c with | .fwd _ => true | _ => false)

/-! ### `Value` equality and hash (value.rs, obj_reference.rs) -/

/-- `impl PartialEq for Value`: objects by `ObjectRef` = raw address. -/
def Val.eqv (v w : Val) : Bool := v == w

/-- `impl Hash for Value` up to the hasher: kind tag, then number / address. -/
def Val.hash : Val → Nat × Nat
  | .undef => (0, 0) | .nil => (1, 0) | .bool b => (2, b.toNat) | .num n => (3, n)
  | .ref a => (4, a) | .bound a => (4, a)
  | .neg k => (5, k) | .frac n => (6, n)

/-- `hashbrown::HashMap::get`: same hash, then `==`. -/
def mapFind (es : List (Val × Val)) (k : Val) : Option Val :=
  (es.find? (fun e => e.1.hash == k.hash && e.1.eqv k)).map (·.2)

/-- `HashMap::insert`: an existing equal key keeps its key object; the value is replaced. -/
def mapInsert : List (Val × Val) → Val → Val → List (Val × Val)
  | [], k, v => [(k, v)]
  | e :: es, k, v => if e.1.hash == k.hash && e.1.eqv k then (e.1, v) :: es else e :: mapInsert es k v

def mapErase (es : List (Val × Val)) (k : Val) : List (Val × Val) :=
  es.filter (fun e => !(e.1.hash == k.hash && e.1.eqv k))

/-- `slice.iter().position(|x| *x == item)` -/
def position (xs : List Val) (v : Val) : Option Nat :=
  let i := xs.findIdx (fun x => x.eqv v)
  if i < xs.length then some i else none

/-! ### how the list natives read their `index` parameter (laythe_lib/src/global/primitives/list.rs) -/

/-- the `index` argument as the natives see it: a non-negative integer, a negative integer `-(k+1)`,
a number with a fractional part, or not a number at all (rejected by `check_native_arity`) -/
inductive Ix where
  | nat (i : Nat) | neg (k : Nat) | frac | notNum
  deriving DecidableEq, Repr

def ixOf : Val → Ix
  | .num n => .nat n | .neg k => .neg k | .frac _ => .frac | _ => .notNum

/-- `determine_index(list, index)` (ListIndexGet / ListIndexSet): fractional → Err; negative `-j`:
`j > len` → Err, else `len - j`; otherwise `index >= len` → Err. -/
def determineIndex (len : Nat) : Ix → Option Nat
  | .nat i => if i ≥ len then none else some i
  | .neg k => if k + 1 > len then none else some (len - (k + 1))
  | _ => none

/-- the guards of ListInsert / ListRemove before they touch the list: `index.fract() != 0.0` → error,
`index < 0.0` → error, otherwise `index as usize` -/
def guardIndex : Ix → Option Nat
  | .nat i => some i
  | _ => none

/-! ### `Fiber::scan_roots` -/

/-- `compact_value` → `forward_list`: one hop -/
def compactVal (v : Val) : HCmd Val :=
  match v with
  | .ref x => .read x fun c =>
    match c with
    | .fwd t => pure (.ref t)
    | _ => pure v
  | _ => pure v

/-- `compact_slice` -/
def compactSlice : List Val → HCmd (List Val)
  | [] => pure []
  | v :: vs => do
    let v' ← compactVal v
    let vs' ← compactSlice vs
    pure (v' :: vs')

def compactEntries : List (Val × Val) → HCmd (List (Val × Val))
  | [] => pure []
  | (k, v) :: es => do
    let v' ← compactVal v
    let es' ← compactEntries es
    pure ((k, v') :: es')

/-- the body of the loop over `self.stack.iter_mut()` for one slot; returns the slot's new value -/
def scanSlot (fuel : Nat) (v : Val) : HCmd Val :=
  match v with
  | .ref a => .read a fun c =>
    match c with
    | .vec .. => do            -- forward_list: Here, nothing; compact_slice(&mut list)
      listReplace fuel a compactSlice
      pure v
    | .fwd t => do             -- forward_list: *value = val!(forwarded); compact_slice(&mut list) follows the forward
      listReplace fuel a compactSlice
      pure (.ref t)
    | .obj (.tuple xs) => do
      let ys ← compactSlice xs
      setObjM a (.tuple ys)
      pure v
    | .obj (.inst xs) => do
      let ys ← compactSlice xs
      setObjM a (.inst ys)
      pure v
    | .obj (.map es) => do
      let es' ← compactEntries es
      setObjM a (.map es')
      pure v
    | _ => pure v
  | _ => pure v

def scanStack (fuel : Nat) : List Val → HCmd (List Val)
  | [] => pure []
  | v :: vs => do
    let v' ← scanSlot fuel v
    let vs' ← scanStack fuel vs
    pure (v' :: vs')

/-! ### the machine: fibers with stack arrays (dead slots keep their values), module variables -/

structure Fiber where
  stack : List Val := []
  top : Nat := 0
  deriving Repr, Inhabited

def padTo (xs : List Val) (n : Nat) : List Val := xs ++ List.replicate (n - xs.length) .undef

def Fiber.get (f : Fiber) (i : Nat) : Val := f.stack.getD i .undef
def Fiber.setSlot (f : Fiber) (i : Nat) (v : Val) : Fiber :=
  { f with stack := (padTo f.stack (i + 1)).set i v }
def Fiber.push (f : Fiber) (v : Val) : Fiber := { f.setSlot f.top v with top := f.top + 1 }
def Fiber.drop (f : Fiber) (n : Nat := 1) : Fiber := { f with top := f.top - n }
/-- `peek(d)` -/
def Fiber.peek (f : Fiber) (d : Nat := 0) : Val := f.get (f.top - 1 - d)
def Fiber.peekSet (f : Fiber) (d : Nat) (v : Val) : Fiber := f.setSlot (f.top - 1 - d) v
/-- `stack_slice(n)` -/
def Fiber.slice (f : Fiber) (n : Nat) : List Val := (List.range n).map (fun i => f.get (f.top - n + i))

structure M where
  globals : List Val := []
  fibers : List Fiber := [{ stack := [.undef, .undef], top := 2 }]
  cur : Nat := 0
  chans : List Val := []
  out : List String := []
  halted : Bool := false
  skip : Nat := 0
  scans : Nat := 0
  /-- `Fiber::exception_handlers` of all fibers: (fiber, `slot_depth` as an absolute stack top), innermost first -/
  handlers : List (Nat × Nat) := []
  /-- an error was raised and the run is on its way to the catch clause (ops are skipped up to `catchb`) -/
  unwinding : Bool := false
  /-- ghost: number of errors raised so far -/
  raises : Nat := 0
  deriving Repr, Inhabited

def M.fib (m : M) : Fiber := m.fibers.getD m.cur ({} : Fiber)
def M.setFib (m : M) (f : Fiber) : M :=
  { m with fibers := (m.fibers ++ List.replicate (m.cur + 1 - m.fibers.length) ({} : Fiber)).set m.cur f }
def M.push (m : M) (v : Val) : M := m.setFib (m.fib.push v)
def M.drop (m : M) (n : Nat := 1) : M := m.setFib (m.fib.drop n)
def M.peek (m : M) (d : Nat := 0) : Val := m.fib.peek d
def M.emit (m : M) (s : String) : M := { m with out := s :: m.out }

def setD (xs : List Val) (i : Nat) (v : Val) : List Val := (padTo xs (i + 1)).set i v

/-- `hooks.scan_roots()` = `self.fiber.scan_roots()` on the running fiber -/
def M.scanRoots (m : M) : HCmd M := do
  let fuel ← limitM
  let st ← scanStack fuel m.fib.stack
  pure { m.setFib { m.fib with stack := st } with scans := m.scans + 1 }

def M.scanIfMoved (m : M) (a : Nat) : HCmd M := do
  if (← hasMoved a) then m.scanRoots else pure m

/-- a native returns `Call::Err(error)`: `call_error` has pushed the error class and the message
above the arguments (the instance replaces the class; all dead after the unwind);
`Fiber::stack_unwind` resets `stack_top` to `stack_start + slot_depth` of the innermost handler of
the running fiber and execution continues at the catch clause.  Without a handler the error is
printed and the whole run ends. -/
def M.raise (m : M) (name : String) : M :=
  let m := { m with raises := m.raises + 1 }
  match m.handlers.find? (fun hd => hd.1 == m.cur) with
  | some hd =>
    let m := (m.push .undef).push .undef
    { m.setFib { m.fib with top := hd.2 } with unwinding := true }
  | none => { m.emit name with halted := true }

inductive Native where
  | lpush | lpop | lhas | lindex | lclear | llen | lget | lset | linsert | lremove
  | mget | mset | mgetm | mhas | mremove | mlen
  | tget | thas | tindex | tlen
  deriving DecidableEq, Repr

/-- `check_native_arity`: the parameter declared `ParameterKind::Number` of each list native (position
in the argument slice, receiver = 0); a value of another kind is a TypeError before the native runs -/
def numberParam : Native → Option Nat
  | .lget => some 1 | .lset => some 2 | .linsert => some 1 | .lremove => some 1
  | _ => none

inductive Op where
  | const (n : Nat) | nil | pushfn
  | getl (i : Nat) | setl (i : Nat) | getg (i : Nat) | setg (i : Nat)
  | getbox (i : Nat) | setbox (i : Nat) | emptybox | fillbox
  | drop | list (n : Nat) | tuple (n : Nat) | map (n : Nat) | newinst (nf : Nat)
  | getf (j : Nat) | setf (j : Nat)
  | bind | call (f : Native) (argc : Nat) | eq | closure (slot : Nat) | callget
  | print | scrub
  | launch (argc : Nat) | switch (f : Nat) | send (ch : Nat) | recv (ch : Nat)
  | jf (n : Nat)
  | cneg (k : Nat) | cfrac (n : Nat)
  | tryb | trye (n : Nat) | catchb | endc | say (k : Nat)
  deriving DecidableEq, Repr

def showVal : Val → String
  | .nil => "nil" | .bool true => "true" | .bool false => "false" | .num n => toString n
  | .undef => "undef" | .ref _ => "obj" | .bound _ => "method"
  | .neg k => "-" ++ toString (k + 1) | .frac n => toString n ++ ".5"

def refAddr : Val → Nat
  | .ref a => a | .bound a => a | _ => 0

def optVal : Option Val → Val
  | some v => v | none => .nil

def sigRejects (f : Native) (c : Nat → Val) : Bool :=
  match numberParam f with
  | some i => ixOf (c i) == .notNum
  | none => false

/-- finish a native call: `drop_n(argc + 1); push(result)` (StackLess) or `pop_frame(); push(result)`
(Normal); identical net effect on the stack array -/
def M.ret (m : M) (argc : Nat) (v : Val) : M := (m.drop (argc + 1)).push v

/-- how a native call ends: `Call::Ok(value)` or `Call::Err(error)` (class name of the error) -/
inductive Outcome where
  | ok (v : Val) | err (name : String)
  deriving DecidableEq, Repr

/-- the receiver of a native call with `argc` arguments: the slot below the arguments -/
def M.recvOf (m : M) (argc : Nat) : Nat := refAddr (m.fib.get (m.fib.top - (argc + 1)))

/-- the natives, reads and scans in the order of the Rust text; returns the machine after the scans
(the stack may have been rewritten) and the outcome.  `a i` re-reads argument `i` from
the *stack* (StackLess natives see slots rewritten by an earlier scan); `c i` is the copy taken
before the call (Normal natives, `args.to_vec()`). -/
def nativeBody (reloc : Bool) (m : M) (f : Native) (argc : Nat) : HCmd (M × Outcome) := do
  let fuel ← limitM
  let base := m.fib.top - (argc + 1)
  let c := fun (i : Nat) => m.fib.get (base + i)
  let recv := refAddr (c 0)
  -- check_native_arity: a `Number` parameter that is not a number is a TypeError, the native does not run
  if sigRejects f c then pure (m, .err "TypeError") else
  match f with
  | .lpush =>            -- ListPush (StackLess): push every arg, then `if list.has_moved() { scan_roots }`
    let rec pushAll : List Val → HCmd Unit
      | [] => pure ()
      | v :: vs => do listPush reloc fuel recv v; pushAll vs
    pushAll (m.fib.slice argc)
    let m ← m.scanIfMoved recv
    pure (m, .ok .nil)
  | .lpop =>             -- ListPop: scan first, then `args[0]…pop()` (re-read)
    let m ← m.scanIfMoved recv
    let r ← listPop fuel (refAddr (m.fib.get base))
    pure (m, .ok (optVal r))
  | .lhas =>             -- ListHas: scan first, then `args[0]…contains(&args[1])` (both re-read)
    let m ← m.scanIfMoved recv
    let xs ← listItems fuel (refAddr (m.fib.get base))
    pure (m, .ok (.bool (xs.any (fun x => x.eqv (m.fib.get (base + 1))))))
  | .lindex =>           -- ListIndex: `position` first (item read before), scan afterwards
    let xs ← listItems fuel recv
    let r := position xs (c 1)
    let m ← m.scanIfMoved recv
    pure (m, .ok (match r with | some i => .num i | none => .nil))
  | .lclear =>
    listClear fuel recv
    let m ← m.scanIfMoved recv
    pure (m, .ok .nil)
  | .llen =>
    let xs ← listItems fuel recv
    pure (m, .ok (.num xs.length))
  | .lget =>             -- ListIndexGet (Normal): scan, then `determine_index`: list[index] or the error
    let m ← m.scanIfMoved recv
    let xs ← listItems fuel recv
    match determineIndex xs.length (ixOf (c 1)) with
    | some i => pure (m, .ok (xs.getD i .undef))
    | none => pure (m, .err "IndexError")
  | .lset =>             -- ListIndexSet (Normal): args = [recv, val, index] copies; scan; `determine_index`; list[index] = args[1]
    let m ← m.scanIfMoved recv
    let xs ← listItems fuel recv
    match determineIndex xs.length (ixOf (c 2)) with
    | some i => do
      listSet fuel recv i (c 1)
      pure (m, .ok (c 1))
    | none => pure (m, .err "IndexError")
  | .linsert =>          -- ListInsert (Normal): args = [recv, index, val]; fractional / negative index → error before
    match guardIndex (ixOf (c 1)) with     -- anything else; insert, then scan, then the error for OutOfBounds
    | some i =>
      let ok ← listInsert reloc fuel recv i (c 2)
      let m ← m.scanIfMoved recv
      if ok then pure (m, .ok .nil) else pure (m, .err "IndexError")
    | none => pure (m, .err "IndexError")
  | .lremove =>          -- ListRemove (Normal): fractional / negative index → error; scan; remove; OutOfBounds → error
    match guardIndex (ixOf (c 1)) with
    | some i =>
      let m ← m.scanIfMoved recv
      let r ← listRemove fuel recv i
      match r with
      | some v => pure (m, .ok v)
      | none => pure (m, .err "IndexError")
    | none => pure (m, .err "IndexError")
  | .mget =>             -- MapIndexGet: KeyError when absent
    match (← readM recv) with
    | .obj (.map es) =>
      match mapFind es (c 1) with
      | some v => pure (m, .ok v)
      | none => pure (m, .err "KeyError")
    | _ => pure (m, .ok .undef)
  | .mset =>             -- MapIndexSet: args = [recv, val, key]
    match (← readM recv) with
    | .obj (.map es) => do
      setObjM recv (.map (mapInsert es (c 2) (c 1)))
      pure (m, .ok (c 1))
    | _ => pure (m, .ok .undef)
  | .mgetm =>            -- MapGet: nil when absent
    match (← readM recv) with
    | .obj (.map es) => pure (m, .ok (optVal (mapFind es (c 1))))
    | _ => pure (m, .ok .undef)
  | .mhas =>
    match (← readM recv) with
    | .obj (.map es) => pure (m, .ok (.bool (mapFind es (c 1)).isSome))
    | _ => pure (m, .ok .undef)
  | .mremove =>
    match (← readM recv) with
    | .obj (.map es) =>
      match mapFind es (c 1) with
      | some v => do
        setObjM recv (.map (mapErase es (c 1)))
        pure (m, .ok v)
      | none => pure (m, .err "KeyError")
    | _ => pure (m, .ok .undef)
  | .mlen =>
    match (← readM recv) with
    | .obj (.map es) => pure (m, .ok (.num es.length))
    | _ => pure (m, .ok .undef)
  | .tget =>
    match (← readM recv) with
    | .obj (.tuple xs) =>
      let i := match c 1 with | .num i => i | _ => 0
      pure (m, .ok (xs.getD i .undef))
    | _ => pure (m, .ok .undef)
  | .thas =>
    match (← readM recv) with
    | .obj (.tuple xs) => pure (m, .ok (.bool (xs.any (fun x => x.eqv (c 1)))))
    | _ => pure (m, .ok .undef)
  | .tindex =>
    match (← readM recv) with
    | .obj (.tuple xs) => pure (m, .ok (match position xs (c 1) with | some i => .num i | none => .nil))
    | _ => pure (m, .ok .undef)
  | .tlen =>
    match (← readM recv) with
    | .obj (.tuple xs) => pure (m, .ok (.num xs.length))
    | _ => pure (m, .ok .undef)

/-- `call_native`: run the native, then either `drop_n(argc + 1); push(result)` or the unwind -/
def callNative (reloc : Bool) (m : M) (f : Native) (argc : Nat) : HCmd M := do
  let r ← nativeBody reloc m f argc
  match r.2 with
  | .ok v => pure (r.1.ret argc v)
  | .err name => pure (r.1.raise name)

/-- pairs `(key, value)` of a map literal, in `op_map`'s insertion order (`peek(2i+1)`, `peek(2i)`) -/
def mapPairs (f : Fiber) (n : Nat) : List (Val × Val) :=
  (List.range n).map (fun i => (f.peek (2 * i + 1), f.peek (2 * i)))

/-- One micro-operation (≈ one bytecode instruction or one call) of the running fiber. -/
def step (reloc : Bool) (m : M) (op : Op) : HCmd M :=
  if m.halted then pure m else
  if m.unwinding then
    -- the catch clause: `GetGlobal Error; CheckHandler` (class pushed and dropped), `FinishUnwind`,
    -- `PopHandler`, `GetError` (the error instance becomes the local `e`)
    (match op with
     | .catchb => pure ({ m with unwinding := false, handlers := m.handlers.eraseP (fun hd => hd.1 == m.cur) }.push .undef)
     | _ => pure m) else
  if m.skip > 0 then pure { m with skip := m.skip - 1 } else
  match op with
  | .cneg k => pure (m.push (.neg k))
  | .cfrac n => pure (m.push (.frac n))
  | .tryb =>                -- PushHandler(slot_depth, catch label)
    pure { m with handlers := (m.cur, m.fib.top) :: m.handlers }
  | .trye n =>              -- end of the try body: PopHandler; Jump over the catch clause (`n` micro-operations)
    pure { m with handlers := m.handlers.eraseP (fun hd => hd.1 == m.cur), skip := n }
  | .catchb => pure m       -- only entered by an unwind
  | .endc => pure m.drop    -- end of the catch scope: the local `e` is dropped
  | .say k =>               -- `print("rejected")` / `print("accepted")`: [print fn, string] → [nil], stack effect of `print`
    let m := (m.push .undef).drop
    pure (((m.drop 2).push .nil).emit (if k = 0 then "rejected" else "accepted"))
  | .jf n =>                -- JumpIfFalse over the next `n` micro-operations (pops the condition)
    let m' := m.drop
    pure (match m.peek with | .bool false => { m' with skip := n } | .nil => { m' with skip := n } | _ => m')
  | .const n => pure (m.push (.num n))
  | .nil => pure (m.push .nil)
  | .pushfn => pure (m.push .undef)
  | .getl i => pure (m.push (m.fib.get i))
  | .setl i => pure (m.setFib (m.fib.setSlot i m.peek))
  | .getg i => pure (m.push (m.globals.getD i .nil))
  | .setg i => pure { m with globals := setD m.globals i m.peek }
  | .getbox i => do
    match (← readM (refAddr (m.fib.get i))) with
    | .obj (.box v) => pure (m.push v)
    | _ => pure (m.push .undef)
  | .setbox i => do
    setObjM (refAddr (m.fib.get i)) (.box m.peek)
    pure m
  | .emptybox => do
    let a ← allocObjM (.box .undef)
    pure (m.push (.ref a))
  | .fillbox => do
    let v := m.peek
    let m := m.drop
    setObjM (refAddr m.peek) (.box v)
    pure m
  | .drop => pure m.drop
  | .list n => do           -- op_list: `list!(args)` has capacity max(len, 4)
    let a ← allocVecM (max n 4) (m.fib.slice n)
    pure ((m.drop n).push (.ref a))
  | .tuple n => do
    let a ← allocObjM (.tuple (m.fib.slice n))
    pure ((m.drop n).push (.ref a))
  | .map n => do
    let es := (mapPairs m.fib n).foldl (fun es kv => mapInsert es kv.1 kv.2) []
    let a ← allocObjM (.map es)
    pure ((m.drop (2 * n)).push (.ref a))
  | .newinst nf => do       -- `Obj()`: call_class puts the instance in the callee slot; `init` runs with self in its slot 0
    let a ← allocObjM (.inst (List.replicate nf .nil))
    let m := m.push (.ref a)
    -- init's body `self.f_j = nil;` pushes `self` and `nil` above the instance (SetPropByName leaves the nil, dropped); its
    -- last `GetLocal 0; Return` leaves a dead copy of `self` directly above the result, the `nil` one slot further up stays
    let f := m.fib.setSlot m.fib.top (.ref a)
    pure (m.setFib (if nf > 0 then f.setSlot (m.fib.top + 1) .nil else f))
  | .getf j => do           -- GetPropByName on an instance field
    match (← readM (refAddr m.peek)) with
    | .obj (.inst fs) => pure (m.setFib (m.fib.peekSet 0 (fs.getD j .undef)))
    | _ => pure m
  | .setf j => do           -- SetPropByName: [instance, value] → [value]
    let v := m.peek
    let a := refAddr (m.peek 1)
    match (← readM a) with
    | .obj (.inst fs) => do
      setObjM a (.inst (fs.set j v))
      pure ((m.drop 2).push v)
    | _ => pure ((m.drop 2).push v)
  | .bind => pure (m.setFib (m.fib.peekSet 0 (.bound (refAddr m.peek))))
  | .call f argc =>         -- call_method: `peek_set(arg_count, bound.receiver())`, then the native
    let m := match m.peek argc with
      | .bound a => m.setFib (m.fib.peekSet argc (.ref a))
      | _ => m
    callNative reloc m f argc
  | .eq => pure ((m.drop 2).push (.bool ((m.peek 1).eqv m.peek)))
  | .closure slot => do     -- Closure + CaptureIndex Local slot (the slot holds the box)
    let a ← allocObjM (.clos (m.fib.get slot))
    pure (m.push (.ref a))
  | .callget => do          -- `c()` with body `GetCapture 0; Return`
    match (← readM (refAddr m.peek)) with
    | .obj (.clos b) =>
      match (← readM (refAddr b)) with
      | .obj (.box v) =>
        -- the callee pushed `v` above its slot 0, `Return` copies it down
        let m := m.push v
        pure ((m.drop 2).push v)
      | _ => pure m
    | _ => pure m
  | .print => do            -- [print fn, value] → [nil]; `hooks.call_method(args[0], str, [])` pushes `this`
    let v := m.peek         -- above the argument and leaves the resulting string there (dead)
    let m := (m.push .undef).drop
    pure (((m.drop 2).push .nil).emit (showVal v))
  | .scrub =>               -- `scrub(0,0,0,0,0,0,0,0);` [closure, 0 ×8] → result nil, dropped
    let f := (List.range 9).foldl (fun (f : Fiber) i => f.setSlot (f.top + i) (if i = 0 then .nil else .num 0)) m.fib
    pure (m.setFib f)
  | .launch argc =>         -- Fiber::split: the new fiber's stack is [fun, args…]
    let args := m.fib.slice argc
    let m := m.drop (argc + 1)
    pure { m with fibers := m.fibers ++ [{ stack := .undef :: args, top := argc + 1 }] }
  | .switch f => pure { m with cur := f }
  | .send ch =>             -- op_send: [value, channel] → [value]; the value is copied into the channel
    let m := m.drop
    pure { m with chans := setD m.chans ch m.peek }
  | .recv ch =>             -- op_receive: [channel] → [value]
    pure ((m.drop).push (m.chans.getD ch .nil))

/-- A whole history: heap and machine threaded through `step`. -/
def runOps (reloc : Bool) : List Op → Heap → M → Heap × M
  | [], h, m => (h, m)
  | op :: ops, h, m =>
    let r := (step reloc m op).run h
    runOps reloc ops r.2 r.1

/-! ### the Spec's observations on a model state (identity instead of address) -/

/-- Spec `==`: same identity. -/
def specEq (h : Heap) : Val → Val → Bool
  | .ref a, .ref b => ident h a == ident h b
  | v, w => v == w

def specMapFind (h : Heap) (es : List (Val × Val)) (k : Val) : Option Val :=
  (es.find? (fun e => specEq h e.1 k)).map (·.2)

def specHas (h : Heap) (xs : List Val) (v : Val) : Bool := xs.any (fun x => specEq h x v)

def specPosition (h : Heap) (xs : List Val) (v : Val) : Option Nat :=
  let i := xs.findIdx (fun x => specEq h x v)
  if i < xs.length then some i else none

/-- a value that does not point at a forwarded header -/
def fresh (h : Heap) : Val → Bool
  | .ref a => !isFwd h a
  | _ => true

end LaytheVerif.ListFwd
