/-
Model of the iterator protocol and the adaptors of Laythe (C11), branch for branch from

  laythe_core/src/object/enumerator.rs           (Enumerator: `next` caches `current`)
  laythe_lib/src/global/primitives/iter.rs       (take, skip, map, filter, zip, chain, reduce, each, all, any,
                                                  first, last, len, list, into)
  laythe_lib/src/global/primitives/{list,tuple,string,number}.rs   (the sources)

An iterator is a state machine `Iter`: a state, `next : S → σ → Out × S × σ`, `cur : S → α`.  `σ` is the
rest of the program's state (whatever callbacks can read and write), so a callback is a state-passing
function `α → σ → Except ε α × σ` and the order of callback invocations is observable in `σ`.
An adaptor *owns* the iterator it wraps (`ObjRef<Enumerator>` with a single user); aliasing an inner
iterator from the program is outside the model.  Loops that the Rust code runs "until the inner iterator
is exhausted" take fuel from the ghost field `bound`; `WB` (proved for every iterator the API can build)
says the fuel always suffices.
-/
import LaytheVerif.Model.Collections
namespace LaytheVerif.Coll

/-- what the iterator natives need to know about values -/
class ValLike (α : Type) where
  nil : α
  /-- `!is_falsey(v)` -/
  truthy : α → Bool
  /-- a Tuple value (what `zip` yields) -/
  tup : List α → α
  /-- a number value -/
  num : Int → α

/-- result of `next`: `Call::Ok(val!(b))` or `Call::Err` -/
inductive Out (ε : Type) where
  | ok (b : Bool)
  | err (e : ε)
  deriving Repr, DecidableEq

/-- a callback taking one argument / two arguments -/
abbrev Cb (α σ ε : Type) := α → σ → Except ε α × σ
abbrev Cb2 (α σ ε : Type) := α → α → σ → Except ε α × σ

/-- An `ObjRef<Enumerator>` together with the `Box<dyn Enumerate>` it owns. -/
structure Iter (α σ ε : Type) where
  S : Type
  st : S
  /-- `Enumerator::next` -/
  next : S → σ → Out ε × S × σ
  /-- `Enumerator::current` -/
  cur : S → α
  /-- `Enumerator::size_hint` -/
  hint : S → Option Nat
  /-- ghost: an upper bound on the number of further `true` results -/
  bound : S → Nat

namespace Iter
variable {α σ ε : Type}

/-- one `next` on the packaged iterator -/
def step (it : Iter α σ ε) (w : σ) : Out ε × Iter α σ ε × σ :=
  ((it.next it.st w).1, { it with st := (it.next it.st w).2.1 }, (it.next it.st w).2.2)

def current (it : Iter α σ ε) : α := it.cur it.st
def sizeHint (it : Iter α σ ε) : Option Nat := it.hint it.st

/-- the fuel always suffices: `next` never increases `bound` and decreases it when it yields -/
def WB (it : Iter α σ ε) : Prop :=
  ∀ s w, it.bound (it.next s w).2.1 ≤ it.bound s ∧
    ((it.next s w).1 = .ok true → it.bound (it.next s w).2.1 < it.bound s)

/-- `Enumerator::new(Box<dyn Enumerate>)`: `current` starts as nil; `next` runs the inner `next` and then
caches the inner `current` — whatever the result was. -/
@[reducible] def wrap [ValLike α] {S : Type} (st : S) (nextRaw : S → σ → Out ε × S × σ) (curRaw : S → α)
    (hint : S → Option Nat) (bound : S → Nat) : Iter α σ ε :=
  { S := S × α
    st := (st, ValLike.nil)
    next := fun s w => ((nextRaw s.1 w).1, ((nextRaw s.1 w).2.1, curRaw (nextRaw s.1 w).2.1), (nextRaw s.1 w).2.2)
    cur := fun s => s.2
    hint := fun s => hint s.1
    bound := fun s => bound s.1 }
end Iter

section Sources
variable {α σ ε : Type} [ValLike α]

/-- `ListIterator` / `TupleIterator` (`hinted = true`: `size_hint = Some(list.len().saturating_sub(index))`,
what is left), `StringIterator` / `SplitIterator` over the characters / pieces (`hinted = false`).
State = `(index, current)`. -/
@[reducible] def Iter.ofList (xs : List α) (hinted : Bool := true) : Iter α σ ε :=
  Iter.wrap (S := Nat × α) (0, ValLike.nil)
    (fun s w => if s.1 < xs.length then (.ok true, (s.1 + 1, xs.getD s.1 ValLike.nil), w)
                else (.ok false, (s.1, ValLike.nil), w))
    (fun s => s.2)
    (fun s => if hinted then some (xs.length - s.1) else none)
    (fun s => xs.length - s.1)

/-- `TimesIterator::new(max)`: `current = -1`, `max = max - 1`; `size_hint = Some((self.max - self.current) as usize)`.
(`NumberTimes` has rejected negative and fractional receivers.) -/
@[reducible] def Iter.times (max : Int) : Iter α σ ε :=
  Iter.wrap (S := Int) (-1)
    (fun c w => if c < max - 1 then (.ok true, c + 1, w) else (.ok false, c, w))
    (fun c => ValLike.num c)
    (fun c => some (max - 1 - c).toNat)
    (fun c => (max - 1 - c).toNat)

/-- `UntilIterator::new(min, max, stride)`: `current = min - stride`, `max = max - stride`. -/
@[reducible] def Iter.until (min max stride : Int) : Iter α σ ε :=
  Iter.wrap (S := Int) (min - stride)
    (fun c w => if c < max - stride then (.ok true, c + stride, w) else (.ok false, c, w))
    (fun c => ValLike.num c)
    (fun _ => none)
    (fun c => (max - stride - c).toNat)
end Sources

section Adaptors
variable {α σ ε : Type} [ValLike α]

/-- `TakeIterator { current, iter, take_count }`; `size_hint = inner.map(|h| h.min(take_count - current))` -/
@[reducible] def Iter.take (n : Nat) (it : Iter α σ ε) : Iter α σ ε :=
  Iter.wrap (S := Nat × it.S) (0, it.st)
    (fun s w =>
      if s.1 ≥ n then (.ok false, s, w)
      else match it.next s.2 w with
        | (.ok true, s', w') => (.ok true, (s.1 + 1, s'), w')
        | (.ok false, s', w') => (.ok false, (s.1, s'), w')
        | (.err e, s', w') => (.err e, (s.1, s'), w'))
    (fun s => it.cur s.2)
    (fun s => (it.hint s.2).map (fun h => min h (n - s.1)))
    (fun s => it.bound s.2)

/-- the loop at the head of `SkipIterator::next`, entered with `k = skip_count - current` rounds to go:
`while self.current < self.skip_count { if is_falsey(self.iter.next(hooks)?) { return false } self.current += 1 }`.
`.ok true` = the loop ran to its end. -/
def skipLoop (it : Iter α σ ε) : Nat → Nat → it.S → σ → Out ε × (Nat × it.S) × σ
  | 0, c, s, w => (.ok true, (c, s), w)
  | k + 1, c, s, w =>
    match it.next s w with
    | (.ok true, s', w') => skipLoop it k (c + 1) s' w'
    | (o, s', w') => (o, (c, s'), w')

/-- `SkipIterator { current, skip_count, iter }`: nothing is pulled when `skip` is called; the first `next`s
skip (a `next` that fails or finds the end while skipping leaves `current` where it got to), then `next` is
the inner `next`.  `size_hint = inner.map(|h| h.saturating_sub(skip_count - current))`. -/
@[reducible] def Iter.skip (n : Nat) (it : Iter α σ ε) : Iter α σ ε :=
  Iter.wrap (S := Nat × it.S) (0, it.st)
    (fun s w =>
      match skipLoop it (n - s.1) s.1 s.2 w with
      | (.ok true, s', w') => ((it.next s'.2 w').1, (s'.1, (it.next s'.2 w').2.1), (it.next s'.2 w').2.2)
      | r => r)
    (fun s => it.cur s.2)
    (fun s => (it.hint s.2).map (fun h => h - (n - s.1)))
    (fun s => it.bound s.2)

/-- `MapIterator { current, iter, callable }` -/
@[reducible] def Iter.map (f : Cb α σ ε) (it : Iter α σ ε) : Iter α σ ε :=
  Iter.wrap (S := α × it.S) (ValLike.nil, it.st)
    (fun s w =>
      match it.next s.2 w with
      | (.ok true, s', w') =>
        match f (it.cur s') w' with
        | (.ok v, w'') => (.ok true, (v, s'), w'')
        | (.error e, w'') => (.err e, (s.1, s'), w'')
      | (.ok false, s', w') => (.ok false, (s.1, s'), w')
      | (.err e, s', w') => (.err e, (s.1, s'), w'))
    (fun s => s.1)
    (fun s => it.hint s.2)
    (fun s => it.bound s.2)

/-- the `while` loop of `FilterIterator::next` -/
def filterLoop (it : Iter α σ ε) (p : Cb α σ ε) : Nat → α → it.S → σ → Out ε × (α × it.S) × σ
  | 0, c, s, w => (.ok false, (c, s), w)
  | k + 1, c, s, w =>
    match it.next s w with
    | (.ok true, s', w') =>
      match p (it.cur s') w' with
      | (.ok v, w'') => if ValLike.truthy v then (.ok true, (it.cur s', s'), w'') else filterLoop it p k c s' w''
      | (.error e, w'') => (.err e, (c, s'), w'')
    | (.ok false, s', w') => (.ok false, (c, s'), w')
    | (.err e, s', w') => (.err e, (c, s'), w')

/-- `FilterIterator { current, iter, callable }` -/
@[reducible] def Iter.filter (p : Cb α σ ε) (it : Iter α σ ε) : Iter α σ ε :=
  Iter.wrap (S := α × it.S) (ValLike.nil, it.st)
    (fun s w => filterLoop it p (it.bound s.2 + 1) s.1 s.2 w)
    (fun s => s.1)
    (fun _ => none)
    (fun s => it.bound s.2)

/-- A `Vec<ObjRef<Enumerator>>` (receiver first), as one state made of the members' states. -/
structure Multi (α σ ε : Type) where
  S : Type
  st : S
  n : Nat
  nextAt : Nat → S → σ → Out ε × S × σ
  curAt : Nat → S → α
  hintAt : Nat → S → Option Nat
  boundSum : S → Nat

def Multi.nil : Multi α σ ε :=
  { S := Unit, st := (), n := 0, nextAt := fun _ s w => (.ok false, s, w), curAt := fun _ _ => ValLike.nil,
    hintAt := fun _ _ => none, boundSum := fun _ => 0 }

def Multi.cons (it : Iter α σ ε) (m : Multi α σ ε) : Multi α σ ε :=
  { S := it.S × m.S
    st := (it.st, m.st)
    n := m.n + 1
    nextAt := fun i s w =>
      match i with
      | 0 => ((it.next s.1 w).1, ((it.next s.1 w).2.1, s.2), (it.next s.1 w).2.2)
      | i + 1 => ((m.nextAt i s.2 w).1, (s.1, (m.nextAt i s.2 w).2.1), (m.nextAt i s.2 w).2.2)
    curAt := fun i s => match i with | 0 => it.cur s.1 | i + 1 => m.curAt i s.2
    hintAt := fun i s => match i with | 0 => it.hint s.1 | i + 1 => m.hintAt i s.2
    boundSum := fun s => it.bound s.1 + m.boundSum s.2 }

def Multi.ofList : List (Iter α σ ε) → Multi α σ ε
  | [] => Multi.nil
  | it :: rest => Multi.cons it (Multi.ofList rest)

/-- the `for (iter, slot) in iters.zip(results)` loop of `ZipIterator::next`; `acc` = filled slots, reversed -/
def zipLoop (m : Multi α σ ε) : Nat → Nat → List α → m.S → σ → Out ε × List α × m.S × σ
  | 0, _, acc, s, w => (.ok true, acc.reverse, s, w)
  | k + 1, i, acc, s, w =>
    match m.nextAt i s w with
    | (.ok true, s', w') => zipLoop m k (i + 1) (m.curAt i s' :: acc) s' w'
    | (o, s', w') => (o, acc.reverse, s', w')

/-- `try_fold(usize::MAX, |acc, it| it.size_hint().map(|h| min(acc, h)))` -/
def zipHint (m : Multi α σ ε) (s : m.S) : Nat → Nat → Nat → Option Nat
  | 0, _, acc => some acc
  | k + 1, i, acc => match m.hintAt i s with
    | some h => zipHint m s k (i + 1) (min acc h)
    | none => none

/-- `ZipIterator { current, iters }` -/
@[reducible] def Iter.zip (m : Multi α σ ε) : Iter α σ ε :=
  Iter.wrap (S := α × m.S) (ValLike.nil, m.st)
    (fun s w =>
      match zipLoop m m.n 0 [] s.2 w with
      | (.ok true, vals, s', w') => (.ok true, (ValLike.tup vals, s'), w')
      | (o, _, s', w') => (o, (s.1, s'), w'))
    (fun s => s.1)
    (fun s => zipHint m s.2 m.n 0 usizeMax)
    (fun s => m.boundSum s.2)

/-- the `loop` of `ChainIterator::next` -/
def chainLoop (m : Multi α σ ε) : Nat → α → Nat → m.S → σ → Out ε × (α × Nat × m.S) × σ
  | 0, c, idx, s, w => (.ok false, (c, idx, s), w)
  | k + 1, c, idx, s, w =>
    if idx ≥ m.n then (.ok false, (c, idx, s), w)
    else match m.nextAt idx s w with
      | (.ok true, s', w') => (.ok true, (m.curAt idx s', idx, s'), w')
      | (.ok false, s', w') => chainLoop m k c (idx + 1) s' w'
      | (.err e, s', w') => (.err e, (c, idx, s'), w')

/-- `try_fold(0, |acc, it| it.size_hint().map(|h| acc + h))` over the members from index `i` on -/
def chainHint (m : Multi α σ ε) (s : m.S) : Nat → Nat → Nat → Option Nat
  | 0, _, acc => some acc
  | k + 1, i, acc => match m.hintAt i s with
    | some h => chainHint m s k (i + 1) (acc + h)
    | none => none

/-- `ChainIterator { current, iter_index, iters }`; `size_hint` sums over `iters.iter().skip(iter_index)` -/
@[reducible] def Iter.chain (m : Multi α σ ε) : Iter α σ ε :=
  Iter.wrap (S := α × Nat × m.S) (ValLike.nil, 0, m.st)
    (fun s w => chainLoop m (m.n - s.2.1 + 1) s.1 s.2.1 s.2.2 w)
    (fun s => s.1)
    (fun s => chainHint m s.2.2 (m.n - s.2.1) s.2.1 0)
    (fun s => m.boundSum s.2.2 + (m.n - s.2.1))
end Adaptors

/-! ## Arguments declared `ParameterKind::Enumerator` (`Iter.zip`, `Iter.chain`, `List.collect`, `Tuple.collect`) -/
section EnumArgs
variable {α σ ε : Type} [ValLike α]

/-- an argument in a position whose declared kind is `Enumerator`: an iterator, or any other value -/
inductive EArg (α σ ε : Type) where
  | iter (it : Iter α σ ε)
  | other

/-- the loop of `NativeSignature::check` over such arguments: the first value that is not an iterator makes
the VM raise `RuntimeError`; the native is not called and no iterator is touched -/
def enumArgs : List (EArg α σ ε) → Except ErrClass (List (Iter α σ ε))
  | [] => .ok []
  | .other :: _ => .error .runtime
  | .iter it :: rest =>
    match enumArgs rest with
    | .ok its => .ok (it :: its)
    | .error c => .error c

/-- `IterZip::call` behind its signature check (receiver first) -/
def Iter.zipNew (it : Iter α σ ε) (args : List (EArg α σ ε)) : Except ErrClass (Iter α σ ε) :=
  match enumArgs args with
  | .ok others => .ok (Iter.zip (Multi.ofList (it :: others)))
  | .error c => .error c

/-- `IterChain::call` behind its signature check (receiver first) -/
def Iter.chainNew (it : Iter α σ ε) (args : List (EArg α σ ε)) : Except ErrClass (Iter α σ ε) :=
  match enumArgs args with
  | .ok others => .ok (Iter.chain (Multi.ofList (it :: others)))
  | .error c => .error c
end EnumArgs

/-! ## Terminal natives -/
section Terminals
variable {α σ ε : Type} [ValLike α]

/-- result of a native that drives an iterator: the value or the error, the iterator's state afterwards,
the world afterwards -/
structure Fin (β α σ ε : Type) where
  res : Except ε β
  it : Iter α σ ε
  w : σ

/-- `while !is_falsey(iter.next(hooks)?) { list.push(iter.current()) }`; `acc` reversed -/
def collectLoop (it : Iter α σ ε) : Nat → List α → it.S → σ → Except ε (List α) × it.S × σ
  | 0, acc, s, w => (.ok acc.reverse, s, w)
  | k + 1, acc, s, w =>
    match it.next s w with
    | (.ok true, s', w') => collectLoop it k (it.cur s' :: acc) s' w'
    | (.ok false, s', w') => (.ok acc.reverse, s', w')
    | (.err e, s', w') => (.error e, s', w')

/-- the values `IterToList` / `ListCollect` / `TupleCollect` push, in order -/
def Iter.collect (it : Iter α σ ε) (w : σ) : Fin (List α) α σ ε :=
  let r := collectLoop it (it.bound it.st + 1) [] it.st w
  { res := r.1, it := { it with st := r.2.1 }, w := r.2.2 }

/-- `IterToList`: the list is allocated with `VecBuilder::cap_only(size_hint)` (or `list!()`, capacity 4)
and filled by `push`. -/
def Iter.toRawVec (it : Iter α σ ε) (w : σ) : Fin (RawVec.W (RawVec α)) α σ ε :=
  let start : RawVec α := match it.sizeHint with | some n => RawVec.capOnly n | none => RawVec.ofList []
  let r := it.collect w
  { res := r.res.map (listPush start), it := r.it, w := r.w }

/-- `ListCollect::call` / `TupleCollect::call` behind their signature check (`collect(iter)`, one parameter
declared `Enumerator`): `none` = the VM raised `RuntimeError` without calling the native. -/
def collectArg (a : EArg α σ ε) (w : σ) : Option (Fin (List α) α σ ε) :=
  match a with
  | .iter it => some (it.collect w)
  | .other => none

/-- `IterEach` -/
def eachLoop (it : Iter α σ ε) (f : Cb α σ ε) : Nat → it.S → σ → Except ε Unit × it.S × σ
  | 0, s, w => (.ok (), s, w)
  | k + 1, s, w =>
    match it.next s w with
    | (.ok true, s', w') =>
      match f (it.cur s') w' with
      | (.ok _, w'') => eachLoop it f k s' w''
      | (.error e, w'') => (.error e, s', w'')
    | (.ok false, s', w') => (.ok (), s', w')
    | (.err e, s', w') => (.error e, s', w')
def Iter.each (f : Cb α σ ε) (it : Iter α σ ε) (w : σ) : Fin Unit α σ ε :=
  let r := eachLoop it f (it.bound it.st + 1) it.st w
  { res := r.1, it := { it with st := r.2.1 }, w := r.2.2 }

/-- `IterReduce` -/
def reduceLoop (it : Iter α σ ε) (f : Cb2 α σ ε) : Nat → α → it.S → σ → Except ε α × it.S × σ
  | 0, a, s, w => (.ok a, s, w)
  | k + 1, a, s, w =>
    match it.next s w with
    | (.ok true, s', w') =>
      match f a (it.cur s') w' with
      | (.ok a', w'') => reduceLoop it f k a' s' w''
      | (.error e, w'') => (.error e, s', w'')
    | (.ok false, s', w') => (.ok a, s', w')
    | (.err e, s', w') => (.error e, s', w')
def Iter.reduce (init : α) (f : Cb2 α σ ε) (it : Iter α σ ε) (w : σ) : Fin α α σ ε :=
  let r := reduceLoop it f (it.bound it.st + 1) init it.st w
  { res := r.1, it := { it with st := r.2.1 }, w := r.2.2 }

/-- `IterAll` (`stopOn = false`) and `IterAny` (`stopOn = true`): stop at the first element whose
callback result has truthiness `stopOn`, answer `stopOn`; otherwise `!stopOn`. -/
def allAnyLoop (it : Iter α σ ε) (p : Cb α σ ε) (stopOn : Bool) : Nat → it.S → σ → Except ε Bool × it.S × σ
  | 0, s, w => (.ok (!stopOn), s, w)
  | k + 1, s, w =>
    match it.next s w with
    | (.ok true, s', w') =>
      match p (it.cur s') w' with
      | (.ok v, w'') => if ValLike.truthy v = stopOn then (.ok stopOn, s', w'') else allAnyLoop it p stopOn k s' w''
      | (.error e, w'') => (.error e, s', w'')
    | (.ok false, s', w') => (.ok (!stopOn), s', w')
    | (.err e, s', w') => (.error e, s', w')
def Iter.all (p : Cb α σ ε) (it : Iter α σ ε) (w : σ) : Fin Bool α σ ε :=
  let r := allAnyLoop it p false (it.bound it.st + 1) it.st w
  { res := r.1, it := { it with st := r.2.1 }, w := r.2.2 }
def Iter.any (p : Cb α σ ε) (it : Iter α σ ε) (w : σ) : Fin Bool α σ ε :=
  let r := allAnyLoop it p true (it.bound it.st + 1) it.st w
  { res := r.1, it := { it with st := r.2.1 }, w := r.2.2 }

/-- `IterFirst`: one `next`, then `current` or nil -/
def Iter.first (it : Iter α σ ε) (w : σ) : Fin α α σ ε :=
  match it.next it.st w with
  | (.ok true, s', w') => { res := .ok (it.cur s'), it := { it with st := s' }, w := w' }
  | (.ok false, s', w') => { res := .ok ValLike.nil, it := { it with st := s' }, w := w' }
  | (.err e, s', w') => { res := .error e, it := { it with st := s' }, w := w' }

/-- `IterLast` -/
def lastLoop (it : Iter α σ ε) : Nat → α → it.S → σ → Except ε α × it.S × σ
  | 0, a, s, w => (.ok a, s, w)
  | k + 1, a, s, w =>
    match it.next s w with
    | (.ok true, s', w') => lastLoop it k (it.cur s') s' w'
    | (.ok false, s', w') => (.ok a, s', w')
    | (.err e, s', w') => (.error e, s', w')
def Iter.last (it : Iter α σ ε) (w : σ) : Fin α α σ ε :=
  let r := lastLoop it (it.bound it.st + 1) ValLike.nil it.st w
  { res := r.1, it := { it with st := r.2.1 }, w := r.2.2 }

/-- `IterLen`: the `size_hint` if there is one (the iterator is not advanced), else count by advancing -/
def countLoop (it : Iter α σ ε) : Nat → Nat → it.S → σ → Except ε Nat × it.S × σ
  | 0, n, s, w => (.ok n, s, w)
  | k + 1, n, s, w =>
    match it.next s w with
    | (.ok true, s', w') => countLoop it k (n + 1) s' w'
    | (.ok false, s', w') => (.ok n, s', w')
    | (.err e, s', w') => (.error e, s', w')
def Iter.len (it : Iter α σ ε) (w : σ) : Fin Nat α σ ε :=
  match it.sizeHint with
  | some n => { res := .ok n, it := it, w := w }
  | none =>
    let r := countLoop it (it.bound it.st + 1) 0 it.st w
    { res := r.1, it := { it with st := r.2.1 }, w := r.2.2 }
end Terminals

end LaytheVerif.Coll
