/-
Reference evaluator for generated class programs (the program-level Spec of C03).

Definitional class semantics, nothing else: an object is a map from the field names of its class
chain (`ClassSpec.isField`) to values; `o.name` is the field if the chain has one, else the method the
most-derived-first walk finds (`ClassSpec.mro`) bound to `o`; `super.name` walks from the parent of
the class the code textually sits in; statics belong to the class they are declared in; a call is
"evaluate the callee, evaluate the arguments, apply".  No indices, no copied tables, no fusion.

Which class a declaration inherits from is what the source states: `class A : P` inherits from what
the variable `P` denotes where the class is declared (a local, a module variable, or the built-in
`Object` if the program has no `Object` of its own); `class A` inherits from the built-in `Object`,
whatever the program calls `Object` (a class without parent is the chain's end: `parent = none`).
Classes may be declared at module level or inside function bodies and blocks.

Total: every recursive call spends one unit of `fuel` (a bound on the evaluation *depth*).
-/
import LaytheVerif.Model.ClassSpec
namespace LaytheVerif.ClassLang
open LaytheVerif.Classes LaytheVerif.ClassSpec

mutual
inductive Expr where
  | num (n : Int)
  | str (s : String)
  | nil
  | var (x : String)
  | self
  | get (e : Expr) (name : String)              -- `e.name`
  | call (f : Expr) (args : List Expr)          -- `f(args)`; `call (get e n) args` is `e.n(args)`
  | superGet (name : String)                    -- `super.name`
  | add (a b : Expr)
  | lam (params : List String) (body : List Stmt)
inductive Stmt where
  | print (e : Expr)
  | letS (x : String) (e : Expr)
  | exprS (e : Expr)
  | ret (e : Expr)
  | setf (obj : Expr) (name : String) (e : Expr)      -- `obj.name = e;`
  | tryS (body : List Stmt) (handler : List Stmt)     -- `try {body} catch e: Error { print("caught …"); handler }`
  /-- a class declared in a block: `class name [: parent] { init(ps) {..} m(ps) {..}.. static s(ps) {..}.. }` -/
  | classS (name : String) (parent : Option String) (init : Option (List String × List Stmt))
      (methods : List (String × List String × List Stmt)) (statics : List (String × List String × List Stmt))
end

instance : Inhabited Expr := ⟨.nil⟩
instance : Inhabited Stmt := ⟨.exprS .nil⟩

structure FunSrc where
  name : String
  params : List String
  body : List Stmt
  deriving Inhabited

structure ClassDecl where
  name : String
  parent : Option String                     -- `none`: no explicit superclass
  init : Option FunSrc
  methods : List FunSrc
  statics : List FunSrc
  deriving Inhabited

inductive Item where
  | cls (d : ClassDecl)
  | fn (f : FunSrc)
  | stmt (s : Stmt)
  deriving Inhabited

def FunSrc.ofTriple (p : String × List String × List Stmt) : FunSrc := { name := p.1, params := p.2.1, body := p.2.2 }

/-- the declaration a `classS` statement carries -/
def ClassDecl.ofParts (name : String) (parent : Option String) (init : Option (List String × List Stmt))
    (methods statics : List (String × List String × List Stmt)) : ClassDecl :=
  { name := name, parent := parent, init := init.map fun p => { name := "init", params := p.1, body := p.2 },
    methods := methods.map FunSrc.ofTriple, statics := statics.map FunSrc.ofTriple }

/-! ### which names an initialiser assigns on `self` (not looking inside lambdas) -/

mutual
def assignedStmt : Stmt → List String
  | .setf .self name _ => [name]
  | .tryS body handler => assignedStmts body ++ assignedStmts handler
  | _ => []
def assignedStmts : List Stmt → List String
  | [] => []
  | s :: r => assignedStmt s ++ assignedStmts r
end

/-! ### run-time structures -/

inductive Val where
  | num (n : Int)
  | str (s : String)
  | nil
  | bool (b : Bool)
  | inst (addr : Nat)
  | cls (c : Nat)
  | clo (k : Nat)                       -- a function or lambda value
  | bound (recv : Val) (code : Nat)     -- method `code` bound to `recv`
  deriving Inhabited

structure Code where
  name : String
  params : List String
  body : List Stmt
  lexCls : Option Nat        -- the class the code textually sits in
  isInit : Bool := false
  isStatic : Bool := false
  env : List (String × Val) := []     -- methods of a class declared in a block see the variables of that block
  deriving Inhabited

structure ClassRt where
  name : String
  parent : Option Nat        -- the class object captured when the class was declared
  body : ClassBody           -- the Spec view: assigned names, method name ↦ code id
  statics : List (String × Nat)
  deriving Inhabited

structure Closure where
  code : Nat
  env : List (String × Val)
  selfV : Option Val
  deriving Inhabited

structure Obj where
  cls : Nat
  fields : List (String × Val)
  deriving Inhabited

structure World where
  classes : Array ClassRt := #[]
  codes : Array Code := #[]
  closures : Array Closure := #[]
  heap : Array Obj := #[]
  globals : List (String × Val) := []
  out : Array String := #[]
  d20 : Nat := 0                       -- how many errors were raised at a D20-shaped site
  declaresObject : Bool := false       -- the program declares a module variable named `Object` somewhere
  deriving Inhabited

structure Err where
  kind : String          -- "PropertyError" | "RuntimeError"
  msg : String
  d20 : Bool := false    -- raised by an *unfused* property read (implementation: RuntimeError until D20 is repaired)

inductive Ctl where
  | err (e : Err)
  | fuel
  | unsupported (what : String)

abbrev M := ExceptT Ctl (StateM World)

structure Ctx where
  selfV : Option Val := none
  lexCls : Option Nat := none

def lookupEnv (env : List (String × Val)) (x : String) : Option Val :=
  match env with
  | [] => none
  | (k, v) :: r => if k = x then some v else lookupEnv r x

/-- the chain of class bodies of class `c`, most derived first (fuel = number of classes) -/
def chainOf (w : World) : Nat → Nat → List ClassBody
  | 0, _ => []
  | fuel + 1, c =>
    match w.classes[c]? with
    | some k => k.body :: (match k.parent with | some p => chainOf w fuel p | none => [])
    | none => []

def World.chain (w : World) (c : Nat) : List ClassBody := chainOf w (w.classes.size + 1) c

def World.className (w : World) (c : Nat) : String :=
  match w.classes[c]? with | some k => k.name | none => "?"

/-- the name of the class `value_class` gives a value (for messages) -/
def World.classNameOf (w : World) : Val → String
  | .num _ => "Number" | .str _ => "String" | .nil => "Nil" | .bool _ => "Bool"
  | .inst a => match w.heap[a]? with | some o => w.className o.cls | none => "?"
  | .cls c => w.className c ++ " metaClass"
  | .clo _ => "Fun" | .bound _ _ => "Method"

def undefinedProperty (name cls : String) : String := "Undefined property " ++ name ++ " on class " ++ cls ++ "."

def throwErr {α} (kind msg : String) (d20 : Bool := false) : M α := do
  if d20 then modify fun w => { w with d20 := w.d20 + 1 }
  throw (.err { kind := kind, msg := msg, d20 := d20 })

def emit (s : String) : M Unit := modify fun w => { w with out := w.out.push s }

def showVal : Val → Except String String
  | .num n => .ok (toString n)
  | .str s => .ok s
  | .nil => .ok "nil"
  | .bool b => .ok (if b then "true" else "false")
  | _ => .error "printing an object"

def setField (fs : List (String × Val)) (name : String) (v : Val) : List (String × Val) :=
  match fs with
  | [] => []
  | (k, x) :: r => if k = name then (k, v) :: r else (k, x) :: setField r name v

/-- `o.name` — the Spec of property reads.  `fused` says the read is the callee of a zero-argument
call (only relevant for the D20 marker on the error). -/
def getProp (recv : Val) (name : String) (fused : Bool) : M Val := do
  let w ← get
  match recv with
  | .inst a =>
    match w.heap[a]? with
    | none => throw (.unsupported "dangling instance")
    | some o =>
      if isField (w.chain o.cls) name then
        match lookupEnv o.fields name with
        | some v => pure v
        | none => pure .nil
      else
        match mro (w.chain o.cls) name with
        | some code => pure (.bound recv code)
        | none => throwErr "PropertyError" (undefinedProperty name (w.className o.cls)) (!fused)
  | .cls c =>
    match w.classes[c]? with
    | none => throw (.unsupported "dangling class")
    | some k =>
      match lookupEnv (k.statics.map fun p => (p.1, Val.bound recv p.2)) name with
      | some v => pure v
      | none => throwErr "PropertyError" (undefinedProperty name (k.name ++ " metaClass")) (!fused)
  | v => throwErr "PropertyError" (undefinedProperty name (w.classNameOf v)) (!fused)

/-- `o.name = v` -/
def setProp (recv : Val) (name : String) (v : Val) : M Unit := do
  let w ← get
  match recv with
  | .inst a =>
    match w.heap[a]? with
    | none => throw (.unsupported "dangling instance")
    | some o =>
      if isField (w.chain o.cls) name then
        set { w with heap := w.heap.set! a { o with fields := setField o.fields name v } }
      else
        throwErr "PropertyError" (undefinedProperty name (w.className o.cls))
  | _ => throwErr "RuntimeError" "Only instances have settable fields."

def arityError (name : String) (want got : Nat) : String :=
  name ++ " expected " ++ toString want ++ " argument(s) but received " ++ toString got ++ "."

/-! ### class declarations -/

def addCode (c : Code) : M Nat := do
  let w ← get
  set { w with codes := w.codes.push c }
  pure w.codes.size

def addCodes (lexCls : Option Nat) (isStatic : Bool) (env : List (String × Val)) : List FunSrc → M (List (String × Nat))
  | [] => pure []
  | f :: r => do
    let id ← addCode { name := f.name, params := f.params, body := f.body, lexCls := lexCls, isStatic := isStatic, env := env }
    let rest ← addCodes lexCls isStatic env r
    pure ((f.name, id) :: rest)

/-- `op_inherit`'s operand check -/
def superOfVal : Val → M (Option Nat)
  | .cls c => pure (some c)
  | _ => throwErr "RuntimeError" "Superclass must be a class."

/-- **the class a declaration inherits from.**  No parent in the source: the built-in `Object` (the end
of the chain), whatever `env` and the module variables bind the name `Object` to.  An explicit parent
is an ordinary variable read where the class is declared: the innermost local, else the module
variable, else — for `Object` only, if the program has no module variable of that name — the built-in. -/
def resolveSuper (env : List (String × Val)) : Option String → M (Option Nat)
  | none => pure none
  | some p => do
    match lookupEnv env p with
    | some v => superOfVal v
    | none =>
      let w ← get
      match lookupEnv w.globals p with
      | some v => superOfVal v
      | none =>
        if p = "Object" && !w.declaresObject then pure none
        else throw (.unsupported ("superclass " ++ p ++ " is read before it is defined"))

/-- a class declaration; the parent is evaluated now and remembered (lexical `super`).  `top`: the
class is a module variable, otherwise a local of the block (the caller binds it).  Returns the class. -/
def declareClass (d : ClassDecl) (env : List (String × Val)) (top : Bool) : M Nat := do
  let parent ← resolveSuper env d.parent
  let w ← get
  let cid := w.classes.size
  -- reserve the slot so that the codes can refer to the class they sit in
  set { w with classes := w.classes.push { name := d.name, parent := parent,
                                            body := { initFields := [], init := none, methods := [], statics := [] },
                                            statics := [] },
               globals := if top then (d.name, Val.cls cid) :: w.globals else w.globals }
  let cenv := if top then [] else (d.name, Val.cls cid) :: env
  let initId ← match d.init with
    | none => pure none
    | some f => do
      let id ← addCode { name := "init", params := f.params, body := f.body, lexCls := some cid, isInit := true, env := cenv }
      pure (some id)
  let ms ← addCodes (some cid) false cenv d.methods
  let ss ← addCodes (some cid) true cenv d.statics
  let body : ClassBody := {
    initFields := match d.init with | some f => assignedStmts f.body | none => []
    init := initId, methods := ms, statics := ss }
  modify fun w => { w with classes := w.classes.set! cid { name := d.name, parent := parent, body := body, statics := ss } }
  pure cid

mutual

def evalExpr (fuel : Nat) (ctx : Ctx) (env : List (String × Val)) (e : Expr) : M Val :=
  match fuel with
  | 0 => throw .fuel
  | fuel + 1 =>
    match e with
    | .num n => pure (.num n)
    | .str s => pure (.str s)
    | .nil => pure .nil
    | .var x => do
      match lookupEnv env x with
      | some v => pure v
      | none =>
        match lookupEnv (← get).globals x with
        | some v => pure v
        | none => throw (.unsupported ("unbound variable " ++ x))
    | .self =>
      match ctx.selfV with
      | some v => pure v
      | none => throw (.unsupported "self outside a method")
    | .get e name => do
      let r ← evalExpr fuel ctx env e
      getProp r name false
    | .superGet name => superGet ctx name false
    | .call f args => do
      -- the callee first (a property read knows whether it is the callee of a zero-argument call) …
      let callee ← match f with
        | .get e name => do
          let r ← evalExpr fuel ctx env e
          getProp r name args.isEmpty
        | .superGet name => superGet ctx name args.isEmpty
        | f => evalExpr fuel ctx env f
      -- … then the arguments left to right, then the application
      let argv ← evalArgs fuel ctx env args
      callVal fuel callee argv
    | .add a b => do
      let x ← evalExpr fuel ctx env a
      let y ← evalExpr fuel ctx env b
      match x, y with
      | .num m, .num n => pure (.num (m + n))
      | .str s, .str t => pure (.str (s ++ t))
      | _, _ => throwErr "RuntimeError" "Operands must be two numbers or two strings."
    | .lam params body => do
      let w ← get
      let code : Code := { name := "lambda", params := params, body := body, lexCls := ctx.lexCls }
      let w := { w with codes := w.codes.push code }
      let k := w.closures.size
      set { w with closures := w.closures.push { code := w.codes.size - 1, env := env, selfV := ctx.selfV } }
      pure (.clo k)
termination_by structural fuel

def evalArgs (fuel : Nat) (ctx : Ctx) (env : List (String × Val)) (args : List Expr) : M (List Val) :=
  match fuel with
  | 0 => throw .fuel
  | fuel + 1 =>
    match args with
    | [] => pure []
    | a :: r => do
      let v ← evalExpr fuel ctx env a
      let vs ← evalArgs fuel ctx env r
      pure (v :: vs)
termination_by structural fuel

/-- `super.name`: the walk starts at the parent of the class the code sits in -/
def superGet (ctx : Ctx) (name : String) (fused : Bool) : M Val := do
  let w ← get
  match ctx.lexCls, ctx.selfV with
  | some k, some selfV =>
    match w.classes[k]? with
    | none => throw (.unsupported "dangling class")
    | some kc =>
      match kc.parent with
      | none => throwErr "PropertyError" (undefinedProperty name "Object") (!fused)
      | some p =>
        match mro (w.chain p) name with
        | some code => pure (.bound selfV code)
        | none => throwErr "PropertyError" (undefinedProperty name (w.className p)) (!fused)
  | _, _ => throw (.unsupported "super outside a method")

/-- apply a value to arguments -/
def callVal (fuel : Nat) (callee : Val) (argv : List Val) : M Val :=
  match fuel with
  | 0 => throw .fuel
  | fuel + 1 => do
    let w ← get
    match callee with
    | .clo k =>
      match w.closures[k]? with
      | none => throw (.unsupported "dangling closure")
      | some c =>
        match w.codes[c.code]? with
        | none => throw (.unsupported "dangling code")
        | some code => runCode fuel code c.env c.selfV argv
    | .bound recv codeId =>
      match w.codes[codeId]? with
      | none => throw (.unsupported "dangling code")
      | some code => runCode fuel code code.env (if code.isStatic then none else some recv) argv
    | .cls c =>
      -- a new object with every field of the chain set to nil, then the most derived initialiser
      let chain := w.chain c
      let fields := (fieldNames chain).eraseDups.map fun f => (f, Val.nil)
      let a := w.heap.size
      set { w with heap := w.heap.push { cls := c, fields := fields } }
      match mro chain "init" with
      | some codeId =>
        match w.codes[codeId]? with
        | none => throw (.unsupported "dangling code")
        | some code =>
          let _ ← runCode fuel code code.env (some (.inst a)) argv
          pure (.inst a)
      | none =>
        if argv.length ≠ 0 then
          throwErr "RuntimeError" ("Expected 0 arguments but got " ++ toString argv.length)
        else pure (.inst a)
    | v => throwErr "RuntimeError" (w.classNameOf v ++ " is not callable.")
termination_by structural fuel

/-- run a function body with its parameters bound; the result is the returned value (or nil) -/
def runCode (fuel : Nat) (code : Code) (env : List (String × Val)) (selfV : Option Val) (argv : List Val) : M Val :=
  match fuel with
  | 0 => throw .fuel
  | fuel + 1 => do
    if code.params.length ≠ argv.length then
      throwErr "RuntimeError" (arityError code.name code.params.length argv.length)
    else
      let env' := code.params.zip argv ++ env
      let (r, _) ← execStmts fuel { selfV := selfV, lexCls := code.lexCls } env' code.body
      match r with
      | some v => pure v
      | none => pure .nil
termination_by structural fuel

/-- statements in sequence; `some v` = a `return v` was executed -/
def execStmts (fuel : Nat) (ctx : Ctx) (env : List (String × Val)) (ss : List Stmt) :
    M (Option Val × List (String × Val)) :=
  match fuel with
  | 0 => throw .fuel
  | fuel + 1 =>
    match ss with
    | [] => pure (none, env)
    | s :: rest => do
      let (r, env1) ← execStmt fuel ctx env s
      match r with
      | some v => pure (some v, env1)
      | none => execStmts fuel ctx env1 rest
termination_by structural fuel

def execStmt (fuel : Nat) (ctx : Ctx) (env : List (String × Val)) (s : Stmt) :
    M (Option Val × List (String × Val)) :=
  match fuel with
  | 0 => throw .fuel
  | fuel + 1 =>
    match s with
    | .print e => do
      let v ← evalExpr fuel ctx env e
      match showVal v with
      | .ok t => emit t; pure (none, env)
      | .error m => throw (.unsupported m)
    | .letS x e => do
      let v ← evalExpr fuel ctx env e
      pure (none, (x, v) :: env)
    | .exprS e => do
      let _ ← evalExpr fuel ctx env e
      pure (none, env)
    | .ret e => do
      let v ← evalExpr fuel ctx env e
      pure (some v, env)
    | .setf obj name e => do
      let o ← evalExpr fuel ctx env obj
      let v ← evalExpr fuel ctx env e
      setProp o name v
      pure (none, env)
    | .tryS body handler => do
      let r ← tryCatch (do let (r, _) ← execStmts fuel ctx env body; pure r)
        (fun c => match c with
          | .err e => do
            emit ("caught " ++ e.kind ++ (if e.d20 then "~" else "") ++ ": " ++ e.msg)
            let (r, _) ← execStmts fuel ctx env handler
            pure r
          | c => throw c)
      pure (r, env)
    | .classS name parent init methods statics => do
      let cid ← declareClass (ClassDecl.ofParts name parent init methods statics) env false
      pure (none, (name, Val.cls cid) :: env)
termination_by structural fuel

end

/-! ### whole programs -/

def declareFn (f : FunSrc) : M Unit := do
  let id ← addCode { name := f.name, params := f.params, body := f.body, lexCls := none }
  modify fun w => { w with globals := (f.name, Val.clo w.closures.size) :: w.globals,
                           closures := w.closures.push { code := id, env := [], selfV := none } }

def runItems (fuel : Nat) : List Item → M Unit
  | [] => pure ()
  | .cls d :: r => do let _ ← declareClass d [] true; runItems fuel r
  | .fn f :: r => do declareFn f; runItems fuel r
  | .stmt (.classS name parent init methods statics) :: r => do
    let _ ← declareClass (ClassDecl.ofParts name parent init methods statics) [] true
    runItems fuel r
  | .stmt s :: r => do
    -- top-level `let` binds a module variable
    let (_, env) ← execStmt fuel {} [] s
    match env with
    | (x, v) :: _ => modify fun w => { w with globals := (x, v) :: w.globals }
    | [] => pure ()
    runItems fuel r

structure Result where
  status : String            -- "Ok" | "Err <kind>[~]: <msg>" | "FUEL" | "UNSUPPORTED <what>"
  out : Array String
  d20 : Nat

/-- the module variables a program declares -/
def declaredNames : List Item → List String
  | [] => []
  | .cls d :: r => d.name :: declaredNames r
  | .fn f :: r => f.name :: declaredNames r
  | .stmt (.letS x _) :: r => x :: declaredNames r
  | .stmt (.classS name _ _ _ _) :: r => name :: declaredNames r
  | .stmt _ :: r => declaredNames r

def runProgram (items : List Item) (fuel : Nat := 4000) : Result :=
  let (r, w) := (runItems fuel items).run.run { declaresObject := (declaredNames items).contains "Object" }
  match r with
  | .ok () => { status := "Ok", out := w.out, d20 := w.d20 }
  | .error (.err e) => { status := "Err " ++ e.kind ++ (if e.d20 then "~" else "") ++ ": " ++ e.msg, out := w.out, d20 := w.d20 }
  | .error .fuel => { status := "FUEL", out := w.out, d20 := w.d20 }
  | .error (.unsupported m) => { status := "UNSUPPORTED " ++ m, out := w.out, d20 := w.d20 }

end LaytheVerif.ClassLang
