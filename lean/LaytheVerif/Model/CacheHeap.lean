/-
Classes live at addresses; the inline caches key their entries by address (`ObjRef<Class>` equality
is pointer equality).  This model adds what `Model/Cache.lean` takes as given — "the class tables a
cached address denotes do not change" — as a statement about the heap: a collection frees classes
that no root reaches, an allocation may reuse any free address, and the caches are (since the D16
repair, `impl Trace for InlineCache` + `Vm::trace`) part of the root set.

  laythe_vm/src/cache.rs        impl Trace for InlineCache (class of every property entry, class and
                                method of every invoke entry)
  laythe_vm/src/vm/impls.rs     impl TraceRoot for Vm: `self.inline_cache.iter().for_each(|c| c.trace())`
  laythe_core/src/allocator.rs  sweep frees exactly the unmarked blocks
-/
import LaytheVerif.Model.Cache
namespace LaytheVerif.CacheHeap
open LaytheVerif.Cache

/-- `at a` = identity of the class living at address `a` (none: the address is free);
`entries` = (address, identity at fill time) of every cache entry of the program. -/
structure St where
  cls : Nat → Option Nat
  entries : List (Nat × Nat)

inductive Op where
  | alloc (a id : Nat)                 -- a class expression finished: new class `id` at a free address
  | fill (a : Nat)                     -- a site caches the class at `a` (slow path found it there)
  | clear (k : Nat)                    -- the k-th entry is overwritten or cleared
  | collect (freed : List Nat)         -- a collection frees these addresses
  deriving Repr, DecidableEq

/-- Is the operation possible in this state?  `traced` says whether the caches are roots: if so a
collection cannot free a cached address (other roots only make fewer collections possible). -/
def valid (traced : Bool) (s : St) : Op → Bool
  | .alloc a _ => (s.cls a).isNone
  | .fill a => (s.cls a).isSome
  | .clear _ => true
  | .collect freed => !traced || freed.all (fun a => !(s.entries.map (·.1)).contains a)

def step (s : St) : Op → St
  | .alloc a id => { s with cls := fun x => if x = a then some id else s.cls x }
  | .fill a => match s.cls a with
    | some id => { s with entries := (a, id) :: s.entries }
    | none => s
  | .clear k => { s with entries := s.entries.eraseIdx k }
  | .collect freed => { s with cls := fun x => if freed.contains x then none else s.cls x }

/-- Every entry still denotes the class it was filled with. -/
def Inv (s : St) : Prop := ∀ e ∈ s.entries, s.cls e.1 = some e.2

def run (traced : Bool) : St → List Op → Option St
  | s, [] => some s
  | s, op :: ops => if valid traced s op then run traced (step s op) ops else none

/-- Address-keyed class tables as the cache model sees them, from identity-keyed tables that never
change once the class expression finished (C03 `declareClass`). -/
def worldOf (F M : Nat → String → Option Nat) (s : St) : World :=
  { fieldIndex := fun a n => (s.cls a).bind (fun id => F id n),
    method := fun a n => (s.cls a).bind (fun id => M id n) }

end LaytheVerif.CacheHeap
