/-
Model/ScopeMachine.lean — (c) the run-time side of C02: frames whose slots hold values or box
references, a heap of boxes, closures with capture arrays, and the instructions of
`laythe_vm/src/vm/ops.rs` that touch them:

  `op_get_local/op_set_local`, `op_box`, `op_empty_box`, `op_fill_box`, `op_get_box/op_set_box`,
  `op_get_capture/op_set_capture`, `op_closure` (copies box *references* from the parent's slots
  (`CaptureIndex::Local`) or from the parent's own capture array (`CaptureIndex::Enclosing`)).

`run` executes a resolved program with these instructions, taking every decision from what the model
compiler (`Model/Scope.lean`) emitted: the access path of each identifier occurrence, the state and
slot of each declaration, the capture list of each function.  Names are never looked up at run time.
It is the counterpart of the cell-environment interpreter `Model/ScopeSpec.lean`;
`Props/C02.lean` states their agreement (`C02_env_simulation`).
-/
import LaytheVerif.Model.Scope
namespace LaytheVerif.Scope.Machine

/-! ### boxes, frames, the instructions -/

inductive MVal
  | undef | nil | num (n : Int) | bool (b : Bool) | str (s : String)
  | box (id : Nat)                      -- reference to a heap box (`LyBox`)
  | clo (d0 : Nat) (caps : List Nat)    -- `Closure { fun, captures }`: function id + box references
  | list (id : Nat) | obj (id : Nat) | cls (id : Nat) | err (msg : String) | builtin (x : Name)
  deriving Inhabited, Repr, DecidableEq

/-- the heap of boxes: `boxes[id]` is `LyBox.value` -/
abbrev Boxes := Array MVal

/-- one call frame: `slots[0]` is the callee/`self`, then parameters, then locals; `caps` is the
capture array of the running closure -/
structure Frame where
  slots : Array MVal := #[]
  caps : List Nat := []
  deriving Inhabited, Repr

/-- `op_empty_box`: a new box holding `undefined`, pushed on the stack -/
def opEmptyBox (bx : Boxes) (fr : Frame) : Boxes × Frame :=
  (bx.push .undef, { fr with slots := fr.slots.push (.box bx.size) })

/-- `op_fill_box`: pop the value into the box below it (the value is passed in) -/
def opFillBox (bx : Boxes) (fr : Frame) (v : MVal) : Option Boxes :=
  match fr.slots.back? with
  | some (.box id) => some (bx.setIfInBounds id v)
  | _ => none

/-- `op_box(slot)`: replace the slot's value by a new box holding it -/
def opBox (bx : Boxes) (fr : Frame) (slot : Nat) : Boxes × Frame :=
  (bx.push (fr.slots.getD slot .undef), { fr with slots := fr.slots.setIfInBounds slot (.box bx.size) })

/-- `op_get_box(slot)` -/
def opGetBox (bx : Boxes) (fr : Frame) (slot : Nat) : Option MVal :=
  match fr.slots[slot]? with
  | some (.box id) => bx[id]?
  | _ => none

/-- `op_set_box(slot)` -/
def opSetBox (bx : Boxes) (fr : Frame) (slot : Nat) (v : MVal) : Option Boxes :=
  match fr.slots[slot]? with
  | some (.box id) => some (bx.setIfInBounds id v)
  | _ => none

/-- `op_get_capture(i)` -/
def opGetCapture (bx : Boxes) (fr : Frame) (i : Nat) : Option MVal :=
  match fr.caps[i]? with
  | some id => bx[id]?
  | none => none

/-- `op_set_capture(i)` -/
def opSetCapture (bx : Boxes) (fr : Frame) (i : Nat) (v : MVal) : Option Boxes :=
  match fr.caps[i]? with
  | some id => some (bx.setIfInBounds id v)
  | none => none

/-- `op_closure`: the capture array of the new closure, built in the frame that executes `Closure`:
`Local s` takes the box *reference* in slot `s` (`to_obj().to_box()`), `Enclosing j` the running
closure's own capture `j`.  Nothing is copied. -/
def opClosure (fr : Frame) : List CapIdx → Option (List Nat)
  | [] => some []
  | .loc s :: rest =>
    match fr.slots[s]?, opClosure fr rest with
    | some (.box id), some r => some (id :: r)
    | _, _ => none
  | .enc j :: rest =>
    match fr.caps[j]?, opClosure fr rest with
    | some id, some r => some (id :: r)
    | _, _ => none

/-! ### running a compiled program -/

structure MClass where
  name : Name
  methods : List (FunKind × Name × MVal) := []
  deriving Inhabited, Repr

structure MSt where
  boxes : Boxes := #[]
  mods : Array MVal := #[]
  lists : Array (Array MVal) := #[]
  objs : Array (Nat × List (Name × MVal)) := #[]
  classes : Array MClass := #[]
  out : Array String := #[]
  deriving Inhabited

inductive MCtl
  | norm (v : MVal) | ret (v : MVal) | raise (v : MVal) | fail (m : String)
  deriving Inhabited

/-- what the compiler decided, keyed by the ids of the program -/
structure Code where
  paths : List (Nat × Path)                                   -- occurrence ↦ access path
  decls : List DeclInfo                                       -- binder ↦ slot and state
  caps : List (Nat × List CapIdx)                             -- function (d0) ↦ capture list
  funs : List (Nat × FunKind × List Param × Tm)               -- function (d0) ↦ kind, parameters, body
  deriving Inhabited

def Code.path (c : Code) (o : Nat) : Option Path := (c.paths.find? (·.1 = o)).map (·.2)
def Code.decl (c : Code) (d : Nat) : Option DeclInfo := c.decls.find? (·.d = d)
def Code.capsOf (c : Code) (d0 : Nat) : List CapIdx := ((c.caps.find? (·.1 = d0)).map (·.2)).getD []
def Code.funOf (c : Code) (d0 : Nat) : Option (FunKind × List Param × Tm) := (c.funs.find? (·.1 = d0)).map (·.2)

/-- all function bodies of a program, by the binder id of their slot 0 -/
def funTable : Tm → List (Nat × FunKind × List Param × Tm)
  | .nil | .lit _ | .str _ | .nilE | .var _ _ | .letN _ _ => []
  | .seq a b => funTable a ++ funTable b
  | .assign _ _ e => funTable e
  | .op _ args => funTable args
  | .lam _ d0 ps body => (d0, .fn, ps, body) :: funTable body
  | .letS _ _ e => funTable e
  | .fnS _ _ _ d0 ps body => (d0, .fn, ps, body) :: funTable body
  | .ifS c _ t _ e => funTable c ++ funTable t ++ funTable e
  | .whileS c _ b => funTable c ++ funTable b
  | .forS _ _ _ _ iter _ b => funTable iter ++ funTable b
  | .tryS _ b _ _ _ _ _ _ c => funTable b ++ funTable c
  | .classS _ _ _ _ _ _ _ ms => funTable ms
  | .method k _ _ d0 ps body => (d0, k, ps, body) :: funTable body

def showVal : MVal → String
  | .undef => "<undef>" | .nil => "nil" | .num n => toString n | .bool b => if b then "true" else "false"
  | .str s => s | .box _ => "<box>" | .clo _ _ => "<fn>" | .list _ => "<list>" | .obj _ => "<obj>"
  | .cls _ => "<class>" | .err m => "<error " ++ m ++ ">" | .builtin x => "<native " ++ x ++ ">"

def isModule : SymState → Bool
  | .moduleInit | .globalInit | .alreadyInit => true
  | _ => false

/-- read through an access path -/
def readPath (st : MSt) (fr : Frame) : Path → Option MVal
  | .local s => fr.slots[s]?
  | .box s => opGetBox st.boxes fr s
  | .capture i => opGetCapture st.boxes fr i
  | .modsym k => st.mods[k]?

/-- write through an access path -/
def writePath (st : MSt) (fr : Frame) (v : MVal) : Path → Option (MSt × Frame)
  | .local s => if s < fr.slots.size then some (st, { fr with slots := fr.slots.setIfInBounds s v }) else none
  | .box s => (opSetBox st.boxes fr s v).map (fun b => ({ st with boxes := b }, fr))
  | .capture i => (opSetCapture st.boxes fr i v).map (fun b => ({ st with boxes := b }, fr))
  | .modsym k => some ({ st with mods := (if k < st.mods.size then st.mods else st.mods ++ Array.replicate (k + 1 - st.mods.size) .undef).setIfInBounds k v }, fr)

/-- `declare_…` + value + `define_…` of a variable whose value `v` is already computed and whose
(empty) box, if it has one, was pushed by `declareSlot` -/
def declareSlot (code : Code) (d : Nat) (st : MSt) (fr : Frame) : Option (MSt × Frame) :=
  match code.decl d with
  | none => none
  | some di =>
    if isModule di.st then some (st, fr)
    else if di.slot ≠ fr.slots.size then none          -- the compile-time slot must be the next stack position
    else if di.st = .localCaptured then
      let (bx, fr) := opEmptyBox st.boxes fr
      some ({ st with boxes := bx }, fr)
    else some (st, fr)

def defineSlot (code : Code) (d : Nat) (v : MVal) (st : MSt) (fr : Frame) : Option (MSt × Frame) :=
  match code.decl d with
  | none => none
  | some di =>
    if isModule di.st then (writePath st fr v (.modsym di.slot))
    else if di.st = .localCaptured then (opFillBox st.boxes fr v).map (fun b => ({ st with boxes := b }, fr))
    else some (st, { fr with slots := fr.slots.push v })

/-- the prologue of a call: captured parameters (and a captured `self`) are boxed in place -/
def boxParams (code : Code) (st : MSt) (fr : Frame) : List Nat → MSt × Frame
  | [] => (st, fr)
  | d :: ds =>
    match code.decl d with
    | some di =>
      if di.st = .localCaptured then
        let (bx, fr) := opBox st.boxes fr di.slot
        boxParams code { st with boxes := bx } fr ds
      else boxParams code st fr ds
    | none => boxParams code st fr ds

def truncate (fr : Frame) (n : Nat) : Frame := { fr with slots := fr.slots.extract 0 n }

/-- Laythe numbers are f64: integer arithmetic is exact only up to 2^53.  A result beyond that is outside the fragment
(`fail:range`: the run is not judged), so that the unbounded integers of this interpreter never disagree with the VM for
a reason that has nothing to do with scoping. -/
def inRange (r : Int) : MCtl := if r.natAbs ≤ 9007199254740992 then .norm (.num r) else .fail "range"

def MVal.kind : MVal → Nat
  | .undef => 0 | .nil => 1 | .num _ => 2 | .bool _ => 3 | .str _ => 4 | .clo .. => 5
  | .list _ => 6 | .obj _ => 7 | .cls _ => 8 | .err _ => 9 | .builtin _ => 10 | .box _ => 11

/-- `op_equal` (`Value::eq`): see `Sem.valEq` -/
def valEq (a b : MVal) : MCtl :=
  match a, b with
  | .undef, _ | _, .undef => .fail "operands"
  | .box _, _ | _, .box _ => .fail "operands"
  | .num x, .num y => .norm (.bool (x == y))
  | .bool x, .bool y => .norm (.bool (x == y))
  | .nil, .nil => .norm (.bool true)
  | .str x, .str y => .norm (.bool (x == y))
  | .list x, .list y => .norm (.bool (x == y))
  | .obj x, .obj y => .norm (.bool (x == y))
  | .cls x, .cls y => .norm (.bool (x == y))
  | a, b => if a.kind ≠ b.kind then .norm (.bool false) else .fail "operands"

def arith (k : OpKind) (a b : MVal) : MCtl :=
  match k, a, b with
  | .add, .num x, .num y => inRange (x + y)
  | .sub, .num x, .num y => inRange (x - y)
  | .mul, .num x, .num y => inRange (x * y)
  | .lt, .num x, .num y => .norm (.bool (x < y))
  | .eq, a, b => valEq a b
  | _, _, _ => .fail "operands"

/-- `let x;` on the machine: `declare_variable` (`EmptyBox` for a boxed local), `Nil`, `define_variable`
(`FillBox` / the value stays in the new slot / `SetModSym`) -/
def letNStep (code : Code) (d : Nat) (fr : Frame) (st : MSt) : MCtl × Frame × MSt :=
  match declareSlot code d st fr with
  | none => (.fail "declare", fr, st)
  | some (st, fr) =>
    match defineSlot code d .nil st fr with
    | some (st, fr) => (.norm .nil, fr, st)
    | none => (.fail "define", fr, st)

/-- `Closure`/constant for the function `d0`, executed in frame `fr` -/
def mkClosure (code : Code) (fr : Frame) (d0 : Nat) : Option MVal :=
  (opClosure fr (code.capsOf d0)).map (fun caps => .clo d0 caps)

/-- the methods of a class body as closures made in the declaring frame -/
def mkMethods (code : Code) (fr : Frame) : Tm → Option (List (FunKind × Name × MVal))
  | .seq (.method k m _ d0 _ _) rest =>
    match mkClosure code fr d0, mkMethods code fr rest with
    | some c, some r => some ((k, m, c) :: r)
    | _, _ => none
  | .seq _ rest => mkMethods code fr rest
  | _ => some []

mutual
def mev (code : Code) : Nat → Tm → Frame → MSt → MCtl × Frame × MSt
  | 0, _, fr, st => (.fail "fuel", fr, st)
  | fuel + 1, t, fr, st =>
    match t with
    | .nil => (.norm .nil, fr, st)
    | .seq a b =>
      match mev code fuel a fr st with
      | (.norm _, fr, st) => mev code fuel b fr st
      | r => r
    | .lit n => (.norm (.num n), fr, st)
    | .str s => (.norm (.str s), fr, st)
    | .nilE => (.norm .nil, fr, st)
    | .var o x =>
      match code.path o with
      | none => (.fail ("no path " ++ x), fr, st)
      | some p =>
        match readPath st fr p with
        | some .undef => if x ∈ globalNames then (.norm (.builtin x), fr, st) else (.fail ("undefined " ++ x), fr, st)
        | some (.box _) => (.fail ("box leaked " ++ x), fr, st)
        | some v => (.norm v, fr, st)
        | none => if x ∈ globalNames then (.norm (.builtin x), fr, st) else (.fail ("bad path " ++ x), fr, st)
    | .assign o x e =>
      match mev code fuel e fr st with
      | (.norm v, fr, st) =>
        match (code.path o).bind (writePath st fr v) with
        | some (st, fr) => (.norm v, fr, st)
        | none => (.fail ("bad write path " ++ x), fr, st)
      | r => r
    | .op k args =>
      match mevArgs code fuel args fr st with
      | (.error c, fr, st) => (c, fr, st)
      | (.ok vs, fr, st) =>
        match k, vs with
        | .not, [.bool b] => (.norm (.bool (!b)), fr, st)
        | .call, f :: as => let (c, st) := mcall code fuel f as none st; (c, fr, st)
        | .list, vs => (.norm (.list st.lists.size), fr, { st with lists := st.lists.push vs.toArray })
        | .index, [.list id, .num i] =>
          match (st.lists.getD id #[])[i.toNat]? with
          | some v => (if i < 0 then .fail "index" else .norm v, fr, st)
          | none => (.fail "index", fr, st)
        | .push, [.list id, v] => (.norm .nil, fr, { st with lists := st.lists.modify id (·.push v) })
        | .len, [.list id] => (.norm (.num (st.lists.getD id #[]).size), fr, st)
        | .getF "message", [.err m] => (.norm (.str m), fr, st)
        | .getF f, [.obj id] =>
          match ((st.objs.getD id (0, [])).2.find? (·.1 = f)) with
          | some fv => (.norm fv.2, fr, st)
          | none => (.fail ("no field " ++ f), fr, st)
        | .setF f, [.obj id, v] =>
          (.norm v, fr, { st with objs := st.objs.modify id (fun o => (o.1, (f, v) :: o.2.filter (·.1 ≠ f))) })
        | .invoke m, (.obj id) :: as =>
          let cid := (st.objs.getD id (0, [])).1
          match (st.classes.getD cid default).methods.find? (fun me => me.2.1 = m) with
          | some (_, _, f) => let (c, st) := mcall code fuel f as (some (.obj id)) st; (c, fr, st)
          | none => (.fail ("no method " ++ m), fr, st)
        | .exprS, _ => (.norm .nil, fr, st)
        | .ret, [v] => (.ret v, fr, st)
        | .ret, [] => (.ret .nil, fr, st)
        | .raise, [v] => (.raise v, fr, st)
        | k, [a, b] => (arith k a b, fr, st)
        | _, _ => (.fail "op", fr, st)
    | .lam _ d0 _ _ =>
      match mkClosure code fr d0 with
      | some c => (.norm c, fr, st)
      | none => (.fail "Closure: to_box on a slot that holds no box", fr, st)
    | .letS d _ e =>
      match declareSlot code d st fr with
      | none => (.fail "declare", fr, st)
      | some (st, fr) =>
        match mev code fuel e fr st with
        | (.norm v, fr, st) =>
          match defineSlot code d v st fr with
          | some (st, fr) => (.norm .nil, fr, st)
          | none => (.fail "define", fr, st)
        | r => r
    | .letN d _ => letNStep code d fr st
    | .fnS d _ _ d0 _ _ =>
      match declareSlot code d st fr with
      | none => (.fail "declare", fr, st)
      | some (st, fr) =>
        match mkClosure code fr d0 with
        | none => (.fail "Closure: to_box on a slot that holds no box", fr, st)
        | some c =>
          match defineSlot code d c st fr with
          | some (st, fr) => (.norm .nil, fr, st)
          | none => (.fail "define", fr, st)
    | .ifS c _ t _ e =>
      match mev code fuel c fr st with
      | (.norm (.bool true), fr, st) =>
        let n := fr.slots.size
        let (r, fr, st) := mev code fuel t fr st
        (r, truncate fr n, st)
      | (.norm (.bool false), fr, st) =>
        let n := fr.slots.size
        let (r, fr, st) := mev code fuel e fr st
        (r, truncate fr n, st)
      | (.norm _, fr, st) => (.fail "condition", fr, st)
      | r => r
    | .whileS c _ b => mwhile code fuel c b fr st
    | .forS _ dIter d _ iter _ b =>
      match mev code fuel iter fr st with
      | (.norm (.list id), fr, st) =>
        let n := fr.slots.size
        -- `$iter` (never captured), then the item: declared, filled with nil and defined once, before the loop
        match declareSlot code dIter st fr with
        | none => (.fail "declare $iter", fr, st)
        | some (st, fr) =>
          match defineSlot code dIter .nil st fr with
          | none => (.fail "define $iter", fr, st)
          | some (st, fr) =>
            match declareSlot code d st fr with
            | none => (.fail "declare item", fr, st)
            | some (st, fr) =>
              match defineSlot code d .nil st fr with
              | none => (.fail "define item", fr, st)
              | some (st, fr) =>
                let (r, fr, st) := mfor code fuel d id 0 b fr st
                (r, truncate fr n, st)
      | (.norm _, fr, st) => (.fail "iterable", fr, st)
      | r => r
    | .tryS _ b _ d _ _ _ _ c =>
      let n := fr.slots.size
      match mev code fuel b fr st with
      | (.raise v, fr, st) =>
        -- the handler cuts the stack back to its recorded depth; the catch variable is declared there
        let fr := truncate fr n
        match declareSlot code d st fr with
        | none => (.fail "declare catch", fr, st)
        | some (st, fr) =>
          match defineSlot code d v st fr with
          | none => (.fail "define catch", fr, st)
          | some (st, fr) =>
            let (r, fr, st) := mev code fuel c fr st
            (r, truncate fr n, st)
      | (r, fr, st) => (r, truncate fr n, st)
    | .classS d cn _ _ _ _ dSuper ms =>
      match declareSlot code d st fr with
      | none => (.fail "declare class", fr, st)
      | some (st, fr) =>
        let cid := st.classes.size
        let st := { st with classes := st.classes.push { name := cn } }
        match defineSlot code d (.cls cid) st fr with
        | none => (.fail "define class", fr, st)
        | some (st, fr) =>
          let n := fr.slots.size
          match declareSlot code dSuper st fr with
          | none => (.fail "declare super", fr, st)
          | some (st, fr) =>
            match defineSlot code dSuper (.builtin "Object") st fr with
            | none => (.fail "define super", fr, st)
            | some (st, fr) =>
              match mkMethods code fr ms with
              | none => (.fail "Closure: to_box on a slot that holds no box", fr, st)
              | some mets =>
                let st := { st with classes := st.classes.modify cid (fun c => { c with methods := mets }) }
                (.norm .nil, truncate fr n, st)
    | .method .. => (.norm .nil, fr, st)

def mevArgs (code : Code) : Nat → Tm → Frame → MSt → Except MCtl (List MVal) × Frame × MSt
  | 0, _, fr, st => (.error (.fail "fuel"), fr, st)
  | fuel + 1, t, fr, st =>
    match t with
    | .nil => (.ok [], fr, st)
    | .seq a b =>
      match mev code fuel a fr st with
      | (.norm v, fr, st) =>
        match mevArgs code fuel b fr st with
        | (.ok vs, fr, st) => (.ok (v :: vs), fr, st)
        | r => r
      | (c, fr, st) => (.error c, fr, st)
    | t =>
      match mev code fuel t fr st with
      | (.norm v, fr, st) => (.ok [v], fr, st)
      | (c, fr, st) => (.error c, fr, st)

/-- a call: new frame `[callee-or-self, args…]` with the closure's capture array -/
def mcall (code : Code) : Nat → MVal → List MVal → Option MVal → MSt → MCtl × MSt
  | 0, _, _, _, st => (.fail "fuel", st)
  | fuel + 1, f, as, self?, st =>
    match f with
    | .clo d0 caps =>
      match code.funOf d0 with
      | none => (.fail "unknown function", st)
      | some (kind, ps, body) =>
        if ps.length ≠ as.length then (.fail "arity", st) else
        let fr : Frame := { slots := (#[self?.getD f] ++ as.toArray), caps := caps }
        let pre := (match kind with | .method | .init => [d0] | _ => []) ++ ps.map (·.d)
        let (st, fr) := boxParams code st fr pre
        match mev code fuel body fr st with
        | (.ret v, _, st) => (.norm v, st)
        | (.norm _, fr, st) =>
          -- `emit_return`: an initialiser returns `self` the way every use of `self` reads it (`variable_get`:
          -- `GetLocal 0`, or `GetBox 0` when a closure inside the initialiser captured `self` and the prologue boxed
          -- slot 0 — repair 7304c16), everything else nil
          (.norm (if kind = .init then
                    (match fr.slots.getD 0 .nil with
                     | .box _ => (opGetBox st.boxes fr 0).getD .nil
                     | v => v)
                  else .nil), st)
        | (c, _, st) => (c, st)
    | .builtin "print" =>
      match as with
      | [v] => (.norm .nil, { st with out := st.out.push (showVal v) })
      | _ => (.fail "print arity", st)
    | .builtin "Error" =>
      match as with
      | [.str m] => (.norm (.err m), st)
      | _ => (.fail "Error arity", st)
    | .cls cid =>
      let oid := st.objs.size
      let st := { st with objs := st.objs.push (cid, []) }
      match (st.classes.getD cid default).methods.find? (fun me => me.1 = .init) with
      | some (_, _, f) =>
        match mcall code fuel f as (some (.obj oid)) st with
        | (.norm v, st) => (.norm v, st)
        | r => r
      | none => if as.isEmpty then (.norm (.obj oid), st) else (.fail "arity", st)
    | _ => (.fail "not callable", st)

def mwhile (code : Code) : Nat → Tm → Tm → Frame → MSt → MCtl × Frame × MSt
  | 0, _, _, fr, st => (.fail "fuel", fr, st)
  | fuel + 1, c, b, fr, st =>
    match mev code fuel c fr st with
    | (.norm (.bool true), fr, st) =>
      let n := fr.slots.size
      match mev code fuel b fr st with
      | (.norm _, fr, st) => mwhile code fuel c b (truncate fr n) st
      | (r, fr, st) => (r, truncate fr n, st)
    | (.norm (.bool false), fr, st) => (.norm .nil, fr, st)
    | (.norm _, fr, st) => (.fail "condition", fr, st)
    | r => r

def mfor (code : Code) : Nat → Nat → Nat → Nat → Tm → Frame → MSt → MCtl × Frame × MSt
  | 0, _, _, _, _, fr, st => (.fail "fuel", fr, st)
  | fuel + 1, d, id, i, b, fr, st =>
    match (st.lists.getD id #[])[i]? with
    | none => (.norm .nil, fr, st)
    | some v =>
      -- `emit_local_set(item)`: `SetLocal`/`SetBox` on the one slot of the item
      let w : Option (MSt × Frame) := match code.decl d with
        | some di => writePath st fr v (if di.st = .localCaptured then .box di.slot else .local di.slot)
        | none => none
      match w with
      | none => (.fail "item slot", fr, st)
      | some (st, fr) =>
        let n := fr.slots.size
        match mev code fuel b fr st with
        | (.norm _, fr, st) => mfor code fuel d id (i + 1) b (truncate fr n) st
        | (r, fr, st) => (r, truncate fr n, st)
end

def codeOf (r : Resolved) (c : Compiled) : Code :=
  { paths := c.occs.filterMap (fun oc => oc.path.map (fun p => (oc.o, p))),
    decls := c.decls,
    caps := c.funs.map (fun f => (f.d0, f.captures)),
    funs := funTable r.tree }

/-- Run a resolved program on the machine: slot 0 of the script frame is the script itself. -/
def run (fuel : Nat) (r : Resolved) : List String × String :=
  let c := compile r
  let code := codeOf r c
  let fr : Frame := { slots := #[.nil], caps := [] }
  match mev code fuel r.tree fr {} with
  | (.norm _, _, st) => (st.out.toList, "ok")
  | (.ret _, _, st) => (st.out.toList, "ok")
  | (.raise v, _, st) => (st.out.toList, "raise " ++ showVal v)
  | (.fail m, _, st) => (st.out.toList, "fail:" ++ m)

end LaytheVerif.Scope.Machine
