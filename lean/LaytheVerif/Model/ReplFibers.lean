/-
What a REPL session keeps between entries besides the module (C19): the scheduler state.

`Model/Repl.lean` carries the module's symbols, the lengths of its inline-cache vectors and the live
functions.  This file adds the rest of the VM state that outlives an entry — `Vm.fiber_queue`, the
fibers earlier entries launched (queued, or parked in the waiter lists of channels that module
variables still reach) and those channels — by running every entry's script as a *new main fiber*
on the exact scheduler model of C08 (`Model/Sched.lean`, imported, not duplicated), in the state the
previous entries left.

Mirrors (laythe_vm/src/vm/mod.rs):
* `Vm::repl`: one `Vm` for the session; every line goes through `interpret(true, main_module, ..)`;
  the result of `interpret` is dropped and the loop reads the next line;
* `Vm::interpret`: `compile` failed → the diagnostics are printed, `CompileError` is returned: no
  fiber is created, nothing runs;  `compile` succeeded → `prepare(fun)`; `execute(Normal)`; the
  `ExecutionResult` (`Exit`, `RuntimeError`, ..) is returned *as it is*: no arm touches
  `fiber_queue`, a fiber or a channel (`Gen/ReplLoop.lean` lists every statement of the source that
  names `fiber_queue`; Props/C19Fibers `queue_sites_as_modelled` ties that list to this model);
* `Vm::prepare`: `create_fiber(script, None)` — a fresh fiber without parent, waiter runnable —
  becomes `Vm.fiber` *and* `Vm.main_fiber`, `activate()`d (Running).  The previous entry's main fiber
  is simply forgotten: it stays in state Running (it ended by `Exit`) or Unwinding (it ended by an
  uncaught error) for ever; neither state is admitted by `Fiber::unblock`, and `activate` is reached
  only through `queue_blocked_fiber` → `unblock`, so the model keeps both as `running`.  Whatever
  stale waiter entries it left in channels stay there;
* `pop_frame` → `Emptied`: `self.fiber == self.main_fiber` ends `execute` with `Exit`; every other
  fiber — the fibers of earlier entries included — completes and signals a context switch
  (`execReturnAt`: `Sched.execReturn` with the entry's main fiber instead of fiber 0);
* `execute`, arm `ContextSwitch`: `fiber_queue.pop_front()` or "Fatal error deadlock." and
  `RuntimeError` (`Sched.contextSwitch`); arm `RuntimeError` with nothing to catch it:
  `stack_unwind` → `Unhandled` → the traceback is printed, `RuntimeError` is returned: no scheduler
  state is touched.

Outside the model: an entry that ended with the deadlock report leaves its main fiber *parked* (in a
waiter list) with an instruction pointer that was never saved (`store_ip` runs only in
`context_switch`); if a later entry wakes it, the code resumes at a stale ip (known finding DC19.2)
where this model would simply retry the operation.  The check does not judge sessions in which the
model reports a deadlock.  That the model reports deadlocks entry by entry which the same operations
as one script do not have (the wake-up an ended script owed is lost) is the code's behaviour: known
finding DC19.3, Props/C19 `C19_witness_wakeup_owed_by_ended_script_is_lost`.

An entry's script is abstracted to its channel / fiber operations (`FEntry.main`: what the script
did before it returned or raised), the channels it created and the function bodies it defined; the
values are constants (the check resolves them with its own Kahn-network evaluation).
Core Lean + Std only.
-/
import LaytheVerif.Model.Repl
import LaytheVerif.Model.Sched

namespace LaytheVerif.ReplFibers
open LaytheVerif.Sched

/-- the channel / fiber content of one prompt entry that compiled -/
structure FEntry where
  /-- channels the script created (`let c = chan(n);` / `chan()`) before it returned or raised -/
  chans : List (Option Nat) := []
  /-- bodies of the functions the entry defined that are launched as fibers (appended to the
  session's templates; template 0 is reserved for the scripts) -/
  bodies : List (List Op) := []
  /-- the script's channel / fiber operations in execution order, up to its end or its error -/
  main : List Op := []
  /-- the script ended with an uncaught runtime error (after `main`) instead of returning -/
  raises : Bool := false
  deriving Repr, DecidableEq

/-- how `interpret` returned -/
inductive End
  | none                  -- no entry yet
  | compileError          -- `ExecutionResult::CompileError`: nothing ran
  | exit                  -- the script returned (`Exit`)
  | raised                -- the script raised and nothing caught it (`RuntimeError`)
  | deadlock              -- "Fatal error deadlock." (`RuntimeError`)
  | error (e : Err)       -- a channel operation raised, in whatever fiber (`RuntimeError`)
  | panic (a : Assert)    -- an `assert!` of fiber/mod.rs: the host process is gone
  | fuel                  -- the model's step budget ran out (never on the streams)
  deriving Repr, DecidableEq

def emptyVM : VM :=
  { bodies := [[]], fibers := [], chans := [], cur := 0, runq := [], out := [], outcome := .running, trace := [] }

def mainFiber (prog : List Op) (nchans : Nat) : Fiber :=
  { state := .running, parent := none, channels := [], runnable := true, prog := prog,
    env := List.range nchans, tmpl := 0, done := [], acc := [], rcv := [], ack := none }

/-- `Vm::prepare` (and the entry's definitions): the new main fiber is appended, made current; the run
queue, the other fibers and the existing channels are not touched.  Returns the new state; the main
fiber's id is `vm.fibers.length`. -/
def prepare (vm : VM) (e : FEntry) : VM :=
  { vm with bodies := vm.bodies ++ e.bodies,
            chans := vm.chans ++ e.chans.map mkChan,
            fibers := vm.fibers ++ [mainFiber e.main (vm.chans.length + e.chans.length)],
            cur := vm.fibers.length, out := [], outcome := .running }

/-- `pop_frame` → `Emptied` with `main_fiber` = the current entry's script -/
def execReturnAt (main : Nat) (vm : VM) : VM :=
  if vm.cur = main then vm.stop .exit
  else
    match (complete vm).2 with
    | some w => (queueBlocked (complete vm).1 w).next contextSwitch
    | none => (complete vm).1.next contextSwitch

def execAt (main : Nat) (vm : VM) : VM :=
  match vm.me.prog with
  | [] => execReturnAt main vm
  | _ :: _ => exec vm

def stepAt (main : Nat) (vm : VM) : VM := vm.next (execAt main)

def runAt (main : Nat) : Nat → VM → VM
  | 0, vm => vm
  | n + 1, vm => runAt main n (stepAt main vm)

/-- `prepare` + `execute`: the scheduler state after the entry.  `FEntry.raises` is not consulted:
whether the script's last act was to return or to raise, `execute` hands the result to `interpret`,
which hands it to `repl`, which drops it. -/
def runEntry (fuel : Nat) (vm : VM) (e : FEntry) : VM :=
  runAt vm.fibers.length fuel (prepare vm e)

def endOf (vm : VM) (e : FEntry) : End :=
  match vm.outcome with
  | .running => .fuel
  | .exit => if e.raises then .raised else .exit
  | .deadlock => .deadlock
  | .error x => .error x
  | .panic a => .panic a

/-- One prompt entry: the module half (`Repl.Entry`, judged by `Repl.compile`) and the scheduler half. -/
structure Entry where
  c : Repl.Entry
  f : FEntry := {}
  deriving Repr

/-- **Everything a session keeps from one entry to the next.** -/
structure Sess where
  /-- the module: its symbols in slot order, the lengths of its inline-cache vectors
  (`inline_cache[module.id()]`), the functions defined so far -/
  st : Repl.St
  /-- `vm.runq` = `Vm.fiber_queue`; `vm.fibers` = every fiber created so far with its state, saved
  position and channels-used list (the pending ones are those in the queue or in a waiter list);
  `vm.chans` = every channel with its buffered values and waiter lists; `vm.bodies` = the functions
  fibers can be launched over -/
  vm : VM
  /-- how the last entry ended -/
  last : End
  deriving Repr

def Sess.empty : Sess := { st := Repl.St.empty, vm := emptyVM, last := .none }

def hostDead (s : Sess) : Bool :=
  match s.last with
  | .panic _ => true
  | _ => false

/-- `Vm::repl`, one iteration. -/
def step (fuel : Nat) (globals : List String) (s : Sess) (e : Entry) : Sess :=
  if hostDead s then s
  else
    match Repl.compile globals s.st e.c with
    | .error _ => { s with last := .compileError }
    | .ok _ =>
      { st := Repl.step globals s.st e.c,
        vm := runEntry fuel s.vm e.f,
        last := endOf (runEntry fuel s.vm e.f) e.f }

def runSession (fuel : Nat) (globals : List String) (s : Sess) : List Entry → Sess
  | [] => s
  | e :: rest => runSession fuel globals (step fuel globals s e) rest

/-- what the scripts' receives and prints showed, entry by entry (`vm.out` is reset by `prepare`) -/
def outputs (fuel : Nat) (globals : List String) (s : Sess) : List Entry → List (End × List Event)
  | [] => []
  | e :: rest =>
    ((step fuel globals s e).last,
     match (step fuel globals s e).last with
     | .compileError => []
     | _ => (step fuel globals s e).vm.out) :: outputs fuel globals (step fuel globals s e) rest

/-! The seeded change the sessions stream of the check was extended for, as a regression fact (the
analogue of `Repl.BeforeRepair`): `interpret` clears `fiber_queue` when `execute` returned
`RuntimeError`. -/
namespace QueueClearedOnError

def runEntry (fuel : Nat) (vm : VM) (e : FEntry) : VM :=
  let vm' := ReplFibers.runEntry fuel vm e
  match endOf vm' e with
  | .raised | .deadlock | .error _ => { vm' with runq := [] }
  | _ => vm'

def step (fuel : Nat) (globals : List String) (s : Sess) (e : Entry) : Sess :=
  if hostDead s then s
  else
    match Repl.compile globals s.st e.c with
    | .error _ => { s with last := .compileError }
    | .ok _ =>
      { st := Repl.step globals s.st e.c,
        vm := runEntry fuel s.vm e.f,
        last := endOf (runEntry fuel s.vm e.f) e.f }

def outputs (fuel : Nat) (globals : List String) (s : Sess) : List Entry → List (End × List Event)
  | [] => []
  | e :: rest =>
    ((step fuel globals s e).last,
     match (step fuel globals s e).last with
     | .compileError => []
     | _ => (step fuel globals s e).vm.out) :: outputs fuel globals (step fuel globals s e) rest

end QueueClearedOnError

end LaytheVerif.ReplFibers
