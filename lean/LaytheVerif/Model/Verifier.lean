/-
A bytecode verifier for the stack contract the unchecked VM relies on (C06), over the symbolic
post-optimisation instruction list the compiler hands to the encoder (`Gen.Sym`, labels as jump
targets).

* `vmEffect` — what each instruction does to the operand stack in `vm/ops.rs` (pops, pushes) on its
  fall-through branch, `jumpEffect` on its taken branch.  Written from the VM, not from the compiler.
* the *depth-abstract machine*: configurations `(pc, depth, handler stack)`; `succs` gives the
  successors of a configuration or `none` when a clause of the contract is violated locally.
* `checkCert` — checks a certificate (one abstract state per instruction index) *locally*.
* `computeCert` — an untrusted work-list pass producing a certificate.
-/
import LaytheVerif.Gen.ByteCode
namespace LaytheVerif.Verifier
open LaytheVerif.Gen

/-- (pops, pushes) of the fall-through branch, from `vm/ops.rs`.
`none`: the instruction never falls through (`Jump`, `Loop`, `Return`, `Raise`, `ContinueUnwind`)
or is an operand pseudo-instruction handled by its owner (`CaptureIndex`). -/
def vmEffect : Sym → Option (Nat × Nat)
  | .Return => none
  | .Negate => some (1, 1)
  | .Add | .Subtract | .Multiply | .Divide => some (2, 1)
  | .Not => some (1, 1)
  | .And _ | .Or _ => some (1, 0)              -- not taken: the operand is dropped
  | .Constant _ | .ConstantLong _ | .Nil | .True | .False => some (0, 1)
  | .List n | .Tuple n => some (n, 1)
  | .Map n => some (2 * n, 1)
  | .Launch a => some (a + 1, 0)
  | .Channel => some (0, 1)
  | .BufferedChannel => some (1, 1)
  | .Receive => some (1, 1)
  | .Send => some (2, 1)                       -- pops the channel, the value stays as the result
  | .Interpolate n => some (n, 1)
  | .IterNext _ | .IterCurrent _ => some (1, 1)
  | .Drop => some (1, 0)
  | .DropN n => some (n, 0)
  | .Dup => some (1, 2)
  | .Import _ | .ImportSym _ _ => some (0, 1)
  | .Export _ => some (0, 0)
  | .LoadGlobal _ => some (0, 1)
  | .DeclareModSym _ _ => some (0, 0)
  | .GetModSym _ => some (0, 1)
  | .SetModSym _ => some (1, 1)
  | .Box _ => some (0, 0)
  | .EmptyBox => some (0, 1)
  | .FillBox => some (2, 1)
  | .GetBox _ | .GetLocal _ | .GetCapture _ => some (0, 1)
  | .SetBox _ | .SetLocal _ | .SetCapture _ => some (1, 1)
  | .GetPropByName _ | .GetProp _ => some (1, 1)
  | .SetPropByName _ | .SetProp _ => some (2, 1)
  | .JumpIfFalse _ => some (1, 0)
  | .Jump _ | .Loop _ => none
  | .PushHandler _ _ => some (0, 0)
  | .CheckHandler _ => some (1, 0)
  | .GetError => some (0, 1)
  | .FinishUnwind => some (0, 0)
  | .ContinueUnwind => none
  | .PopHandler => some (0, 0)
  | .Raise => none
  | .Label _ => some (0, 0)
  | .ArgumentDelimiter => some (0, 0)
  | .Call a => some (a + 1, 1)
  | .Invoke _ a => some (a + 1, 1)
  | .SuperInvoke _ a => some (a + 2, 1)
  | .Closure _ => some (0, 1)
  | .Method _ | .StaticMethod _ => some (2, 1)
  | .Field _ => some (1, 1)
  | .Class _ => some (0, 1)
  | .Inherit => some (2, 2)
  | .GetSuper _ => some (2, 1)
  | .CaptureIndex _ => none
  | .InvokeSlot | .PropertySlot => some (0, 0)
  | .Equal | .NotEqual | .Greater | .GreaterEqual | .Less | .LessEqual => some (2, 1)

/-- (label, pops, pushes) of the taken branch of the branching instructions. -/
def jumpEffect : Sym → Option (Nat × Nat × Nat)
  | .And l | .Or l => some (l, 1, 1)           -- taken: the operand stays
  | .JumpIfFalse l => some (l, 1, 0)
  | .CheckHandler l => some (l, 1, 0)
  | .Jump l | .Loop l => some (l, 0, 0)
  | _ => none

/-- Instructions whose implementation in `vm/ops.rs` has no error path (pure stack/handler
bookkeeping): no exceptional edge leaves them. -/
def mayRaise : Sym → Bool
  | .Drop | .DropN _ | .Dup | .Nil | .True | .False | .Constant _ | .ConstantLong _
  | .GetLocal _ | .SetLocal _ | .PopHandler | .PushHandler _ _ | .Jump _ | .Loop _ | .Label _
  | .JumpIfFalse _ | .And _ | .Or _ | .Not | .ArgumentDelimiter | .PropertySlot | .InvokeSlot
  | .CaptureIndex _ => false
  | _ => true

/-- What the verifier knows about a function besides its code. -/
structure FunCtx where
  arity : Nat
  maxSlots : Nat
  captures : Nat
  /-- per constant: `some n` for a function constant with `n` captures, `none` otherwise -/
  consts : List (Option Nat)
  deriving Repr, Inhabited

/-- Depth-abstract state: operand depth inside the frame (slot 0 and the parameters included) and
the handlers of this frame, innermost first, as (catch label, recorded depth). -/
structure St where
  depth : Nat
  handlers : List (Nat × Nat)
  deriving DecidableEq, Repr, Inhabited

def FunCtx.capacity (c : FunCtx) : Nat := c.arity + 1 + c.maxSlots
def FunCtx.entry (c : FunCtx) : St := { depth := c.arity + 1, handlers := [] }

/-- Index of `Label l`. -/
def labelPos (code : List Sym) (l : Nat) : Option Nat :=
  let i := code.findIdx (· == Sym.Label l)
  if i < code.length then some i else none

/-- Operand indices in range at depth `d`. -/
def operandsOk (c : FunCtx) (d : Nat) : Sym → Bool
  | .GetLocal s | .SetLocal s | .GetBox s | .SetBox s | .Box s => s < d
  | .GetCapture s | .SetCapture s => s < c.captures
  | .Constant k | .ConstantLong k => k < c.consts.length
  | .GetPropByName k | .SetPropByName k | .Invoke k _ | .SuperInvoke k _ | .GetSuper k
  | .Method k | .StaticMethod k | .Field k | .Class k | .IterNext k | .IterCurrent k
  | .Import k | .Export k => k < c.consts.length
  | .ImportSym k n | .DeclareModSym k n => k < c.consts.length && n < 65536
  | _ => true

/-- The capture operands following `Closure k` at `pc`: all `CaptureIndex`, all in range. -/
def captureOperandsOk (c : FunCtx) (d : Nat) (code : List Sym) (pc n : Nat) : Bool :=
  (List.range n).all fun j =>
    match code[pc + 1 + j]? with
    | some (.CaptureIndex (.Local i)) => i < d
    | some (.CaptureIndex (.Enclosing i)) => i < c.captures
    | _ => false

/-- The exceptional successor: control resumes at the innermost handler's catch label with its
recorded depth and with that handler still installed. -/
def raiseSucc (code : List Sym) (s : St) : Option (List (Nat × St)) :=
  match s.handlers with
  | [] => some []
  | (l, d) :: _ =>
    match labelPos code l with
    | some p => if d ≤ s.depth then some [(p, { depth := d, handlers := s.handlers })] else none
    | none => none

/-- Successors of configuration `(pc, s)`; `none` = a clause of the stack contract fails here. -/
def succs (c : FunCtx) (code : List Sym) (pc : Nat) (s : St) : Option (List (Nat × St)) :=
  match code[pc]? with
  | none => none                                    -- fell off the end of the function
  | some i =>
    if !(operandsOk c s.depth i) then none
    else if s.depth > c.capacity then none
    else
    match (if mayRaise i then raiseSucc code s else some []) with
    | none => none
    | some ex =>
    -- the taken branch, if any
    let jmp : Option (List (Nat × St)) :=
      match jumpEffect i with
      | none => some []
      | some (l, po, pu) =>
        match labelPos code l with
        | none => none
        | some p =>
          if s.depth < c.arity + 1 + po then none
          else if s.depth - po + pu > c.capacity then none
          else some [(p, { s with depth := s.depth - po + pu })]
    match jmp with
    | none => none
    | some js =>
    match i with
    | .Return =>
      -- a value to return above the parameters, and no handler of this frame left installed
      if s.depth ≥ c.arity + 2 && s.handlers.isEmpty then some [] else none
    | .Raise => if s.depth ≥ c.arity + 2 then some ex else none
    | .ContinueUnwind =>
      match s.handlers with
      | [] => none
      | _ :: rest => raiseSucc code { s with handlers := rest }
    | .CaptureIndex _ => none                         -- only reachable as an operand of `Closure`
    | .PushHandler d l =>
      if d == s.depth && (labelPos code l).isSome then
        some ((pc + 1, { s with handlers := (l, d) :: s.handlers }) :: ex)
      else none
    | .PopHandler =>
      match s.handlers with
      | [] => none
      | _ :: rest => some ((pc + 1, { s with handlers := rest }) :: ex)
    | .Closure k =>
      match c.consts[k]? with
      | some (some n) =>
        if captureOperandsOk c s.depth code pc n && s.depth + 1 ≤ c.capacity then
          some ((pc + 1 + n, { s with depth := s.depth + 1 }) :: ex)
        else none
      | _ => none
    | _ =>
      match vmEffect i with
      | none => some (js ++ ex)                        -- `Jump`, `Loop`
      | some (po, pu) =>
        if s.depth < c.arity + 1 + po then none        -- would pop a parameter or slot 0
        else if s.depth - po + pu > c.capacity then none
        else some ((pc + 1, { s with depth := s.depth - po + pu }) :: (js ++ ex))

/-- A certificate: an abstract state per instruction index (`none` = unreachable). -/
abbrev Cert := List (Option St)

/-- The local check: the entry is annotated with the entry state and every annotated index has
all its successors annotated with exactly the successor state. -/
def checkCert (c : FunCtx) (code : List Sym) (cert : Cert) : Bool :=
  cert.length == code.length &&
  cert[0]? == some (some c.entry) &&
  (List.range code.length).all fun pc =>
    match cert[pc]? with
    | some (some s) =>
      match succs c code pc s with
      | none => false
      | some l => l.all fun (p, s') => cert[p]? == some (some s')
    | _ => true

/-! ### certificate generation (untrusted) -/

inductive GenResult where
  | ok (cert : Cert)
  | conflict (pc : Nat) (have_ want : St)
  | stuck (pc : Nat) (s : St)
  | fuel
  deriving Repr

def setAt (cert : Cert) (pc : Nat) (s : St) : Cert := cert.set pc (some s)

def computeCert (c : FunCtx) (code : List Sym) : Nat → List (Nat × St) → Cert → GenResult
  | 0, _, _ => .fuel
  | _ + 1, [], cert => .ok cert
  | f + 1, (pc, s) :: work, cert =>
    match cert[pc]? with
    | none => .stuck pc s
    | some (some s') => if s' = s then computeCert c code f work cert else .conflict pc s' s
    | some none =>
      match succs c code pc s with
      | none => .stuck pc s
      | some l => computeCert c code f (l ++ work) (setAt cert pc s)

def verify (c : FunCtx) (code : List Sym) : GenResult :=
  match computeCert c code (code.length * 8 + 64) [(0, c.entry)] (List.replicate code.length none) with
  | .ok cert => if checkCert c code cert then .ok cert else .stuck 0 c.entry
  | r => r

end LaytheVerif.Verifier
