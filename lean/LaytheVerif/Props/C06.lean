/-
C06 — Emitted bytecode respects the stack contract the unchecked VM relies on.
-/
import LaytheVerif.Model.Verifier
import LaytheVerif.Model.EffectRows
import LaytheVerif.Model.Encode
namespace LaytheVerif.C06
open LaytheVerif.Gen LaytheVerif.Verifier

/-! ### [G] the compiler's `stack_effect` table against the VM's behaviour -/

/-- **Gen.stackEffect_eq_vmEffect.** For every instruction (every constructor, every operand) that
can fall through, the entry of the compiler's `stack_effect` table — regenerated from
`byte_code.rs` on every run — is exactly pushes − pops of what `vm/ops.rs` does.  An edited table
row, or a new instruction, re-opens this lemma. -/
theorem C06_stackEffect_eq_vmEffect (i : Sym) (po pu : Nat) (h : vmEffect i = some (po, pu)) :
    i.stackEffect = (pu : Int) - (po : Int) := by
  cases i <;> simp [vmEffect] at h <;> obtain ⟨rfl, rfl⟩ := h <;> simp [Sym.stackEffect] <;> omega

/-- The instructions that never fall through consume what the table says (`Return`, `Raise`: one
value; `Jump`, `Loop`, `ContinueUnwind`: nothing), and the taken branch of the short-circuit
operators keeps the operand the not-taken branch drops. -/
theorem C06_stackEffect_nofall :
    Sym.Return.stackEffect = -1 ∧ Sym.Raise.stackEffect = -1 ∧ Sym.ContinueUnwind.stackEffect = 0 ∧
    (∀ l, (Sym.Jump l).stackEffect = 0 ∧ (Sym.Loop l).stackEffect = 0) := by
  simp [Sym.stackEffect]

/-- **[G] the whole table, row by row.**  Every row of the regenerated `stack_effect` table — the rows of the
instructions that never fall through included — is the model's `modelDelta` (`Model/EffectRows.lean`).  This is the
statement whose *executable* form the check's search uses: when an edit of the table re-opens it, `differingRows`
(run by the driver) names the rows that differ and the directed generator draws its programs around those
instructions. -/
theorem C06_stackEffect_eq_modelDelta (i : Sym) : i.stackEffect = modelDelta i := by
  cases i <;> simp [modelDelta, vmEffect, Sym.stackEffect] <;> omega

theorem C06_rows_agree (i : Sym) : rowAgrees i = true := by
  simp [rowAgrees, C06_stackEffect_eq_modelDelta]

/-- On the unchanged table the executable row comparison finds nothing ... -/
theorem C06_no_differing_rows : differingRows = [] := by
  simp [differingRows, List.filter_eq_nil_iff, C06_rows_agree]

/-- ... and whatever it reports on an edited table is a row that really differs (no false focus). -/
theorem C06_differingRows_sound (i : Sym) (h : i ∈ differingRows) : i.stackEffect ≠ modelDelta i := by
  simp [differingRows, rowAgrees] at h
  exact h.2

/- The sample instructions the comparison runs over contain every variant of the instruction set, the ones the seeded
rounds edited among them (non-vacuity of `C06_no_differing_rows`: the filter runs over a list that covers the table;
evaluated, `sampleSyms` parses its instructions from text, which the kernel does not unfold). -/
#guard symNames.all fun n => sampleSyms.any fun i => variantName i == n
#guard sampleSyms.contains (Sym.GetSuper 0) && sampleSyms.contains Sym.Send && sampleSyms.contains (Sym.Call 2) &&
  sampleSyms.contains (Sym.PushHandler 1 2) && sampleSyms.contains (Sym.CaptureIndex (.Local 1))

/-- The instructions whose successors `succs` takes from `vmEffect` in its generic branch. -/
def tableDriven : Sym → Bool
  | .Return | .Raise | .ContinueUnwind | .CaptureIndex _ | .PushHandler _ _ | .PopHandler | .Closure _ => false
  | _ => true

/-- **C06_fallthrough_tracks_table.**  What a row of the table is *for*: wherever the depth-abstract machine steps over
an instruction by falling through, the depth of the successor is the depth before plus the table row (and the handler
stack is untouched).  So the running count of the compiler's linear pass (`apply_stack_effects`: `slots +=
stack_effect`) is the machine's depth along every straight line, which is the depth it records in the next
`PushHandler` (`safe_handler_depth` demands exactly that value) and maximises into `max_slots` (`safe_capacity`). -/
theorem C06_fallthrough_tracks_table {c : FunCtx} {code : List Sym} {pc : Nat} {s : St} {l : List (Nat × St)} {i : Sym}
    (hi : code[pc]? = some i) (hg : tableDriven i = true) (po pu : Nat) (hv : vmEffect i = some (po, pu))
    (h : succs c code pc s = some l) :
    ∃ s' rest, l = (pc + 1, s') :: rest ∧ (s'.depth : Int) = (s.depth : Int) + i.stackEffect ∧
      s'.handlers = s.handlers := by
  have he := C06_stackEffect_eq_vmEffect i po pu hv
  unfold succs at h
  rw [hi] at h
  simp only at h
  split at h
  · simp at h
  split at h
  · simp at h
  split at h
  · simp at h
  split at h
  · simp at h
  rename_i ex hex js hjs
  cases i <;> simp [tableDriven] at hg <;> simp only [hv] at h <;>
    (split at h
     · simp at h
     split at h
     · simp at h
     simp at h
     subst h
     refine ⟨_, _, rfl, ?_, rfl⟩
     simp only
     omega)

/-! ### soundness of the certificate checker -/

/-- One step of the depth-abstract machine. -/
def Step (c : FunCtx) (code : List Sym) (a b : Nat × St) : Prop :=
  ∃ l, succs c code a.1 a.2 = some l ∧ b ∈ l

/-- Every configuration on every finite path from the function entry. -/
inductive Reach (c : FunCtx) (code : List Sym) : Nat × St → Prop
  | entry : Reach c code (0, c.entry)
  | step {a b} : Reach c code a → Step c code a b → Reach c code b

theorem checkCert_parts {c : FunCtx} {code : List Sym} {cert : Cert} (h : checkCert c code cert = true) :
    cert.length = code.length ∧ cert[0]? = some (some c.entry) ∧
    ∀ pc s, pc < code.length → cert[pc]? = some (some s) →
      ∃ l, succs c code pc s = some l ∧ ∀ x ∈ l, cert[x.1]? = some (some x.2) := by
  unfold checkCert at h
  simp only [Bool.and_eq_true, beq_iff_eq, List.all_eq_true, List.mem_range] at h
  obtain ⟨⟨h1, h2⟩, h3⟩ := h
  refine ⟨h1, h2, ?_⟩
  intro pc s hpc hs
  have := h3 pc hpc
  rw [hs] at this
  simp only at this
  cases hl : succs c code pc s with
  | none => simp [hl] at this
  | some l =>
    refine ⟨l, rfl, ?_⟩
    simp only [hl, List.all_eq_true, beq_iff_eq] at this
    intro x hx
    exact this x hx

/-- **C06_verifier_sound.** If the certificate passes the local check, then along *every* finite
path of the depth-abstract machine from the entry — executed or not — each configuration is the
one the certificate records for its instruction, and the local contract holds there (the
configuration has successors, i.e. no clause of `succs` failed). -/
theorem C06_verifier_sound {c : FunCtx} {code : List Sym} {cert : Cert}
    (h : checkCert c code cert = true) (x : Nat × St) (hr : Reach c code x) :
    cert[x.1]? = some (some x.2) ∧ x.1 < code.length ∧ (succs c code x.1 x.2).isSome = true := by
  obtain ⟨hlen, hentry, hloc⟩ := checkCert_parts h
  have key : ∀ x, Reach c code x → cert[x.1]? = some (some x.2) := by
    intro x hr
    induction hr with
    | entry => exact hentry
    | step ha hs ih =>
      rename_i a b
      obtain ⟨l, hl, hb⟩ := hs
      have hlt : a.1 < code.length := by
        have := List.getElem?_eq_some_iff.mp ih
        obtain ⟨hh, _⟩ := this
        omega
      obtain ⟨l', hl', hall⟩ := hloc a.1 a.2 hlt ih
      rw [hl] at hl'
      cases hl'
      exact hall b hb
  have hx := key x hr
  have hlt : x.1 < code.length := by
    obtain ⟨hh, _⟩ := List.getElem?_eq_some_iff.mp hx
    omega
  obtain ⟨l, hl, _⟩ := hloc x.1 x.2 hlt hx
  exact ⟨hx, hlt, by simp [hl]⟩

/-- Joins: two paths reaching the same instruction arrive with the same depth and the same
handler stack. -/
theorem C06_join_depths_agree {c : FunCtx} {code : List Sym} {cert : Cert}
    (h : checkCert c code cert = true) (pc : Nat) (s₁ s₂ : St)
    (h₁ : Reach c code (pc, s₁)) (h₂ : Reach c code (pc, s₂)) : s₁ = s₂ := by
  have a := (C06_verifier_sound h _ h₁).1
  have b := (C06_verifier_sound h _ h₂).1
  simp only at a b
  rw [a] at b
  cases b
  rfl

/-! ### what "has successors" means: the clauses of the contract -/

theorem safe_capacity {c : FunCtx} {code : List Sym} {pc : Nat} {s : St}
    (h : (succs c code pc s).isSome = true) : s.depth ≤ c.capacity := by
  unfold succs at h
  split at h
  · simp at h
  · split at h
    · simp at h
    · split at h
      · simp at h
      · omega

theorem safe_operands {c : FunCtx} {code : List Sym} {pc : Nat} {s : St} {i : Sym}
    (hi : code[pc]? = some i) (h : (succs c code pc s).isSome = true) : operandsOk c s.depth i = true := by
  unfold succs at h
  rw [hi] at h
  simp only at h
  split at h
  · simp at h
  · simp_all

/-- Each exception handler records exactly the live depth (parameters and locals included). -/
theorem safe_handler_depth {c : FunCtx} {code : List Sym} {pc : Nat} {s : St} {d l : Nat}
    (hi : code[pc]? = some (.PushHandler d l)) (h : (succs c code pc s).isSome = true) : d = s.depth := by
  unfold succs at h
  rw [hi] at h
  simp only at h
  repeat' split at h
  all_goals simp_all

/-- At each `Return` there is a value to return above the parameters and no handler of this frame
is still installed. -/
theorem safe_return {c : FunCtx} {code : List Sym} {pc : Nat} {s : St}
    (hi : code[pc]? = some .Return) (h : (succs c code pc s).isSome = true) :
    c.arity + 2 ≤ s.depth ∧ s.handlers = [] := by
  unfold succs at h
  rw [hi] at h
  simp only at h
  repeat' split at h
  all_goals simp_all

/-! ### encoding: lengths, offsets and jump arithmetic (C06_decode_boundaries) -/

open LaytheVerif.Encode in
/-- **[G] enc_length.** Whatever the encoder helper, the number of bytes written for an instruction
is exactly `SymbolicByteCode::len` (both regenerated from `byte_code.rs`): the encoder's running
`offset` is the true byte position and `compute_label_offsets` agrees with it. -/
theorem C06_enc_length (code : List Sym) (off : Nat) (i : Sym) (bytes : List Nat)
    (h : encodeOne code off i = some bytes) : bytes.length = i.len := by
  cases i <;> simp [encodeOne, Sym.enc, operands] at h
  all_goals first
    | (subst h; simp [Sym.len, u16])
    | (rename_i x; cases x <;> simp [operands] at h <;> subst h <;> simp [Sym.len])
    | (split at h
       · split at h
         · simp at h; subst h; simp [Sym.len, u16]
         · simp at h
       · simp at h)

open LaytheVerif.Encode in
theorem C06_encode_length (code : List Sym) : ∀ (r : List Sym) (off : Nat) (bs : List Nat),
    encodeFrom code off r = some bs → bs.length = (r.map Sym.len).sum := by
  intro r
  induction r with
  | nil => intro off bs h; simp [encodeFrom] at h; subst h; rfl
  | cons i r ih =>
    intro off bs h
    simp only [encodeFrom] at h
    cases h1 : encodeOne code off i with
    | none => simp [h1] at h
    | some a =>
      cases h2 : encodeFrom code (off + i.len) r with
      | none => simp [h1, h2] at h
      | some b =>
        simp [h1, h2] at h
        subst h
        simp [C06_enc_length code off i a h1, ih _ _ h2]

open LaytheVerif.Encode in
theorem u16_roundtrip (x : Nat) (h : x < 65536) : lo x + 256 * hi x = x := by
  unfold lo hi; omega

open LaytheVerif.Encode in
/-- **[G] jump formulas.** For every branching instruction the constant in the encoder's jump formula
(`- 3`, `+ 3`, `- 5`, regenerated from `encode`) is the instruction's own length, which is also what
the VM has consumed when it applies the jump. -/
theorem C06_jump_const_is_len (i : Sym) :
    (∀ k, i.enc.1 = .jumpFwd k → k = i.len ∧ k = 3) ∧
    (∀ k, i.enc.1 = .jumpBack k → k = i.len ∧ k = 3) ∧
    (∀ k, i.enc.1 = .handlerFwd k → k = i.len ∧ k = 5) := by
  cases i <;> simp [Sym.enc, Sym.len]

open LaytheVerif.Encode in
/-- **C06_jump_lands_on_label.** If the encoder accepts a branch at byte offset `off` targeting label
`l`, then the VM, applying the encoded 16-bit operand, lands exactly on the offset
`compute_label_offsets` recorded for `l` — forwards for `And/Or/JumpIfFalse/Jump/CheckHandler/
PushHandler`, backwards for `Loop`. -/
theorem C06_jump_lands_on_label (code : List Sym) (off l t : Nat) (i : Sym) (bytes : List Nat)
    (h : encodeOne code off i = some bytes) (ht : labelOffset code l = some t) :
    (∀ k, i.enc.1 = .jumpFwd k → operands i = [l] →
        landing i.enc.1 off (bytes[1]! + 256 * bytes[2]!) = some t) ∧
    (∀ k, i.enc.1 = .jumpBack k → operands i = [l] →
        landing i.enc.1 off (bytes[1]! + 256 * bytes[2]!) = some t) ∧
    (∀ k d, i.enc.1 = .handlerFwd k → operands i = [d, l] →
        landing i.enc.1 off (bytes[3]! + 256 * bytes[4]!) = some t) := by
  refine ⟨?_, ?_, ?_⟩
  · intro k hk hop
    cases i <;> simp [Sym.enc] at hk <;> simp [operands] at hop <;> subst hop <;>
      simp [encodeOne, Sym.enc, operands, ht] at h <;> obtain ⟨⟨h1, h2⟩, rfl⟩ := h <;>
      simp [landing, u16, Sym.enc] <;> have := u16_roundtrip _ h2 <;> omega
  · intro k hk hop
    cases i <;> simp [Sym.enc] at hk <;> simp [operands] at hop <;> subst hop <;>
      simp [encodeOne, Sym.enc, operands, ht] at h <;> obtain ⟨⟨h1, h2⟩, rfl⟩ := h <;>
      simp [landing, u16, Sym.enc] <;> have := u16_roundtrip _ h2 <;> omega
  · intro k d hk hop
    cases i <;> simp [Sym.enc] at hk <;> simp [operands] at hop <;> obtain ⟨rfl, rfl⟩ := hop <;>
      simp [encodeOne, Sym.enc, operands, ht] at h <;> obtain ⟨⟨h1, h2⟩, rfl⟩ := h <;>
      simp [landing, u16, Sym.enc] <;> have := u16_roundtrip _ h2 <;> omega

/-! ### non-vacuity and regression witnesses -/

/-- `fn f(a, b) { try { raise Error("x"); } catch e: Error { print(a); } return a; }` as the repaired
compiler emits it (handler depth 3 = slot 0 + two parameters). -/
def sampleCtx : FunCtx := { arity := 2, maxSlots := 4, captures := 0, consts := [none, none, none] }
def sampleCode : List Sym :=
  [.PushHandler 3 0, .GetModSym 1, .Constant 2, .Call 1, .Raise, .Label 0, .GetModSym 1, .CheckHandler 2,
   .FinishUnwind, .PopHandler, .GetError, .GetModSym 0, .GetLocal 1, .Call 1, .DropN 2, .Jump 1,
   .Label 2, .ContinueUnwind, .Label 1, .GetLocal 1, .Return]

def isOk : GenResult → Bool | .ok _ => true | _ => false

/-- The checker accepts a non-trivial function (a handler, a catch chain, joins), so the hypotheses
of `C06_verifier_sound` are satisfiable. -/
example : isOk (verify sampleCtx sampleCode) = true := by decide

/-- **C06_witness_param_handler** (D1, repaired by a `fix:` commit): the same function with the depth
the pinned compiler recorded (1: parameters ignored) is rejected. -/
theorem C06_witness_param_handler :
    isOk (verify sampleCtx ((Sym.PushHandler 1 0) :: sampleCode.tail)) = false := by decide

/-- **C06_witness_super_call** (seeded round 4): a method `m(a) { super.m(a); try { raise .. } catch .. }` as the
compiler emits it when the row of `GetSuper` says 0 instead of −1 — the recorded handler depth is one above the live
depth (3 = slot 0, the parameter, nothing else) and the function is rejected; with the right depth it is accepted. -/
def superCtx : FunCtx := { arity := 1, maxSlots := 5, captures := 1, consts := [none, none, none] }
def superCode (recorded : Nat) : List Sym :=
  [.GetLocal 0, .GetCapture 0, .GetSuper 0, .GetLocal 1, .Call 1, .Drop, .PushHandler recorded 0, .GetModSym 1, .Constant 2,
   .Call 1, .Raise, .Label 0, .GetModSym 1, .CheckHandler 2, .FinishUnwind, .PopHandler, .GetError, .DropN 1, .Jump 1,
   .Label 2, .ContinueUnwind, .Label 1, .GetLocal 1, .Return]

theorem C06_witness_super_call :
    isOk (verify superCtx (superCode 2)) = true ∧ isOk (verify superCtx (superCode 3)) = false := by decide

/-- **C06_witness_send** (D25, repaired): with the pinned table entry `Send ↦ 0` the lemma
`C06_stackEffect_eq_vmEffect` is false — the VM pops the channel. -/
theorem C06_witness_send : vmEffect .Send = some (2, 1) ∧ ((1 : Int) - 2 ≠ 0) := by decide

end LaytheVerif.C06
