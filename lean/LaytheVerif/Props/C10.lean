/-
C10 — Object identity is stable under mutation; any value works as a map key.

Spec: every object has an immutable identity (`ident`: for a list the address it was created at,
for anything else its address); `==`, map lookup, `has`, `index` compare identities (`specEq`, …);
the contents of a list are shared by all its aliases.
Model: `Model/ListFwd.lean` (lists relocate when they grow; `==`/hash by raw address;
`Fiber::scan_roots` rewrites part of the references).

Proved for every heap the machine can reach, with no bound on histories, sizes or chain lengths:
* `C10_reachable_wf`, `C10_identity_immutable`  — the identity of an allocated object never changes;
* `C10_contents_shared`     — every mutation through ANY alias (old or new address) changes the
  contents seen through EVERY alias of that list, and of no other list; reads agree
  (`C10_reads_agree`), writes through either alias are the same operation (`C10_writes_agree`);
* `C10_identity_stable_partial` — wherever the values involved do not point at a forwarded header
  (envelope `E10`), the Model's address equality / hashed map lookup / `has` / `index` coincide with
  the Spec's identity versions; for objects that never relocate this needs no hypothesis
  (`C10_identity_nonrelocating`); and references only ever become stale through `List::grow`
  (`C10_stale_only_by_growth`);
* `C10_witness_alias_split` — D7 on the model; hence `C10_full` is false (`C10_full_false`).
* refused operations (round 4): `C10_refused_method_unchanged` (list.rs: `insert` → OutOfBounds,
  `remove` → OutOfBounds, `pop` → None leave EVERY heap literally unchanged, no relocation),
  `C10_refused_leaves_heap` / `C10_refused_identity_contents` (the same in Spec terms: a mutation the
  list refuses changes no identity, no contents, no header), `C10_refused_native` (every failing
  branch of every native of the machine: no relocation; heap and stack untouched when the receiver's
  header is `Here`), `C10_refused_call_no_stale` (a call that raises makes no alias stale) — a
  relocation caused by a refused operation is therefore NOT an instance of D7;
  `gen_method_order_match` & co. tie the order "bound test, refusal, ensure_capacity, writes" and the
  natives' guards to the Rust text.
-/
import LaytheVerif.Lemmas.ListFwdOps
import LaytheVerif.Lemmas.ListFwdReject
import LaytheVerif.Gen.ListFwdTables
import LaytheVerif.Gen.ListFwdOrder
namespace LaytheVerif.C10
open LaytheVerif.ListFwd

/-! ### reachable heaps -/

/-- every heap program keeps the heap well formed (one induction for the whole machine) -/
theorem step_wf (reloc : Bool) (m : M) (op : Op) (h : Heap) (w : WF h) :
    WF ((step reloc m op).run h).2 ∧ Ext h ((step reloc m op).run h).2 :=
  run_wf_ext _ h w

theorem runOps_wf (reloc : Bool) : ∀ (ops : List Op) (h : Heap) (m : M), WF h →
    WF (runOps reloc ops h m).1 ∧ Ext h (runOps reloc ops h m).1 := by
  intro ops
  induction ops with
  | nil => intro h m w; exact ⟨w, Ext.refl h⟩
  | cons op ops ih =>
    intro h m w
    obtain ⟨w1, e1⟩ := step_wf reloc m op h w
    obtain ⟨w2, e2⟩ := ih _ ((step reloc m op).run h).1 w1
    exact ⟨w2, e1.trans e2⟩

/-- **every history** of the machine, from the empty heap, ends in a well-formed heap -/
theorem C10_reachable_wf (reloc : Bool) (ops : List Op) : WF (runOps reloc ops Heap.empty {}).1 :=
  (runOps_wf reloc ops Heap.empty {} wf_empty).1

/-- **identity is immutable**: whatever the machine does next (any further history, any aliases,
any relocations), the identity of an allocated object is what it was, a list stays a list and
another object stays an object. -/
theorem C10_identity_immutable (reloc : Bool) (ops more : List Op) (a : Nat) :
    let s := runOps reloc ops Heap.empty {}
    let s' := runOps reloc more s.1 s.2
    a < s.1.next → ident s'.1 a = ident s.1 a ∧ (IsListAlias s.1 a → IsListAlias s'.1 a) ∧
      (∀ o, s.1.mem a = .obj o → ∃ o', s'.1.mem a = .obj o') := by
  intro s s' ha
  have e := (runOps_wf reloc more s.1 s.2 (C10_reachable_wf reloc ops)).2
  exact ⟨e.ident_eq a ha, e.list_stays a, e.obj_stays a⟩

/-! ### contents are shared through all aliases -/

/-- the mutations of the property's quantifier -/
inductive Mut where
  | push (v : Val) | insert (i : Nat) (v : Val) | pop | remove (i : Nat) | set (i : Nat) (v : Val) | clear

/-- Spec: what a mutation does to *the* contents of the list -/
def Mut.spec : Mut → List Val → List Val
  | .push v, xs => xs ++ [v]
  | .insert i v, xs => if i > xs.length then xs else insertAt xs i v
  | .pop, xs => xs.dropLast
  | .remove i, xs => xs.eraseIdx i
  | .set i v, xs => xs.set i v
  | .clear, _ => []

/-- Model: the Rust method, called on alias `a` -/
def Mut.model (reloc : Bool) (fuel a : Nat) : Mut → HCmd Unit
  | .push v => listPush reloc fuel a v
  | .insert i v => do let _ ← listInsert reloc fuel a i v
  | .pop => do let _ ← listPop fuel a
  | .remove i => do let _ ← listRemove fuel a i
  | .set i v => listSet fuel a i v
  | .clear => listClear fuel a

/-- two aliases have the same identity iff they end at the same vector -/
theorem same_ident_iff (h : Heap) (w : WF h) (a a' : Nat) (ha : IsListAlias h a) (ha' : IsListAlias h a') :
    ident h a' = ident h a ↔ final h a' = final h a := by
  obtain ⟨o, c, xs, hb⟩ := final_list h w a ha
  obtain ⟨o', c', xs', hb'⟩ := final_list h w a' ha'
  unfold ident
  rw [hb, hb']
  constructor
  · intro e
    subst e
    rw [← (w.vec_oid _ _ _ _ hb).2.2, ← (w.vec_oid _ _ _ _ hb').2.2]
  · intro e
    rw [e, hb] at hb'
    injection hb' with e1
    exact e1.symm

/-- **C10_contents_shared.**  In every reachable heap (`WF`), a mutation made through alias `a`
— whether `a` is the current address of the list or any forwarded old one, whether or not the
mutation relocates the list — is seen through every alias `a'` of the same list exactly as the
Spec's mutation of the contents, and leaves the contents of every other list untouched. -/
theorem C10_contents_shared (h : Heap) (w : WF h) (reloc : Bool) (μ : Mut) (a a' : Nat)
    (ha : IsListAlias h a) (ha' : IsListAlias h a') :
    items ((μ.model reloc (h.next + 1) a).run h).2 a' =
      if ident h a' = ident h a then μ.spec (items h a') else items h a' := by
  obtain ⟨o, cap, xs, hb⟩ := final_list h w a ha
  have hlt' := ha'.lt w
  have hsame := same_ident_iff h w a a' ha ha'
  have hx : items h a = xs := items_eq hb
  have key : ∀ ys, (if final h a' = final h a then ys else items h a') =
      if ident h a' = ident h a then ys else items h a' := by
    intro ys
    by_cases e : final h a' = final h a
    · simp [e, hsame.mpr e]
    · have : ¬ ident h a' = ident h a := fun e' => e (hsame.mp e')
      simp [e, this]
  have hxa' : final h a' = final h a → items h a' = xs := by
    intro e; unfold items; rw [e, hb]
  cases μ with
  | push v =>
    simp only [Mut.model, listPush, withHere_final _ _ h w a o cap xs hb]
    rw [items_ensure reloc h w _ o cap _ xs _ hb a' hlt', key]
    by_cases e : final h a' = final h a
    · simp [hsame.mpr e, Mut.spec, hxa' e]
    · have : ¬ ident h a' = ident h a := fun e' => e (hsame.mp e')
      simp [this]
  | insert i v =>
    simp only [Mut.model, listInsert, run_bind, withHere_final _ _ h w a o cap xs hb]
    by_cases hi : i > xs.length
    · simp only [hi, if_true, run_pure]
      by_cases e : final h a' = final h a
      · simp [hsame.mpr e, Mut.spec, hxa' e, hi]
      · have : ¬ ident h a' = ident h a := fun e' => e (hsame.mp e')
        simp [this]
    · simp only [hi, if_false, run_bind, run_pure, run_setItemsM]
      have hie := items_ensure reloc h w _ o cap (xs.length + 1) xs (insertAt xs i v) hb a' hlt'
      simp only [run_bind, run_setItemsM] at hie
      rw [hie, key]
      by_cases e : final h a' = final h a
      · simp [hsame.mpr e, Mut.spec, hxa' e, hi]
      · have : ¬ ident h a' = ident h a := fun e' => e (hsame.mp e')
        simp [this]
  | pop =>
    simp only [Mut.model, listPop, run_bind, withHere_final _ _ h w a o cap xs hb]
    cases hl : xs.getLast? with
    | none =>
      have hnil : xs = [] := by simpa using hl
      simp only [run_pure]
      by_cases e : final h a' = final h a
      · simp [hsame.mpr e, Mut.spec, hxa' e, hnil]
      · have : ¬ ident h a' = ident h a := fun e' => e (hsame.mp e')
        simp [this]
    | some v =>
      simp only [run_bind, run_setItemsM, run_pure]
      rw [items_setItems h w _ o cap xs _ hb a', key]
      by_cases e : final h a' = final h a
      · simp [hsame.mpr e, Mut.spec, hxa' e]
      · have : ¬ ident h a' = ident h a := fun e' => e (hsame.mp e')
        simp [this]
  | remove i =>
    simp only [Mut.model, listRemove, run_bind, withHere_final _ _ h w a o cap xs hb]
    cases hl : xs[i]? with
    | none =>
      have hge : xs.length ≤ i := by simpa using hl
      simp only [run_pure]
      by_cases e : final h a' = final h a
      · simp [hsame.mpr e, Mut.spec, hxa' e, List.eraseIdx_of_length_le hge]
      · have : ¬ ident h a' = ident h a := fun e' => e (hsame.mp e')
        simp [this]
    | some v =>
      simp only [run_bind, run_setItemsM, run_pure]
      rw [items_setItems h w _ o cap xs _ hb a', key]
      by_cases e : final h a' = final h a
      · simp [hsame.mpr e, Mut.spec, hxa' e]
      · have : ¬ ident h a' = ident h a := fun e' => e (hsame.mp e')
        simp [this]
  | set i v =>
    simp only [Mut.model, listSet, withHere_final _ _ h w a o cap xs hb, run_setItemsM]
    rw [items_setItems h w _ o cap xs _ hb a', key]
    by_cases e : final h a' = final h a
    · simp [hsame.mpr e, Mut.spec, hxa' e]
    · have : ¬ ident h a' = ident h a := fun e' => e (hsame.mp e')
      simp [this]
  | clear =>
    simp only [Mut.model, listClear, withHere_final _ _ h w a o cap xs hb, run_setItemsM]
    rw [items_setItems h w _ o cap xs _ hb a', key]
    by_cases e : final h a' = final h a
    · simp [hsame.mpr e, Mut.spec]
    · have : ¬ ident h a' = ident h a := fun e' => e (hsame.mp e')
      simp [this]

/-- reads through two aliases of one list agree (contents, hence length and every element) -/
theorem C10_reads_agree (h : Heap) (w : WF h) (a a' : Nat) (ha : IsListAlias h a) (ha' : IsListAlias h a')
    (e : ident h a' = ident h a) :
    items h a' = items h a ∧ (listItems (h.next + 1) a').run h = (listItems (h.next + 1) a).run h := by
  have ef := (same_ident_iff h w a a' ha ha').mp e
  obtain ⟨o, cap, xs, hb⟩ := final_list h w a ha
  have hb' : h.mem (final h a') = .vec o cap xs := by rw [ef]; exact hb
  refine ⟨by unfold items; rw [ef], ?_⟩
  simp only [listItems, withHere_final _ _ h w a o cap xs hb, withHere_final _ _ h w a' o cap xs hb']

/-- a mutation through either alias is the same operation on the heap -/
theorem C10_writes_agree (h : Heap) (w : WF h) (reloc : Bool) (μ : Mut) (a a' : Nat) (ha : IsListAlias h a)
    (ha' : IsListAlias h a') (e : ident h a' = ident h a) :
    ∀ x, ((μ.model reloc (h.next + 1) a').run h).2.mem x = ((μ.model reloc (h.next + 1) a).run h).2.mem x := by
  have ef := (same_ident_iff h w a a' ha ha').mp e
  obtain ⟨o, cap, xs, hb⟩ := final_list h w a ha
  have hb' : h.mem (final h a') = .vec o cap xs := by rw [ef]; exact hb
  have key : ∀ {β : Type} (d : β) (act : Nat → Nat → Nat → List Val → HCmd β),
      (withHere d act (h.next + 1) a').run h = (withHere d act (h.next + 1) a).run h := by
    intro β d act
    rw [withHere_final _ _ h w a o cap xs hb, withHere_final _ _ h w a' o cap xs hb', ef]
  intro x
  cases μ <;>
    simp only [Mut.model, listPush, listInsert, listPop, listRemove, listSet, listClear, run_bind, key]

/-- the history-level form: at the end of ANY history of the machine, every mutation through any
alias is shared by all aliases of that list and by no other list -/
theorem C10_contents_shared_history (ops : List Op) (μ : Mut) (a a' : Nat) :
    let h := (runOps true ops Heap.empty {}).1
    IsListAlias h a → IsListAlias h a' →
    items ((μ.model true (h.next + 1) a).run h).2 a' =
      if ident h a' = ident h a then μ.spec (items h a') else items h a' :=
  fun ha ha' => C10_contents_shared _ (C10_reachable_wf true ops) true μ a a' ha ha'

/-! ### identity: where address equality is identity equality -/

/-- Inside `E10` (neither value points at a forwarded header) the Model's `==` is the Spec's. -/
theorem eqv_eq_specEq (h : Heap) (w : WF h) (v v' : Val) (hv : fresh h v = true) (hv' : fresh h v' = true) :
    v.eqv v' = specEq h v v' := by
  cases v <;> cases v' <;> simp [Val.eqv, specEq]
  next a b =>
    simp only [fresh, Bool.not_eq_true'] at hv hv'
    have fa := final_of_notFwd h a hv
    have fb := final_of_notFwd h b hv'
    unfold ident
    rw [fa, fb]
    by_cases e : a = b
    · subst e; simp
    · have hne : (Val.ref a == Val.ref b) = false := by simp [e]
      rw [hne]
      symm
      rw [beq_eq_false_iff_ne]
      cases ha : h.mem a with
      | vec o c xs =>
        have wa := w.vec_oid a o c xs ha
        cases hb : h.mem b with
        | vec o' c' xs' =>
          have wb := w.vec_oid b o' c' xs' hb
          simp only []
          intro eo; subst eo
          exact e (wa.2.2.symm.trans wb.2.2)
        | fwd t => simp [isFwd, hb] at hv'
        | free =>
          simp only []
          intro eo
          -- the creating header of a vector is a list cell, `b` is free
          have : final h b = a := by rw [← eo]; exact wa.2.2
          rw [final_of_notFwd h b hv'] at this
          exact e this.symm
        | obj ob =>
          simp only []
          intro eo
          have : final h b = a := by rw [← eo]; exact wa.2.2
          rw [final_of_notFwd h b hv'] at this
          exact e this.symm
      | fwd t => simp [isFwd, ha] at hv
      | free =>
        cases hb : h.mem b with
        | vec o' c' xs' =>
          have wb := w.vec_oid b o' c' xs' hb
          simp only []
          intro eo
          have : final h a = b := by rw [eo]; exact wb.2.2
          rw [final_of_notFwd h a hv] at this
          exact e this
        | fwd t => simp [isFwd, hb] at hv'
        | free => simpa using e
        | obj ob => simpa using e
      | obj oa =>
        cases hb : h.mem b with
        | vec o' c' xs' =>
          have wb := w.vec_oid b o' c' xs' hb
          simp only []
          intro eo
          have : final h a = b := by rw [eo]; exact wb.2.2
          rw [final_of_notFwd h a hv] at this
          exact e this
        | fwd t => simp [isFwd, hb] at hv'
        | free => simpa using e
        | obj ob => simpa using e

theorem hash_of_eqv (v w : Val) (e : v.eqv w = true) : (v.hash == w.hash) = true := by
  have : v = w := by simpa [Val.eqv] using e
  subst this; simp

/-- the hashed comparison of the map is just `==` -/
theorem hashEq_eq_eqv (v w : Val) : (v.hash == w.hash && v.eqv w) = v.eqv w := by
  cases e : v.eqv w
  · simp
  · simp [hash_of_eqv v w e]

/-- **C10_identity_stable_partial.**  For every reachable heap and all values inside the envelope
`E10` — the operands, and the keys / elements they are compared with, do not point at a forwarded
list header, which is the case as long as no list outgrew its capacity while an alias was held
where `scan_roots` does not rewrite — the Model's equality, hashed map lookup, `has` and `index`
are the Spec's identity-based ones. -/
theorem C10_identity_stable_partial (h : Heap) (w : WF h) (q : Val) (hq : fresh h q = true) :
    (∀ v, fresh h v = true → v.eqv q = specEq h v q) ∧
    (∀ es : List (Val × Val), (∀ e ∈ es, fresh h e.1 = true) → mapFind es q = specMapFind h es q) ∧
    (∀ xs : List Val, (∀ x ∈ xs, fresh h x = true) →
      xs.any (fun x => x.eqv q) = specHas h xs q ∧ position xs q = specPosition h xs q) := by
  refine ⟨fun v hv => eqv_eq_specEq h w v q hv hq, ?_, ?_⟩
  · intro es hes
    unfold mapFind specMapFind
    congr 1
    have hp : ∀ e ∈ es, (e.1.hash == q.hash && e.1.eqv q) = specEq h e.1 q := fun e he => by
      rw [hashEq_eq_eqv, eqv_eq_specEq h w e.1 q (hes e he) hq]
    induction es with
    | nil => rfl
    | cons e es ih =>
      simp only [List.find?]
      rw [hp e (by simp), ih (fun e' he' => hes e' (by simp [he'])) (fun e' he' => hp e' (by simp [he']))]
  · intro xs hxs
    have hp : ∀ x ∈ xs, x.eqv q = specEq h x q := fun x hx => eqv_eq_specEq h w x q (hxs x hx) hq
    constructor
    · unfold specHas
      induction xs with
      | nil => rfl
      | cons x xs ih =>
        simp only [List.any, hp x (by simp)]
        rw [ih (fun x' hx' => hxs x' (by simp [hx'])) (fun x' hx' => hp x' (by simp [hx']))]
    · unfold position specPosition
      have : xs.findIdx (fun x => x.eqv q) = xs.findIdx (fun x => specEq h x q) := by
        induction xs with
        | nil => rfl
        | cons x xs ih =>
          simp only [List.findIdx_cons, hp x (by simp)]
          rw [ih (fun x' hx' => hxs x' (by simp [hx'])) (fun x' hx' => hp x' (by simp [hx']))]
      rw [this]

/-- the same at the end of every history of the machine -/
theorem C10_identity_stable_history (ops : List Op) (v q : Val) :
    let h := (runOps true ops Heap.empty {}).1
    fresh h v = true → fresh h q = true → v.eqv q = specEq h v q :=
  fun hv hq => eqv_eq_specEq _ (C10_reachable_wf true ops) v q hv hq

/-- Maps, instances, tuples, boxes, closures never relocate: for them address equality is identity
equality with **no** hypothesis, in every reachable heap, forever. -/
theorem C10_identity_nonrelocating (h : Heap) (w : WF h) (a b : Nat) (oa ob : OCell)
    (ha : h.mem a = .obj oa) (hb : h.mem b = .obj ob) :
    (Val.ref a).eqv (.ref b) = specEq h (.ref a) (.ref b) ∧ ident h a = a :=
  ⟨eqv_eq_specEq h w _ _ (by simp [fresh, isFwd, ha]) (by simp [fresh, isFwd, hb]),
   by unfold ident; rw [final_of_notFwd h a (by simp [isFwd, ha]), ha]⟩

/-- References become stale only through a relocation: a step of the machine that performs no
`List::grow` leaves every header's forward status unchanged, so a history without relocation never
leaves `E10`. -/
theorem C10_stale_only_by_growth (reloc : Bool) (m : M) (op : Op) (h : Heap) (w : WF h)
    (hg : (step reloc m op).grows h = 0) (a : Nat) :
    isFwd ((step reloc m op).run h).2 a = isFwd h a :=
  run_no_grow _ h w hg a

/-- The envelope is tight: a stale alias and the current address of the *same* list (Spec-equal)
are **always** unequal for the Model — every alias that `scan_roots` misses at a relocation is a
split. -/
theorem C10_stale_alias_always_splits (h : Heap) (w : WF h) (a : Nat) (hs : isFwd h a = true) :
    fresh h (.ref a) = false ∧ fresh h (.ref (final h a)) = true ∧
    (Val.ref a).eqv (.ref (final h a)) = false ∧ specEq h (.ref a) (.ref (final h a)) = true := by
  have hn := final_notFwd h w a
  have hne : a ≠ final h a := by
    intro e; rw [← e] at hn; rw [hn] at hs; cases hs
  refine ⟨by simp [fresh, hs], by simp [fresh, hn], by simp [Val.eqv, hne], ?_⟩
  obtain ⟨o, c, xs, hb⟩ := final_list h w a (Or.inr ((isFwd_iff h a).mp hs))
  simp only [specEq, ident, beq_iff_eq]
  rw [final_of_notFwd h (final h a) hn, hb]

/-! ### the tables the model was written from (regenerated from the Rust text on every run) -/

/-- what `callNative` implements for each list native: Rust type, `with_stack()`, and the order of
heap action / `has_moved` test / `scan_roots` in its `call` -/
def nativeShape : Native → Option (String × Bool × List String)
  | .lpush => some ("ListPush", false, ["push", "moved", "scan"])
  | .lpop => some ("ListPop", false, ["moved", "scan", "pop"])
  | .lhas => some ("ListHas", false, ["moved", "scan", "contains"])
  | .lindex => some ("ListIndex", false, ["position", "moved", "scan"])
  | .lclear => some ("ListClear", false, ["pop", "moved", "scan"])
  | .llen => some ("ListLen", false, [])
  | .lget => some ("ListIndexGet", true, ["moved", "scan", "read"])
  | .lset => some ("ListIndexSet", true, ["moved", "scan", "write"])
  | .linsert => some ("ListInsert", true, ["insert", "moved", "scan"])
  | .lremove => some ("ListRemove", true, ["moved", "scan", "remove"])
  | _ => none

/-- every list native of the model has exactly the shape the Rust text has now -/
theorem gen_natives_match :
    [Native.lpush, .lpop, .lhas, .lindex, .lclear, .llen, .lget, .lset, .linsert, .lremove].all
      (fun n => match nativeShape n with
        | some s => Gen.ListFwd.natives.contains s
        | none => false) = true := by decide

/-- growth rule, forwarding header, forwarded arms, `list!` capacities, the arms of `scan_roots`
(whole stack array, one hop, map values only), address equality/hash, copied arguments, and no
`scan_roots` in map.rs / tuple.rs — as the model assumes -/
theorem gen_rules_match :
    Gen.ListFwd.growthRule = ("needed > cap", "(cap * 2).max(needed)") ∧
    Gen.ListFwd.growSteps = ["VecBuilder::new(self, new_cap)", "write_len(new_list)", "mark_moved(cap)"] ∧
    Gen.ListFwd.forwardedArms = [("pop", true), ("remove", true), ("push", true), ("insert", true)] ∧
    Gen.ListFwd.listMacroCaps = ["4", "std::cmp::max(len, 4)"] ∧
    Gen.ListFwd.scanLoop = "self.stack.iter_mut()" ∧
    Gen.ListFwd.scanArms = [("List", ["forward_list", "compact_slice"]), ("Tuple", ["compact_slice"]),
      ("Instance", ["compact_slice"]), ("Map", ["compact_value"])] ∧
    Gen.ListFwd.scanOneHop = true ∧ Gen.ListFwd.scanMapBinder = "_, value" ∧
    Gen.ListFwd.objEq = "a == b" ∧ Gen.ListFwd.objHash = "ValueKind::Obj.hash(state); a.hash(state);" ∧
    Gen.ListFwd.objectRefDerives.contains "PartialEq" = true ∧ Gen.ListFwd.objectRefDerives.contains "Hash" = true ∧
    Gen.ListFwd.normalNativesCopyArgs = true ∧ Gen.ListFwd.otherScanningFiles = [] := by decide

/-- the events of each mutating `List` method (its `Here` arm) in the order in which `listPop`,
`listRemove`, `listPush`, `listInsert` perform them: bound test, refusal, `ensure_capacity`, writes -/
def methodShape : List (String × List String) :=
  [("pop", ["read_len", "check:len == 0", "refuse", "write_len:len - 1", "read_value"]),
   ("remove", ["read_len", "check:index >= len", "refuse", "read_value", "copy", "write_len:len - 1"]),
   ("push", ["read_len", "reserve:len + 1", "write_value", "write_len:len + 1"]),
   ("insert", ["read_len", "check:index > len", "refuse", "reserve:len + 1", "copy", "write_value", "write_len:len + 1"])]

/-- list.rs has the event order the model has: in particular `insert` refuses an index beyond the
end BEFORE it reserves capacity, `remove` and `pop` before they write -/
theorem gen_method_order_match : Gen.ListFwd.methodEvents = methodShape := by decide

/-- in every method that can refuse, the refusal precedes the first event that changes memory -/
theorem gen_refusal_before_effects :
    Gen.ListFwd.methodEvents.all (fun me =>
      match me.2.idxOf "refuse" with
      | i => (me.2.take i).all (fun e => ["read_len", "check:len == 0", "check:index >= len", "check:index > len"].contains e)
             || i == me.2.length) = true := by
  rw [gen_method_order_match]; decide

/-- the guards of the natives that can refuse an index, as `nativeBody` has them: ListInsert /
ListRemove refuse a fractional and a negative index before anything else (`guardIndex`);
`[]` / `[]=` scan first and then ask `determine_index` -/
def guardShape : Native → Option (String × List String)
  | .lget => some ("ListIndexGet", ["moved", "scan", "determine_index", "read", "index_error"])
  | .lset => some ("ListIndexSet", ["moved", "scan", "determine_index", "write", "index_error"])
  | .linsert => some ("ListInsert", ["fract", "negative", "insert", "moved", "scan", "oob_error"])
  | .lremove => some ("ListRemove", ["fract", "negative", "moved", "scan", "remove", "oob_error"])
  | _ => none

theorem gen_native_guards_match :
    Gen.ListFwd.nativeGuards = [Native.lget, .lset, .linsert, .lremove].filterMap guardShape := by decide

/-- `determine_index` as `determineIndex` has it -/
theorem gen_determine_index_match :
    Gen.ListFwd.determineIndexRules = ["if index.fract() != 0.0", "Err", "if index < 0.0", "if negated_index > list.len()", "Err",
      "Ok list.len() - negated_index", "if index >= list.len()", "Err", "Ok index"] := by decide

/-- the declared parameters of the list natives, and `numberParam` points at the `Number` one
(position in the argument slice, receiver first); `check_native_arity` runs before the native -/
theorem gen_number_params_match :
    Gen.ListFwd.nativeParams = [("ListIndexGet", ["index:Number"]), ("ListIndexSet", ["val:Object", "index:Number"]), ("ListLen", []),
      ("ListPush", ["values:Object"]), ("ListPop", []), ("ListRemove", ["index:Number"]), ("ListIndex", ["value:Object"]),
      ("ListInsert", ["index:Number", "val:Object"]), ("ListClear", []), ("ListHas", ["val:Object"])] ∧
    [Native.lpush, .lpop, .lhas, .lindex, .lclear, .llen, .lget, .lset, .linsert, .lremove].all (fun n =>
      match nativeShape n with
      | some s => (match Gen.ListFwd.nativeParams.lookup s.1 with
        | some ps => numberParam n == (if ps.contains "index:Number" then some (ps.idxOf "index:Number" + 1) else none)
        | none => false)
      | none => false) = true ∧
    Gen.ListFwd.arityCheckedFirst = true := by decide

/-! ### the pinned code breaks the full property (D7) -/

/-- `fn main() { let a=[1,2,3,4]; let holder=[[a]]; let m={a: 7}; a.push(5);
print(a == holder[0][0]); print(m[a]); }` as the compiler lays it out (a, holder, m = slots 2,3,4). -/
def witnessOps : List Op :=
  [.const 1, .const 2, .const 3, .const 4, .list 4,                 -- let a = [1,2,3,4]       (slot 2)
   .getl 2, .list 1, .list 1,                                       -- let holder = [[a]]      (slot 3)
   .getl 2, .const 7, .map 1,                                       -- let m = {a: 7}          (slot 4)
   .getl 2, .bind, .const 5, .call .lpush 1, .drop,                 -- a.push(5)
   .pushfn, .getl 2, .getl 3, .const 0, .call .lget 1, .const 0, .call .lget 1, .eq, .print, .drop,
   .pushfn, .getl 4, .getl 2, .call .mget 1, .print, .drop]

/-- **C10_witness_alias_split** (D7): on the exact model the alias in the nested list no longer
equals the variable and the map no longer finds its key, while the Spec says `true` and `7`. -/
theorem C10_witness_alias_split :
    (runOps true witnessOps Heap.empty {}).2.out = ["KeyError", "false"] ∧
    (runOps false witnessOps Heap.empty {}).2.out = ["7", "true"] := by
  decide

/-- The full property: on every history the Model's observations are the Spec's. -/
def C10_full : Prop :=
  ∀ ops : List Op, (runOps true ops Heap.empty {}).2.out = (runOps false ops Heap.empty {}).2.out

/-- `C10_full` is false on the pinned code. -/
theorem C10_full_false : ¬ C10_full := by
  intro hfull
  have h1 := hfull witnessOps
  rw [C10_witness_alias_split.1, C10_witness_alias_split.2] at h1
  exact absurd h1 (by decide)

/-! ### refused operations leave everything as it was -/

/-- Spec: the mutations a list refuses, as a function of its contents (`IndexedResult::OutOfBounds`, `None`) -/
def Mut.refused : Mut → List Val → Bool
  | .insert i _, xs => decide (i > xs.length)
  | .remove i, xs => decide (i ≥ xs.length)
  | .pop, xs => xs.isEmpty
  | _, _ => false

/-- **C10_refused_method_unchanged** (list.rs, no hypothesis at all: every heap, well formed or not,
every alias, every fuel).  `List::insert` answering `OutOfBounds`, `List::remove` answering
`OutOfBounds` and `List::pop` answering `None` return the heap they were given — not a cell
written, no `List::grow` — because each tests its bound before `ensure_capacity` / the writes. -/
theorem C10_refused_method_unchanged (reloc : Bool) (fuel a i : Nat) (v : Val) (h : Heap) :
    (((listInsert reloc fuel a i v).run h).1 = false →
      ((listInsert reloc fuel a i v).run h).2 = h ∧ (listInsert reloc fuel a i v).grows h = 0) ∧
    (((listRemove fuel a i).run h).1 = none →
      ((listRemove fuel a i).run h).2 = h ∧ (listRemove fuel a i).grows h = 0) ∧
    (((listPop fuel a).run h).1 = none →
      ((listPop fuel a).run h).2 = h ∧ (listPop fuel a).grows h = 0) :=
  ⟨listInsert_refused reloc fuel a i v h, listRemove_refused fuel a i h, listPop_refused fuel a h⟩

/-- which calls are refused, in terms of the contents seen through the alias (reachable heaps) -/
theorem refused_iff (h : Heap) (w : WF h) (reloc : Bool) (a i : Nat) (v : Val) (ha : IsListAlias h a) :
    (((listInsert reloc (h.next + 1) a i v).run h).1 = false ↔ i > (items h a).length) ∧
    (((listRemove (h.next + 1) a i).run h).1 = none ↔ i ≥ (items h a).length) ∧
    (((listPop (h.next + 1) a).run h).1 = none ↔ items h a = []) := by
  obtain ⟨o, cap, xs, hb⟩ := final_list h w a ha
  have hx : items h a = xs := items_eq hb
  refine ⟨?_, ?_, ?_⟩
  · simp only [listInsert, withHere_final _ _ h w a o cap xs hb, hx]
    by_cases hi : i > xs.length
    · simp [hi]
    · simp [hi]
  · simp only [listRemove, withHere_final _ _ h w a o cap xs hb, hx]
    cases hl : xs[i]? with
    | none => simpa using hl
    | some y =>
      have : i < xs.length := by
        apply Classical.byContradiction
        intro hn
        have : xs[i]? = none := by simp; omega
        rw [this] at hl; cases hl
      simp; omega
  · simp only [listPop, withHere_final _ _ h w a o cap xs hb, hx]
    cases hl : xs.getLast? with
    | none => simpa using hl
    | some y =>
      simp
      intro e; subst e; simp at hl

/-- **C10_refused_leaves_heap.**  In every reachable heap, a mutation that the list refuses —
insert beyond the end, remove at or beyond the end, pop of an empty list — made through ANY alias
(current address or a forwarded old one), on a list with or without spare capacity, leaves the
heap exactly as it was and relocates nothing. -/
theorem C10_refused_leaves_heap (h : Heap) (w : WF h) (reloc : Bool) (μ : Mut) (a : Nat) (ha : IsListAlias h a)
    (hr : μ.refused (items h a) = true) :
    ((μ.model reloc (h.next + 1) a).run h).2 = h ∧ (μ.model reloc (h.next + 1) a).grows h = 0 := by
  cases μ with
  | push v => simp [Mut.refused] at hr
  | set i v => simp [Mut.refused] at hr
  | clear => simp [Mut.refused] at hr
  | insert i v =>
    have hi : i > (items h a).length := by simpa [Mut.refused] using hr
    obtain ⟨e1, e2⟩ := listInsert_refused reloc (h.next + 1) a i v h (((refused_iff h w reloc a i v ha).1).mpr hi)
    simp only [Mut.model, run_bind, grows_bind, e1, e2]
    exact ⟨rfl, rfl⟩
  | remove i =>
    have hi : i ≥ (items h a).length := by simpa [Mut.refused] using hr
    obtain ⟨e1, e2⟩ := listRemove_refused (h.next + 1) a i h (((refused_iff h w reloc a i .nil ha).2.1).mpr hi)
    simp only [Mut.model, run_bind, grows_bind, e1, e2]
    exact ⟨rfl, rfl⟩
  | pop =>
    have hi : items h a = [] := by simpa [Mut.refused] using hr
    obtain ⟨e1, e2⟩ := listPop_refused (h.next + 1) a h (((refused_iff h w reloc a 0 .nil ha).2.2).mpr hi)
    simp only [Mut.model, run_bind, grows_bind, e1, e2]
    exact ⟨rfl, rfl⟩

/-- the same in the property's words: after a refused mutation every address — every alias of the
list, of any other list, any other object — has the identity, the final vector, the contents and
the forward status it had; in particular equal aliases stay equal for the Model's address equality
exactly when they were before (nothing the equality reads has changed). -/
theorem C10_refused_identity_contents (h : Heap) (w : WF h) (reloc : Bool) (μ : Mut) (a : Nat) (ha : IsListAlias h a)
    (hr : μ.refused (items h a) = true) (x : Nat) :
    let h' := ((μ.model reloc (h.next + 1) a).run h).2
    ident h' x = ident h x ∧ final h' x = final h x ∧ items h' x = items h x ∧ isFwd h' x = isFwd h x ∧
      h'.mem x = h.mem x ∧ h'.next = h.next := by
  intro h'
  have e : h' = h := (C10_refused_leaves_heap h w reloc μ a ha hr).1
  rw [e]
  exact ⟨rfl, rfl, rfl, rfl, rfl, rfl⟩

/-- **C10_refused_native.**  For EVERY native of the machine, every machine state and every heap:
if the call ends in `Call::Err` (fractional / negative / out-of-range / non-number index,
`determine_index` failure, missing map key) then (1) no list was relocated by it, and (2) if the
receiver's header is not a forwarding pointer (`!list.has_moved()`: no `scan_roots`), the heap and
the machine (stack included) are exactly what they were. -/
theorem C10_refused_native (reloc : Bool) (m : M) (f : Native) (argc : Nat) (h : Heap) (n : String)
    (hr : ((nativeBody reloc m f argc).run h).1.2 = .err n) :
    (nativeBody reloc m f argc).grows h = 0 ∧
    (isFwd h (m.recvOf argc) = false →
      ((nativeBody reloc m f argc).run h).2 = h ∧ ((nativeBody reloc m f argc).run h).1.1 = m) := by
  unfold nativeBody at hr ⊢
  simp only [run_bind, grows_bind, run_limitM, grows_limitM] at hr ⊢
  by_cases hs : sigRejects f (fun i => m.fib.get (m.fib.top - (argc + 1) + i)) = true
  · simp [hs]
  · simp only [hs, Bool.false_eq_true, if_false] at hr ⊢
    cases f with
    | lpush => simp at hr
    | lpop => simp at hr
    | lhas => simp at hr
    | lindex => simp at hr
    | lclear => simp at hr
    | llen => simp at hr
    | mset =>
      simp only [run_bind, run_readM] at hr
      split at hr <;> simp at hr
    | mgetm =>
      simp only [run_bind, run_readM] at hr
      split at hr <;> simp at hr
    | mhas =>
      simp only [run_bind, run_readM] at hr
      split at hr <;> simp at hr
    | mlen =>
      simp only [run_bind, run_readM] at hr
      split at hr <;> simp at hr
    | tget =>
      simp only [run_bind, run_readM] at hr
      split at hr <;> simp at hr
    | thas =>
      simp only [run_bind, run_readM] at hr
      split at hr <;> simp at hr
    | tindex =>
      simp only [run_bind, run_readM] at hr
      split at hr <;> simp at hr
    | tlen =>
      simp only [run_bind, run_readM] at hr
      split at hr <;> simp at hr
    | lget =>
      simp only [run_bind, grows_bind, scanIfMoved_grows, (listItems_heap _ _ _).1, (listItems_heap _ _ _).2, Nat.add_zero, Nat.zero_add] at hr ⊢
      constructor
      · split <;> simp
      · intro hm
        simp only [M.recvOf] at hm
        simp only [scanIfMoved_here m _ h hm] at hr ⊢
        split <;> simp
    | lset =>
      simp only [run_bind, grows_bind, scanIfMoved_grows, (listItems_heap _ _ _).1, (listItems_heap _ _ _).2, Nat.add_zero, Nat.zero_add] at hr ⊢
      constructor
      · split <;> simp [listSet_grows]
      · intro hm
        simp only [M.recvOf] at hm
        simp only [scanIfMoved_here m _ h hm] at hr ⊢
        generalize determineIndex _ _ = d at hr ⊢
        cases d with
        | none => simp
        | some i => simp at hr
    | linsert =>
      simp only [Nat.add_zero, Nat.zero_add] at hr ⊢
      generalize guardIndex _ = g at hr ⊢
      cases g with
      | none => simp
      | some i =>
        simp only [run_bind, grows_bind, scanIfMoved_grows, Nat.zero_add] at hr ⊢
        generalize hins : listInsert reloc h.next _ i _ = ins at hr ⊢
        cases hok : (ins.run h).1 with
        | true => simp [hok] at hr
        | false =>
          subst hins
          obtain ⟨e1, e2⟩ := listInsert_refused _ _ _ _ _ _ hok
          simp only [hok, e1, e2] at hr ⊢
          constructor
          · simp
          · intro hm
            simp only [M.recvOf] at hm
            simp [scanIfMoved_here m _ h hm]
    | lremove =>
      simp only [Nat.add_zero, Nat.zero_add] at hr ⊢
      generalize guardIndex _ = g at hr ⊢
      cases g with
      | none => simp
      | some i =>
        simp only [run_bind, grows_bind, scanIfMoved_grows, listRemove_grows, Nat.zero_add] at hr ⊢
        constructor
        · split <;> simp
        · intro hm
          simp only [M.recvOf] at hm
          simp only [scanIfMoved_here m _ h hm] at hr ⊢
          generalize hrem : listRemove h.next _ i = rem at hr ⊢
          cases hok : (rem.run h).1 with
          | some v => simp [hok] at hr
          | none =>
            subst hrem
            obtain ⟨e1, e2⟩ := listRemove_refused _ _ _ _ hok
            simp [e1]
    | mget =>
      simp only [run_bind, grows_bind, run_readM, grows_readM, Nat.add_zero, Nat.zero_add] at hr ⊢
      generalize h.mem _ = cell at hr ⊢
      constructor
      · split
        · split <;> simp
        · simp
      · intro _
        split
        · split <;> simp
        · simp
    | mremove =>
      simp only [run_bind, grows_bind, run_readM, grows_readM, Nat.add_zero, Nat.zero_add] at hr ⊢
      generalize h.mem _ = cell at hr ⊢
      constructor
      · split
        · split <;> simp
        · simp
      · intro _
        split at hr
        · split at hr
          · simp at hr
          · simp
        · simp at hr

/-- the heap after `call_native` is the heap after the native's body (the return / the unwind only
touch the stack), and it relocates exactly as often -/
theorem callNative_heap (reloc : Bool) (m : M) (f : Native) (argc : Nat) (h : Heap) :
    ((callNative reloc m f argc).run h).2 = ((nativeBody reloc m f argc).run h).2 ∧
    (callNative reloc m f argc).grows h = (nativeBody reloc m f argc).grows h := by
  simp only [callNative, run_bind, grows_bind]
  cases ((nativeBody reloc m f argc).run h).1.2 <;> simp

/-- **C10_refused_call_no_stale.**  In every reachable heap a native call that raises turns no header
into a forwarding pointer: every alias that was current stays current, so a refused operation can
never be the cause of an alias split (that is reserved to successful growth, D7). -/
theorem C10_refused_call_no_stale (reloc : Bool) (m : M) (f : Native) (argc : Nat) (h : Heap) (w : WF h) (n : String)
    (hr : ((nativeBody reloc m f argc).run h).1.2 = .err n) (a : Nat) :
    isFwd ((callNative reloc m f argc).run h).2 a = isFwd h a ∧
    ident ((callNative reloc m f argc).run h).2 a = ident h a ∨ h.next ≤ a := by
  by_cases ha : a < h.next
  · left
    have hg : (callNative reloc m f argc).grows h = 0 := by
      rw [(callNative_heap reloc m f argc h).2]; exact (C10_refused_native reloc m f argc h n hr).1
    exact ⟨run_no_grow _ h w hg a, (run_wf_ext _ h w).2.ident_eq a ha⟩
  · right; omega

/-- the machine with the seeded shape of the demonstration: `a = [1,2,3,4]` (length = capacity),
`nested = [[a]]`, then `try { a.insert(9, 5); print("accepted") } catch e: Error { print("rejected") }`
and `print(a == nested[0][0])`, `print(a.len())` -/
def refusedOps : List Op :=
  [.const 1, .const 2, .const 3, .const 4, .list 4,
   .getl 2, .list 1, .list 1,
   .tryb, .getl 2, .bind, .const 9, .const 5, .call .linsert 2, .drop, .pushfn, .pushfn, .say 1, .drop, .trye 6,
   .catchb, .pushfn, .pushfn, .say 0, .drop, .endc,
   .pushfn, .getl 2, .getl 3, .const 0, .call .lget 1, .const 0, .call .lget 1, .eq, .print, .drop,
   .pushfn, .getl 2, .call .llen 0, .print, .drop]

set_option maxRecDepth 8000 in
/-- non-vacuity: on the exact model the refused insert on the full list raises, relocates nothing,
the stack is back at the depth of the `try`, and Model and Spec both print rejected / true / 4;
the same history with index 2 is accepted, relocates (4 = capacity) and splits the nested alias (D7) -/
example :
    (runOps true refusedOps Heap.empty {}).2.out = ["4", "true", "rejected"] ∧
    (runOps true refusedOps Heap.empty {}).2.raises = 1 ∧ (runOps true refusedOps Heap.empty {}).2.fib.top = 4 ∧
    isFwd (runOps true refusedOps Heap.empty {}).1 0 = false := by
  refine ⟨by decide, by decide, by decide, by decide⟩

set_option maxRecDepth 8000 in
example : (runOps false refusedOps Heap.empty {}).2.out = ["4", "true", "rejected"] := by decide

/-- the accepted variant (index 2) -/
def acceptedOps : List Op := refusedOps.map (fun op => if op = .const 9 then .const 2 else op)

set_option maxRecDepth 8000 in
example : (runOps true acceptedOps Heap.empty {}).2.out = ["5", "false", "accepted"] ∧
    (runOps false acceptedOps Heap.empty {}).2.out = ["5", "true", "accepted"] := by
  refine ⟨by decide, by decide⟩

set_option maxRecDepth 8000 in
/-- non-vacuity of `C10_refused_native`'s hypotheses: on the machine just before that call the body of
ListInsert ends in `Err`, and the receiver's header is `Here` -/
example :
    let s := runOps true (refusedOps.take 13) Heap.empty {}
    let m := s.2.setFib (s.2.fib.peekSet 2 (.ref 0))
    ((nativeBody true m .linsert 2).run s.1).1.2 = .err "IndexError" ∧ isFwd s.1 (m.recvOf 2) = false := by
  decide

/-- non-vacuity of `C10_refused_leaves_heap`: the witness heap of D7 (list relocated to address 4,
5 elements); insert at 6 and remove at 5 through the OLD address 0 are refused -/
example : IsListAlias (runOps true witnessOps Heap.empty {}).1 0 ∧
    (Mut.insert 6 .nil).refused (items (runOps true witnessOps Heap.empty {}).1 0) = true ∧
    (Mut.remove 5).refused (items (runOps true witnessOps Heap.empty {}).1 0) = true := by
  refine ⟨Or.inr ⟨4, by decide⟩, by decide, by decide⟩

/-! ### non-vacuity -/

/-- the heap after the witness history: list `a` created at address 0 now lives at address 3 -/
def exHeap : Heap := (runOps true witnessOps Heap.empty {}).1

/-- a reachable heap with a forwarded header (so `WF`, `IsListAlias` with an *old* address and
`ident` are exercised on a relocated list): the old address 0 and the new address 4 are aliases of
one list with identity 0 and share the grown contents -/
example : WF exHeap ∧ isFwd exHeap 0 = true ∧ IsListAlias exHeap 0 ∧ IsListAlias exHeap 4 ∧
    ident exHeap 0 = 0 ∧ ident exHeap 4 = 0 ∧ items exHeap 0 = items exHeap 4 ∧ (items exHeap 0).length = 5 := by
  refine ⟨C10_reachable_wf true witnessOps, by decide, Or.inr ⟨4, by decide⟩, Or.inl ⟨0, 8, [.num 1, .num 2, .num 3, .num 4, .num 5], by decide⟩,
    by decide, by decide, by decide, by decide⟩

/-- `C10_contents_shared` at work on that heap: a push through the OLD address 0 is seen through the
new address 4 (and vice versa), a pop through the new address is seen through the old one -/
example :
    items (((Mut.push (.num 9)).model true (exHeap.next + 1) 0).run exHeap).2 4 =
      [.num 1, .num 2, .num 3, .num 4, .num 5, .num 9] ∧
    items (((Mut.push (.num 9)).model true (exHeap.next + 1) 4).run exHeap).2 0 =
      [.num 1, .num 2, .num 3, .num 4, .num 5, .num 9] ∧
    items ((Mut.pop.model true (exHeap.next + 1) 4).run exHeap).2 0 = [.num 1, .num 2, .num 3, .num 4] := by
  decide

/-- the hypotheses of `C10_identity_stable_partial` hold of non-trivial values of that heap: the
new address of the list, the map and the nested list are all fresh … -/
example : fresh exHeap (.ref 4) = true ∧ fresh exHeap (.ref 3) = true ∧ fresh exHeap (.ref 1) = true := by decide

/-- … and the stale alias (address 0, still stored in `holder[0][0]` and as the map's key) is what
the envelope excludes: there the Model's equality differs from the Spec's -/
example : fresh exHeap (.ref 0) = false ∧ (Val.ref 0).eqv (.ref 4) = false ∧ specEq exHeap (.ref 0) (.ref 4) = true := by
  decide

/-- a history that relocates but stays inside `E10`: the only alias is the local, `scan_roots`
rewrites it, and Model and Spec agree (`a == a`, `[a].has(a)`) -/
example :
    let ops : List Op := [.const 1, .const 2, .const 3, .const 4, .list 4, .getl 2, .getl 2, .list 1,
      .getl 2, .bind, .const 5, .call .lpush 1, .drop,
      .pushfn, .getl 2, .getl 3, .eq, .print, .drop,
      .pushfn, .getl 4, .bind, .getl 2, .call .lhas 1, .print, .drop]
    (runOps true ops Heap.empty {}).2.out = ["true", "true"] ∧ (runOps true ops Heap.empty {}).2.scans = 1 ∧
    (runOps false ops Heap.empty {}).2.out = ["true", "true"] := by
  decide

end LaytheVerif.C10
