/-
C03 — Classes: construction, fields, dispatch, inheritance, super and bound methods.

Theorems about `Model/Classes.lean` (class.rs, the compiler's field numbering, the VM's call paths)
against the Spec functions of `Model/ClassSpec.lean`.  Nothing here bounds the depth of a hierarchy,
the number or order of fields/methods, the overriding pattern or the argument count.
-/
import LaytheVerif.Lemmas.ClassBuild
import LaytheVerif.Lemmas.ClassStore
import LaytheVerif.Model.ClassSpec
import LaytheVerif.Model.ClassLang
import LaytheVerif.Model.ClassCompile
import LaytheVerif.Gen.SuperSites
import LaytheVerif.Lemmas.ClassLangDecl
namespace LaytheVerif.C03
open LaytheVerif.Classes LaytheVerif.ClassSpec

/-! ## one class body on top of its superclass -/

theorem buildCls_wf (n : String) (id : Nat) (sup : Cls) (b : ClassBody) (h : ClsWF sup) :
    ClsWF (buildCls n id sup b) := by
  unfold buildCls
  apply foldl_addMethod_wf
  apply foldl_addField_wf
  cases b.init with
  | none => exact inheritFrom_bare_wf n id sup h
  | some i => exact addMethod_wf _ _ _ (inheritFrom_bare_wf n id sup h)

theorem buildCls_fields (n : String) (id : Nat) (sup : Cls) (b : ClassBody) (h : ClsWF sup) :
    (buildCls n id sup b).fields =
      ((compileInitFields b.initFields).foldl Cls.addField { (Cls.bare n) with fields := sup.fields }).fields := by
  unfold buildCls
  rw [foldl_addMethod_fields]
  have key : ∀ (fs : List String) (c d : Cls), c.fields = d.fields →
      (fs.foldl Cls.addField c).fields = (fs.foldl Cls.addField d).fields := by
    intro fs
    induction fs with
    | nil => intro c d h; simpa
    | cons f fs ih =>
      intro c d hcd
      apply ih
      unfold Cls.addField
      rw [hcd]
      split <;> simp [hcd]
  apply key
  obtain ⟨h1, _⟩ := inheritFrom_bare n id sup h
  cases b.init with
  | none => simpa using h1
  | some i => simpa [addMethod_fields] using h1

/-- inheritance copies before it appends: a field of the superclass keeps its index -/
theorem buildCls_preserves (n : String) (id : Nat) (sup : Cls) (b : ClassBody) (h : ClsWF sup)
    (f : String) (i : Nat) (hf : sup.getFieldIndex f = some i) :
    (buildCls n id sup b).getFieldIndex f = some i := by
  unfold Cls.getFieldIndex
  rw [buildCls_fields n id sup b h]
  exact foldl_addField_preserves _ _ f i (by simpa [Cls.getFieldIndex] using hf)

theorem buildCls_nfields_ge (n : String) (id : Nat) (sup : Cls) (b : ClassBody) (h : ClsWF sup) :
    sup.nfields ≤ (buildCls n id sup b).nfields := by
  unfold Cls.nfields
  rw [buildCls_fields n id sup b h]
  exact foldl_addField_length_le _ { (Cls.bare n) with fields := sup.fields }

theorem buildCls_mem_fields (n : String) (id : Nat) (sup : Cls) (b : ClassBody) (h : ClsWF sup) (x : String) :
    x ∈ Tbl.keys (buildCls n id sup b).fields ↔ x ∈ b.initFields ∨ x ∈ Tbl.keys sup.fields := by
  rw [buildCls_fields n id sup b h, mem_keys_foldl_addField, mem_compileInitFields]

/-- the flattened method table of one class = its own definitions, then the superclass' table -/
theorem buildCls_getMethod (n : String) (id : Nat) (sup : Cls) (b : ClassBody) (h : ClsWF sup) (k : String) :
    (buildCls n id sup b).getMethod k =
      match ownDef b k with | some v => some v | none => sup.getMethod k := by
  unfold buildCls
  rw [foldl_addMethod_get]
  unfold ownDef
  cases Tbl.get b.methods.reverse k with
  | some v => simp
  | none =>
    simp only [Cls.getMethod, foldl_addField_methods]
    obtain ⟨_, h2, _⟩ := inheritFrom_bare n id sup h
    cases hb : b.init with
    | none => simp [h2]
    | some i =>
      simp only [Cls.addMethod, Tbl.get_insert, h2]
      by_cases hk : k = "init"
      · subst hk; simp
      · have : ¬ "init" = k := fun e => hk e.symm
        simp [hk, this]

theorem buildCls_name (n : String) (id : Nat) (sup : Cls) (b : ClassBody) : (buildCls n id sup b).name = n := by
  unfold buildCls
  rw [foldl_addMethod_name, foldl_addField_name]
  cases b.init <;> rfl

theorem foldl_addMethod_superClass (ms : List (String × Nat)) (c : Cls) :
    (ms.foldl (fun c p => c.addMethod p.1 p.2) c).superClass = c.superClass := by
  induction ms generalizing c with
  | nil => rfl
  | cons p ms ih => simp only [List.foldl_cons]; rw [ih]; rfl

theorem foldl_addField_superClass (fs : List String) (c : Cls) :
    (fs.foldl Cls.addField c).superClass = c.superClass := by
  induction fs generalizing c with
  | nil => rfl
  | cons f fs ih =>
    simp only [List.foldl_cons]; rw [ih]
    unfold Cls.addField; split <;> rfl

/-! ## chains of any depth -/

/-- the runtime class of the head of a chain of class declarations (most derived first), each
produced by the instruction sequence the compiler emits, on top of `root` -/
def buildChain (root : Cls) : List (String × ClassBody) → Cls
  | [] => root
  | (n, b) :: rest => buildCls n rest.length (buildChain root rest) b

theorem buildChain_wf (root : Cls) (h : ClsWF root) (chain : List (String × ClassBody)) :
    ClsWF (buildChain root chain) := by
  induction chain with
  | nil => exact h
  | cons p chain ih => exact buildCls_wf _ _ _ _ ih

/-- **C03_field_index_bijection.**  For every chain of classes (any depth, any field lists in any
order, with repetitions and with names re-assigned in descendants) the field table of the most derived
class maps its field names one-to-one onto `[0, fields.len)`:
distinct names, and the indices in insertion order are exactly `0, 1, …, len-1`. -/
theorem C03_field_index_bijection (root : Cls) (h : ClsWF root) (chain : List (String × ClassBody)) :
    FieldsWF (buildChain root chain).fields :=
  (buildChain_wf root h chain).fields

theorem get_mem_vals (t : Tbl) (x : String) (j : Nat) (h : Tbl.get t x = some j) : j ∈ t.map (·.2) := by
  induction t with
  | nil => simp [Tbl.get] at h
  | cons q t ih =>
    obtain ⟨k2, v2⟩ := q
    simp only [Tbl.get] at h
    by_cases hk : k2 = x
    · simp [hk] at h; simp [h]
    · simp only [hk, if_false] at h
      simp only [List.map_cons, List.mem_cons]; exact Or.inr (ih h)

theorem get_injective_of_vals_nodup (t : Tbl) (h : (t.map (·.2)).Nodup) (a b : String) (i : Nat)
    (ha : Tbl.get t a = some i) (hb : Tbl.get t b = some i) : a = b := by
  induction t with
  | nil => simp [Tbl.get] at ha
  | cons q t ih =>
    obtain ⟨k, v⟩ := q
    simp only [List.map_cons, List.nodup_cons] at h
    simp only [Tbl.get] at ha hb
    by_cases hka : k = a <;> by_cases hkb : k = b
    · rw [← hka, ← hkb]
    · rw [if_pos hka] at ha; rw [if_neg hkb] at hb
      cases ha
      exact absurd (get_mem_vals t b _ hb) h.1
    · rw [if_neg hka] at ha; rw [if_pos hkb] at hb
      cases hb
      exact absurd (get_mem_vals t a _ ha) h.1
    · rw [if_neg hka] at ha; rw [if_neg hkb] at hb
      exact ih h.2 ha hb

/-- `FieldsWF` spelled out: `get_field_index` is injective … -/
theorem fieldsWF_injective (t : Tbl) (h : FieldsWF t) (a b : String) (i : Nat)
    (ha : Tbl.get t a = some i) (hb : Tbl.get t b = some i) : a = b :=
  get_injective_of_vals_nodup t (by rw [h.1]; exact List.nodup_range) a b i ha hb

/-- … and onto `[0, len)`: every index below `len` belongs to some name, and no index reaches `len`. -/
theorem fieldsWF_onto (t : Tbl) (h : FieldsWF t) (i : Nat) (hi : i < t.length) : ∃ a, Tbl.get t a = some i := by
  obtain ⟨h1, h2⟩ := h
  have hmem : i ∈ t.map (·.2) := by rw [h1]; simpa using hi
  simp only [List.mem_map] at hmem
  obtain ⟨⟨k, v⟩, hp, rfl⟩ := hmem
  refine ⟨k, ?_⟩
  clear h1 hi
  induction t with
  | nil => simp at hp
  | cons q t ih =>
    obtain ⟨k2, v2⟩ := q
    simp only [Tbl.get]
    by_cases hk : k2 = k
    · subst hk
      simp only [if_true]
      rcases List.mem_cons.mp hp with e | e
      · cases e; rfl
      · exfalso
        simp [Tbl.keys] at h2
        exact h2.1 v e
    · simp only [hk, if_false]
      rcases List.mem_cons.mp hp with e | e
      · cases e; exact absurd rfl hk
      · exact ih (by simp [Tbl.keys] at h2; simpa [Tbl.keys] using h2.2) e

theorem fieldsWF_range (t : Tbl) (h : FieldsWF t) (a : String) (i : Nat) (ha : Tbl.get t a = some i) : i < t.length := by
  have := get_mem_vals t a i ha
  rw [h.1] at this; simpa using this

/-- an instance has exactly `fields.len` slots (all `nil`), so every field index addresses a slot -/
theorem C03_instance_slots (nilV : Val) (cid : Nat) (c : Cls) (i : Inst) (h : instantiate nilV cid c = some i) :
    i.slots.length = c.nfields ∧ i.cls = cid ∧ ∀ v ∈ i.slots, v = nilV := by
  unfold instantiate at h
  split at h
  · cases h
  · cases h; simp

/-- **C03_field_set.**  The fields of the most derived class are exactly the names assigned on `self`
in some initialiser of the chain (plus whatever the root has — nothing for `Object`). -/
theorem C03_field_set (root : Cls) (h : ClsWF root) (chain : List (String × ClassBody)) (x : String) :
    x ∈ Tbl.keys (buildChain root chain).fields ↔
      isField (chain.map (·.2)) x = true ∨ x ∈ Tbl.keys root.fields := by
  induction chain with
  | nil => simp [buildChain, isField]
  | cons p chain ih =>
    obtain ⟨n, b⟩ := p
    simp only [buildChain]
    rw [buildCls_mem_fields _ _ _ _ (buildChain_wf root h chain), ih]
    simp only [isField, List.map_cons, List.any_cons, Bool.or_eq_true, List.contains_eq_mem,
      decide_eq_true_eq]
    constructor
    · rintro (h1 | h1 | h1)
      · exact Or.inl (Or.inl h1)
      · exact Or.inl (Or.inr h1)
      · exact Or.inr h1
    · rintro ((h1 | h1) | h1)
      · exact Or.inl h1
      · exact Or.inr (Or.inl h1)
      · exact Or.inr (Or.inr h1)

/-- a field of any ancestor keeps its index in every descendant, at any depth -/
theorem buildChain_preserves (root : Cls) (h : ClsWF root) (chain : List (String × ClassBody))
    (f : String) (i : Nat) (hf : root.getFieldIndex f = some i) :
    (buildChain root chain).getFieldIndex f = some i := by
  induction chain with
  | nil => exact hf
  | cons p chain ih => exact buildCls_preserves _ _ _ _ (buildChain_wf root h chain) f i ih

theorem buildChain_nfields_ge (root : Cls) (h : ClsWF root) (chain : List (String × ClassBody)) :
    root.nfields ≤ (buildChain root chain).nfields := by
  induction chain with
  | nil => exact Nat.le_refl _
  | cons p chain ih => exact Nat.le_trans ih (buildCls_nfields_ge _ _ _ _ (buildChain_wf root h chain))

/-- **C03_fixed_index_valid.**  Let class `K` have no explicit superclass and let its implicit
superclass `object` have no fields (true of the built-in `Object`, which is what `K` inherits from
whatever the program declares: `C03_implicit_super_is_builtin` below).  If, at any point while `K`'s
initialiser is being compiled (after any prefix `n` of its `self.f = …` assignments) or afterwards,
the compiler decides on the fixed-index instruction `GetProp(p)/SetProp(p)` for `self.f`, then at run
time `p` is the index of `f` in `K` **and in every descendant of `K` at any depth**, and it is a
valid slot of every instance of those classes.  (With an explicit superclass the compiler never
emits the fixed-index form: `propertyAccess_explicit`.) -/
theorem C03_fixed_index_valid (object : Cls) (hobj : ClsWF object) (hnof : object.fields = [])
    (name : String) (supId : Nat) (b : ClassBody) (n : Nat) (f : String) (p : Nat)
    (hacc : propertyAccess (some ⟨compileInitFields (b.initFields.take n), false⟩) f = .fixed p)
    (desc : List (String × ClassBody)) :
    (buildChain (buildCls name supId object b) desc).getFieldIndex f = some p ∧
    p < (buildChain (buildCls name supId object b) desc).nfields := by
  have hpos : findKnownField (compileInitFields b.initFields) f = some p := by
    apply compileInitFields_prefix b.initFields n
    unfold propertyAccess at hacc
    simp only at hacc
    split at hacc
    · next q hq => simp at hacc; rw [hq, hacc]
    · cases hacc
  have hK : (buildCls name supId object b).getFieldIndex f = some p := by
    unfold Cls.getFieldIndex
    rw [buildCls_fields name supId object b hobj, hnof]
    have := foldl_addField_new (compileInitFields b.initFields) { (Cls.bare name) with fields := [] }
      (compileInitFields_nodup _) (by intro x _; simp [Tbl.get]) f p hpos
    simpa [Cls.getFieldIndex] using this
  have hwfK := buildCls_wf name supId object b hobj
  refine ⟨buildChain_preserves _ hwfK desc f p hK, ?_⟩
  have h1 : p < (buildCls name supId object b).nfields :=
    fieldsWF_range _ hwfK.fields f p (by simpa [Cls.getFieldIndex] using hK)
  exact Nat.lt_of_lt_of_le h1 (buildChain_nfields_ge _ hwfK desc)

/-! ## which class a declaration inherits from -/

/-- **C03_implicit_super_is_builtin.**  A class declared without a superclass inherits from the symbol
`Object` of the *global module* — for every set of locals in scope and every set of module-level
declarations of the program (`sc` is arbitrary: a parameter, `let`, function or class called `Object`
at any nesting level, or none), and whatever an ordinary read of the name `Object` would give there
(`env.lexical` is arbitrary and not consulted).  `hcopy` says that the module's copy of the global
symbol, which the module prologue fills by `LoadGlobal; SetModSym`, still holds it — the program has not
assigned `Object = …;` without declaring the name (see `C03_witness_rebound_module_copy`). -/
theorem C03_implicit_super_is_builtin (sc : NameScope) (env : SuperEnv)
    (hcopy : env.moduleObject = some env.globalObject) :
    superValue env (superLoad sc none) = some env.globalObject := by
  simp only [superLoad]
  cases isGlobal sc "Object" <;> simp [superValue, hcopy]

/-- … and as soon as the program uses the name itself — a local anywhere up the enclosing functions or
a declaration at module level — not even the module's copy is read: no hypothesis at all. -/
theorem C03_implicit_super_under_own_object (sc : NameScope) (env : SuperEnv)
    (h : "Object" ∈ sc.locals ∨ "Object" ∈ sc.declared) :
    superValue env (superLoad sc none) = some env.globalObject := by
  have : isGlobal sc "Object" = false := by
    unfold isGlobal
    rcases h with h | h <;> simp [h]
  simp [superLoad, this, superValue]

/-- an explicit superclass is an ordinary variable read (so `class A : Object` under a local `Object`
inherits from the local, as the source says) -/
theorem C03_explicit_super_is_lexical (sc : NameScope) (env : SuperEnv) (p : String) :
    superValue env (superLoad sc (some p)) = env.lexical p := rfl

/-- the Spec evaluator says the same: without a parent in the source the chain ends (the built-in
`Object`), for every environment -/
theorem C03_spec_implicit_parent (env : List (String × ClassLang.Val)) :
    ClassLang.resolveSuper env none = pure none := rfl

/-- the `Inherit` event of the compile trace (`ClassCompile.inheritEvent`, compared with the real
compiler's instruction stream on every generated program) is this decision -/
theorem inheritEvent_implicit (sc : NameScope) :
    ClassCompile.inheritEvent sc none = (if isGlobal sc "Object" then "Im" else "IO") := by
  simp only [ClassCompile.inheritEvent, superLoad]
  cases isGlobal sc "Object" <;> simp

/-- **C03_fixed_index_valid_any_scope.**  `C03_fixed_index_valid` for the class object the VM builds,
with the hypothesis "the implicit superclass has no fields" discharged for every program: whatever
names are in scope (`sc`) and whatever they are bound to (`env.lexical`), executing the emitted
declaration of a class without parent — superclass pushed by `superLoad sc none`, then `Class`,
`Inherit`, `Method`, `Field*`, … (`Store.declareClass`) — on a store whose global `Object` has no fields
yields a class in which every fixed index the compiler chose for `self.f` is the index of `f`, a valid
slot, and stays so in every descendant. -/
theorem C03_fixed_index_valid_any_scope (sc : NameScope) (env : SuperEnv)
    (hcopy : env.moduleObject = some env.globalObject)
    (s s' : Store) (object : Cls) (hobj : s.get? env.globalObject = some object) (hwf : ClsWF object)
    (hnof : object.fields = [])
    (name : String) (b : ClassBody) (n : Nat) (f : String) (p : Nat)
    (hacc : propertyAccess (some ⟨compileInitFields (b.initFields.take n), false⟩) f = .fixed p)
    (sup c : Nat) (hsup : superValue env (superLoad sc none) = some sup)
    (h : s.declareClass name sup b = some (s', c)) :
    sup = env.globalObject ∧
    ∃ cc, s'.get? c = some cc ∧ cc.getFieldIndex f = some p ∧ p < cc.nfields ∧
      ∀ desc, (buildChain (buildCls name sup object b) desc).getFieldIndex f = some p ∧
              p < (buildChain (buildCls name sup object b) desc).nfields := by
  have hs : sup = env.globalObject := by
    rw [C03_implicit_super_is_builtin sc env hcopy] at hsup
    exact (Option.some.inj hsup).symm
  subst hs
  obtain ⟨_, h2, _⟩ := declareClass_eq_buildCls s s' name env.globalObject c object b hobj h
  have key := C03_fixed_index_valid object hwf hnof name env.globalObject b n f p hacc
  refine ⟨rfl, _, h2, ?_, ?_, key⟩
  · simpa [Cls.getFieldIndex, buildChain] using (key []).1
  · simpa [Cls.nfields, buildChain] using (key []).2

/-- with an explicit superclass, or for a name the initialiser never assigns, or for a receiver other
than `self`, the compiler falls back to the by-name instructions -/
theorem propertyAccess_explicit (fs : List String) (f : String) :
    propertyAccess (some ⟨fs, true⟩) f = .byName f := by
  unfold propertyAccess; simp only; split <;> simp

theorem propertyAccess_not_self (f : String) : propertyAccess none f = .byName f := rfl

/-- **C03_flat_lookup_is_mro.**  For every chain and every method name, lookup in the table built by
copy-on-inherit equals the most-derived-first walk of the chain (falling back to the root's table,
i.e. `Object`'s natives). -/
theorem C03_flat_lookup_is_mro (root : Cls) (h : ClsWF root) (chain : List (String × ClassBody)) (k : String) :
    (buildChain root chain).getMethod k =
      match mro (chain.map (·.2)) k with | some v => some v | none => root.getMethod k := by
  induction chain with
  | nil => simp [buildChain, mro]
  | cons p chain ih =>
    obtain ⟨n, b⟩ := p
    simp only [buildChain, List.map_cons, mro]
    rw [buildCls_getMethod _ _ _ _ (buildChain_wf root h chain)]
    cases ownDef b k with
    | some v => simp
    | none => simpa using ih

/-- … and `init` likewise: the cached `Class::init` that `call_class` runs is the most derived
initialiser of the chain. -/
theorem C03_init_is_mro (root : Cls) (h : ClsWF root) (chain : List (String × ClassBody)) :
    (buildChain root chain).init =
      match mro (chain.map (·.2)) "init" with | some v => some v | none => root.init := by
  rw [(buildChain_wf root h chain).init, h.init]
  exact C03_flat_lookup_is_mro root h chain "init"

/-! ## the VM's call paths -/

/-- the error class is not compared (D20: `bind_method` raises `RuntimeError` where the fused paths
raise `PropertyError`); message and everything else is -/
def Sig.normErr : Sig → Sig
  | .error _ m => .error .property m
  | s => s

theorem getElem?_rev_append (args : List Val) (x : Val) (rest : List Val) :
    (args.reverse ++ x :: rest)[args.length]? = some x := by
  rw [List.getElem?_append_right (by simp)]
  simp

theorem set_rev_append (args : List Val) (x y : Val) (rest : List Val) :
    (args.reverse ++ x :: rest).set args.length y = args.reverse ++ y :: rest := by
  rw [List.set_append_right _ _ (by simp)]
  simp

/-- **C03_invoke_equals_get_then_call.**  For every VM state, receiver, name and argument list:
the fused `Invoke(name, argc)` on `… receiver args` does exactly what `GetPropByName(name)` on
`… receiver` followed (after the arguments are pushed) by `Call(argc)` does — the same callee is
entered with the same receiver slot, the same arguments and the same rest of the stack, a field of
that name takes precedence over a method in both, calling a class allocates the same instance, and
failures carry the same message — up to the error class (D20) and the allocation of the bound-method
object (a value here). -/
theorem C03_invoke_equals_get_then_call (vm : VM) (name : String) (recv : Val) (args rest : List Val) :
    Sig.normErr (VM.opInvoke { vm with stack := args.reverse ++ recv :: rest } name args.length) =
    Sig.normErr (match VM.opGetPropByName { vm with stack := recv :: rest } name with
      | .ok vm' => VM.opCall { vm' with stack := args.reverse ++ vm'.stack } args.length
      | s => s) := by
  unfold VM.opInvoke VM.opGetPropByName
  simp only [VM.peek, getElem?_rev_append, List.getElem?_cons_zero]
  have hvc : ∀ (st st' : List Val), VM.valueClass { vm with stack := st } recv = VM.valueClass { vm with stack := st' } recv := by
    intro st st'; cases recv <;> rfl
  have hfh : ∀ (st st' : List Val), VM.fieldHit { vm with stack := st } recv name = VM.fieldHit { vm with stack := st' } recv name := by
    intro st st'; cases recv <;> rfl
  rw [hfh (args.reverse ++ recv :: rest) (recv :: rest), hvc (args.reverse ++ recv :: rest) (recv :: rest)]
  cases hcls : VM.valueClass { vm with stack := recv :: rest } recv with
  | none =>
    -- no class: the receiver cannot be a live instance either, so there is no field hit
    have : VM.fieldHit { vm with stack := recv :: rest } recv name = none := by
      cases recv <;> simp [VM.fieldHit, VM.instOf]
      next addr =>
        simp only [VM.valueClass] at hcls
        cases hh : vm.heap[addr]? with
        | none => simp
        | some i => simp [hh] at hcls
    simp [this, Sig.normErr]
  | some cid =>
    simp only
    cases VM.fieldHit { vm with stack := recv :: rest } recv name with
    | some ofield =>
      cases ofield with
      | none => simp [Sig.normErr]
      | some field =>
        simp only [VM.peekSet, List.set_cons_zero, VM.opCall, VM.peek, set_rev_append, getElem?_rev_append]
    | none =>
      simp only [VM.bindMethod, VM.peek, List.getElem?_cons_zero]
      cases hm : (Store.get? vm.store cid).bind (·.getMethod name) with
      | none =>
        simp only [Sig.normErr, VM.undefinedProperty]
      | some m =>
        simp only [VM.peekSet, List.set_cons_zero, VM.opCall, VM.peek, getElem?_rev_append,
          VM.resolveCall, set_rev_append]

/-- `SuperInvoke` = `GetSuper` then `Call`, in the same sense -/
theorem C03_super_invoke_equals_get_super_then_call (vm : VM) (name : String) (sup : Nat) (self : Val)
    (args rest : List Val) :
    Sig.normErr (VM.opSuperInvoke { vm with stack := .cls sup :: (args.reverse ++ self :: rest) } name args.length) =
    Sig.normErr (match VM.opGetSuper { vm with stack := .cls sup :: self :: rest } name with
      | .ok vm' => VM.opCall { vm' with stack := args.reverse ++ vm'.stack } args.length
      | s => s) := by
  unfold VM.opSuperInvoke VM.opGetSuper
  simp only [VM.bindMethod, VM.peek, List.getElem?_cons_zero]
  cases hm : (Store.get? vm.store sup).bind (·.getMethod name) with
  | none => simp only [Sig.normErr, VM.undefinedProperty]
  | some m =>
    simp only [VM.peekSet, List.set_cons_zero, VM.opCall, VM.peek, getElem?_rev_append,
      VM.resolveCall, set_rev_append]

/-- **C03_super_lookup.**  `super.name(args)` compiled in a method that lexically belongs to class
`K` pushes the class object captured when `K` was declared (`sup`, `K`'s parent).  Whatever the
receiver `self` is — an instance of `K` or of any descendant, at any depth — the callee is the one
the most-derived-first walk *from `K`'s parent* finds, `self` stays in the receiver slot, and the
receiver's own class is never consulted. -/
theorem C03_super_lookup (vm : VM) (name : String) (sup : Nat) (root : Cls) (hroot : ClsWF root)
    (parentChain : List (String × ClassBody))
    (hsup : vm.store.get? sup = some (buildChain root parentChain))
    (self : Val) (args rest : List Val) :
    VM.opSuperInvoke { vm with stack := .cls sup :: (args.reverse ++ self :: rest) } name args.length =
      match (match mro (parentChain.map (·.2)) name with | some v => some v | none => root.getMethod name) with
      | some m => .enter m args.length { vm with stack := args.reverse ++ self :: rest }
      | none => .error .property (vm.store.undefinedProperty name sup) := by
  unfold VM.opSuperInvoke
  simp only [hsup, Option.bind_some, C03_flat_lookup_is_mro root hroot parentChain name]
  cases (match mro (parentChain.map (·.2)) name with | some v => some v | none => root.getMethod name) with
  | none => simp only [VM.undefinedProperty]
  | some m => simp only [VM.resolveCall]

/-! ### the cache slot of a fused super call: one class declaration evaluated with many parents -/

/-- **[G]** `op_super_invoke` / `op_get_super` as they are in ops.rs now (regenerated by
tools/translate_c03.py): the class comes off the stack, the cache is asked with *that class* as the key
and filled with it, a miss looks the method up in that class — the rows `VM.opSuperInvokeC` mirrors -/
theorem super_sites_eq_gen : Gen.SuperSites.facts = superSiteFacts := by decide

/-- **[G]** … and the getter they use answers `Some` only under `cache.class == class` (cache.rs) -/
theorem super_getters_eq_gen : Gen.SuperSites.getters = invokeGetterFacts := by decide

/-- what a filled slot of the super site `name` may hold: a class together with the method a lookup of
`name` in that class gives -/
def SlotSound (s : Store) (name : String) (slot : InvokeSlot) : Prop :=
  ∀ e, slot = some e → ∃ m, (s.get? e.cls).bind (·.getMethod name) = some m ∧ e.method = .closure m

/-- the run has only added to the store: the method table of every class that exists is what it was
(a class is complete when its declaration ends — `op_method` only ever writes to the class being
declared — and a super site can only run after the declaration it sits in has ended) -/
def MethodsKept (s s' : Store) : Prop :=
  ∀ c cc, s.get? c = some cc → ∃ cc', s'.get? c = some cc' ∧ ∀ k, cc'.getMethod k = cc.getMethod k

theorem MethodsKept.refl (s : Store) : MethodsKept s s := fun _ cc h => ⟨cc, h, fun _ => rfl⟩

theorem SlotSound.mono {s s' : Store} {name : String} {slot : InvokeSlot}
    (h : SlotSound s name slot) (hk : MethodsKept s s') : SlotSound s' name slot := by
  intro e he
  obtain ⟨m, hm, hcl⟩ := h e he
  cases hc : s.get? e.cls with
  | none => simp [hc] at hm
  | some cc =>
    obtain ⟨cc', h1, h2⟩ := hk e.cls cc hc
    refine ⟨m, ?_, hcl⟩
    simp only [hc, Option.bind_some] at hm
    simp only [h1, Option.bind_some, h2 name, hm]

theorem slotSound_none (s : Store) (name : String) : SlotSound s name none := by
  intro e he; cases he

/-- **C03_super_invoke_cache_transparent.**  One execution of a fused `super.name(args)`: whatever class
`sup` the enclosing declaration was evaluated with *this time* and whatever the slot holds from earlier
executions of the same instruction (for another evaluation of the declaration with another parent, or
none), the instruction does exactly what the cache-less `op_super_invoke` does — the lookup of
`C03_super_lookup`, from `sup` — and leaves a slot that is sound again. -/
theorem C03_super_invoke_cache_transparent (vm : VM) (slot : InvokeSlot) (name : String) (argc : Nat)
    (h : SlotSound vm.store name slot) :
    (VM.opSuperInvokeC vm slot name argc).1 = VM.opSuperInvoke vm name argc ∧
    SlotSound vm.store name (VM.opSuperInvokeC vm slot name argc).2 := by
  unfold VM.opSuperInvokeC VM.opSuperInvokeWith VM.opSuperInvoke
  cases hst : vm.stack with
  | nil => exact ⟨rfl, h⟩
  | cons top rest =>
    cases top with
    | cls sup =>
      simp only
      cases hslot : slot with
      | none =>
        simp only [getInvokeCache]
        cases hm : (vm.store.get? sup).bind (·.getMethod name) with
        | none => exact ⟨rfl, slotSound_none _ _⟩
        | some m =>
          refine ⟨rfl, ?_⟩
          intro e he
          cases he
          exact ⟨m, hm, rfl⟩
      | some e =>
        simp only [getInvokeCache]
        by_cases hc : e.cls = sup
        · obtain ⟨m, hm, hcl⟩ := h e hslot
          rw [hc] at hm
          simp only [hc, if_true, hm, hcl]
          exact ⟨trivial, hslot ▸ h⟩
        · simp only [hc, if_false]
          cases hm : (vm.store.get? sup).bind (·.getMethod name) with
          | none => exact ⟨rfl, hslot ▸ h⟩
          | some m =>
            refine ⟨rfl, ?_⟩
            intro e' he'
            cases he'
            exact ⟨m, hm, rfl⟩
    | prim _ _ => exact ⟨rfl, h⟩
    | inst _ => exact ⟨rfl, h⟩
    | closure _ => exact ⟨rfl, h⟩
    | native _ => exact ⟨rfl, h⟩
    | bound _ _ => exact ⟨rfl, h⟩

/-- the stores a site meets during a run only grow -/
def StoresGrow : Store → List (VM × Nat) → Prop
  | _, [] => True
  | s, (vm, _) :: r => MethodsKept s vm.store ∧ StoresGrow vm.store r

/-- **C03_super_site_any_parents.**  A whole run seen from one `super.name()` site: the instruction is
executed any number of times, each time in another machine state and with another class pushed as the
superclass — the enclosing class declaration may have been evaluated once per element of the list, every
time with a different parent, in any order, with repetitions (`steps` is arbitrary).  Starting from the
empty slot, every single execution enters the method the most-derived-first walk from the superclass *of
that execution* finds: the site never dispatches on a parent it has seen before. -/
theorem C03_super_site_any_parents (name : String) (steps : List (VM × Nat)) (s : Store) (slot : InvokeSlot)
    (hslot : SlotSound s name slot) (hgrow : StoresGrow s steps) :
    VM.superSiteRun getInvokeCache name slot steps = steps.map (fun p => VM.opSuperInvoke p.1 name p.2) := by
  induction steps generalizing s slot with
  | nil => rfl
  | cons p r ih =>
    obtain ⟨vm, argc⟩ := p
    obtain ⟨h1, h2⟩ := hgrow
    have key := C03_super_invoke_cache_transparent vm slot name argc (hslot.mono h1)
    simp only [VM.superSiteRun, List.map_cons]
    have e1 : (VM.opSuperInvokeWith getInvokeCache vm slot name argc).1 = VM.opSuperInvoke vm name argc := key.1
    rw [e1]
    congr 1
    exact ih vm.store _ key.2 h2

theorem C03_super_site_from_empty (name : String) (steps : List (VM × Nat)) (s : Store) (hgrow : StoresGrow s steps) :
    VM.superSiteRun getInvokeCache name none steps = steps.map (fun p => VM.opSuperInvoke p.1 name p.2) :=
  C03_super_site_any_parents name steps s none (slotSound_none s name) hgrow

/-- the hypothesis `StoresGrow` is what the VM does: one more class declaration — for instance the next
evaluation of the very declaration the site sits in, with another parent `sup` — keeps the method table of
every class that exists, so a sound slot stays sound across it -/
theorem methodsKept_declareClass (s s' : Store) (name : String) (sup c : Nat) (supc : Cls) (b : ClassBody)
    (hsup : s.get? sup = some supc) (h : s.declareClass name sup b = some (s', c)) : MethodsKept s s' := by
  intro j cj hj
  exact ⟨cj, by rw [declareClass_frame s s' name sup c supc b hsup h j (Store.get?_lt s j cj hj)]; exact hj, fun _ => rfl⟩

theorem MethodsKept.trans {a b c : Store} (h1 : MethodsKept a b) (h2 : MethodsKept b c) : MethodsKept a c := by
  intro j cj hj
  obtain ⟨cj', e1, e2⟩ := h1 j cj hj
  obtain ⟨cj'', e3, e4⟩ := h2 j cj' e1
  exact ⟨cj'', e3, fun k => by rw [e4 k, e2 k]⟩

/-- **C03_factory_super_site.**  The class factory, end to end on the model: the declaration
`class D : B { m() { super.name() } }` is evaluated twice (`declareClass` with the body `b` both times),
first with parent `p1`, then with parent `p2`; afterwards the one `super.name()` site of `D` runs any number
of times, in any order, for instances of either class (`steps`: every element pushes `p1` or `p2` — or any
other class — as the superclass and has the final store or a later one).  Each execution enters what the
lookup in *its own* superclass gives. -/
theorem C03_factory_super_site (s0 s1 s2 : Store) (nameD name : String) (p1 p2 d1 d2 : Nat) (c1 c2 : Cls) (b : ClassBody)
    (hp1 : s0.get? p1 = some c1) (hp2 : s1.get? p2 = some c2)
    (hd1 : s0.declareClass nameD p1 b = some (s1, d1)) (hd2 : s1.declareClass nameD p2 b = some (s2, d2))
    (steps : List (VM × Nat)) (hgrow : StoresGrow s2 steps) :
    d1 ≠ d2 ∧
    (∃ k1 k2, s2.get? d1 = some k1 ∧ s2.get? d2 = some k2 ∧ k1.superClass = some p1 ∧ k2.superClass = some p2) ∧
    VM.superSiteRun getInvokeCache name none steps = steps.map (fun p => VM.opSuperInvoke p.1 name p.2) := by
  obtain ⟨e1, g1, _⟩ := declareClass_eq_buildCls s0 s1 nameD p1 d1 c1 b hp1 hd1
  obtain ⟨e2, g2, _⟩ := declareClass_eq_buildCls s1 s2 nameD p2 d2 c2 b hp2 hd2
  have hlt : d1 < s1.classes.length := Store.get?_lt s1 d1 _ g1
  refine ⟨by omega, ?_, C03_super_site_from_empty name steps s2 hgrow⟩
  refine ⟨{ buildCls nameD p1 c1 b with metaClass := some (d1 + 1) }, { buildCls nameD p2 c2 b with metaClass := some (d2 + 1) },
    ?_, g2, ?_, ?_⟩
  · rw [declareClass_frame s1 s2 nameD p2 d2 c2 b hp2 hd2 d1 hlt]; exact g1
  · show (buildCls nameD p1 c1 b).superClass = some p1
    unfold buildCls
    rw [foldl_addMethod_superClass, foldl_addField_superClass]
    cases b.init <;> rfl
  · show (buildCls nameD p2 c2 b).superClass = some p2
    unfold buildCls
    rw [foldl_addMethod_superClass, foldl_addField_superClass]
    cases b.init <;> rfl

/-- the dynamic counterpart: `receiver.name(args)` on an instance whose class was built from `chain`
and which has no field `name` enters the most derived definition along the *receiver's* chain -/
theorem C03_invoke_dispatch (vm : VM) (name : String) (a : Nat) (i : Inst) (root : Cls) (hroot : ClsWF root)
    (chain : List (String × ClassBody))
    (hheap : vm.heap[a]? = some i) (hcls : vm.store.get? i.cls = some (buildChain root chain))
    (hnofield : (buildChain root chain).getFieldIndex name = none)
    (args rest : List Val) :
    VM.opInvoke { vm with stack := args.reverse ++ .inst a :: rest } name args.length =
      match (match mro (chain.map (·.2)) name with | some v => some v | none => root.getMethod name) with
      | some m => .enter m args.length { vm with stack := args.reverse ++ .inst a :: rest }
      | none => .error .property (vm.store.undefinedProperty name i.cls) := by
  unfold VM.opInvoke
  simp only [VM.peek, getElem?_rev_append, VM.valueClass, hheap, Option.map_some, VM.fieldHit, VM.instOf, hcls,
    Inst.getField, hnofield, Option.bind_some, C03_flat_lookup_is_mro root hroot chain name]
  cases (match mro (chain.map (·.2)) name with | some v => some v | none => root.getMethod name) with
  | none => simp only [VM.undefinedProperty]
  | some m => simp only [VM.resolveCall]

/-- a field shadows a method of the same name: if the receiver's class has a field `name`, `Invoke`
calls the field's value (here: a closure) and never looks at the method table -/
theorem C03_field_shadows_method (vm : VM) (name : String) (a : Nat) (i : Inst) (c : Cls) (idx f : Nat)
    (hheap : vm.heap[a]? = some i) (hcls : vm.store.get? i.cls = some c)
    (hfield : c.getFieldIndex name = some idx) (hslot : i.slots[idx]? = some (.closure f))
    (args rest : List Val) :
    VM.opInvoke { vm with stack := args.reverse ++ .inst a :: rest } name args.length =
      .enter f args.length { vm with stack := args.reverse ++ .closure f :: rest } := by
  unfold VM.opInvoke
  simp [VM.peek, VM.valueClass, hheap, VM.fieldHit, VM.instOf, hcls, Inst.getField, hfield, hslot,
    VM.peekSet, VM.resolveCall]

/-- a bound method remembers its receiver: calling `bound recv m` from any stack puts `recv` into
the receiver slot and enters `m` -/
theorem C03_bound_method_receiver (vm : VM) (recv : Val) (m : Nat) (args rest : List Val) :
    VM.opCall { vm with stack := args.reverse ++ .bound recv (.closure m) :: rest } args.length =
      .enter m args.length { vm with stack := args.reverse ++ recv :: rest } := by
  simp [VM.opCall, VM.peek, VM.resolveCall, VM.peekSet]

/-- by-name and fixed-index reads agree on every receiver the fixed-index form can meet: if `p` is
the index of `f` in the receiver's class, `GetProp(p)` and `GetPropByName(f)` leave the same stack -/
theorem C03_fixed_equals_by_name_get (vm : VM) (f : String) (p a : Nat) (i : Inst) (c : Cls) (rest : List Val)
    (hheap : vm.heap[a]? = some i) (hcls : vm.store.get? i.cls = some c)
    (hidx : c.getFieldIndex f = some p) (hp : p < i.slots.length) :
    VM.opGetProp { vm with stack := .inst a :: rest } p = VM.opGetPropByName { vm with stack := .inst a :: rest } f := by
  have : i.slots[p]? = some i.slots[p] := by simp [hp]
  simp [VM.opGetProp, VM.opGetPropByName, VM.peek, VM.fieldHit, VM.instOf, hheap, hcls, Inst.getField, hidx, this]

theorem C03_fixed_equals_by_name_set (vm : VM) (f : String) (p a : Nat) (i : Inst) (c : Cls) (v : Val) (rest : List Val)
    (hheap : vm.heap[a]? = some i) (hcls : vm.store.get? i.cls = some c)
    (hidx : c.getFieldIndex f = some p) :
    VM.opSetProp { vm with stack := v :: .inst a :: rest } p = VM.opSetPropByName { vm with stack := v :: .inst a :: rest } f := by
  simp [VM.opSetProp, VM.opSetPropByName, VM.instOf, hheap, hcls, hidx]

/-! ## from the store operations the VM executes to the chains the theorems are stated on -/

/-- two class objects that no lookup can tell apart -/
def ObsEq (a b : Cls) : Prop :=
  a.fields = b.fields ∧ (∀ k, a.getMethod k = b.getMethod k) ∧ a.init = b.init ∧ a.name = b.name

theorem ObsEq.refl (a : Cls) : ObsEq a a := ⟨rfl, fun _ => rfl, rfl, rfl⟩

theorem wf_with_meta (c : Cls) (m : Option Nat) (h : ClsWF c) : ClsWF { c with metaClass := m } :=
  ⟨h.fields, h.methods, h.init⟩

/-- `buildCls` looks at its superclass only through lookups, and not at its address -/
theorem buildCls_obsEq (n : String) (id id' : Nat) (sup sup' : Cls) (b : ClassBody)
    (h : ClsWF sup) (h' : ClsWF sup') (he : ObsEq sup sup') :
    ObsEq (buildCls n id sup b) (buildCls n id' sup' b) := by
  obtain ⟨e1, e2, _, _⟩ := he
  have hm : ∀ k, (buildCls n id sup b).getMethod k = (buildCls n id' sup' b).getMethod k := by
    intro k; rw [buildCls_getMethod _ _ _ _ h, buildCls_getMethod _ _ _ _ h', e2 k]
  refine ⟨?_, hm, ?_, ?_⟩
  · rw [buildCls_fields _ _ _ _ h, buildCls_fields _ _ _ _ h', e1]
  · rw [(buildCls_wf n id sup b h).init, (buildCls_wf n id' sup' b h').init]; exact hm "init"
  · rw [buildCls_name, buildCls_name]

/-- **C03_declare_matches_chain.**  Executing the instruction sequence the compiler emits for
`class name : sup { … }` with the VM's `op_class / op_inherit / op_method / op_field /
op_static_method` on a store whose class `sup` is indistinguishable from `buildChain root parents`
creates a class indistinguishable from `buildChain root ((name, b) :: parents)` (and well formed
again) — so, by induction over the declarations of a program, every theorem of this file stated
on `buildChain` holds of the class objects the VM actually builds, at any depth. -/
theorem C03_declare_matches_chain (s s' : Store) (name : String) (sup c : Nat) (supc root : Cls)
    (parents : List (String × ClassBody)) (b : ClassBody) (hroot : ClsWF root)
    (hsup : s.get? sup = some supc) (hwf : ClsWF supc) (hobs : ObsEq supc (buildChain root parents))
    (h : s.declareClass name sup b = some (s', c)) :
    ∃ cc, s'.get? c = some cc ∧ ClsWF cc ∧ ObsEq cc (buildChain root ((name, b) :: parents)) ∧
      s'.get? sup = some supc := by
  obtain ⟨_, h2, h3⟩ := declareClass_eq_buildCls s s' name sup c supc b hsup h
  refine ⟨_, h2, wf_with_meta _ _ (buildCls_wf name sup supc b hwf), ?_, h3⟩
  have := buildCls_obsEq name sup parents.length supc (buildChain root parents) b hwf (buildChain_wf root hroot parents) hobs
  exact this

/-! ## the Spec evaluator on class declarations that are evaluated more than once -/

/-- an explicit parent is what the variable denotes *at this evaluation* of the declaration: the innermost
binding of the name — the argument of the enclosing function for a class factory `fn mk(B) { class D : B {..} }` -/
theorem C03_spec_explicit_parent_is_argument (env : List (String × ClassLang.Val)) (B : String) (c : Nat) :
    ClassLang.resolveSuper ((B, .cls c) :: env) (some B) = pure (some c) := by
  simp [ClassLang.resolveSuper, ClassLang.lookupEnv, ClassLang.superOfVal]

/-- **C03_spec_factory_parents.**  The Spec on a class factory: the declaration `d` (`class D : B {..}`) is
evaluated twice, in any two environments — where `B` denotes class `c1`, then where it denotes `c2`.  Both
evaluations complete, they create two different classes, the first has parent `c1` and *still* has it after
the second evaluation, the second has parent `c2`; heap, output and module variables are as before. -/
theorem C03_spec_factory_parents (d : ClassLang.ClassDecl) (env1 env2 : List (String × ClassLang.Val)) (w : ClassLang.World)
    (B : String) (c1 c2 : Nat) (hd : d.parent = some B)
    (h1 : ClassLang.lookupEnv env1 B = some (.cls c1)) (h2 : ClassLang.lookupEnv env2 B = some (.cls c2)) :
    ∃ w1 w2, ClassLang.runM (ClassLang.declareClass d env1 false) w = (.ok w.classes.size, w1) ∧
      ClassLang.runM (ClassLang.declareClass d env2 false) w1 = (.ok (w.classes.size + 1), w2) ∧
      (w2.classes[w.classes.size]?).map (·.parent) = some (some c1) ∧
      (w2.classes[w.classes.size + 1]?).map (·.parent) = some (some c2) ∧
      w2.out = w.out ∧ w2.heap = w.heap ∧ w2.globals = w.globals := by
  obtain ⟨w1, r1, p1, s1, _, o1, hp1, g1⟩ := ClassLang.declare_parent d env1 w B c1 hd h1
  obtain ⟨w2, r2, p2, _, f2, o2, hp2, g2⟩ := ClassLang.declare_parent d env2 w1 B c2 hd h2
  refine ⟨w1, w2, r1, ?_, ?_, ?_, by rw [o2, o1], by rw [hp2, hp1], by rw [g2, g1]⟩
  · rw [r2, s1]
  · rw [f2 w.classes.size (by omega)]; exact p1
  · rw [← s1]; exact p2

/-- **C03_spec_super_from_own_parent.**  `super.name` in a method of class `k` — one particular evaluation of
a declaration — starts its most-derived-first walk at the parent *that* evaluation recorded, whatever class
the receiver has and whatever other evaluations of the same declaration exist in the world. -/
theorem C03_spec_super_from_own_parent (w : ClassLang.World) (k p code : Nat) (kc : ClassLang.ClassRt) (v : ClassLang.Val)
    (name : String) (fused : Bool) (hk : w.classes[k]? = some kc) (hp : kc.parent = some p)
    (hm : mro (w.chain p) name = some code) :
    ClassLang.runM (ClassLang.superGet { selfV := some v, lexCls := some k } name fused) w = (.ok (.bound v code), w) := by
  simp only [ClassLang.runM, ClassLang.superGet, bind, ExceptT.bind, ExceptT.mk, ExceptT.run, ExceptT.bindCont, StateT.bind,
    get, getThe, MonadStateOf.get, liftM, monadLift, MonadLift.monadLift, ExceptT.lift, StateT.get, pure, ExceptT.pure,
    StateT.pure, StateT.run, Functor.map, StateT.map, hk, hp, hm]

/-- the factory of the seed's demonstration, on the Spec evaluator: `fn logged(B) { class Logged : B { m() { return
super.m() + 10; } } return Logged; }` applied to `Plain` (m = 1) and `Fancy` (m = 2); instances used interleaved -/
def specFactoryDemo : List ClassLang.Item :=
  let cls (n : String) (v : Int) : ClassLang.ClassDecl := { name := n, parent := none, init := none, methods := [{ name := "m", params := [], body := [.ret (.num v)] }], statics := [] }
  [.cls (cls "Plain" 1), .cls (cls "Fancy" 2),
   .fn { name := "logged", params := ["B"], body := [
     .classS "Logged" (some "B") none [("m", [], [.ret (.add (.call (.superGet "m") []) (.num 10))])] [],
     .ret (.var "Logged")] },
   .stmt (.letS "LP" (.call (.var "logged") [.var "Plain"])),
   .stmt (.letS "LF" (.call (.var "logged") [.var "Fancy"])),
   .stmt (.print (.call (.get (.call (.var "LP") []) "m") [])),
   .stmt (.print (.call (.get (.call (.var "LF") []) "m") [])),
   .stmt (.print (.call (.get (.call (.var "LP") []) "m") []))]

/- evaluated at build time (kernel reduction of the string operations is too slow for `decide`) -/
#guard (ClassLang.runProgram specFactoryDemo).out == #["11", "12", "11"] && (ClassLang.runProgram specFactoryDemo).status == "Ok"

/-! ## what is not proved -/

/-- The whole-program statement of C03, **not proved**: for every class program, executing what the
compiler emits on the bytecode machine prints what the definitional evaluator
`ClassLang.runProgram` prints and ends the same way.  Stating it for real needs the bytecode machine
model (`Machine.lean`, DESIGN §4.1), which is not part of C03; `machineRun` stands for it.  The
theorems above are the class-machinery lemmas such a proof would rest on (tables = most-derived-first
walk, indices stable under inheritance, fused = unfused call paths, lexical super); the statement
itself is *checked* on generated programs by the `prog` stream of the check. -/
def C03_full (machineRun : List ClassLang.Item → ClassLang.Result) : Prop :=
  ∀ items, (machineRun items).out = (ClassLang.runProgram items).out ∧
           (machineRun items).status = (ClassLang.runProgram items).status

/-! ## non-vacuity and witnesses -/

def objectCls : Cls := Cls.bare "Object"

theorem object_wf : ClsWF objectCls := bare_wf "Object"

/-- the standard bootstrap's `Object` is such a root -/
example : Store.bootstrap.1.get? 0 = some { objectCls with metaClass := some 2 } := by decide

def bodyA : ClassBody := { initFields := ["x", "y", "x"], init := some 1, methods := [("m", 2), ("n", 3)], statics := [] }
def bodyB : ClassBody := { initFields := ["z", "y"], init := none, methods := [("m", 4)], statics := [] }
def bodyC : ClassBody := { initFields := ["w"], init := some 5, methods := [("n", 6), ("n", 7)], statics := [] }
def chainCBA : List (String × ClassBody) := [("C", bodyC), ("B", bodyB), ("A", bodyA)]

example : (buildChain objectCls chainCBA).fields = [("x", 0), ("y", 1), ("z", 2), ("w", 3)] := by decide
example : (buildChain objectCls chainCBA).getMethod "m" = some 4 := by decide
example : (buildChain objectCls chainCBA).getMethod "n" = some 7 := by decide
example : (buildChain objectCls chainCBA).init = some 5 := by decide
example : (buildChain objectCls [("B", bodyB), ("A", bodyA)]).init = some 1 := by decide
example : mro (chainCBA.map (·.2)) "m" = some 4 ∧ mro (chainCBA.map (·.2)) "init" = some 5 := by decide
/-- the hypothesis of `C03_fixed_index_valid` is met with a non-trivial position, mid-initialiser -/
example : propertyAccess (some ⟨compileInitFields (bodyA.initFields.take 2), false⟩) "y" = .fixed 1 := by decide
example : (buildChain (buildCls "A" 0 objectCls bodyA) [("C", bodyC), ("B", bodyB)]).getFieldIndex "y" = some 1 := by decide

/-- `declareClass` does run to completion on the bootstrap store, twice in a row -/
example :
    ((Store.bootstrap.1.declareClass "A" 0 bodyA).bind fun p => p.1.declareClass "B" p.2 bodyB).map
      (fun p => ((p.1.get? p.2).map (·.fields), (p.1.get? p.2).bind (·.getMethod "m"), (p.1.get? p.2).bind (·.init))) =
    some (some [("x", 0), ("y", 1), ("z", 2)], some 4, some 1) := by decide

/-- D20 witness: on a missing method the fused and unfused paths differ in the error class only -/
example :
    let vm : VM := { store := Store.bootstrap.1, heap := [], stack := [.prim 0 0],
                     bi := { nilV := .prim 0 0, closureCls := 0, nativeCls := 0, methodCls := 0 } }
    VM.opInvoke vm "foo" 0 = .error .property "Undefined property foo on class Object." ∧
    VM.opGetPropByName vm "foo" = .error .runtime "Undefined property foo on class Object." := by decide

/-- non-vacuity of the scope hypotheses: the witness programs of the repaired finding D26 — a local
`let Object = Base;` in the enclosing function, and a module-level `class Object {..}` — and a plain program -/
example : superLoad { locals := ["a", "Object", "f"], declared := ["Base", "f"] } none = .loadGlobal := by decide
example : superLoad { locals := [], declared := ["Object"] } none = .loadGlobal := by decide
example : superLoad { locals := ["x"], declared := ["A"] } none = .moduleCopy := by decide
example : superLoad { locals := ["Object"], declared := [] } (some "Object") = .lexical "Object" := by decide
example : ClassCompile.inheritEvent { locals := ["Object"], declared := [] } (some "Object") = "Il" ∧
    ClassCompile.inheritEvent { locals := ["Object"], declared := [] } none = "IO" ∧
    ClassCompile.inheritEvent {} none = "Im" := by decide

/-- what the repaired finding D26 looked like, kept as the reason why the superclass matters: had the
class `A { init() { self.x = 1; } }` inherited from a class with a field (`let Object = Base;`), the
compiler's fixed index `0` for `x` would not be the runtime index `1`.  By
`C03_implicit_super_under_own_object` no declaration of the program can bring that about any more. -/
example :
    let fakeObject : Cls := (Cls.bare "Base").addField "q"
    propertyAccess (some ⟨compileInitFields ["x"], false⟩) "x" = .fixed 0 ∧
    (buildCls "A" 0 fakeObject { initFields := ["x"], init := some 1, methods := [], statics := [] }).getFieldIndex "x" = some 1 := by
  decide

/-- witness for the hypothesis `hcopy` (known finding D26b): a program that never declares `Object` but
assigns it (`Object = Base;`) overwrites the module's copy of the global symbol (here with class 7);
a later class without parent, declared where nothing shadows the name, reads that copy.  Under any
declaration of the name the copy is not read. -/
theorem C03_witness_rebound_module_copy :
    let env : SuperEnv := { globalObject := 0, moduleObject := some 7, lexical := fun _ => none }
    superValue env (superLoad {} none) = some 7 ∧
    superValue env (superLoad { locals := ["Object"] } none) = some 0 := by
  decide

/-! ### the class factory: non-vacuity and the witness of what the class key in the slot is for -/

def bodyBase1 : ClassBody := { initFields := ["t"], init := some 10, methods := [("m", 11)], statics := [] }
def bodyBase2 : ClassBody := { initFields := ["t", "n"], init := some 20, methods := [("m", 21)], statics := [] }
def bodyD : ClassBody := { initFields := [], init := none, methods := [("m", 30)], statics := [] }

/-- `Plain`, `Fancy`, then `fn logged(Base) { class Logged : Base { m() { super.m() } } }` applied to both:
classes 3 and 5 are the bases, 7 and 9 the two evaluations of the one declaration -/
def factoryStore : Option Store :=
  (Store.bootstrap.1.declareClass "Plain" 0 bodyBase1).bind fun p1 =>
  (p1.1.declareClass "Fancy" 0 bodyBase2).bind fun p2 =>
  (p2.1.declareClass "Logged" p1.2 bodyD).bind fun d1 =>
  (d1.1.declareClass "Logged" p2.2 bodyD).map fun d2 => d2.1

def factoryVM (s : Store) (sup : Nat) (self : Nat) : VM :=
  { store := s, heap := [{ cls := 7, slots := [] }, { cls := 9, slots := [] }], stack := [.cls sup, .inst self],
    bi := { nilV := .prim 0 0, closureCls := 0, nativeCls := 0, methodCls := 0 } }

/-- the two evaluations are two classes with their own parents, both with the method `m` of the declaration -/
example : factoryStore.map (fun s => [(s.get? 7).bind (·.superClass), (s.get? 9).bind (·.superClass),
    (s.get? 7).bind (·.getMethod "m"), (s.get? 9).bind (·.getMethod "m"),
    (s.get? 3).bind (·.getMethod "m"), (s.get? 5).bind (·.getMethod "m")]) =
    some [some 3, some 5, some 30, some 30, some 11, some 21] := by decide

/-- the site `super.m()` of `Logged.m`, run for a `Logged(Plain)`, a `Logged(Fancy)` and a `Logged(Plain)`
instance in this order: with the getter of cache.rs each call enters the `m` of its own parent (11, 21, 11) … -/
theorem C03_factory_example :
    factoryStore.map (fun s => (VM.superSiteRun getInvokeCache "m" none
        [(factoryVM s 3 0, 0), (factoryVM s 5 1, 0), (factoryVM s 3 0, 0)]).map
      (fun sig => match sig with | .enter f _ _ => some f | _ => none)) = some [some 11, some 21, some 11] := by
  decide

/-- **C03_witness_unkeyed_super_cache.**  … with a getter that answers from a filled slot *without comparing
the class* ("a super site is lexically monomorphic") the second and third call enter the method of the
first parent the site ever saw: `Logged(Fancy).m()` runs `Plain.m` on a `Fancy`-shaped instance.  The
comparison in `get_invoke_cache` (tied by `super_getters_eq_gen`) is what `C03_super_site_any_parents`
rests on. -/
theorem C03_witness_unkeyed_super_cache :
    factoryStore.map (fun s => (VM.superSiteRun getInvokeCacheUnkeyed "m" none
        [(factoryVM s 3 0, 0), (factoryVM s 5 1, 0), (factoryVM s 3 0, 0)]).map
      (fun sig => match sig with | .enter f _ _ => some f | _ => none)) = some [some 11, some 11, some 11] := by
  decide

/-- the hypothesis `StoresGrow` of `C03_super_site_any_parents` on a run in which the store does grow between
two executions of the site: the second base and the second evaluation are declared after the first call -/
example (s1 s2 : Store) (c : Nat) (supc : Cls) (vmA vmB : VM) (h0 : s1.get? 3 = some supc)
    (h : s1.declareClass "Logged" 3 bodyD = some (s2, c)) (ha : vmA.store = s1) (hb : vmB.store = s2) :
    StoresGrow s1 [(vmA, 0), (vmB, 0)] := by
  refine ⟨ha ▸ MethodsKept.refl s1, ?_, trivial⟩
  rw [ha, hb]
  exact methodsKept_declareClass s1 s2 "Logged" 3 c supc bodyD h0 h

/-- witness for known finding D25: in `o.f op= e` the compiler passes the *enclosing* class to
`property_set` although the receiver is not `self`; the fixed index of the enclosing class addresses
another field of (or a slot outside) an unrelated receiver. -/
theorem C03_witness_compound_assign_foreign_receiver :
    let clsA := buildCls "A" 0 objectCls { initFields := ["x", "r"], init := some 1, methods := [], statics := [] }
    let clsB := buildCls "B" 0 objectCls { initFields := ["p", "q", "r"], init := some 2, methods := [], statics := [] }
    propertyAccess (some ⟨["x", "r"], false⟩) "r" = .fixed 1 ∧ clsA.getFieldIndex "r" = some 1 ∧
    clsB.getFieldIndex "r" = some 2 ∧ clsB.getFieldIndex "q" = some 1 := by
  decide

end LaytheVerif.C03
