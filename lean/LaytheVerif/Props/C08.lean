/-
C08 — Fibers make progress; deadlock is reported exactly when nothing can run.

Theorems about the exact scheduler model `Model/Sched.lean` (every network program, every reachable
state, no bound on fibers / channels / operations / steps), the Spec they are measured against, and
machine-checked witnesses that the pinned scheduler deviates from the Spec (D4, D5, D17, D18).

  C08_sched_invariants                what does hold in every reachable state
  C08_main_return_exits / C08_exit_only_when_main_returned
  C08_launch_passes_args
  C08_deadlock_only_when_queue_empty
  C08_only_activate_unblock_can_assert
  C08_gen_rows / C08_gen_asserts_match_model   the generated `FiberState` assertion table vs the model
  C08_producer_consumer               every message count, sync or any capacity, both directions
                                      (proofs in Props/C08PC.lean; D4 excluded exactly and proved separately)
  C08_witness_close_sync (D4) · C08_witness_multiwake (D5) · C08_witness_duplicate_entry (D17) ·
  C08_witness_self_wake (D18)         (D26, a synchronous sender resumed by a stale entry, is in Props/C07Sched.lean)
  C08_full                            the full statement; `C08_full_false` : it does not hold
  C08_verdict_partial                 what remains true of the verdict on every reachable state

Not proved (stretch goal of the design): `C08_no_spin` — a bound on the context switches between two
steps of progress.  Ghost fields of the model never influence it: `erase_run` (Lemmas/SchedErase.lean).
-/
import LaytheVerif.Lemmas.SchedOutcome
import LaytheVerif.Props.C08PC
import LaytheVerif.Gen.FiberStates

namespace LaytheVerif.C08
open LaytheVerif.Sched

/-- the states the scheduler can reach on network `net` -/
def Reachable (net : Net) (vm : VM) : Prop := ∃ n, vm = runNet n net

theorem reachable_inv {net : Net} {vm : VM} (h : Reachable net vm) : Inv vm ∧ OutcomeOK vm := by
  obtain ⟨n, rfl⟩ := h
  exact ⟨run_inv n (init_inv net), run_outcome n (init_inv net) (outcomeOK_of_running rfl)⟩

theorem reachable_step {net : Net} {vm : VM} (h : Reachable net vm) : Reachable net (step vm) := by
  obtain ⟨n, rfl⟩ := h
  refine ⟨n + 1, ?_⟩
  have : ∀ (k : Nat) (v : VM), run (k + 1) v = step (run k v) := by
    intro k
    induction k with
    | zero => intro v; rfl
    | succ k ih => intro v; exact ih (step v)
  exact (this n (init net)).symm

/-- **C08_sched_invariants.** In every state the scheduler reaches on any network program:
* while the VM runs, exactly one fiber is `Running` — the current one (instructions are atomic: this
  is the state between context switches);
* a waiter's `runnable` flag is off iff its fiber is `Complete`;
* the run queue, every channel's two waiter lists and every parent link mention launched fibers only.
("The `assert!`s of `activate`/`unblock` never fail" is not among them: see the witnesses.) -/
theorem C08_sched_invariants (net : Net) (vm : VM) (h : Reachable net vm) :
    (vm.outcome = .running →
      (vm.fiber vm.cur).state = .running ∧ ∀ i, i ≠ vm.cur → (vm.fiber i).state ≠ .running) ∧
    (∀ i, (vm.fiber i).runnable = false ↔ (vm.fiber i).state = .complete) ∧
    (∀ w, w ∈ vm.runq → w < vm.fibers.length) ∧
    (∀ c w, (w ∈ (vm.chan c).q.sendW ∨ w ∈ (vm.chan c).q.recvW) → w < vm.fibers.length) ∧
    (∀ i p, (vm.fiber i).parent = some p → p < vm.fibers.length) ∧
    vm.cur < vm.fibers.length := by
  obtain ⟨⟨g, hs⟩, _⟩ := reachable_inv h
  exact ⟨fun hr => ⟨hs hr, g.others⟩, g.flags, g.runq, g.waiters, g.parents, g.cur⟩

/-- **C08_only_activate_unblock_can_assert.** Of the five `assert!`s in `fiber/mod.rs` the ones in
`sleep`, `block` and `complete` can never fail; a host panic is always `activate` or `unblock`. -/
theorem C08_only_activate_unblock_can_assert (net : Net) (vm : VM) (h : Reachable net vm) (a : Assert)
    (hp : vm.outcome = .panic a) : a = .activate ∨ a = .unblock :=
  (reachable_inv h).2.2.1 a hp

/-- **C08_deadlock_only_when_queue_empty.** "Fatal error deadlock." is never reported with a fiber in
the run queue. -/
theorem C08_deadlock_only_when_queue_empty (net : Net) (vm : VM) (h : Reachable net vm)
    (hd : vm.outcome = .deadlock) : vm.runq = [] :=
  (reachable_inv h).2.1 hd

/-- **C08_main_return_exits.** When the main fiber's last frame returns, the outcome is `Exit`
whatever the other fibers are doing (queued, parked, mid-send). -/
theorem C08_main_return_exits (vm : VM) (hr : vm.outcome = .running) (h0 : vm.cur = 0) (hp : vm.me.prog = []) :
    (step vm).outcome = .exit := by
  simp [step, next_running _ _ hr, exec, hp, execReturn, h0, VM.stop]

/-- **C08_exit_only_when_main_returned.** `Exit` is produced in no other way: in a reachable state
with outcome `Exit` the current fiber is the main fiber and it has executed its whole body. -/
theorem C08_exit_only_when_main_returned (net : Net) (vm : VM) (h : Reachable net vm)
    (he : vm.outcome = .exit) : vm.cur = 0 ∧ (vm.fiber 0).prog = [] := by
  have := (reachable_inv h).2.2.2 he
  exact ⟨this.1, by simpa [VM.me, this.1] using this.2⟩

/-- **C08_launch_passes_args.** `launch f(a…)` creates exactly one new fiber: `Pending`, runnable,
child of the launcher, running `f`'s body from the start with exactly the launcher's argument values
(the channels the launcher's parameters `a…` denote — for a capturing closure, the launcher's own
channels), appended at the back of the run queue; the launcher keeps running with its next
instruction and no other fiber or channel changes. -/
theorem C08_launch_passes_args (vm : VM) (hI : Inv vm) (hr : vm.outcome = .running)
    (t : Nat) (args : List Nat) (rest : List Op) (hp : vm.me.prog = .launch t args :: rest) :
    (step vm).fibers.length = vm.fibers.length + 1 ∧
    (step vm).fiber vm.fibers.length =
      { state := .pending, parent := some vm.cur, channels := [], runnable := true,
        prog := vm.bodies.getD t [], env := args.map (fun a => vm.me.env.getD a 0), tmpl := t,
        done := [], acc := [], rcv := [], ack := none } ∧
    (step vm).runq = vm.runq ++ [vm.fibers.length] ∧
    (step vm).cur = vm.cur ∧ (step vm).outcome = .running ∧ (step vm).chans = vm.chans ∧
    ((step vm).fiber vm.cur).state = .running ∧ ((step vm).fiber vm.cur).prog = rest ∧
    (∀ i, i < vm.fibers.length → i ≠ vm.cur → (step vm).fiber i = vm.fiber i) := by
  have hc := hI.1.cur
  have hne : vm.cur ≠ vm.fibers.length := by omega
  have hs := hI.2 hr
  have hme : ({ vm with fibers := vm.fibers ++ [⟨.pending, some vm.cur, [], true, vm.bodies.getD t [],
        args.map vm.arg, t, [], [], [], none⟩], runq := vm.runq ++ [vm.fibers.length] } : VM).me = vm.me := by
    show VM.fiber _ vm.cur = vm.fiber vm.cur
    rw [fiber_append]; simp [hne]
  unfold step
  rw [next_running _ _ hr]
  unfold exec
  simp only [hp, execLaunch, advance, hme]
  refine ⟨by simp, ?_, rfl, rfl, hr, rfl, ?_, ?_, ?_⟩
  · rw [fiber_setFiber, fiber_append]; simp [hne, VM.arg]
  · rw [fiber_setFiber]; simp [hc, Nat.lt_succ_of_lt, hs]
  · rw [fiber_setFiber]; simp [hc, Nat.lt_succ_of_lt]
  · intro i hi hne'
    have h2 : i ≠ vm.fibers.length := by omega
    rw [fiber_setFiber, fiber_append]; simp [Ne.symm hne', h2]

/-! ## The generated table of `Fiber`'s state assertions agrees with the model

`tools/translate.py` regenerates `Gen/FiberStates.lean` from `laythe_vm/src/fiber/mod.rs` on every
run (enum `FiberState`; for `activate`/`sleep`/`block`/`unblock`/`complete`: whether the check is a
release `assert!`, the states it admits, the state it assigns).  An edit to any of them re-opens
these lemmas. -/

open LaytheVerif.Gen in
/-- the model's states inside the generated enum (`Unwinding` is not modelled: no handlers in network programs) -/
def toGen : FState → FiberStates.St
  | .pending => .Pending | .running => .Running | .blocked => .Blocked | .complete => .Complete

open LaytheVerif.Gen in
/-- all five checks are release assertions (`assert!`, not `debug_assert!`) and assign the states the
model assigns -/
theorem C08_gen_rows :
    FiberStates.activate.hard = true ∧ FiberStates.sleep.hard = true ∧ FiberStates.block.hard = true ∧
    FiberStates.unblock.hard = true ∧ FiberStates.complete.hard = true ∧
    FiberStates.activate.sets = toGen .running ∧ FiberStates.sleep.sets = toGen .pending ∧
    FiberStates.block.sets = toGen .blocked ∧ FiberStates.complete.sets = toGen .complete ∧
    FiberStates.unblock.sets = toGen .pending ∧ FiberStates.unblock.conditional = true := by decide

open LaytheVerif.Gen in
/-- the model's building blocks fail exactly on the states the generated assertions reject -/
theorem C08_gen_asserts_match_model (vm : VM) (hr : vm.outcome = .running) :
    (∀ f rest, vm.runq = f :: rest →
      ((contextSwitch vm).outcome = .panic .activate ↔ toGen (vm.fiber f).state ∉ FiberStates.activate.admits)) ∧
    ((sleep vm).outcome = .panic .sleep ↔ toGen vm.me.state ∉ FiberStates.sleep.admits) ∧
    ((block vm).outcome = .panic .block ↔ toGen vm.me.state ∉ FiberStates.block.admits) ∧
    (∀ w, (queueBlocked vm w).outcome = .panic .unblock ↔ toGen (vm.fiber w).state ∉ FiberStates.unblock.admits) ∧
    ((complete vm).1.outcome = .panic .complete ↔ toGen vm.me.state ∉ FiberStates.complete.admits) := by
  refine ⟨fun f rest hq => ?_, ?_, ?_, fun w => ?_, ?_⟩
  · cases hs : (vm.fiber f).state <;> simp [contextSwitch, hq, hs, hr, toGen, FiberStates.activate]
  · cases hs : vm.me.state <;> simp [sleep, hs, hr, toGen, FiberStates.sleep]
  · cases hs : vm.me.state <;> simp [block, hs, hr, toGen, FiberStates.block]
  · cases hs : (vm.fiber w).state <;> simp [queueBlocked, hs, hr, toGen, FiberStates.unblock]
  · have := complete_outcome vm
    cases hs : vm.me.state <;> simp [complete, hs, toGen, FiberStates.complete]
    rw [(clearChannels_frame _).2.2.2.1, (pickWaiter_frame _ _ _).2.2.2.1, (markComplete_frame vm).2.2.2.1, hr]
    simp

/-! ## Witnesses: the pinned scheduler deviates from the Spec

Each network is the committed known-finding witness (`known_findings/<id>/…`), replayed on the
implementation by the check.  Evaluated by the kernel (`decide +kernel`; no axioms beyond `propext`). -/

/-- D4: `let c = chan(); fn closer(c) { c.close(); } launch closer(c); print(<- c);` -/
def netD4 : Net := { caps := [none], bodies := [[.launch 1 [0], .recv 0, .print 99], [.close 0]] }
/-- the same with `chan(1)` -/
def netD4buffered : Net := { caps := [some 1], bodies := [[.launch 1 [0], .recv 0, .print 99], [.close 0]] }

/-- **C08_witness_close_sync (D4).** A receiver parked on a *synchronous* channel is not woken when a
child that never used the channel closes it: "Fatal error deadlock." although the main fiber is
enabled (its receive would yield nil).  The buffered variant does yield nil — but only thanks to
the parent bias of `Fiber::complete`. -/
theorem C08_witness_close_sync :
    (runNet 20 netD4).outcome = .deadlock ∧ (runNet 20 netD4).out = [] ∧
    Spec.enabled (runNet 20 netD4).abs 0 = true ∧ verdict (runNet 20 netD4) = .spuriousDeadlock 0 ∧
    (runNet 20 netD4buffered).outcome = .exit ∧
    (runNet 20 netD4buffered).out = [.got 0 none, .printed 0 99] := by decide +kernel

/-- D5: `done, c, d, e = chan(1)`; r1 receives on c; r2 receives on d then sends on done; s sends on
c and d then receives on e; main receives on done. -/
def netD5 : Net :=
  { caps := [some 1, some 1, some 1, some 1],
    bodies := [[.launch 1 [0, 1, 2, 3], .launch 2 [0, 1, 2, 3], .launch 3 [0, 1, 2, 3], .recv 0, .print 99],
               [.recv 1], [.recv 2, .send 0 1], [.send 1 1, .send 2 2, .recv 3]] }

/-- **C08_witness_multiwake (D5).** One fiber enables two parked fibers before it next parks; only
the first waiter found is woken; the completing r1 then wakes its parent (main, which cannot
progress) instead of anybody useful: "Fatal error deadlock." while r2 has a value waiting. -/
theorem C08_witness_multiwake :
    (runNet 60 netD5).outcome = .deadlock ∧ (runNet 60 netD5).out = [.got 1 (some 1)] ∧
    ((runNet 60 netD5).chan 2).q.queue = [2] ∧
    Spec.enabled (runNet 60 netD5).abs 2 = true ∧ verdict (runNet 60 netD5) = .spuriousDeadlock 2 := by
  decide +kernel

/-- D17: `let c = chan(); fn a(c) { c <- 1; } fn b(c) {} launch a(c); launch b(c); print(<- c); print(<- c);` -/
def netD17 : Net :=
  { caps := [none], bodies := [[.launch 1 [0], .launch 2 [0], .recv 0, .recv 0], [.send 0 1], []] }

/-- **C08_witness_duplicate_entry (D17).** `queue_blocked_fiber` does not check whether a fiber is
already queued: main, woken by the sender *and* by the completing child's parent bias, is popped
once and still sits in the run queue while it runs (step 5); after it parks again the second pop
activates a `Blocked` fiber and `assert!` in `Fiber::activate` panics the host. -/
theorem C08_witness_duplicate_entry :
    ((runNet 5 netD17).outcome = .running ∧ (runNet 5 netD17).cur = 0 ∧ (runNet 5 netD17).runq = [0]) ∧
    (runNet 20 netD17).outcome = .panic .activate ∧ (runNet 20 netD17).out = [.got 0 (some 1)] ∧
    verdict (runNet 20 netD17) = .hostPanic .activate := by decide +kernel

/-- D18: see `known_findings/D18-self-wake-unblock/witness.lay` -/
def netD18 : Net :=
  { caps := [none, none],
    bodies := [[.launch 1 [0, 1], .launch 2 [0, 1], .recv 0, .send 1 2, .send 0 1, .print 99],
               [.send 0 1, .recv 1, .recv 1], [.send 1 2]] }

/-- **C08_witness_self_wake (D18).** A running fiber that parks pops its *own* stale waiter entry
through `get_runnable` (it was woken earlier by another path, so the entry was never consumed: at
step 13 main runs while channel 1's sender list is `[main]`); `queue_blocked_fiber` → `Fiber::unblock`
asserts `Blocked | Pending` on a `Running` fiber: host panic. -/
theorem C08_witness_self_wake :
    ((runNet 13 netD18).outcome = .running ∧ (runNet 13 netD18).cur = 0 ∧
      ((runNet 13 netD18).chan 1).q.sendW = [0]) ∧
    (runNet 30 netD18).outcome = .panic .unblock ∧
    verdict (runNet 30 netD18) = .hostPanic .unblock := by decide +kernel

/-! ## The producer/consumer family (proved in `Props/C08PC.lean`) -/

open LaytheVerif.C08PC in
/-- **C08_producer_consumer.** The two-fiber one-channel family, for every list of values (any message
count), any number of receives, synchronous channel or any capacity `c ≥ 1`:

* child sends `vs` (then optionally closes), main receives `m` times: the run ends, with exactly the
  outcome and output of the Spec's process network (`expectPC`: `Exit` after `min m |vs|` values and
  `m − |vs|` nils after a close; "Fatal error deadlock." iff `m > |vs|` and no close) — with the single
  exclusion *synchronous channel closed by a child that sent nothing while main waits*, which is D4
  and for which the deviation is proved for every `m` (`C08_producer_consumer_sync_D4`);
* mirrored (main sends `vs`, child receives `m` times): synchronous — `Exit` iff `|vs| ≤ m`, else a
  true deadlock after `m` values; capacity `c` — `Exit` iff `|vs| ≤ m + c` (the child having printed the
  first `g` values, `|vs| − c ≤ g ≤ min m |vs|`), else a true deadlock after `m` values.
By induction on the list of values. -/
theorem C08_producer_consumer (vs : List Nat) (m : Nat) (close : Bool) :
    (¬ (vs = [] ∧ close = true ∧ 1 ≤ m) →
      ∃ N, ∀ n, N ≤ n → (runNet n (pcNet none vs m close)).outcome = (expectPC vs m close).1 ∧
                        (runNet n (pcNet none vs m close)).out = (expectPC vs m close).2) ∧
    (∀ c, 1 ≤ c →
      ∃ N, ∀ n, N ≤ n → (runNet n (pcNet (some c) vs m close)).outcome = (expectPC vs m close).1 ∧
                        (runNet n (pcNet (some c) vs m close)).out = (expectPC vs m close).2) ∧
    (∃ N, ∀ n, N ≤ n → (runNet n (cpNet none vs m)).outcome = (expectCPsync vs m).1 ∧
                       (runNet n (cpNet none vs m)).out = (expectCPsync vs m).2) ∧
    (∀ c, 1 ≤ c →
      (vs.length ≤ m + c →
        ∃ g, vs.length - c ≤ g ∧ g ≤ m ∧ g ≤ vs.length ∧ ∃ N, ∀ n, N ≤ n →
          (runNet n (cpNet (some c) vs m)).outcome = .exit ∧
          (runNet n (cpNet (some c) vs m)).out = gots 1 (vs.take g) ++ [.printed 0 99]) ∧
      (m + c < vs.length →
        ∃ N, ∀ n, N ≤ n →
          (runNet n (cpNet (some c) vs m)).outcome = .deadlock ∧
          (runNet n (cpNet (some c) vs m)).out = gots 1 (vs.take m))) :=
  ⟨C08_producer_consumer_sync vs m close, fun c hc => C08_producer_consumer_buffered c hc vs m close,
   C08_producer_consumer_sync_mirrored vs m, fun c hc => C08_producer_consumer_buffered_mirrored c hc vs m⟩

/-- the family is not vacuous and the Spec verdict on its final states is the expected one:
`chan(2)`, child sends 1 2 3 and closes, main receives five times -/
example : (runNet 60 (C08PC.pcNet (some 2) [1, 2, 3] 5 true)).outcome = .exit ∧
    (runNet 60 (C08PC.pcNet (some 2) [1, 2, 3] 5 true)).out =
      [.got 0 (some 1), .got 0 (some 2), .got 0 (some 3), .got 0 none, .got 0 none, .printed 0 99] ∧
    verdict (runNet 60 (C08PC.pcNet (some 2) [1, 2, 3] 5 true)) = .ok ∧
    (runNet 60 (C08PC.pcNet none [1] 3 false)).outcome = .deadlock ∧
    verdict (runNet 60 (C08PC.pcNet none [1] 3 false)) = .ok := by decide +kernel

/-! ## The full statement -/

/-- **C08_full**: on every network, however long it runs, the scheduler never panics the host and
reports deadlock only when the Spec's process network is deadlocked (main unfinished, no fiber
enabled).  (The liveness half — an enabled fiber eventually runs — is implied for terminating runs:
a run that stops with an enabled fiber left behind stops in a spurious deadlock.) -/
def C08_full : Prop :=
  ∀ (net : Net) (n : Nat), verdict (runNet n net) = .ok ∨ verdict (runNet n net) = .unfinished

/-- `C08_full` is **false** on the pinned code (any of the four witnesses refutes it). -/
theorem C08_full_false : ¬ C08_full := by
  intro h
  have := h netD4 20
  rw [C08_witness_close_sync.2.2.2.1] at this
  simp at this

/-- What remains true of the verdict in general (the envelope the regression stream computes per
network): a reachable state never gets a verdict other than ok / unfinished / spurious deadlock /
a panic of `activate` or `unblock`. -/
theorem C08_verdict_partial (net : Net) (vm : VM) (h : Reachable net vm) :
    verdict vm = .ok ∨ verdict vm = .unfinished ∨ (∃ i, verdict vm = .spuriousDeadlock i) ∨
    verdict vm = .hostPanic .activate ∨ verdict vm = .hostPanic .unblock := by
  unfold verdict
  split
  · exact Or.inl rfl
  · exact Or.inl rfl
  · split
    · exact Or.inr (Or.inr (Or.inl ⟨_, rfl⟩))
    · exact Or.inl rfl
  · rename_i a ha
    rcases C08_only_activate_unblock_can_assert net vm h a ha with rfl | rfl
    · exact Or.inr (Or.inr (Or.inr (Or.inl rfl)))
    · exact Or.inr (Or.inr (Or.inr (Or.inr rfl)))
  · exact Or.inr (Or.inl rfl)

/-! ### non-vacuity -/

/-- a reachable non-trivial state: three fibers, one parked in a waiter list, one queued -/
example : Reachable netD17 (runNet 3 netD17) ∧ (runNet 3 netD17).runq = [2] ∧
    ((runNet 3 netD17).chan 0).q.recvW = [0] ∧ (runNet 3 netD17).fibers.length = 3 :=
  ⟨⟨3, rfl⟩, by decide +kernel⟩

/-- a launch instruction in a reachable state meets the hypotheses of `C08_launch_passes_args` -/
example : (runNet 1 netD17).outcome = .running ∧
    (runNet 1 netD17).me.prog = .launch 2 [0] :: [.recv 0, .recv 0] := by decide +kernel

end LaytheVerif.C08
