/-
C02 — Lexical scoping: closures share captured variables by reference.

Theorems about `Model/Scope.lean` (resolver + compiler), `Model/ScopeMachine.lean` (boxes, frames,
captures) and the Spec (`Scope.Spec`: lexical environments; `Model/ScopeSpec.lean`: cell environments).
No bound on nesting depth, number of variables or program size.
-/
import LaytheVerif.Model.Scope
import LaytheVerif.Model.ScopeSpec
import LaytheVerif.Model.ScopeMachine
import LaytheVerif.Lemmas.ScopeChain
import LaytheVerif.Lemmas.ScopeLex
import LaytheVerif.Lemmas.ScopeRes
import LaytheVerif.Lemmas.ScopeGen
namespace LaytheVerif.C02
open LaytheVerif.Scope

/-! ## C02_capture_chain_sound -/

/-- **C02_capture_chain_sound.**  Let `chain` be the compilers of `n + 1` nested functions (innermost
first) at the moment the innermost one mentions `x`, and let `resolve_capture` answer with capture
index `idx` (the variable is a local of some enclosing function, the 255 bound did not fire).  Take
*any* frames for the enclosing levels (`slots[k] s` = what slot `s` of level `k` holds when the closure
of level `k-1` is created).  Then the capture array that `op_closure` builds level by level from the
emitted `CaptureIndex` operands (`Local` on the first hop, `Enclosing` on every later hop) holds at
`idx` exactly the content of the declaring frame's slot — the box, not a copy — whatever `n` is. -/
theorem C02_capture_chain_sound {α : Type} [Inhabited α] (mt : Table) (chain : List Comp) (x : Name)
    (chain' : List Comp) (idx : Nat) (sym : RSym) (d : Nat) (ovf : Bool) (slots : List (Nat → α))
    (h : resolveCapture mt chain x = some (chain', idx, sym, d, ovf)) (hov : ovf = false)
    (hloc : isModuleState sym.state = false) (hc : CountOk chain) (hl : slots.length = chain.length) :
    (capsOf chain' slots)[idx]? = declSlot mt chain slots x ∧ (declSlot mt chain slots x).isSome :=
  chain_sound mt chain x chain' idx sym d ovf slots h hov hloc hc hl

/-- Later resolutions never disturb earlier ones: captures are only appended, locals never change. -/
theorem C02_captures_only_grow (mt : Table) (chain : List Comp) (x : Name) (chain' : List Comp) (idx : Nat)
    (sym : RSym) (d : Nat) (ovf : Bool) (h : resolveCapture mt chain x = some (chain', idx, sym, d, ovf)) :
    chain'.length = chain.length ∧
    ∀ k, ∃ ext, (chain'.getD k {}).captures = (chain.getD k {}).captures ++ ext ∧
               (chain'.getD k {}).locals = (chain.getD k {}).locals :=
  let r := resolveCapture_shape mt chain x chain' idx sym d ovf h
  ⟨r.1, fun k => let ⟨e, h1, h2, _⟩ := r.2.2 k; ⟨e, h1, h2⟩⟩

/-- non-vacuity: three levels, `x` declared two levels up in slot 1: the innermost function gets
`Enclosing 0`, the middle one `Local 1`, and at run time capture 0 of the innermost closure is the box
in slot 1 of the outermost frame (here: box 77) -/
example :
    let cap : RSym := { name := "x", state := .localCaptured }
    let outer : Comp := { locals := [{ sym := { name := "$uninitialized", state := .localInit }, depth := 2 }, { sym := cap, depth := 2 }] }
    let chain : List Comp := [{}, {}, outer]
    (resolveCapture [] chain "x").map (fun r => (r.1.map (·.captures), r.2.1)) = some ([[.enc 0], [.loc 1], []], 0) ∧
    capsOf ((resolveCapture [] chain "x").get!.1) [fun _ => 0, fun _ => 0, fun s => if s = 1 then 77 else 0] = [77] := by
  decide

open Machine in
/-- **Corollary (sharing).**  If slot `s` of the declaring frame and capture `i` of a closure hold the
same box (which is what `C02_capture_chain_sound` establishes), a write through the capture is read
through the slot … -/
theorem C02_write_capture_read_slot (bx : Boxes) (decl clo : Frame) (s i b : Nat) (v : MVal)
    (hs : decl.slots[s]? = some (.box b)) (hi : clo.caps[i]? = some b) (hb : b < bx.size) :
    ∃ bx', opSetCapture bx clo i v = some bx' ∧ opGetBox bx' decl s = some v ∧ opGetCapture bx' clo i = some v := by
  refine ⟨bx.setIfInBounds b v, by simp [opSetCapture, hi], ?_, ?_⟩
  · simp [opGetBox, hs, hb]
  · simp [opGetCapture, hi, hb]

open Machine in
/-- … and a write through the slot is read through the capture; the frames play no role beyond
naming the box: popping the declaring frame (`truncate`, return) leaves `bx` untouched, so the closure
keeps observing the variable for as long as it lives. -/
theorem C02_write_slot_read_capture (bx : Boxes) (decl clo : Frame) (s i b : Nat) (v : MVal)
    (hs : decl.slots[s]? = some (.box b)) (hi : clo.caps[i]? = some b) (hb : b < bx.size) :
    ∃ bx', opSetBox bx decl s v = some bx' ∧ opGetCapture bx' clo i = some v ∧ opGetBox bx' decl s = some v := by
  refine ⟨bx.setIfInBounds b v, by simp [opSetBox, hs], ?_, ?_⟩
  · simp [opGetCapture, hi, hb]
  · simp [opGetBox, hs, hb]

open Machine in
/-- `op_closure` shares: the capture it builds for `Local s` *is* the reference in slot `s`. -/
theorem C02_closure_shares (fr : Frame) (s b : Nat) (rest : List CapIdx) (r : List Nat)
    (hs : fr.slots[s]? = some (.box b)) (hr : opClosure fr rest = some r) :
    opClosure fr (.loc s :: rest) = some (b :: r) := by
  simp [opClosure, hs, hr]

open Machine in
/-- **Fresh variable per executed declaration.**  `EmptyBox` (let/fn/class/catch/for-item declarations
of captured variables) and `Box` (captured parameters, `self`) allocate the box `bx.size`, which no
existing slot or capture can refer to, and no instruction ever shrinks the heap of boxes; so two
executions of a declaration — two calls, two iterations of a loop body — get two different boxes. -/
theorem C02_fresh_box_per_execution (bx : Boxes) (fr fr' : Frame) (slot : Nat) :
    (opEmptyBox bx fr).2.slots.back? = some (.box bx.size) ∧ (opEmptyBox bx fr).1.size = bx.size + 1 ∧
    (opBox bx fr slot).1.size = bx.size + 1 ∧
    (slot < fr.slots.size → (opBox bx fr slot).2.slots[slot]? = some (.box bx.size)) ∧
    ((opEmptyBox (opEmptyBox bx fr).1 fr').2.slots.back? ≠ (opEmptyBox bx fr).2.slots.back?) := by
  refine ⟨by simp [opEmptyBox], by simp [opEmptyBox], by simp [opBox], ?_, by simp [opEmptyBox]⟩
  intro h; simp [opBox, h]

open Machine in
theorem C02_boxes_never_shrink (bx : Boxes) (fr : Frame) (i : Nat) (v : MVal) :
    (∀ b, opSetBox bx fr i v = some b → b.size = bx.size) ∧
    (∀ b, opSetCapture bx fr i v = some b → b.size = bx.size) ∧
    (∀ b, opFillBox bx fr v = some b → b.size = bx.size) := by
  refine ⟨?_, ?_, ?_⟩ <;> intro b hb
  · unfold opSetBox at hb; split at hb <;> simp at hb; subst hb; simp
  · unfold opSetCapture at hb; split at hb <;> simp at hb; subst hb; simp
  · unfold opFillBox at hb; split at hb <;> simp at hb; subst hb; simp

/-! ## C02_resolution_is_lexical -/

theorem start_rel (r : Resolved) : Rel (CS.start r).chain Spec.startEnv := by
  refine ⟨⟨?_, rfl, by simp, rfl, ?_, by simp [CS.start]⟩, rfl⟩
  · simp only [CS.start, List.map_cons, List.map_nil, Local.key, flatLocals, List.nil_append, List.reverse_cons,
      List.reverse_nil, List.length_nil]
    cases hg : Table.get r.modTable UNINITIALIZED_VAR with
    | none => simp
    | some s => simp [(Table.get_mem _ _ _ hg).2]
  · intro l hl
    simp only [CS.start, List.mem_singleton] at hl
    subst hl
    right
    cases hg : Table.get r.modTable UNINITIALIZED_VAR with
    | none => simp
    | some s => simp [(Table.get_mem _ _ _ hg).2]

/-- **C02_resolution_is_lexical.**  For every resolved program of the scoping fragment (arbitrarily
nested blocks, functions, lambdas, methods, classes, loops, try/catch; `let`, `fn`, parameters, catch
variables, `self`, loop items, module names) whose attached tables are what the resolver produces
(`treeOk`, see `C02_resolver_tables_good`) and whose module table holds module symbols (`mtOk`):
the compiler meets the identifier occurrences in the order the Spec lists them, and for every
occurrence the access path it emits — local slot, box slot, capture index (followed through the
compile-time chain of `CaptureIndex` lists), or module slot — designates exactly the declaration
`Spec.lookup` gives: the innermost enclosing declaration in scope.  (The only exceptions are the ones
the compiler itself reports: no path is emitted after a panic, and a path emitted after the
"Too many closure variables" error is not trusted.)  In addition a `GetLocal/SetLocal` path is only
emitted for a symbol in state `LocalInitialized` to which no occurrence in a deeper function was
resolved, and `Get/SetBox`, `Get/SetCapture` only for `LocalCaptured` symbols. -/
theorem C02_resolution_is_lexical (r : Resolved) (hmt : mtOk r.modTable = true) (hok : treeOk r.tree = true) :
    All2 OccOk (compile r).occs (Spec.occs (tableLookup r.modTable) r.tree Spec.startEnv).2 := by
  have h := (comp_lex r.modTable hmt r.tree (CS.start r) Spec.startEnv hok (start_rel r) rfl).1
  obtain ⟨_, _, new, ho, ha⟩ := h
  have : (CS.start r).occs = [] := rfl
  simp only [this, List.nil_append] at ho
  simpa [compile, ho] using ha

/-! ## C02_by_value_only_if_uncaptured -/

/-- **C02_by_value_only_if_uncaptured (resolver side).**  For every program the resolver accepts
(`errors = []`) whose identifiers avoid the hidden slot-0 name: every symbol in every table the
resolver attaches to the tree has a local state, and one that is still `LocalInitialized` (so that the
compiler will keep it in a plain slot and copy it by value nowhere) was never the resolution target of
an occurrence in a more deeply nested function (`hits = []`). -/
theorem C02_resolver_tables_good (p : Tm) (hn : namesOk p = true) (he : (resolve p).errors = []) :
    treeOk (resolve p).tree = true :=
  resolve_treeOk p hn he

/-- **C02_by_value_only_if_uncaptured.**  Put together: in a program the resolver accepts, an
occurrence is compiled to `GetLocal/SetLocal` only if no function nested more deeply than the
declaration mentions that declaration (no occurrence there was resolved to its symbol). -/
theorem C02_by_value_only_if_uncaptured (p : Tm) (hn : namesOk p = true) (he : (resolve p).errors = [])
    (hmt : mtOk (resolve p).modTable = true) :
    All2 (fun oc _ => ∀ s, oc.path = some (.local s) → ∃ sy, oc.sym = some sy ∧ sy.state = .localInit ∧ sy.hits = [])
      (compile (resolve p)).occs (Spec.occs (tableLookup (resolve p).modTable) (resolve p).tree Spec.startEnv).2 := by
  have h := C02_resolution_is_lexical (resolve p) hmt (C02_resolver_tables_good p hn he)
  revert h
  generalize (compile (resolve p)).occs = l1
  generalize (Spec.occs (tableLookup (resolve p).modTable) (resolve p).tree Spec.startEnv).2 = l2
  intro h
  induction l1 generalizing l2 with
  | nil => cases l2 <;> simp_all [All2]
  | cons a l1 ih => cases l2 with
    | nil => simp [All2] at h
    | cons b l2 => exact ⟨h.1.2.2.1, ih l2 h.2⟩

/-- Captured declarations get their box when (and every time) they execute: `declare_local_variable`
emits `EmptyBox` for a captured symbol … -/
theorem C02_captured_local_emits_emptyBox (cs : CS) (d : Nat) (x : Name) (c : Comp) (rest : List Comp)
    (hc : cs.chain = c :: rest) (h : (cs.declareLocal d x).2 = .localCaptured) :
    ∃ c', (cs.declareLocal d x).1.chain = c' :: rest ∧ c'.evs = c.evs ++ [.emptyBox] := by
  unfold CS.declareLocal at h ⊢
  simp only at h ⊢
  simp only [h, if_true]
  unfold CS.pushLocal
  simp only [hc]
  split <;> split <;> simp [CS.emit, CS.error, CS.panic]

/-- … `define_local_variable` emits `FillBox` for it … -/
theorem C02_captured_local_emits_fillBox (cs : CS) (x : Name) (c : Comp) (rest : List Comp)
    (hc : cs.chain = c :: rest) (hd : c.scopeDepth > 1) :
    (cs.defineVariable x .localCaptured).chain = { c with evs := c.evs ++ [.fillBox] } :: rest := by
  simp [CS.defineVariable, CS.scopeDepth, hc, hd, CS.emit]

/-- … a captured parameter (or `self`) is boxed in place by `Box slot` in the prologue of every call … -/
theorem C02_captured_param_emits_box (cs : CS) (d : Nat) (x : Name) (c1 : Comp) (rest : List Comp)
    (slot : Nat) (sym : RSym) (dd : Nat)
    (h : (cs.pushLocal d x).2 = .localCaptured) (hc : (cs.pushLocal d x).1.chain = c1 :: rest)
    (hr : c1.resolveLocal (cs.pushLocal d x).1.modTable x = some (slot, sym, dd)) :
    cs.declareParam d x = (cs.pushLocal d x).1.emit (.box slot) := by
  unfold CS.declareParam
  simp only [h, if_true, hc, hr]

/-- … whereas the item of a `for` loop is declared and defined in the loop's prologue, before the
loop label, not in the body that is compiled (and executed) per iteration: one variable per loop. -/
theorem C02_for_item_declared_once (cs : CS) (tF : Table) (dI d : Nat) (x : Name) (iter : Tm) (tB : Table) (b : Tm) :
    comp (.forS tF dI d x iter tB b) cs =
      ((comp b (((comp iter (cs.beginScope tF)).forPrologue dI d x).beginScope tB)).endScope).endScope := rfl

/-! ## the program-level statement, non-vacuity, witnesses -/

/-- the Spec does not look at the tables the resolver attaches -/
theorem occs_res (mod : Name → Option DeclRef) (t : Tm) :
    ∀ (rs : RS) (env : Spec.Env), Spec.occs mod (res t rs).1 env = Spec.occs mod t env := by
  induction t with
  | nil => intro rs env; rfl
  | lit n => intro rs env; rfl
  | str s => intro rs env; rfl
  | nilE => intro rs env; rfl
  | letN d x => intro rs env; rfl
  | seq a b iha ihb => intro rs env; rw [res_seq, occs_seq, occs_seq, iha, ihb]
  | var o x => intro rs env; rfl
  | assign o x e ih => intro rs env; rw [res_assign, occs_assign, occs_assign, ih]
  | op k a ih => intro rs env; rw [res_op, occs_op, occs_op, ih]
  | lam t0 d0 ps body ih => intro rs env; rw [res_lam, occs_lam, occs_lam, ih]
  | method k m t0 d0 ps body ih => intro rs env; rw [res_method, occs_method, occs_method, ih]
  | letS d x e ih => intro rs env; rw [res_let, occs_let, occs_let, ih]
  | fnS d f t0 d0 ps body ih => intro rs env; rw [res_fn, occs_fn, occs_fn, ih]
  | ifS c t1 t t2 e ihc iht ihe => intro rs env; rw [res_if, occs_if, occs_if, ihc, iht, ihe]
  | whileS c t1 b ihc ihb => intro rs env; rw [res_while, occs_while, occs_while, ihc, ihb]
  | forS tF dI d x iter tB b ihi ihb => intro rs env; rw [res_for, occs_for, occs_for, ihi, ihb]
  | tryS tB b tC d x o cn tCB c ihb ihc => intro rs env; rw [res_try, occs_try, occs_try, ihb, ihc]
  | classS d c oSup sup oName t0 dSuper ms ih => intro rs env; rw [res_class, occs_class, occs_class, ih]

/-- **C02_resolution_is_lexical, for source programs.**  For every program of the fragment that the
resolver accepts (and whose module table ended up holding module symbols, a decidable condition the
driver evaluates on every generated program): resolver + compiler emit, occurrence by occurrence,
paths that designate the innermost enclosing declaration in scope of the *source* program. -/
theorem C02_resolution_is_lexical_program (p : Tm) (hn : namesOk p = true) (he : (resolve p).errors = [])
    (hmt : mtOk (resolve p).modTable = true) :
    All2 OccOk (compile (resolve p)).occs (Spec.occs (tableLookup (resolve p).modTable) p Spec.startEnv).2 := by
  have h := C02_resolution_is_lexical (resolve p) hmt (C02_resolver_tables_good p hn he)
  have : (resolve p).tree = (res p (RS.start p)).1 := rfl
  rw [this, occs_res] at h
  exact h

/-- `fn mk(n) { let c = 0; return || { c = c + n; return c; }; }  let f = mk(2);  print(f());` -/
def exCounter : Tm :=
  .seq (.fnS 1 "mk" [] 2 [⟨3, "n"⟩]
          (.seq (.letS 4 "c" (.lit 0))
          (.seq (.op .ret (.seq (.lam [] 5 []
              (.seq (.op .exprS (.seq (.assign 1 "c" (.op .add (.seq (.var 2 "c") (.seq (.var 3 "n") .nil)))) .nil))
              (.seq (.op .ret (.seq (.var 4 "c") .nil)) .nil))) .nil)) .nil)))
  (.seq (.letS 6 "f" (.op .call (.seq (.var 5 "mk") (.seq (.lit 2) .nil))))
  (.seq (.op .exprS (.seq (.op .call (.seq (.var 6 "print") (.seq (.op .call (.seq (.var 7 "f") .nil)) .nil))) .nil)) .nil))

/-- non-vacuity: the hypotheses of the theorems above hold of a program with a captured local and a
captured parameter, and the model compiles it to `Box 1`, `EmptyBox … FillBox`, a closure over both -/
example :
    namesOk exCounter = true ∧ (resolve exCounter).errors = [] ∧ mtOk (resolve exCounter).modTable = true ∧
    treeOk (resolve exCounter).tree = true ∧ (compile (resolve exCounter)).panics = [] ∧
    (compile (resolve exCounter)).funs.map (·.evs) =
      [[.get (.capture 0), .get (.capture 1), .set (.capture 0), .get (.capture 0), .nil],
       [.box 1, .emptyBox, .fillBox, .closure "lambda" [.loc 2, .loc 1], .nil],
       [.set (.modsym 2), .funConst "mk", .set (.modsym 0), .get (.modsym 0), .set (.modsym 1), .get (.modsym 2), .get (.modsym 1), .nil]] := by
  decide

/-- … the Spec interpreter prints 2 for it (kernel-checked); the machine too (evaluated: `decide`
re-runs the compiler at every use of its output, so this one is a build-time `#guard`) -/
example : Sem.run 40 exCounter = (["2"], "ok") := by decide

#guard Machine.run 100 (resolve exCounter) == (["2"], "ok")

/-- `fn f() { let x = [1, 2]; for x in (|| x)() { print(x); } }  f();` -/
def exForIterable : Tm :=
  .seq (.fnS 1 "f" [] 2 []
          (.seq (.letS 3 "x" (.op .list (.seq (.lit 1) (.seq (.lit 2) .nil))))
          (.seq (.forS [] 4 5 "x" (.op .call (.seq (.lam [] 6 [] (.seq (.op .ret (.seq (.var 1 "x") .nil)) .nil)) .nil)) []
                  (.seq (.op .exprS (.seq (.op .call (.seq (.var 2 "print") (.seq (.var 3 "x") .nil))) .nil)) .nil)) .nil)))
  (.seq (.op .exprS (.seq (.op .call (.seq (.var 4 "f") .nil)) .nil)) .nil)

/-- **Regression (repaired finding D31, repo commit 22c8429).**  The resolver resolves the iterable of a `for` before the
item is declared, as the compiler compiles it: the closure in the iterable marks the OUTER `x` captured (a box in slot 1
of `f`, read through capture 0 of the lambda), the item is a plain local, nothing panics.  (With the old order — item
declared first — the resolver marked the item, and the compiler, finding the outer `x` still `LocalInitialized` through
`resolve_capture`, panicked "Unexpected symbol x with state LocalInitialized." on a program the resolver accepted.) -/
theorem C02_for_iterable_outside_item_scope :
    namesOk exForIterable = true ∧ (resolve exForIterable).errors = [] ∧ mtOk (resolve exForIterable).modTable = true ∧
    (compile (resolve exForIterable)).panics = [] ∧
    ((compile (resolve exForIterable)).funs.map (fun f => (f.name, f.evs))).take 2 =
      [("lambda", [.get (.capture 0), .nil]),
       ("f", [.emptyBox, .fillBox, .closure "lambda" [.loc 1], .nil, .get (.local 2), .get (.local 2), .set (.local 3),
              .get (.modsym 1), .get (.local 3), .nil])] := by
  decide

/-- … the Spec interpreter prints 1 and 2 for it (the iterable is the outer list), and so does the machine -/
example : Sem.run 60 exForIterable = (["1", "2"], "ok") := by decide

#guard Machine.run 200 (resolve exForIterable) == (["1", "2"], "ok")

/-- `class A { init() { self.v = 1; let g = || self; } }  let a = A();  print(a.v);` -/
def exInitSelf : Tm :=
  .seq (.classS 1 "A" 1 "Object" 2 [] 2
          (.seq (.method .init "init" [] 3 []
              (.seq (.op .exprS (.seq (.op (.setF "v") (.seq (.var 3 "self") (.seq (.lit 1) .nil))) .nil))
              (.seq (.letS 4 "g" (.lam [] 5 [] (.seq (.op .ret (.seq (.var 4 "self") .nil)) .nil))) .nil))) .nil))
  (.seq (.letS 6 "a" (.op .call (.seq (.var 5 "A") .nil)))
  (.seq (.op .exprS (.seq (.op .call (.seq (.var 6 "print") (.seq (.op (.getF "v") (.seq (.var 7 "a") .nil)) .nil))) .nil)) .nil))

/-- **Regression fact (repaired finding D32 = D27c, `7304c16`).**  `emit_return` of an initialiser reads `self` the way
every other use does: when a closure inside `init` captures `self`, the prologue boxes slot 0 (`Box 0`) and the implicit
return reads through the box (`GetBox 0`), so `A()` is the instance.  (Before the repair the last instruction was
`GetLocal(0)` and the constructor call answered the box; a seeded change that restored exactly that went unnoticed by this
check because the generator still avoided the shape and this model still described the old compiler.)  The Spec prints 1,
and so does the machine. -/
theorem C02_init_returns_instance_when_self_is_captured :
    (resolve exInitSelf).errors = [] ∧ (compile (resolve exInitSelf)).panics = [] ∧
    ((compile (resolve exInitSelf)).funs.map (fun f => (f.name, f.evs)))[1]? =
      some ("init", [.box 0, .get (.box 0), .closure "lambda" [.loc 0], .get (.box 0)]) ∧
    Sem.run 40 exInitSelf = (["1"], "ok") := by
  decide

#guard Machine.run 100 (resolve exInitSelf) == (["1"], "ok")

/-! ## C02_let_without_initialiser: a variable declared without a value is nil, in every storage class -/

/-- `push_local`: the new local is appended to the innermost compiler, nothing else of the chain changes -/
theorem pushLocal_chain (cs : CS) (d : Nat) (x : Name) (c : Comp) (rest : List Comp) (hc : cs.chain = c :: rest) :
    ∃ sym : RSym, (cs.pushLocal d x).2 = sym.state ∧ (cs.pushLocal d x).1.modOffsets = cs.modOffsets ∧
      (cs.pushLocal d x).1.chain = { c with locals := c.locals ++ [{ sym := sym, depth := c.scopeDepth, decl := d }] } :: rest := by
  unfold CS.pushLocal
  simp only [hc]
  split <;> split <;> exact ⟨_, rfl, rfl, rfl⟩

/-- **C02_let_without_initialiser (compiler paths).**  `Compiler::let_` on `let x;`, in every storage class:
* at module scope the module symbol is assigned `nil` (`Nil; SetModSym k`);
* in any other scope the new local `x` is pushed (slot = number of locals so far) and `Nil` is emitted for it; when the
  resolver marked the symbol captured the `Nil` sits between the `EmptyBox` of the declaration and the `FillBox` of the
  definition — the box is *filled with nil*, never left empty (an empty `LyBox` holds the `undefined` sentinel). -/
theorem C02_let_without_initialiser_emits (cs : CS) (d : Nat) (x : Name) (c : Comp) (rest : List Comp)
    (hc : cs.chain = c :: rest) :
    (c.scopeDepth = 1 → ∀ s k, cs.modTable.get x = some s → cs.modOffset x = some k →
        (comp (.letN d x) cs).chain = { c with evs := c.evs ++ [.nil, .set (.modsym k)] } :: rest) ∧
    (c.scopeDepth > 1 → ∃ sym : RSym, (cs.pushLocal d x).2 = sym.state ∧
        (comp (.letN d x) cs).chain =
          { c with locals := c.locals ++ [{ sym := sym, depth := c.scopeDepth, decl := d }],
                   evs := c.evs ++ (if sym.state = .localCaptured then [.emptyBox, .nil, .fillBox] else [.nil]) } :: rest) := by
  rw [comp_letN]
  constructor
  · intro hd s k hs hk
    have h1 : cs.scopeDepth = 1 := by simp [CS.scopeDepth, hc, hd]
    simp only [CS.declareVariable, h1, if_true, hs]
    unfold CS.defineVariable
    simp only [CS.emit, hc, CS.scopeDepth, List.head?_cons, Option.map_some, Option.getD_some, hd, Nat.lt_irrefl, if_false]
    split
    · next k1 heq =>
      change cs.modOffset x = some k1 at heq
      rw [hk] at heq
      cases heq
      simp
    · next heq =>
      change cs.modOffset x = none at heq
      rw [hk] at heq
      cases heq
  · intro hd
    have h1 : cs.scopeDepth ≠ 1 := by simp [CS.scopeDepth, hc]; omega
    obtain ⟨sym, hst, hmo, hch⟩ := pushLocal_chain cs d x c rest hc
    refine ⟨sym, hst, ?_⟩
    simp only [CS.declareVariable, h1, if_false, CS.declareLocal, hst]
    by_cases hcap : sym.state = .localCaptured
    · simp [hcap, CS.emit, hch, CS.defineVariable, CS.scopeDepth, hd]
    · simp [hcap, CS.emit, hch, CS.defineVariable, CS.scopeDepth, hd]

theorem ev_letN (fuel : Nat) (top : Bool) (d : Nat) (x : Name) (env : Sem.Env) (st : Sem.St) :
    Sem.ev (fuel + 1) top (.letN d x) env st = Sem.letNStep top x env st := rfl

/-- **Spec side.**  Executing `let x;` binds `x` to a cell holding `nil`; anywhere but on the module's statement spine
(where the name is hoisted) the cell is a fresh one (`st.cells.size`), put in front of the environment: every execution
of the declaration — every call, every iteration of a loop body — starts out with its own `nil` variable. -/
theorem C02_spec_let_without_initialiser_is_nil (fuel : Nat) (top : Bool) (d : Nat) (x : Name) (env : Sem.Env) (st : Sem.St)
    (hb : ∀ c, Sem.envFind env x = some c → c < st.cells.size) :
    ∃ env' st' c, Sem.ev (fuel + 1) top (.letN d x) env st = (.norm .nil, env', st') ∧
      Sem.envFind env' x = some c ∧ st'.read c = .nil ∧ (top = false → c = st.cells.size ∧ env' = (x, c) :: env) := by
  rw [ev_letN]
  unfold Sem.letNStep
  cases top with
  | false =>
    refine ⟨_, _, st.cells.size, rfl, by simp [Sem.envFind], by simp [Sem.St.read], fun _ => ⟨rfl, rfl⟩⟩
  | true =>
    cases hf : Sem.envFind env x with
    | none =>
      refine ⟨_, _, st.cells.size, rfl, by simp [Sem.envFind], by simp [Sem.St.read], fun h => by cases h⟩
    | some c =>
      refine ⟨_, _, c, rfl, hf, ?_, fun h => by cases h⟩
      have := hb c hf
      simp [Sem.St.write, Sem.St.read, this]

open Machine in
/-- unfolding equations (by `rfl`) -/
theorem mev_letN (code : Code) (fuel d : Nat) (x : Name) (fr : Frame) (st : MSt) :
    mev code (fuel + 1) (.letN d x) fr st = letNStep code d fr st := rfl

open Machine in
/-- **C02_let_without_initialiser_is_nil.**  Whenever the machine executes `let x;` (from any frame, any heap, any code
table), the variable holds `nil` afterwards in every storage class, whoever looks first:
* module symbol: `GetModSym slot` reads `nil`;
* plain local: the variable is the next stack slot and `GetLocal slot` reads `nil`;
* boxed local: the slot holds a *fresh* box (`st.boxes.size`: no older slot or capture array refers to it), `GetBox slot`
  in the declaring scope reads `nil`, and so does `GetCapture i` of *every* frame whose capture array holds that box at `i`
  — which, by `C02_capture_chain_sound` and `C02_closure_shares`, is every closure that mentions `x`, at any nesting depth.
(With `EmptyBox` alone the box would hold `undef`: `opEmptyBox` pushes `.undef`.) -/
theorem C02_let_without_initialiser_is_nil (code : Code) (fuel d : Nat) (x : Name) (di : DeclInfo)
    (fr fr' : Frame) (st st' : MSt) (v : MVal)
    (hd : code.decl d = some di)
    (h : mev code (fuel + 1) (.letN d x) fr st = (.norm v, fr', st')) :
    (isModule di.st = true → readPath st' fr' (.modsym di.slot) = some .nil) ∧
    (isModule di.st = false → di.st ≠ .localCaptured →
        di.slot = fr.slots.size ∧ readPath st' fr' (.local di.slot) = some .nil) ∧
    (isModule di.st = false → di.st = .localCaptured →
        di.slot = fr.slots.size ∧ fr'.slots[di.slot]? = some (.box st.boxes.size) ∧ st'.boxes.size = st.boxes.size + 1 ∧
        readPath st' fr' (.box di.slot) = some .nil ∧
        ∀ (clo : Frame) (i : Nat), clo.caps[i]? = some st.boxes.size → readPath st' clo (.capture i) = some .nil) := by
  rw [mev_letN] at h
  unfold letNStep declareSlot at h
  simp only [hd] at h
  refine ⟨?_, ?_, ?_⟩
  · intro hm
    simp only [hm, if_true, defineSlot, hd, writePath] at h
    simp only [Prod.mk.injEq] at h
    obtain ⟨_, rfl, rfl⟩ := h
    simp only [readPath]
    split
    · next hlt => simp [hlt]
    · next hlt =>
      have : di.slot < (st.mods ++ Array.replicate (di.slot + 1 - st.mods.size) MVal.undef).size := by
        simp; omega
      first
        | exact Array.getElem?_setIfInBounds_self_of_lt this
        | (rw [Array.getElem?_setIfInBounds_self]; simp [this])
        | simp [Array.getElem?_setIfInBounds, this]
  · intro hm hc
    simp only [hm, Bool.false_eq_true, if_false, hc] at h
    by_cases hs : di.slot = fr.slots.size
    · simp only [hs, ne_eq, not_true_eq_false, if_false, defineSlot, hd, hm, Bool.false_eq_true, hc, Prod.mk.injEq] at h
      obtain ⟨_, rfl, rfl⟩ := h
      exact ⟨hs, by simp [readPath, hs]⟩
    · simp [hs] at h
  · intro hm hc
    have hm' : isModule SymState.localCaptured = false := rfl
    simp only [hc, hm', Bool.false_eq_true, if_false, if_true] at h
    by_cases hs : di.slot = fr.slots.size
    · simp only [hs, ne_eq, not_true_eq_false, if_false, defineSlot, hd, hc, hm', Bool.false_eq_true, if_true,
        opEmptyBox, opFillBox, Array.back?_push, Option.map_some, Prod.mk.injEq] at h
      obtain ⟨_, rfl, rfl⟩ := h
      refine ⟨hs, by simp [hs], by simp, by simp [readPath, opGetBox, hs], ?_⟩
      intro clo i hi
      simp [readPath, opGetCapture, hi]
    · simp [hs] at h

/--
```
let m;                        // module symbol
fn f() {
  let p;                      // plain local
  let q;                      // boxed local: captured by the lambda
  let g = || { return q; };
  print(p);
  print(g());
  return q;
}
print(m);
print(f());
```
-/
def exLetN : Tm :=
  .seq (.letN 1 "m")
  (.seq (.fnS 2 "f" [] 3 []
          (.seq (.letN 4 "p")
          (.seq (.letN 5 "q")
          (.seq (.letS 6 "g" (.lam [] 7 [] (.seq (.op .ret (.seq (.var 1 "q") .nil)) .nil)))
          (.seq (.op .exprS (.seq (.op .call (.seq (.var 2 "print") (.seq (.var 3 "p") .nil))) .nil))
          (.seq (.op .exprS (.seq (.op .call (.seq (.var 4 "print") (.seq (.op .call (.seq (.var 5 "g") .nil)) .nil))) .nil))
          (.seq (.op .ret (.seq (.var 6 "q") .nil)) .nil)))))))
  (.seq (.op .exprS (.seq (.op .call (.seq (.var 7 "print") (.seq (.var 8 "m") .nil))) .nil))
  (.seq (.op .exprS (.seq (.op .call (.seq (.var 9 "print") (.seq (.op .call (.seq (.var 10 "f") .nil)) .nil))) .nil)) .nil)))

set_option maxRecDepth 2000

/-- non-vacuity + the three storage classes side by side: `m` is a module symbol (`Nil; SetModSym 0`), `p` a plain local
(`Nil`), `q` a boxed local (`EmptyBox; Nil; FillBox`, captured as `Local 2`) -/
theorem C02_let_without_initialiser_example :
    namesOk exLetN = true ∧ (resolve exLetN).errors = [] ∧ mtOk (resolve exLetN).modTable = true ∧
    (compile (resolve exLetN)).panics = [] ∧
    (compile (resolve exLetN)).funs.map (fun f => (f.name, f.evs)) =
      [("lambda", [.get (.capture 0), .nil]),
       ("f", [.nil, .emptyBox, .nil, .fillBox, .closure "lambda" [.loc 2], .get (.modsym 2), .get (.local 1),
              .get (.modsym 2), .get (.local 3), .get (.box 2), .nil]),
       ("script", [.set (.modsym 2), .nil, .set (.modsym 0), .funConst "f", .set (.modsym 1), .get (.modsym 2), .get (.modsym 0),
              .get (.modsym 2), .get (.modsym 1), .nil])] := by
  decide

/-! … the Spec interpreter prints `nil` four times for it — the module symbol, the plain local, the boxed local read
through the closure and read (and returned) by the declaring scope — and so does the machine (both evaluated at build time) -/
#guard Sem.run 40 exLetN == (["nil", "nil", "nil", "nil"], "ok")

#guard Machine.run 200 (resolve exLetN) == (["nil", "nil", "nil", "nil"], "ok")

/-! ## stretch: the simulation -/

/-- **C02_env_simulation** (stated, not proved; checked on every generated program by the `scope`
stream): on every program the front end accepts, the slot/box/capture machine driven by the compiler's
decisions prints what the cell-environment interpreter prints. -/
def C02_env_simulation : Prop :=
  ∀ (p : Tm) (fuel : Nat) (out : List String),
    (resolve p).errors = [] → (compile (resolve p)).panics = [] → (compile (resolve p)).errors = [] →
    Sem.run fuel p = (out, "ok") → ∃ fuel', Machine.run fuel' (resolve p) = (out, "ok")

end LaytheVerif.C02
