/-
C11 — Built-in collections, strings and iterators behave as their mathematical models.
Theorems about `Model/Collections.lean` and `Model/CollectionsIter.lean`; no bound on lengths, indices,
histories or element types.
-/
import LaytheVerif.Model.Collections
import LaytheVerif.Model.CollectionsIter
import LaytheVerif.Lemmas.CollList
import LaytheVerif.Gen.CollSignatures
namespace LaytheVerif.C11
open LaytheVerif.Coll

/-! ## Index normalisation -/

theorem toUsize_int_nonneg (i : Int) (h : 0 ≤ i) (hb : i ≤ usizeMax) : (Num.int i).toUsize = i.toNat := by
  simp only [Num.toUsize]
  have : ¬ i < 0 := by omega
  simp only [this, if_false]
  omega

/-- `determine_index` on an integral index, below the saturation point of `as usize`. -/
theorem determineIndex_int (len : Nat) (hl : len < usizeMax) (i : Int) (k : Nat) :
    determineIndex len (.int i) = .ok k ↔ (-(len : Int) ≤ i ∧ i < len ∧ (k : Int) = (i + len) % len) := by
  simp only [determineIndex, Num.fractNonZero, Num.ltZero, Num.neg, Num.toUsize]
  by_cases h : i < 0
  · have h' : ¬ (-i < 0) := by omega
    simp only [h, h', decide_true, if_true, if_false, Bool.false_eq_true]
    by_cases h2 : min (-i).toNat usizeMax > len
    · simp only [h2, if_true]
      constructor
      · intro e; cases e
      · intro ⟨a, _, _⟩; omega
    · simp only [h2, if_false, Except.ok.injEq]
      have h3 : 0 ≤ i + len := by omega
      have h4 : i + len < len := by omega
      rw [Int.emod_eq_of_lt h3 h4]
      omega
  · simp only [h, decide_false, if_false, Bool.false_eq_true]
    by_cases h2 : min i.toNat usizeMax ≥ len
    · simp only [h2, if_true]
      constructor
      · intro e; cases e
      · intro ⟨_, b, _⟩; omega
    · simp only [h2, if_false, Except.ok.injEq]
      have hlen : (i + len) % len = i := by
        rw [Int.add_emod_right]; exact Int.emod_eq_of_lt (by omega) (by omega)
      rw [hlen]
      omega

/-- **C11_index_norm.**  For every length and every number: `determine_index` answers `k` exactly when the
index is an integer with `-len ≤ i < len` and `k = (i + len) mod len`; fractional, NaN and infinite indices
are errors. (Same text serves lists and tuples; `len < usize::MAX` because `as usize` saturates.) -/
theorem C11_index_norm (len : Nat) (hl : len < usizeMax) (n : Num) (k : Nat) :
    determineIndex len n = .ok k ↔
      ∃ i : Int, n = .int i ∧ -(len : Int) ≤ i ∧ i < len ∧ (k : Int) = (i + len) % len := by
  cases n with
  | int i =>
    rw [determineIndex_int len hl i k]
    constructor
    · intro h; exact ⟨i, rfl, h⟩
    · rintro ⟨j, hj, h⟩; cases hj; exact h
  | frac a b => simp [determineIndex, Num.fractNonZero]
  | nan => simp [determineIndex, Num.fractNonZero]
  | inf a => simp [determineIndex, Num.fractNonZero]

/-- every failure of `determine_index` is an `IndexError` -/
theorem determineIndex_error (len : Nat) (n : Num) (c : ErrClass) (h : determineIndex len n = .error c) :
    c = .index := by
  unfold determineIndex at h
  split at h
  · cases h; rfl
  · split at h
    · dsimp only at h; split at h
      · cases h; rfl
      · cases h
    · dsimp only at h; split at h
      · cases h; rfl
      · cases h

/-- `determine_index` is the Spec's index normalisation. -/
theorem determineIndex_eq_spec (len : Nat) (hl : len < usizeMax) (n : Num) :
    determineIndex len n = (match Spec.normIndex len n with | some k => .ok k | none => .error .index) := by
  cases hd : determineIndex len n with
  | ok k =>
    obtain ⟨i, rfl, h1, h2, h3⟩ := (C11_index_norm len hl n k).mp hd
    have : k = ((i + len) % len).toNat := by omega
    simp [Spec.normIndex, h1, h2, this]
  | error c =>
    have hc := determineIndex_error len n c hd
    subst hc
    cases hs : Spec.normIndex len n with
    | none => rfl
    | some k =>
      exfalso
      cases n with
      | int i =>
        simp only [Spec.normIndex] at hs
        split at hs
        · next hh =>
          cases hs
          have hk : determineIndex len (.int i) = .ok ((i + len) % len).toNat := by
            rw [determineIndex_int len hl]
            refine ⟨hh.1, hh.2, ?_⟩
            have : 0 ≤ (i + len) % (len : Int) := Int.emod_nonneg _ (by omega)
            omega
          rw [hk] at hd; cases hd
        · cases hs
      | frac a b => simp [Spec.normIndex] at hs
      | nan => simp [Spec.normIndex] at hs
      | inf a => simp [Spec.normIndex] at hs

example : determineIndex 3 (.int (-1)) = .ok 2 := by decide
example : determineIndex 3 (.int 3) = .error .index := by decide
example : determineIndex 3 (.frac false 0) = .error .index := by decide
example : determineIndex 0 (.int 0) = .error .index := by decide
example : (3 : Nat) < usizeMax := by decide

/-! ## Slices -/

theorem sliceIndex_nonint (len : Nat) (n : Num) (h : n.fractNonZero = true) :
    sliceIndex len n = .error .index := by
  simp [sliceIndex, h]

theorem clampIndex_nonint (len : Nat) (n : Num) (h : n.fractNonZero = true) : Spec.clampIndex len n = none := by
  cases n <;> simp_all [Spec.clampIndex, Num.fractNonZero]

/-- the list fact behind `slice`: with `e ≤ len`, guarding on `s ≤ e` is the same as clamping `s` -/
theorem slice_core {α : Type} (xs : List α) (s e : Nat) (he : e ≤ xs.length) :
    (if s ≤ e then (xs.drop s).take (e - s) else []) = (xs.drop (min s xs.length)).take (e - min s xs.length) := by
  split
  · next h => have : min s xs.length = s := by omega
              rw [this]
  · next h =>
    have : e - min s xs.length = 0 := by omega
    rw [this]; simp

/-- what `ListSlice::index` computes for an integral bound -/
def modelBound (len : Nat) (i : Int) : Nat :=
  if 0 ≤ i then min i.toNat usizeMax else len - min (-i).toNat usizeMax

theorem sliceIndex_int (len : Nat) (i : Int) : sliceIndex len (.int i) = .ok (modelBound len i) := by
  simp only [sliceIndex, modelBound, Num.fractNonZero, Num.geZero, Num.neg, Num.toUsize, Bool.false_eq_true, if_false]
  by_cases hi : 0 ≤ i
  · have : ¬ i < 0 := by omega
    simp [hi, this]
  · have : ¬ (0 < i) := by omega
    simp [hi, this]

theorem modelBound_clamp (len : Nat) (hl : len < usizeMax) (i : Int) :
    Spec.clampIndex len (.int i) = some (min (modelBound len i) len) := by
  simp only [Spec.clampIndex, modelBound]
  by_cases hi : 0 ≤ i
  · have : ¬ i < 0 := by omega
    simp only [hi, this, if_true, if_false]; congr 1; omega
  · have : i < 0 := by omega
    simp only [hi, this, if_true, if_false]; congr 1; omega

theorem sliceOf_int {α : Type} (xs : List α) (hl : xs.length < usizeMax) (i j : Int) :
    sliceOf xs (.int i) (.int j) =
      (match Spec.clampIndex xs.length (.int i), Spec.clampIndex xs.length (.int j) with
       | some s, some e => .ok ((xs.drop s).take (e - s))
       | _, _ => .error .index) := by
  rw [modelBound_clamp _ hl, modelBound_clamp _ hl]
  simp only [sliceOf, sliceIndex_int, bind, Except.bind, Nat.max_zero]
  have := slice_core xs (modelBound xs.length i) (min (modelBound xs.length j) xs.length) (Nat.min_le_right _ _)
  split <;> simp_all

theorem sliceOf_int_nonint {α : Type} (xs : List α) (i : Int) (e : Num) (h : e.fractNonZero = true) :
    sliceOf xs (.int i) e = .error .index := by
  simp [sliceOf, sliceIndex_int, sliceIndex_nonint _ e h, bind, Except.bind]

theorem sliceOf_nonint {α : Type} (xs : List α) (s e : Num) (h : s.fractNonZero = true) :
    sliceOf xs s e = .error .index := by
  simp [sliceOf, sliceIndex_nonint _ s h, bind, Except.bind]

/-- **C11_slice.**  `slice` of a list or tuple is `drop`/`take` between the two bounds, each an integer
counted from the end when negative and clamped into `0 … len`; a fractional, NaN or infinite bound is an
`IndexError`.  All lengths below `usize::MAX`, all numbers. -/
theorem C11_slice {α : Type} (xs : List α) (hl : xs.length < usizeMax) (start stop : Option Num) :
    sliceArgs xs start stop = Spec.slice xs (match start with | none => none | some s => some s)
      (match start, stop with | none, _ => none | some _, e => e) := by
  have h0 : Spec.clampIndex xs.length (.int 0) = some 0 := by simp [Spec.clampIndex]
  have hlen : Spec.clampIndex xs.length (.int xs.length) = some xs.length := by
    simp [Spec.clampIndex]; omega
  cases start with
  | none =>
    simp only [sliceArgs, Spec.slice]
    rw [sliceOf_int xs hl, h0, hlen]
  | some s =>
    cases stop with
    | none =>
      simp only [sliceArgs, Spec.slice]
      cases s with
      | int i => rw [sliceOf_int xs hl, hlen]; cases Spec.clampIndex xs.length (.int i) <;> rfl
      | frac a b => rw [sliceOf_nonint _ _ _ rfl, clampIndex_nonint _ _ rfl]
      | nan => rw [sliceOf_nonint _ _ _ rfl, clampIndex_nonint _ _ rfl]
      | inf a => rw [sliceOf_nonint _ _ _ rfl, clampIndex_nonint _ _ rfl]
    | some e =>
      simp only [sliceArgs, Spec.slice]
      cases s with
      | int i =>
        cases e with
        | int j =>
          rw [sliceOf_int xs hl]
          cases Spec.clampIndex xs.length (.int i) <;> cases Spec.clampIndex xs.length (.int j) <;> rfl
        | frac a b =>
          rw [sliceOf_int_nonint _ _ _ rfl, clampIndex_nonint _ (.frac a b) rfl]
          cases Spec.clampIndex xs.length (.int i) <;> rfl
        | nan =>
          rw [sliceOf_int_nonint _ _ _ rfl, clampIndex_nonint _ .nan rfl]
          cases Spec.clampIndex xs.length (.int i) <;> rfl
        | inf a =>
          rw [sliceOf_int_nonint _ _ _ rfl, clampIndex_nonint _ (.inf a) rfl]
          cases Spec.clampIndex xs.length (.int i) <;> rfl
      | frac a b => rw [sliceOf_nonint _ _ _ rfl, clampIndex_nonint _ _ rfl]
      | nan => rw [sliceOf_nonint _ _ _ rfl, clampIndex_nonint _ _ rfl]
      | inf a => rw [sliceOf_nonint _ _ _ rfl, clampIndex_nonint _ _ rfl]

example : sliceArgs [1, 2, 3] (some (.int (-2))) none = .ok [2, 3] := by decide
example : sliceArgs [1, 2, 3] (some (.int 0)) (some (.int (-1))) = .ok [1, 2] := by decide
example : sliceArgs [1, 2, 3] (some (.int 2)) (some (.int 1)) = .ok [] := by decide
example : sliceArgs [1, 2, 3] (some (.int (-10))) (some (.int 10)) = .ok [1, 2, 3] := by decide
example : sliceArgs [1, 2, 3] (some (.frac false 0)) none = .error .index := by decide

/-! ## Lists: every history of operations on the raw buffer is the same history on a `List` -/

/-- the list natives -/
inductive ListOp (α : Type) where
  | get (i : Arg) | set (i : Arg) (v : α) | push (vs : List α) | pop | insert (i : Arg) (v : α) | remove (i : Arg)
  | clear | len | slice (s e : Option Arg) | rev | has (v : α) | index (v : α)

/-- what a program can observe of one native call -/
inductive Obs (α : Type) where
  | val (v : Option α) | unit | num (n : Nat) | optNum (n : Option Nat) | bool (b : Bool) | seq (xs : List α)
  | err (c : ErrClass)
  /-- a write past the allocation (the model's way of saying "memory corruption") -/
  | ub

/-- one native call on the model -/
def mstep {α : Type} [BEq α] (b : RawVec α) : ListOp α → RawVec α × Obs α
  | .get i => match listGet b i with | .ok v => (b, .val v) | .error c => (b, .err c)
  | .set i v => match listSet b i v with | .ok b' => (b', .val (some v)) | .error c => (b, .err c)
  | .push vs => match listPush b vs with | .done b' => (b', .unit) | .ub => (b, .ub)
  | .pop => (b.pop.2, .val b.pop.1)
  | .insert i v => match listInsert b i v with
    | .ok (.done b') => (b', .unit) | .ok .ub => (b, .ub) | .error c => (b, .err c)
  | .remove i => match listRemove b i with | .ok r => (r.2, .val r.1) | .error c => (b, .err c)
  | .clear => (listClear b, .unit)
  | .len => (b, .num b.len)
  | .slice s e => match listSlice b s e with | .ok xs => (b, .seq xs) | .error c => (b, .err c)
  | .rev => (b, .seq (listRev b))
  | .has v => (b, .bool (listHas b v))
  | .index v => (b, .optNum (listIndex b v))

def argNum (a : Option Arg) : R (Option Num) :=
  match a with | none => .ok none | some (.num n) => .ok (some n) | some .other => .error .runtime

/-- the same call on the Spec: a plain `List` -/
def sstep {α : Type} [BEq α] (xs : List α) : ListOp α → List α × Obs α
  | .get (.num n) => match Spec.get xs n with | .ok v => (xs, .val (some v)) | .error c => (xs, .err c)
  | .get .other => (xs, .err .runtime)
  | .set (.num n) v => match Spec.set xs n v with | .ok ys => (ys, .val (some v)) | .error c => (xs, .err c)
  | .set .other _ => (xs, .err .runtime)
  | .push vs => (xs ++ vs, .unit)
  | .pop => ((Spec.pop xs).2, .val (Spec.pop xs).1)
  | .insert (.num n) v => match Spec.insert xs n v with | .ok ys => (ys, .unit) | .error c => (xs, .err c)
  | .insert .other _ => (xs, .err .runtime)
  | .remove (.num n) => match Spec.remove xs n with | .ok r => (r.2, .val (some r.1)) | .error c => (xs, .err c)
  | .remove .other => (xs, .err .runtime)
  | .clear => ([], .unit)
  | .len => (xs, .num xs.length)
  | .slice s e =>
    match argNum s, argNum e with
    | .ok s, .ok e =>
      (match Spec.slice xs (match s with | none => none | some s => some s)
          (match s, e with | none, _ => none | some _, e => e) with
       | .ok ys => (xs, .seq ys) | .error c => (xs, .err c))
    | _, _ => (xs, .err .runtime)
  | .rev => (xs, .seq xs.reverse)
  | .has v => (xs, .bool (xs.any (· == v)))
  | .index v => (xs, .optNum (xs.findIdx? (· == v)))

/-- by how much an operation can lengthen the list -/
def ListOp.growth {α : Type} : ListOp α → Nat
  | .push vs => vs.length
  | .insert _ _ => 1
  | _ => 0

theorem listPush_repr {α : Type} : ∀ (vs : List α) (b : RawVec α) (xs : List α), Repr b xs →
    ∃ b', listPush b vs = .done b' ∧ Repr b' (xs ++ vs) := by
  intro vs
  induction vs with
  | nil => intro b xs h; exact ⟨b, rfl, by simpa using h⟩
  | cons v vs ih =>
    intro b xs h
    obtain ⟨b1, h1, hr1⟩ := push_repr h v
    obtain ⟨b2, h2, hr2⟩ := ih b1 (xs ++ [v]) hr1
    refine ⟨b2, ?_, by simpa using hr2⟩
    simp [listPush, h1, h2]

theorem position_eq {α : Type} [BEq α] (v : α) : ∀ (xs : List α) (k : Nat),
    position v xs k = (xs.findIdx? (· == v)).map (· + k) := by
  intro xs
  induction xs with
  | nil => intro k; simp [position]
  | cons x xs ih =>
    intro k
    simp only [position, List.findIdx?_cons]
    split
    · simp
    · rw [ih]; cases xs.findIdx? (· == v) <;> simp; omega

theorem toUsize_le (i : Int) (h : 0 ≤ i) (len : Nat) (hl : len < usizeMax) :
    ((Num.int i).toUsize > len ↔ i > len) ∧ ((Num.int i).toUsize ≥ len ↔ i ≥ len) ∧
    (i ≤ len → (Num.int i).toUsize = i.toNat) := by
  have : ¬ i < 0 := by omega
  simp only [Num.toUsize, this, if_false]
  omega

theorem normIndex_lt (len : Nat) (n : Num) (k : Nat) (hn : Spec.normIndex len n = some k) : k < len := by
  cases n with
  | int i =>
    simp only [Spec.normIndex] at hn
    split at hn
    · next hh =>
      cases hn
      have := Int.emod_lt_of_pos (i + len) (show (0 : Int) < len by omega)
      have := Int.emod_nonneg (i + len) (show (len : Int) ≠ 0 by omega)
      omega
    · cases hn
  | frac a c => simp [Spec.normIndex] at hn
  | nan => simp [Spec.normIndex] at hn
  | inf a => simp [Spec.normIndex] at hn

/-- one step of the refinement: every operation, every argument, every capacity (0 included) -/
theorem mstep_refines {α : Type} [BEq α] (b : RawVec α) (xs : List α) (h : Repr b xs)
    (op : ListOp α) (hl : xs.length < usizeMax) :
    Repr (mstep b op).1 (sstep xs op).1 ∧ (mstep b op).2 = (sstep xs op).2 := by
  have hlen := h.len
  cases op with
  | get i =>
    cases i with
    | other => exact ⟨h, rfl⟩
    | num n =>
      have hd : determineIndex b.len n = (match Spec.normIndex xs.length n with | some k => .ok k | none => .error .index) := by
        rw [hlen]; exact determineIndex_eq_spec _ hl n
      cases hn : Spec.normIndex xs.length n with
      | none =>
        have hm : mstep b (.get (.num n)) = (b, .err .index) := by
          simp [mstep, listGet, Arg.toNum, bind, Except.bind, hd, hn]
        have hs : sstep xs (.get (.num n)) = (xs, .err .index) := by simp [sstep, Spec.get, hn]
        rw [hm, hs]; exact ⟨h, rfl⟩
      | some k =>
        have hk := normIndex_lt _ _ _ hn
        have hg : xs[k]? = some xs[k] := by simp [hk]
        have hgr : b.slots[k]?.getD none = some xs[k] := by
          have := get_repr h k hk
          simpa [List.getD_eq_getElem?_getD, hg] using this
        have hm : mstep b (.get (.num n)) = (b, .val (some xs[k])) := by
          simp [mstep, listGet, Arg.toNum, bind, Except.bind, hd, hn, hgr]
        have hs : sstep xs (.get (.num n)) = (xs, .val (some xs[k])) := by simp [sstep, Spec.get, hn, hg]
        rw [hm, hs]; exact ⟨h, rfl⟩
  | set i v =>
    cases i with
    | other => exact ⟨h, rfl⟩
    | num n =>
      have hd : determineIndex b.len n = (match Spec.normIndex xs.length n with | some k => .ok k | none => .error .index) := by
        rw [hlen]; exact determineIndex_eq_spec _ hl n
      cases hn : Spec.normIndex xs.length n with
      | none =>
        have hm : mstep b (.set (.num n) v) = (b, .err .index) := by
          simp [mstep, listSet, Arg.toNum, bind, Except.bind, hd, hn]
        have hs : sstep xs (.set (.num n) v) = (xs, .err .index) := by simp [sstep, Spec.set, hn]
        rw [hm, hs]; exact ⟨h, rfl⟩
      | some k =>
        have hk := normIndex_lt _ _ _ hn
        have hm : mstep b (.set (.num n) v) = ({ b with slots := b.slots.set k (some v) }, .val (some v)) := by
          simp [mstep, listSet, Arg.toNum, bind, Except.bind, hd, hn]
        have hs : sstep xs (.set (.num n) v) = (xs.set k v, .val (some v)) := by simp [sstep, Spec.set, hn]
        rw [hm, hs]
        exact ⟨set_repr h k v hk, rfl⟩
  | push vs =>
    obtain ⟨b', h1, h2⟩ := listPush_repr vs b xs h
    simp only [mstep, sstep, h1]
    exact ⟨h2, by first | rfl | trivial⟩
  | pop =>
    obtain ⟨h1, h2, h3⟩ := pop_repr h
    simp only [mstep, sstep, Spec.pop]
    exact ⟨h2, by rw [h1]⟩
  | insert i v =>
    cases i with
    | other => exact ⟨h, rfl⟩
    | num n =>
      have herr : ∀ m : Num, (m.fractNonZero = true ∨ m.ltZero = true ∨ xs.length < m.toUsize) →
          mstep b (.insert (.num m) v) = (b, .err .index) := by
        intro m hm
        by_cases hf : m.fractNonZero = true
        · simp [mstep, listInsert, Arg.toNum, bind, Except.bind, hf]
        · by_cases hz : m.ltZero = true
          · simp [mstep, listInsert, Arg.toNum, bind, Except.bind, hf, hz]
          · rcases hm with hm | hm | hm
            · exact absurd hm hf
            · exact absurd hm hz
            · simp [mstep, listInsert, Arg.toNum, bind, Except.bind, hf, hz, insert_oob h _ v hm]
      cases n with
      | int i =>
        by_cases hi : i < 0
        · have hs : sstep xs (.insert (.num (.int i)) v) = (xs, .err .index) := by
            have : ¬ (0 ≤ i ∧ i ≤ xs.length) := by omega
            simp [sstep, Spec.insert, this]
          rw [herr _ (Or.inr (Or.inl (by simp [Num.ltZero, hi]))), hs]; exact ⟨h, rfl⟩
        · obtain ⟨t1, t2, t3⟩ := toUsize_le i (by omega) xs.length hl
          by_cases hle : i ≤ xs.length
          · have hidx : (Num.int i).toUsize ≤ xs.length := by rw [t3 hle]; omega
            obtain ⟨b', e1, e2⟩ := insert_repr h _ v hidx
            rw [t3 hle] at e2
            have hm : mstep b (.insert (.num (.int i)) v) = (b', .unit) := by
              simp [mstep, listInsert, Arg.toNum, bind, Except.bind, Num.fractNonZero, Num.ltZero, hi, e1]
            have hs : sstep xs (.insert (.num (.int i)) v) = (xs.insertIdx i.toNat v, .unit) := by
              have : (0 ≤ i ∧ i ≤ xs.length) := by omega
              simp [sstep, Spec.insert, this]
            rw [hm, hs]; exact ⟨e2, rfl⟩
          · have hgt : xs.length < (Num.int i).toUsize := by have := t1.mpr (by omega); omega
            have hs : sstep xs (.insert (.num (.int i)) v) = (xs, .err .index) := by
              have : ¬ (0 ≤ i ∧ i ≤ xs.length) := by omega
              simp [sstep, Spec.insert, this]
            rw [herr _ (Or.inr (Or.inr hgt)), hs]; exact ⟨h, rfl⟩
      | frac a c => rw [herr _ (Or.inl rfl)]; exact ⟨h, rfl⟩
      | nan => rw [herr _ (Or.inl rfl)]; exact ⟨h, rfl⟩
      | inf a => rw [herr _ (Or.inl rfl)]; exact ⟨h, rfl⟩
  | remove i =>
    cases i with
    | other => exact ⟨h, rfl⟩
    | num n =>
      have herr : ∀ m : Num, (m.fractNonZero = true ∨ m.ltZero = true ∨ xs.length ≤ m.toUsize) →
          mstep b (.remove (.num m)) = (b, .err .index) := by
        intro m hm
        by_cases hf : m.fractNonZero = true
        · simp [mstep, listRemove, Arg.toNum, bind, Except.bind, hf]
        · by_cases hz : m.ltZero = true
          · simp [mstep, listRemove, Arg.toNum, bind, Except.bind, hf, hz]
          · rcases hm with hm | hm | hm
            · exact absurd hm hf
            · exact absurd hm hz
            · simp [mstep, listRemove, Arg.toNum, bind, Except.bind, hf, hz, remove_oob h _ hm]
      cases n with
      | int i =>
        by_cases hi : i < 0
        · have hs : sstep xs (.remove (.num (.int i))) = (xs, .err .index) := by
            have : ¬ (0 ≤ i) := by omega
            simp [sstep, Spec.remove, this]
          rw [herr _ (Or.inr (Or.inl (by simp [Num.ltZero, hi]))), hs]; exact ⟨h, rfl⟩
        · obtain ⟨t1, t2, t3⟩ := toUsize_le i (by omega) xs.length hl
          have h0 : 0 ≤ i := by omega
          by_cases hlt : i < xs.length
          · have hidx : (Num.int i).toUsize < xs.length := by rw [t3 (by omega)]; omega
            obtain ⟨b', e1, e2, e3⟩ := remove_repr h _ hidx
            have ht := t3 (by omega)
            have hin : i.toNat < xs.length := by omega
            have hg : xs[i.toNat]? = some xs[i.toNat] := by simp [hin]
            rw [ht] at e2
            have hm : mstep b (.remove (.num (.int i))) = (b', .val (some xs[i.toNat])) := by
              simp [mstep, listRemove, Arg.toNum, bind, Except.bind, Num.fractNonZero, Num.ltZero, hi, e1]
              simp [ht, hg]
            have hs : sstep xs (.remove (.num (.int i))) = (xs.eraseIdx i.toNat, .val (some xs[i.toNat])) := by
              simp [sstep, Spec.remove, h0, hg]
            rw [hm, hs]; exact ⟨e2, rfl⟩
          · have hge : xs.length ≤ (Num.int i).toUsize := by have := t2.mpr (by omega); omega
            have hs : sstep xs (.remove (.num (.int i))) = (xs, .err .index) := by
              have hg : xs[i.toNat]? = none := by simp; omega
              simp [sstep, Spec.remove, h0, hg]
            rw [herr _ (Or.inr (Or.inr hge)), hs]; exact ⟨h, rfl⟩
      | frac a c => rw [herr _ (Or.inl rfl)]; exact ⟨h, rfl⟩
      | nan => rw [herr _ (Or.inl rfl)]; exact ⟨h, rfl⟩
      | inf a => rw [herr _ (Or.inl rfl)]; exact ⟨h, rfl⟩
  | clear => exact ⟨clear_repr h, rfl⟩
  | len => exact ⟨h, by simp [mstep, sstep, hlen]⟩
  | slice s e =>
    have key : ∀ (s' e' : Option Num), argNum s = .ok s' → argNum e = .ok e' →
        mstep b (.slice s e) = (match sliceArgs xs s' e' with | .ok ys => (b, .seq ys) | .error c => (b, .err c)) := by
      intro s' e' hs' he'
      cases s with
      | none =>
        cases e with
        | none => simp only [argNum, Except.ok.injEq] at hs' he'; subst hs'; subst he'
                  simp [mstep, listSlice, h.toList, bind, Except.bind, pure, Except.pure]
        | some e => cases e with
          | other => simp [argNum] at he'
          | num m => simp only [argNum, Except.ok.injEq] at hs' he'; subst hs'; subst he'
                     simp [mstep, listSlice, h.toList, Arg.toNum, bind, Except.bind, pure, Except.pure,
                       Functor.map, Except.map, sliceArgs]
      | some s =>
        cases s with
        | other => simp [argNum] at hs'
        | num n =>
          cases e with
          | none => simp only [argNum, Except.ok.injEq] at hs' he'; subst hs'; subst he'
                    simp [mstep, listSlice, h.toList, Arg.toNum, bind, Except.bind, pure, Except.pure,
                      Functor.map, Except.map]
          | some e => cases e with
            | other => simp [argNum] at he'
            | num m => simp only [argNum, Except.ok.injEq] at hs' he'; subst hs'; subst he'
                       simp [mstep, listSlice, h.toList, Arg.toNum, bind, Except.bind, pure, Except.pure,
                         Functor.map, Except.map]
    have kerr : (argNum s = .error .runtime ∨ argNum e = .error .runtime) →
        mstep b (.slice s e) = (b, .err .runtime) := by
      intro hh
      cases s with
      | none =>
        cases e with
        | none => rcases hh with hh | hh <;> cases hh
        | some e => cases e with
          | other => simp [mstep, listSlice, Arg.toNum, bind, Except.bind, pure, Except.pure, Functor.map, Except.map]
          | num m => rcases hh with hh | hh <;> cases hh
      | some s =>
        cases s with
        | other => simp [mstep, listSlice, Arg.toNum, bind, Except.bind, pure, Except.pure, Functor.map, Except.map]
        | num n =>
          cases e with
          | none => rcases hh with hh | hh <;> cases hh
          | some e => cases e with
            | other => simp [mstep, listSlice, Arg.toNum, bind, Except.bind, pure, Except.pure, Functor.map, Except.map]
            | num m => rcases hh with hh | hh <;> cases hh
    have aerr : ∀ a : Option Arg, (∃ x, argNum a = .ok x) ∨ argNum a = .error .runtime := by
      intro a
      cases a with
      | none => exact Or.inl ⟨_, rfl⟩
      | some a => cases a with
        | num n => exact Or.inl ⟨_, rfl⟩
        | other => exact Or.inr rfl
    have fin : ∀ r : R (List α),
        Repr (match r with | .ok ys => (b, Obs.seq ys) | .error c => (b, Obs.err c)).1
          (match r with | .ok ys => (xs, Obs.seq ys) | .error c => (xs, Obs.err c)).1 ∧
        (match r with | .ok ys => (b, Obs.seq ys) | .error c => (b, Obs.err c)).2 =
          (match r with | .ok ys => (xs, Obs.seq ys) | .error c => (xs, Obs.err c)).2 := by
      intro r; cases r <;> exact ⟨h, rfl⟩
    rcases aerr s with ⟨s', hs⟩ | hs
    · rcases aerr e with ⟨e', he'⟩ | he'
      · rw [key s' e' hs he', C11_slice xs hl]
        simp only [sstep, hs, he']
        exact fin _
      · rw [kerr (Or.inr he')]
        simp only [sstep, hs, he']
        exact ⟨h, by first | rfl | trivial⟩
    · rw [kerr (Or.inl hs)]
      simp only [sstep, hs]
      exact ⟨h, by first | rfl | trivial⟩
  | rev => exact ⟨h, by simp [mstep, sstep, listRev, h.toList]⟩
  | has v => exact ⟨h, by simp [mstep, sstep, listHas, h.toList]⟩
  | index v =>
    refine ⟨h, ?_⟩
    simp only [mstep, sstep, listIndex, h.toList, position_eq]
    cases xs.findIdx? (· == v) <;> simp

/-- a history of native calls -/
def mrun {α : Type} [BEq α] (b : RawVec α) : List (ListOp α) → RawVec α × List (Obs α)
  | [] => (b, [])
  | op :: ops => let r := mstep b op; let rest := mrun r.1 ops; (rest.1, r.2 :: rest.2)
def srun {α : Type} [BEq α] (xs : List α) : List (ListOp α) → List α × List (Obs α)
  | [] => (xs, [])
  | op :: ops => let r := sstep xs op; let rest := srun r.1 ops; (rest.1, r.2 :: rest.2)

theorem sstep_length {α : Type} [BEq α] (xs : List α) (op : ListOp α) :
    (sstep xs op).1.length ≤ xs.length + op.growth := by
  cases op with
  | get i =>
    cases i with
    | other => simp [sstep, ListOp.growth]
    | num n => simp only [sstep]; cases Spec.get xs n <;> simp [ListOp.growth]
  | set i v =>
    cases i with
    | other => simp [sstep, ListOp.growth]
    | num n =>
      simp only [sstep, Spec.set]
      cases Spec.normIndex xs.length n <;> simp [ListOp.growth]
  | push vs => simp [sstep, ListOp.growth]
  | pop => simp [sstep, Spec.pop, ListOp.growth]
  | insert i v =>
    cases i with
    | other => simp [sstep, ListOp.growth]
    | num n =>
      cases n with
      | int i =>
        by_cases hc : 0 ≤ i ∧ i ≤ xs.length
        · have : i.toNat ≤ xs.length := by omega
          simp [sstep, Spec.insert, hc, ListOp.growth, List.length_insertIdx, this]
        · simp [sstep, Spec.insert, hc, ListOp.growth]
      | frac a c => simp [sstep, Spec.insert, ListOp.growth]
      | nan => simp [sstep, Spec.insert, ListOp.growth]
      | inf a => simp [sstep, Spec.insert, ListOp.growth]
  | remove i =>
    cases i with
    | other => simp [sstep, ListOp.growth]
    | num n =>
      cases n with
      | int i =>
        by_cases h0 : 0 ≤ i
        · cases hg : xs[i.toNat]? with
          | none => simp [sstep, Spec.remove, h0, hg, ListOp.growth]
          | some v => simp [sstep, Spec.remove, h0, hg, ListOp.growth, List.length_eraseIdx]; split <;> omega
        · simp [sstep, Spec.remove, h0, ListOp.growth]
      | frac a c => simp [sstep, Spec.remove, ListOp.growth]
      | nan => simp [sstep, Spec.remove, ListOp.growth]
      | inf a => simp [sstep, Spec.remove, ListOp.growth]
  | clear => simp [sstep, ListOp.growth]
  | len => simp [sstep, ListOp.growth]
  | slice s e =>
    simp only [sstep]
    cases argNum s with
    | error c => simp [ListOp.growth]
    | ok s' =>
      cases argNum e with
      | error c => simp [ListOp.growth]
      | ok e' =>
        simp only []
        generalize Spec.slice xs _ _ = r
        cases r <;> simp [ListOp.growth]
  | rev => simp [sstep, ListOp.growth]
  | has v => simp [sstep, ListOp.growth]
  | index v => simp [sstep, ListOp.growth]

/-- **C11_list_refines_seq.**  For every element type, every list the VM can hold (a buffer representing
`xs`, of *any* capacity — the capacity-0 buffers that `Iter.list` / `List.collect` allocate for a size hint of
0 included) and *every* sequence of native calls with *any* arguments — including the ones that cross the
capacity and relocate the buffer, and fractional, NaN, infinite and non-number indices — the buffer ends up
representing exactly the `List` the same sequence of mathematical operations produces, and every call
returned the same observable result (value or error class).  Since the Spec never observes `ub`, no call
wrote outside its allocation (`C11_list_no_write_outside`).  (`usize` saturation: lengths stay below
`usize::MAX`.) -/
theorem C11_list_refines_seq {α : Type} [BEq α] (ops : List (ListOp α)) :
    ∀ (b : RawVec α) (xs : List α), Repr b xs →
      xs.length + (ops.map ListOp.growth).sum < usizeMax →
      (mrun b ops).1.toList = (srun xs ops).1 ∧ (mrun b ops).2 = (srun xs ops).2 ∧
      Repr (mrun b ops).1 (srun xs ops).1 := by
  induction ops with
  | nil => intro b xs h _; exact ⟨h.toList, rfl, h⟩
  | cons op ops ih =>
    intro b xs h hl
    simp only [List.map_cons, List.sum_cons] at hl
    obtain ⟨r1, r3⟩ := mstep_refines b xs h op (by omega)
    have hlen := sstep_length xs op
    obtain ⟨i1, i2, i3⟩ := ih (mstep b op).1 (sstep xs op).1 r1 (by omega)
    simp only [mrun, srun]
    exact ⟨i1, by rw [r3, i2], i3⟩

/-- the Spec never observes a write outside an allocation -/
theorem sstep_no_ub {α : Type} [BEq α] (xs : List α) (op : ListOp α) : (sstep xs op).2 ≠ .ub := by
  cases op with
  | get i => cases i <;> simp only [sstep] <;> (try split) <;> simp
  | set i v => cases i <;> simp only [sstep] <;> (try split) <;> simp
  | push vs => simp [sstep]
  | pop => simp [sstep]
  | insert i v => cases i <;> simp only [sstep] <;> (try split) <;> simp
  | remove i => cases i <;> simp only [sstep] <;> (try split) <;> simp
  | clear => simp [sstep]
  | len => simp [sstep]
  | slice s e => simp only [sstep]; repeat' split
                 all_goals simp
  | rev => simp [sstep]
  | has v => simp [sstep]
  | index v => simp [sstep]

theorem srun_no_ub {α : Type} [BEq α] (ops : List (ListOp α)) : ∀ xs : List α, Obs.ub ∉ (srun xs ops).2 := by
  induction ops with
  | nil => intro xs; simp [srun]
  | cons op ops ih =>
    intro xs
    simp only [srun, List.mem_cons, not_or]
    exact ⟨fun h => sstep_no_ub xs op h.symm, ih _⟩

/-- **C11_list_no_write_outside.**  No history of list natives — on a list of any capacity, zero included,
with any arguments — writes outside the list's allocation: the model's `ub` outcome (a `ptr::write` /
`ptr::copy` past `cap`) never occurs.  (Before `ca8f885` this failed for capacity 0: `ensure_capacity` doubled
0 to 0 and `push` wrote past the allocation.) -/
theorem C11_list_no_write_outside {α : Type} [BEq α] (ops : List (ListOp α)) (b : RawVec α) (xs : List α)
    (h : Repr b xs) (hl : xs.length + (ops.map ListOp.growth).sum < usizeMax) :
    Obs.ub ∉ (mrun b ops).2 := by
  rw [(C11_list_refines_seq ops b xs h hl).2.1]
  exact srun_no_ub ops xs

/-- a failing call leaves the receiver untouched (model, every operation, every argument) -/
theorem C11_list_error_unchanged {α : Type} [BEq α] (b : RawVec α) (op : ListOp α) (c : ErrClass)
    (h : (mstep b op).2 = .err c) : (mstep b op).1 = b := by
  cases op <;> simp only [mstep] at h ⊢ <;> (try split at h) <;> (try split) <;> simp_all

/-- and on the Spec side -/
theorem sstep_error_unchanged {α : Type} [BEq α] (xs : List α) (op : ListOp α) (c : ErrClass)
    (h : (sstep xs op).2 = .err c) : (sstep xs op).1 = xs := by
  cases op with
  | get i => cases i <;> simp only [sstep] <;> (try split) <;> rfl
  | set i v => cases i <;> simp only [sstep] at h ⊢ <;> (try split at h) <;> simp_all
  | push vs => simp [sstep] at h
  | pop => simp [sstep] at h
  | insert i v => cases i <;> simp only [sstep] at h ⊢ <;> (try split at h) <;> simp_all
  | remove i => cases i <;> simp only [sstep] at h ⊢ <;> (try split at h) <;> simp_all
  | clear => simp [sstep] at h
  | len => simp [sstep] at h
  | slice s e => simp only [sstep]; repeat' split
                 all_goals rfl
  | rev => simp [sstep] at h
  | has v => simp [sstep] at h
  | index v => simp [sstep] at h

/-- **C11_list_index_validation.**  `remove` and `insert` validate their index like `[]` and `[]=` do: an index
that is not an integer — a fraction (`0.5`), NaN, ±infinity — raises `IndexError` and leaves the list alone, on
the model exactly as on the Spec, for every list.  (Before `c7f979c` the natives truncated `0.5` and NaN to 0
and removed / inserted an element.) -/
theorem C11_list_index_validation {α : Type} [BEq α] (b : RawVec α) (xs : List α) (n : Num)
    (hn : n.fractNonZero = true) (v : α) :
    mstep b (.remove (.num n)) = (b, .err .index) ∧ mstep b (.insert (.num n) v) = (b, .err .index) ∧
    sstep xs (.remove (.num n)) = (xs, .err .index) ∧ sstep xs (.insert (.num n) v) = (xs, .err .index) := by
  refine ⟨?_, ?_, ?_, ?_⟩
  · simp [mstep, listRemove, Arg.toNum, bind, Except.bind, hn]
  · simp [mstep, listInsert, Arg.toNum, bind, Except.bind, hn]
  · cases n <;> simp_all [sstep, Spec.remove, Num.fractNonZero]
  · cases n <;> simp_all [sstep, Spec.insert, Num.fractNonZero]

/-- every list the VM can build satisfies the hypothesis: literals, `slice`, `rev` (`list!`) … -/
theorem ofList_ok {α : Type} (xs : List α) : Repr (RawVec.ofList xs) xs := Repr.ofList xs

/-- … and the pre-sized empty list of `Iter.list` / `List.collect` / `Tuple.collect`
(`VecBuilder::cap_only(size_hint)`), for every size hint, 0 included -/
theorem capOnly_ok {α : Type} (n : Nat) : Repr (RawVec.capOnly n : RawVec α) [] := Repr.capOnly n

/-- non-vacuity: a history that crosses the capacity (4 → 8), shifts in both directions, fails twice -/
example :
    (mrun (RawVec.ofList [10, 20, 30]) [.push [40, 50], .insert (.num (.int 1)) 99, .remove (.num (.int 0)),
      .get (.num (.int (-1))), .remove (.num (.int 7)), .insert (.num (.int (-1))) 5, .pop]).1.toList
      = [99, 20, 30, 40] := by decide

/-- regression (D42, repaired by `ca8f885`): the capacity-0 list of `[].iter().list()` grows 0 → 1 → 2 → 4 -/
example :
    (mrun (RawVec.capOnly 0 : RawVec Nat) [.push [1], .insert (.num (.int 0)) 2, .push [3]]).1.toList = [2, 1, 3] ∧
    (mrun (RawVec.capOnly 0 : RawVec Nat) [.push [1], .insert (.num (.int 0)) 2, .push [3]]).1.cap = 4 := by decide

/-- regression (D40, repaired by `c7f979c`): `remove(0.5)`, `remove(NaN)`, `insert(0.5, 7)`, `insert(inf, 7)` -/
example :
    (mrun (RawVec.ofList [1, 2, 3]) [.remove (.num (.frac false 0)), .remove (.num .nan),
      .insert (.num (.frac false 0)) 7, .insert (.num (.inf false)) 7]).1.toList = [1, 2, 3] := by decide

/-! ## `sort`: a permutation, or the failure of the comparator -/

section SortThm
variable {α : Type}

theorem insertSortedM_perm (cmp : α → α → R Ordering) (x : α) : ∀ (ys r : List α),
    insertSortedM cmp x ys = .ok r → r.Perm (x :: ys) := by
  intro ys
  induction ys with
  | nil => intro r h; simp only [insertSortedM, Except.ok.injEq] at h; subst h; exact List.Perm.refl _
  | cons y ys ih =>
    intro r h
    simp only [insertSortedM] at h
    cases hc : cmp y x with
    | error c => rw [hc] at h; cases h
    | ok o =>
      rw [hc] at h
      cases o with
      | lt =>
        simp only [] at h
        cases hi : insertSortedM cmp x ys with
        | error c => rw [hi] at h; cases h
        | ok r' =>
          rw [hi] at h
          simp only [Except.ok.injEq] at h; subst h
          exact ((ih r' hi).cons y).trans (List.Perm.swap x y ys)
      | eq => simp only [Except.ok.injEq] at h; subst h; exact List.Perm.refl _
      | gt => simp only [Except.ok.injEq] at h; subst h; exact List.Perm.refl _

/-- **C11_sort_perm.**  When `sort` answers a list, it is a permutation of the receiver's elements. -/
theorem C11_sort_perm (cmp : α → α → R Ordering) : ∀ (xs r : List α), sortM cmp xs = .ok r → r.Perm xs := by
  intro xs
  induction xs with
  | nil => intro r h; simp only [sortM, Except.ok.injEq] at h; subst h; exact List.Perm.refl _
  | cons x xs ih =>
    intro r h
    simp only [sortM] at h
    cases hs : sortM cmp xs with
    | error c => rw [hs] at h; cases h
    | ok s =>
      rw [hs] at h
      exact (insertSortedM_perm cmp x s r h).trans ((ih s hs).cons x)

theorem insertSortedM_error (cmp : α → α → R Ordering) (x : α) (c : ErrClass) : ∀ ys : List α,
    insertSortedM cmp x ys = .error c → ∃ y, y ∈ ys ∧ cmp y x = .error c := by
  intro ys
  induction ys with
  | nil => intro h; simp [insertSortedM] at h
  | cons y ys ih =>
    intro h
    simp only [insertSortedM] at h
    cases hc : cmp y x with
    | error c' => rw [hc] at h; simp only [Except.error.injEq] at h; subst h; exact ⟨y, by simp, hc⟩
    | ok o =>
      rw [hc] at h
      cases o with
      | lt =>
        simp only [] at h
        cases hi : insertSortedM cmp x ys with
        | error c' =>
          rw [hi] at h; simp only [Except.error.injEq] at h; subst h
          obtain ⟨z, hz, hcz⟩ := ih hi
          exact ⟨z, by simp [hz], hcz⟩
        | ok r' => rw [hi] at h; cases h
      | eq => cases h
      | gt => cases h

/-- **C11_sort_error_is_comparator_failure.**  Every failure `sort` returns is the failure of a comparator
call on two elements of the list (the comparator's own error, or the `TypeError` for a result that is not a
valid number): `sort` raises nothing of its own. -/
theorem C11_sort_error_is_comparator_failure (cmp : α → α → R Ordering) (c : ErrClass) : ∀ xs : List α,
    sortM cmp xs = .error c → ∃ a b, a ∈ xs ∧ b ∈ xs ∧ cmp a b = .error c := by
  intro xs
  induction xs with
  | nil => intro h; simp [sortM] at h
  | cons x xs ih =>
    intro h
    simp only [sortM] at h
    cases hs : sortM cmp xs with
    | error c' =>
      rw [hs] at h; simp only [Except.error.injEq] at h; subst h
      obtain ⟨a, b, ha, hb, hab⟩ := ih hs
      exact ⟨a, b, by simp [ha], by simp [hb], hab⟩
    | ok s =>
      rw [hs] at h
      obtain ⟨y, hy, hcy⟩ := insertSortedM_error cmp x c s h
      exact ⟨y, x, by simp [(C11_sort_perm cmp xs s hs).mem_iff.mp hy], by simp, hcy⟩

/-- **C11_sort_returns_comparator_failure** (finding D43, repaired by `e424053`).  A comparator that fails
whenever `bad` is one of its two arguments makes `sort` fail on every list of two or more elements that
contains `bad` — whichever comparisons the sorting algorithm chooses to make, `bad` takes part in one.
(Before the repair `ListSort` recorded the failure and answered the partially sorted copy.) -/
theorem C11_sort_returns_comparator_failure (cmp : α → α → R Ordering) (bad : α)
    (hb : ∀ y, (∃ c, cmp y bad = .error c) ∧ (∃ c, cmp bad y = .error c)) :
    ∀ xs : List α, bad ∈ xs → 2 ≤ xs.length → ∃ c, sortM cmp xs = .error c := by
  intro xs
  induction xs with
  | nil => intro h; simp at h
  | cons x xs ih =>
    intro hmem hlen
    simp only [sortM]
    cases hs : sortM cmp xs with
    | error c => exact ⟨c, rfl⟩
    | ok s =>
      have hp := C11_sort_perm cmp xs s hs
      have hsl : s.length = xs.length := hp.length_eq
      simp only [List.length_cons] at hlen
      cases s with
      | nil => simp at hsl; omega
      | cons y s' =>
        simp only [insertSortedM]
        rcases List.mem_cons.mp hmem with hx | hx
        · subst hx
          obtain ⟨c, hc⟩ := (hb y).1
          exact ⟨c, by rw [hc]⟩
        · by_cases h2 : 2 ≤ xs.length
          · obtain ⟨c, hc⟩ := ih hx h2
            rw [hs] at hc; cases hc
          · have h1 : xs.length = 1 := by omega
            have hs1 : s' = [] := by
              simp only [List.length_cons] at hsl
              exact List.eq_nil_of_length_eq_zero (by omega)
            subst hs1
            have hy : y ∈ xs := hp.mem_iff.mp (by simp)
            have hxs : xs = [bad] := by
              cases xs with
              | nil => simp at h1
              | cons z zs =>
                have : zs = [] := List.eq_nil_of_length_eq_zero (by simpa using h1)
                subst this
                simp only [List.mem_singleton] at hx
                rw [hx]
            subst hxs
            simp only [List.mem_singleton] at hy
            subst hy
            obtain ⟨c, hc⟩ := (hb x).2
            exact ⟨c, by rw [hc]⟩

/-- a comparator that never fails is sorted by: `sort` answers a list -/
theorem sortM_ok_of_total (cmp : α → α → R Ordering) (ht : ∀ a b, ∃ o, cmp a b = .ok o) :
    ∀ xs : List α, ∃ r, sortM cmp xs = .ok r := by
  intro xs
  cases h : sortM cmp xs with
  | ok r => exact ⟨r, rfl⟩
  | error c =>
    obtain ⟨a, b, _, _, hab⟩ := C11_sort_error_is_comparator_failure cmp c xs h
    obtain ⟨o, ho⟩ := ht a b
    rw [ho] at hab; cases hab

theorem insertSortedM_sorted (cmp : α → α → R Ordering) (ord : α → α → Ordering)
    (hc : ∀ a b, cmp a b = .ok (ord a b))
    (hasym : ∀ a b, ord a b = .lt → ord b a ≠ .lt)
    (hneg : ∀ a b c, ord a c = .lt → ord a b = .lt ∨ ord b c = .lt) (x : α) :
    ∀ (ys r : List α), ys.Pairwise (fun a b => ord b a ≠ .lt) → insertSortedM cmp x ys = .ok r →
      r.Pairwise (fun a b => ord b a ≠ .lt) := by
  intro ys
  induction ys with
  | nil => intro r _ h; simp only [insertSortedM, Except.ok.injEq] at h; subst h; simp
  | cons y ys ih =>
    intro r hp h
    rw [List.pairwise_cons] at hp
    simp only [insertSortedM, hc] at h
    cases ho : ord y x with
    | lt =>
      rw [ho] at h
      simp only [] at h
      cases hi : insertSortedM cmp x ys with
      | error c => rw [hi] at h; cases h
      | ok r' =>
        rw [hi] at h
        simp only [Except.ok.injEq] at h; subst h
        rw [List.pairwise_cons]
        refine ⟨?_, ih r' hp.2 hi⟩
        intro z hz
        rcases List.mem_cons.mp ((insertSortedM_perm cmp x ys r' hi).mem_iff.mp hz) with hzx | hzy
        · subst hzx; exact hasym y z ho
        · exact hp.1 z hzy
    | eq =>
      rw [ho] at h
      simp only [Except.ok.injEq] at h; subst h
      rw [List.pairwise_cons]
      refine ⟨?_, List.pairwise_cons.mpr hp⟩
      intro z hz
      rcases List.mem_cons.mp hz with hzy | hzy
      · subst hzy; rw [ho]; simp
      · intro hlt
        rcases hneg z y x hlt with h1 | h1
        · exact hp.1 z hzy h1
        · rw [ho] at h1; cases h1
    | gt =>
      rw [ho] at h
      simp only [Except.ok.injEq] at h; subst h
      rw [List.pairwise_cons]
      refine ⟨?_, List.pairwise_cons.mpr hp⟩
      intro z hz
      rcases List.mem_cons.mp hz with hzy | hzy
      · subst hzy; rw [ho]; simp
      · intro hlt
        rcases hneg z y x hlt with h1 | h1
        · exact hp.1 z hzy h1
        · rw [ho] at h1; cases h1

/-- **C11_sort_sorted.**  With a comparator that never fails and answers as a strict weak order (`a` before `b`
when the answer is negative: asymmetric and negatively transitive — what a consistent comparator is), `sort`
answers a permutation of the receiver in which no element is less than an earlier one. -/
theorem C11_sort_sorted (cmp : α → α → R Ordering) (ord : α → α → Ordering)
    (hc : ∀ a b, cmp a b = .ok (ord a b))
    (hasym : ∀ a b, ord a b = .lt → ord b a ≠ .lt)
    (hneg : ∀ a b c, ord a c = .lt → ord a b = .lt ∨ ord b c = .lt) :
    ∀ (xs : List α), ∃ r, sortM cmp xs = .ok r ∧ r.Perm xs ∧ r.Pairwise (fun a b => ord b a ≠ .lt) := by
  intro xs
  induction xs with
  | nil => exact ⟨[], rfl, List.Perm.refl _, by simp⟩
  | cons x xs ih =>
    obtain ⟨s, hs, _, hsp⟩ := ih
    obtain ⟨r, hr⟩ := sortM_ok_of_total cmp (fun a b => ⟨_, hc a b⟩) (x :: xs)
    refine ⟨r, hr, C11_sort_perm cmp _ r hr, ?_⟩
    simp only [sortM, hs] at hr
    exact insertSortedM_sorted cmp ord hc hasym hneg x s r hsp hr

/-- the `Ordering` of `a - b` against `0` -/
def subOrd (a b : Int) : Ordering := if a - b < 0 then .lt else if a - b = 0 then .eq else .gt

theorem subOrd_lt (a b : Int) : subOrd a b = .lt ↔ a < b := by
  unfold subOrd
  constructor
  · intro h; split at h
    · omega
    · split at h <;> cases h
  · intro h; have : a - b < 0 := by omega
    simp [this]

/-- `sort(|a, b| a - b)` on numbers: the ascending permutation -/
theorem C11_sort_ints (xs : List Int) :
    ∃ r, sortM (fun a b => (CmpOut.num (.int (a - b))).ordering) xs = .ok r ∧ r.Perm xs ∧ r.Pairwise (· ≤ ·) := by
  obtain ⟨r, h1, h2, h3⟩ := C11_sort_sorted (fun a b => (CmpOut.num (.int (a - b))).ordering) subOrd (fun _ _ => rfl)
    (by intro a b h; rw [subOrd_lt] at h; intro h'; rw [subOrd_lt] at h'; omega)
    (by intro a b c h; rw [subOrd_lt] at h; rw [subOrd_lt, subOrd_lt]; omega) xs
  refine ⟨r, h1, h2, h3.imp ?_⟩
  intro a b hab
  have : ¬ b < a := fun h => hab ((subOrd_lt b a).mpr h)
  omega

/-- what `ListSort` makes of the comparator's answers (the regression inputs of D43) -/
example : CmpOut.notNum.ordering = .error .type ∧ (CmpOut.num .nan).ordering = .error .type ∧
    (CmpOut.raised .user).ordering = .error .user ∧ (CmpOut.num (.int (-3))).ordering = .ok .lt ∧
    (CmpOut.num (.frac false 0)).ordering = .ok .gt ∧ (CmpOut.num (.int 0)).ordering = .ok .eq := by decide

example : listSort (RawVec.ofList [3, 1, 2]) (fun (a b : Int) => CmpOut.num (.int (a - b))) = .ok [1, 2, 3] := by decide
example : listSort (RawVec.ofList [3, 1, 2]) (fun (_ _ : Int) => CmpOut.notNum) = .error .type := by decide
example : listSort (RawVec.ofList [3, 1, 2]) (fun (_ _ : Int) => CmpOut.raised .user) = .error .user := by decide
example : listSort (RawVec.ofList [3]) (fun (_ _ : Int) => CmpOut.notNum) = .ok [3] := by decide
end SortThm

/-! ## Tuples -/

/-- **C11_tuple.**  A tuple is an immutable sequence: `[]` is `List` indexing after index normalisation,
`slice` is `C11_slice`; a non-number is rejected by the signature check. -/
theorem C11_tuple {α : Type} (t : List α) (hl : t.length < usizeMax) (n : Num) :
    tupleGet t (.num n) = (match Spec.get t n with | .ok v => .ok (some v) | .error c => .error c) ∧
    tupleGet t .other = .error .runtime ∧
    (∀ s e : Option Num, tupleSlice t (s.map .num) (e.map .num) =
      Spec.slice t (match s with | none => none | some s => some s)
        (match s, e with | none, _ => none | some _, e => e)) := by
  refine ⟨?_, rfl, ?_⟩
  · simp only [tupleGet, Arg.toNum, bind, Except.bind, Spec.get]
    rw [determineIndex_eq_spec _ hl]
    cases hn : Spec.normIndex t.length n with
    | none => rfl
    | some k =>
      have hk := normIndex_lt _ _ _ hn
      have hg : t[k]? = some t[k] := by simp [hk]
      simp [hg]
  · intro s e
    rw [← C11_slice t hl]
    cases s <;> cases e <;>
      simp [tupleSlice, Arg.toNum, bind, Except.bind, pure, Except.pure, Functor.map, Except.map]

/-! ## Strings: sequences of characters -/

theorem nth_reverse {α : Type} (xs : List α) (k : Nat) (hk : k < xs.length) :
    nth xs.reverse k = xs[xs.length - 1 - k]? := by
  simp [nth, List.getElem?_reverse, hk]

/-- **C11_string_chars (index).**  `len` counts characters; `s[i]` is the `i`-th *character* after index
normalisation, for every integer, fraction, NaN and infinity — the model never looks at a byte offset. -/
theorem C11_string_index (cs : List Char) (hl : cs.length < usizeMax) (n : Num) :
    strLen cs = cs.length ∧ strGet cs (.num n) = Spec.get cs n ∧ strGet cs .other = .error .runtime := by
  refine ⟨rfl, ?_, rfl⟩
  cases n with
  | int i =>
    simp only [strGet, Arg.toNum, bind, Except.bind, Num.fractNonZero, Num.geZero, Num.neg, Bool.false_eq_true,
      if_false, Spec.get, Spec.normIndex]
    by_cases hi : 0 ≤ i
    · obtain ⟨t1, t2, t3⟩ := toUsize_le i hi cs.length hl
      simp only [hi, decide_true, if_true]
      by_cases hlt : i < cs.length
      · have h1 : -(cs.length : Int) ≤ i ∧ i < cs.length := by omega
        have h2 : ((i + cs.length) % cs.length).toNat = i.toNat := by
          rw [Int.add_emod_right, Int.emod_eq_of_lt hi hlt]
        have h3 : i.toNat < cs.length := by omega
        simp only [h1, and_self, if_true, h2, nth, t3 (by omega)]
        simp [h3]
      · have h1 : ¬ (-(cs.length : Int) ≤ i ∧ i < cs.length) := by omega
        have h3 : cs.length ≤ (Num.int i).toUsize := by have := t2.mpr (by omega); omega
        simp only [h1, if_false, nth]
        have : cs[(Num.int i).toUsize]? = none := by simp [h3]
        simp [this]
    · have hneg : ¬ (-i < 0) := by omega
      simp only [hi, decide_false, Bool.false_eq_true, if_false, Num.toUsize, hneg]
      by_cases hge : -(cs.length : Int) ≤ i
      · have h1 : -(cs.length : Int) ≤ i ∧ i < cs.length := by omega
        have hk : min (-i).toNat usizeMax - 1 < cs.length := by omega
        have h2 : ((i + cs.length) % cs.length).toNat = cs.length - 1 - (min (-i).toNat usizeMax - 1) := by
          rw [Int.emod_eq_of_lt (by omega) (by omega)]; omega
        simp only [h1, and_self, if_true, h2, nth_reverse cs _ hk]
        cases cs[cs.length - 1 - (min (-i).toNat usizeMax - 1)]? <;> rfl
      · have h1 : ¬ (-(cs.length : Int) ≤ i ∧ i < cs.length) := by omega
        have hk : cs.length ≤ min (-i).toNat usizeMax - 1 := by omega
        simp only [h1, if_false, nth]
        have : cs.reverse[min (-i).toNat usizeMax - 1]? = none := by simp [hk]
        simp [this]
  | frac a b => simp [strGet, Arg.toNum, bind, Except.bind, Num.fractNonZero, Spec.get, Spec.normIndex]
  | nan => simp [strGet, Arg.toNum, bind, Except.bind, Num.fractNonZero, Spec.get, Spec.normIndex]
  | inf a => simp [strGet, Arg.toNum, bind, Except.bind, Num.fractNonZero, Spec.get, Spec.normIndex]

theorem utf8Len_ge (cs : List Char) : cs.length ≤ utf8Len cs := by
  induction cs with
  | nil => simp [utf8Len]
  | cons c cs ih =>
    have : 1 ≤ c.utf8Size := Char.utf8Size_pos c
    simp only [utf8Len, List.map_cons, List.sum_cons, List.length_cons] at ih ⊢
    omega

theorem strIndex_int (cs : List Char) (hl : cs.length < usizeMax) (i : Int) :
    strIndex cs (.int i) = .ok (match Spec.clampIndex cs.length (.int i) with | some k => k | none => 0) := by
  by_cases hi : 0 ≤ i
  · obtain ⟨t1, t2, t3⟩ := toUsize_le i hi cs.length hl
    have hn : ¬ i < 0 := by omega
    simp only [strIndex, Num.fractNonZero, Num.geZero, Bool.false_eq_true, if_false, Spec.clampIndex, hi,
      decide_true, if_true, hn]
    congr 1
    by_cases hlt : i < cs.length
    · have hx : (Num.int i).toUsize < cs.length := by rw [t3 (by omega)]; omega
      rw [if_pos hx, t3 (by omega)]; omega
    · have hx : ¬ (Num.int i).toUsize < cs.length := by have := t2.mpr (by omega); omega
      rw [if_neg hx]; omega
  · have hneg : ¬ (-i < 0) := by omega
    have hlt : i < 0 := by omega
    simp only [strIndex, Num.fractNonZero, Num.geZero, Num.neg, Bool.false_eq_true, if_false, Spec.clampIndex,
      hi, decide_false, Num.toUsize, hneg, hlt, if_true]
    congr 1
    split <;> omega

/-- **C11_string_chars (slice).**  `slice` cuts between *characters*: it is `drop`/`take` on the character
sequence with clamped bounds, whatever the encoded width of the characters (the default end is the UTF-8
*byte* length, which is harmless only because it is ≥ the character count — `utf8Len_ge`). -/
theorem C11_string_slice (cs : List Char) (hl : utf8Len cs < usizeMax) (s e : Option Num) :
    strSlice cs (s.map .num) (e.map .num) = Spec.slice cs s e := by
  have hl' : cs.length < usizeMax := by have := utf8Len_ge cs; omega
  have hge := utf8Len_ge cs
  have hend : strIndex cs (.int (utf8Len cs)) = .ok cs.length := by
    have : ¬ ((utf8Len cs : Int) < 0) := by omega
    rw [strIndex_int cs hl']; simp [Spec.clampIndex, this]; omega
  have h0 : strIndex cs (.int 0) = .ok 0 := by rw [strIndex_int cs hl']; simp [Spec.clampIndex]
  have hnon : ∀ n : Num, n.fractNonZero = true → strIndex cs n = .error .index := by
    intro n hn; simp [strIndex, hn]
  have core : ∀ a b : Nat, b ≤ cs.length → a ≤ cs.length →
      (if a ≤ b then (Except.ok ((cs.drop a).take (b - a)) : R (List Char)) else .ok [])
        = .ok ((cs.drop a).take (b - a)) := by
    intro a b _ _; split
    · rfl
    · have : b - a = 0 := by omega
      simp [this]
  have clamp_le : ∀ i : Int, (match Spec.clampIndex cs.length (.int i) with | some k => k | none => 0) ≤ cs.length := by
    intro i
    show (if i < 0 then ((cs.length : Int) + i).toNat else min i.toNat cs.length) ≤ cs.length
    split <;> omega
  cases s with
  | none =>
    cases e with
    | none =>
      simp only [strSlice, Option.map, bind, Except.bind, pure, Except.pure, h0, hend, Spec.slice]
      simp
    | some e =>
      cases e with
      | int j =>
        simp only [strSlice, Option.map, Arg.toNum, bind, Except.bind, pure, Except.pure, h0, strIndex_int cs hl',
          Spec.slice, Spec.clampIndex]
        simp
      | frac a b => simp [strSlice, Arg.toNum, bind, Except.bind, pure, Except.pure, h0, hnon (.frac a b) rfl,
                      Spec.slice, Spec.clampIndex]
      | nan => simp [strSlice, Arg.toNum, bind, Except.bind, pure, Except.pure, h0, hnon .nan rfl,
                      Spec.slice, Spec.clampIndex]
      | inf a => simp [strSlice, Arg.toNum, bind, Except.bind, pure, Except.pure, h0, hnon (.inf a) rfl,
                      Spec.slice, Spec.clampIndex]
  | some s =>
    cases s with
    | int i =>
      cases e with
      | none =>
        simp only [strSlice, Option.map, Arg.toNum, bind, Except.bind, pure, Except.pure, hend, strIndex_int cs hl',
          Spec.slice]
        have := clamp_le i
        cases hci : Spec.clampIndex cs.length (.int i) with
        | none => simp [Spec.clampIndex] at hci
        | some a =>
          simp only [hci] at this ⊢
          rw [core a cs.length (Nat.le_refl _) this]
      | some e =>
        cases e with
        | int j =>
          simp only [strSlice, Option.map, Arg.toNum, bind, Except.bind, pure, Except.pure, strIndex_int cs hl',
            Spec.slice]
          have h1 := clamp_le i
          have h2 := clamp_le j
          cases hci : Spec.clampIndex cs.length (.int i) with
          | none => simp [Spec.clampIndex] at hci
          | some a =>
            cases hcj : Spec.clampIndex cs.length (.int j) with
            | none => simp [Spec.clampIndex] at hcj
            | some c =>
              simp only [hci, hcj] at h1 h2 ⊢
              rw [core a c h2 h1]
        | frac a b => simp [strSlice, Arg.toNum, bind, Except.bind, pure, Except.pure, strIndex_int cs hl',
                        hnon (.frac a b) rfl, Spec.slice, Spec.clampIndex]
        | nan => simp [strSlice, Arg.toNum, bind, Except.bind, pure, Except.pure, strIndex_int cs hl',
                        hnon .nan rfl, Spec.slice, Spec.clampIndex]
        | inf a => simp [strSlice, Arg.toNum, bind, Except.bind, pure, Except.pure, strIndex_int cs hl',
                        hnon (.inf a) rfl, Spec.slice, Spec.clampIndex]
    | frac a b =>
      cases e <;> simp [strSlice, Arg.toNum, bind, Except.bind, pure, Except.pure, hnon (.frac a b) rfl,
        Spec.slice, Spec.clampIndex, hend]
    | nan =>
      cases e <;> simp [strSlice, Arg.toNum, bind, Except.bind, pure, Except.pure, hnon .nan rfl,
        Spec.slice, Spec.clampIndex, hend]
    | inf a =>
      cases e <;> simp [strSlice, Arg.toNum, bind, Except.bind, pure, Except.pure, hnon (.inf a) rfl,
        Spec.slice, Spec.clampIndex, hend]

example : strGet "aé😀".toList (.num (.int 2)) = .ok '😀' := by decide
example : strGet "aé😀".toList (.num (.int (-3))) = .ok 'a' := by decide
example : strGet "aé😀".toList (.num (.int 3)) = .error .index := by decide
example : strSlice "aé😀".toList (some (.num (.int 1))) (some (.num (.int 2))) = .ok "é".toList := by decide
example : strSlice "aé😀".toList (some (.num (.int (-1)))) none = .ok "😀".toList := by decide
example : utf8Len "aé😀".toList = 7 ∧ strLen "aé😀".toList = 3 := by decide

/-! ### `has` and `split` -/

theorem stripPrefix_some (p : List Char) : ∀ (cs rest : List Char), stripPrefix p cs = some rest ↔ cs = p ++ rest := by
  induction p with
  | nil => intro cs rest; simp only [stripPrefix, List.nil_append, Option.some.injEq]
  | cons a p ih =>
    intro cs rest
    cases cs with
    | nil => simp [stripPrefix]
    | cons b cs =>
      simp only [stripPrefix]
      by_cases hab : a = b
      · subst hab; simp [ih]
      · simp [hab]; intro h; exact absurd h.symm hab

/-- **C11_string_has.**  `has` is "occurs as a contiguous run of characters". -/
theorem C11_string_has (sub : List Char) : ∀ cs : List Char, strHas cs sub = true ↔ sub <:+: cs := by
  intro cs
  induction cs with
  | nil =>
    unfold strHas
    rw [List.infix_nil]
    cases hp : stripPrefix sub [] with
    | some r =>
      have := (stripPrefix_some sub [] r).mp hp
      simp only [true_iff]
      have h2 := congrArg List.length this
      simp at h2
      exact List.eq_nil_of_length_eq_zero (by omega)
    | none =>
      simp only [Bool.false_eq_true, false_iff]
      intro hs
      subst hs
      simp [stripPrefix] at hp
  | cons c cs ih =>
    unfold strHas
    cases hp : stripPrefix sub (c :: cs) with
    | some r =>
      have := (stripPrefix_some sub (c :: cs) r).mp hp
      simp only [true_iff]
      exact ⟨[], r, by simpa using this.symm⟩
    | none =>
      simp only []
      rw [ih, List.infix_cons_iff]
      constructor
      · intro h; exact Or.inr h
      · rintro (h | h)
        · obtain ⟨r, hr⟩ := h
          have := (stripPrefix_some sub (c :: cs) r).mpr hr.symm
          rw [this] at hp; cases hp
        · exact h

/-- rejoin pieces with a separator -/
def joinWith (sep : List Char) : List (List Char) → List Char
  | [] => []
  | [x] => x
  | x :: y :: rest => x ++ sep ++ joinWith sep (y :: rest)

theorem splitGo_ne_nil (sep : List Char) : ∀ (fuel : Nat) (cs acc : List Char), splitGo sep fuel cs acc ≠ [] := by
  intro fuel
  induction fuel with
  | zero => intro cs acc; simp [splitGo]
  | succ k ih =>
    intro cs acc
    cases cs with
    | nil => simp [splitGo]
    | cons c rest =>
      simp only [splitGo]
      cases stripPrefix sep (c :: rest) with
      | some after => simp
      | none => exact ih _ _

theorem joinWith_cons (sep x : List Char) (ys : List (List Char)) (h : ys ≠ []) :
    joinWith sep (x :: ys) = x ++ sep ++ joinWith sep ys := by
  cases ys with
  | nil => exact absurd rfl h
  | cons y r => rfl

theorem splitGo_join (sep : List Char) : ∀ (fuel : Nat) (cs acc : List Char),
    joinWith sep (splitGo sep fuel cs acc) = acc.reverse ++ cs := by
  intro fuel
  induction fuel with
  | zero => intro cs acc; simp [splitGo, joinWith]
  | succ k ih =>
    intro cs acc
    cases cs with
    | nil => simp [splitGo, joinWith]
    | cons c rest =>
      simp only [splitGo]
      cases hp : stripPrefix sep (c :: rest) with
      | some after =>
        have := (stripPrefix_some sep (c :: rest) after).mp hp
        simp only []
        rw [joinWith_cons _ _ _ (splitGo_ne_nil sep k after []), ih, this]
        simp
      | none =>
        simp only []
        rw [ih]; simp

/-- **C11_string_split_partial.**  Joining the pieces of `split` with the separator gives the string back, for
every string and every non-empty separator (and also for the empty one, where Rust yields
`"", c₁, …, cₙ, ""`).  *Partial*: that the cuts are the leftmost non-overlapping occurrences is the
definition of `splitGo`, compared against an independent implementation on the streams, not characterised
by a theorem. -/
theorem C11_string_split_partial (cs sep : List Char) : joinWith sep (strSplit cs sep) = cs := by
  cases sep with
  | nil =>
    simp only [strSplit]
    induction cs with
    | nil => rfl
    | cons c cs ih =>
      simp only [List.map_cons, List.cons_append, List.nil_append] at ih ⊢
      cases cs with
      | nil => rfl
      | cons d ds =>
        simp only [List.map_cons, List.cons_append] at ih ⊢
        simp only [joinWith, List.append_nil, List.nil_append] at ih ⊢
        rw [ih]; rfl
  | cons a sep => simp only [strSplit]; rw [splitGo_join]; simp

example : strSplit "a,b,,c".toList ",".toList = ["a".toList, "b".toList, [], "c".toList] := by decide
example : strSplit "aaa".toList "aa".toList = [[], "a".toList] := by decide
example : strSplit "aé😀".toList "é".toList = ["a".toList, "😀".toList] := by decide
example : strHas "aé😀".toList "é😀".toList = true := by decide

/-! ## Maps: finite maps -/

section MapThm
variable {κ ν : Type} [DecidableEq κ]

theorem AMap.get_insert (m : AMap κ ν) (k : κ) (v : ν) (k' : κ) :
    AMap.get (AMap.insert m k v).2 k' = if k' = k then some v else AMap.get m k' := by
  induction m with
  | nil =>
    simp only [AMap.insert, AMap.get]
    by_cases h : k' = k
    · subst h; simp
    · have : ¬ k = k' := fun e => h e.symm
      simp [h, this]
  | cons p m ih =>
    obtain ⟨a, b⟩ := p
    simp only [AMap.insert]
    by_cases hak : a = k
    · subst hak
      simp only [if_true, AMap.get]
      by_cases h : k' = a
      · subst h; simp
      · have : ¬ a = k' := fun e => h e.symm
        simp [h, this]
    · simp only [hak, if_false, AMap.get, ih]
      by_cases h2 : a = k'
      · subst h2; simp [hak]
      · simp [h2]

theorem AMap.insert_prev (m : AMap κ ν) (k : κ) (v : ν) : (m.insert k v).1 = m.get k := by
  induction m with
  | nil => rfl
  | cons p m ih =>
    obtain ⟨a, b⟩ := p
    simp only [AMap.insert, AMap.get]
    by_cases h : a = k <;> simp [h, ih]

theorem AMap.keys_insert (m : AMap κ ν) (k : κ) (v : ν) :
    (m.insert k v).2.map Prod.fst = if (m.get k).isSome then m.map Prod.fst else m.map Prod.fst ++ [k] := by
  induction m with
  | nil => simp [AMap.insert, AMap.get]
  | cons p m ih =>
    obtain ⟨a, b⟩ := p
    simp only [AMap.insert, AMap.get]
    by_cases h : a = k
    · simp [h]
    · simp only [h, if_false, List.map_cons, ih]
      split <;> simp

theorem AMap.mem_keys (m : AMap κ ν) (k : κ) : k ∈ m.map Prod.fst ↔ (m.get k).isSome = true := by
  induction m with
  | nil => simp [AMap.get]
  | cons p m ih =>
    obtain ⟨a, b⟩ := p
    simp only [List.map_cons, List.mem_cons, AMap.get]
    by_cases h : a = k
    · simp [h]
    · simp only [h, if_false, ← ih]
      constructor
      · rintro (h' | h')
        · exact absurd h'.symm h
        · exact h'
      · intro h'; exact Or.inr h'

theorem AMap.get_remove (m : AMap κ ν) (hn : (m.map Prod.fst).Nodup) (k k' : κ) :
    (m.remove k).2.get k' = if k' = k then none else m.get k' := by
  induction m with
  | nil => simp [AMap.remove, AMap.get]
  | cons p m ih =>
    obtain ⟨a, b⟩ := p
    simp only [List.map_cons, List.nodup_cons] at hn
    simp only [AMap.remove]
    by_cases h : a = k
    · subst h
      simp only [if_true, AMap.get]
      by_cases h2 : k' = a
      · subst h2
        simp only [if_true]
        have : ¬ ((AMap.get m k').isSome = true) := by rw [← AMap.mem_keys]; exact hn.1
        cases hg : AMap.get m k' with
        | none => rfl
        | some x => simp [hg] at this
      · have : ¬ a = k' := fun h3 => h2 h3.symm
        simp [h2, this]
    · simp only [h, if_false, AMap.get]
      by_cases h2 : a = k'
      · subst h2; simp [h]
      · simp only [h2, if_false, ih hn.2]

theorem AMap.remove_prev (m : AMap κ ν) (k : κ) : (m.remove k).1 = m.get k := by
  induction m with
  | nil => rfl
  | cons p m ih =>
    obtain ⟨a, b⟩ := p
    simp only [AMap.remove, AMap.get]
    by_cases h : a = k <;> simp [h, ih]

theorem AMap.keys_remove (m : AMap κ ν) (k : κ) (hn : (m.map Prod.fst).Nodup) :
    (m.remove k).2.map Prod.fst = (m.map Prod.fst).erase k := by
  induction m with
  | nil => simp [AMap.remove]
  | cons p m ih =>
    obtain ⟨a, b⟩ := p
    simp only [List.map_cons, List.nodup_cons] at hn
    simp only [AMap.remove]
    by_cases h : a = k
    · simp [h]
    · simp only [h, if_false, List.map_cons, ih hn.2]
      rw [List.erase_cons_tail]; simpa using h

/-- the model map `m` represents the finite map `f`: same lookups, and its key list enumerates the support
of `f` without duplicates (so `len` is the cardinality of the support) -/
def MapRepr (m : AMap κ ν) (f : κ → Option ν) : Prop :=
  (∀ k, m.get k = f k) ∧ (m.map Prod.fst).Nodup

/-- the map natives -/
inductive MapOp (κ ν : Type) where
  | set (k : κ) (v : ν) | indexSet (k : κ) (v : ν) | get (k : κ) | indexGet (k : κ) | has (k : κ) | remove (k : κ) | len

inductive MapObs (ν : Type) where
  | val (v : Option ν) | bool (b : Bool) | num (n : Nat) | err (c : ErrClass)

def mapStep (m : AMap κ ν) : MapOp κ ν → AMap κ ν × MapObs ν
  | .set k v => ((mapSet m k v).2, .val (mapSet m k v).1)
  | .indexSet k v => ((mapSet m k v).2, .val (some v))
  | .get k => (m, .val (mapGet m k))
  | .indexGet k => match mapIndexGet m k with | .ok v => (m, .val (some v)) | .error c => (m, .err c)
  | .has k => (m, .bool (mapHas m k))
  | .remove k => match mapRemove m k with | .ok r => (r.2, .val (some r.1)) | .error c => (m, .err c)
  | .len => (m, .num (mapLen m))

/-- the Spec: a finite map is a function; `len` is answered from any duplicate-free enumeration `ks` of the
support -/
def finStep (f : κ → Option ν) (ks : List κ) : MapOp κ ν → (κ → Option ν) × MapObs ν
  | .set k v => ((fun k' => if k' = k then some v else f k'), .val (f k))
  | .indexSet k v => ((fun k' => if k' = k then some v else f k'), .val (some v))
  | .get k => (f, .val (f k))
  | .indexGet k => match f k with | some v => (f, .val (some v)) | none => (f, .err .key)
  | .has k => (f, .bool (f k).isSome)
  | .remove k => match f k with
    | some v => ((fun k' => if k' = k then none else f k'), .val (some v))
    | none => (f, .err .key)
  | .len => (f, .num ks.length)

/-- **C11_map_refines_finmap (one step).**  Every map native is the finite-map operation: same result (value,
`nil`, or `KeyError`), the new model map represents the updated function, a failing call changes nothing,
and `len` is the number of keys in the support. -/
theorem mapStep_refines (m : AMap κ ν) (f : κ → Option ν) (h : MapRepr m f) (op : MapOp κ ν) :
    MapRepr (mapStep m op).1 (finStep f (m.map Prod.fst) op).1 ∧
    (mapStep m op).2 = (finStep f (m.map Prod.fst) op).2 := by
  obtain ⟨hg, hn⟩ := h
  have hins : ∀ k v, MapRepr (m.insert k v).2 (fun k' => if k' = k then some v else f k') := by
    intro k v
    refine ⟨fun k' => ?_, ?_⟩
    · rw [AMap.get_insert, hg]
    · rw [AMap.keys_insert]
      split
      · exact hn
      · next hnone =>
        rw [List.nodup_append]
        refine ⟨hn, by simp, ?_⟩
        intro a ha b hb
        simp at hb; subst hb
        intro hab; subst hab
        exact hnone ((AMap.mem_keys m a).mp ha)
  cases op with
  | set k v => exact ⟨hins k v, by simp [mapStep, finStep, mapSet, AMap.insert_prev, hg]⟩
  | indexSet k v => exact ⟨hins k v, rfl⟩
  | get k => exact ⟨⟨hg, hn⟩, by simp [mapStep, finStep, mapGet, hg]⟩
  | indexGet k =>
    simp only [mapStep, finStep, mapIndexGet, hg]
    cases f k <;> exact ⟨⟨hg, hn⟩, rfl⟩
  | has k => exact ⟨⟨hg, hn⟩, by simp [mapStep, finStep, mapHas, hg]⟩
  | remove k =>
    have hp := AMap.remove_prev m k
    simp only [mapStep, finStep, mapRemove]
    cases hr : m.remove k with
    | mk prev m' =>
      rw [hr] at hp; simp only at hp
      rw [← hg k, ← hp]
      cases prev with
      | none => exact ⟨⟨hg, hn⟩, rfl⟩
      | some v =>
        refine ⟨⟨fun k' => ?_, ?_⟩, rfl⟩
        · have := AMap.get_remove m hn k k'
          rw [hr] at this; simp only at this
          rw [this, hg]
        · have := AMap.keys_remove m k hn
          rw [hr] at this; simp only at this
          rw [this]; exact hn.erase k
  | len => exact ⟨⟨hg, hn⟩, by simp [mapStep, finStep, mapLen]⟩

def mapRun (m : AMap κ ν) : List (MapOp κ ν) → AMap κ ν × List (MapObs ν)
  | [] => (m, [])
  | op :: ops => let r := mapStep m op; let rest := mapRun r.1 ops; (rest.1, r.2 :: rest.2)

/-- how an operation changes a duplicate-free enumeration of the support -/
def keysAfter (f : κ → Option ν) (ks : List κ) : MapOp κ ν → List κ
  | .set k _ => if (f k).isSome then ks else ks ++ [k]
  | .indexSet k _ => if (f k).isSome then ks else ks ++ [k]
  | .remove k => ks.erase k
  | _ => ks

/-- the Spec run; it threads, as a ghost, the enumeration of the support that `len` is answered from -/
def finRun (f : κ → Option ν) (ks : List κ) : List (MapOp κ ν) → (κ → Option ν) × List (MapObs ν)
  | [] => (f, [])
  | op :: ops =>
    let r := finStep f ks op
    let rest := finRun r.1 (keysAfter f ks op) ops
    (rest.1, r.2 :: rest.2)

/-- **C11_map_refines_finmap.**  For every key and value type and every history of map natives, starting
from any map that represents a finite function `f`: the results are those of the finite map, and the final
model map represents the final function. -/
theorem C11_map_refines_finmap (ops : List (MapOp κ ν)) :
    ∀ (m : AMap κ ν) (f : κ → Option ν), MapRepr m f →
      (mapRun m ops).2 = (finRun f (m.map Prod.fst) ops).2 ∧
      MapRepr (mapRun m ops).1 (finRun f (m.map Prod.fst) ops).1 := by
  induction ops with
  | nil => intro m f h; exact ⟨rfl, h⟩
  | cons op ops ih =>
    intro m f h
    obtain ⟨r1, r2⟩ := mapStep_refines m f h op
    have hk : ((mapStep m op).1.map Prod.fst) = keysAfter f (m.map Prod.fst) op := by
      obtain ⟨hg, hn⟩ := h
      cases op with
      | set k v => simp only [mapStep, mapSet, keysAfter]; rw [AMap.keys_insert, hg]
      | indexSet k v => simp only [mapStep, mapSet, keysAfter]; rw [AMap.keys_insert, hg]
      | get k => rfl
      | indexGet k => simp only [mapStep]; split <;> rfl
      | has k => rfl
      | remove k =>
        simp only [mapStep, mapRemove]
        have hp := AMap.remove_prev m k
        have hkr := AMap.keys_remove m k hn
        cases hr : m.remove k with
        | mk prev m' =>
          rw [hr] at hp hkr; simp only at hp hkr
          cases prev with
          | some v => exact hkr
          | none =>
            simp only [keysAfter]
            have : k ∉ m.map Prod.fst := by
              rw [AMap.mem_keys, ← hp]; simp
            rw [List.erase_of_not_mem this]
      | len => rfl
    obtain ⟨i1, i2⟩ := ih (mapStep m op).1 (finStep f (m.map Prod.fst) op).1 r1
    simp only [mapRun, finRun]
    rw [hk] at i1 i2
    exact ⟨by rw [r2, i1], i2⟩

theorem mapRepr_empty : MapRepr ([] : AMap κ ν) (fun _ => none) := ⟨fun _ => rfl, by simp⟩

example : (mapRun ([] : AMap Nat Nat) [.set 1 10, .indexSet 2 20, .set 1 11, .remove 2, .remove 2, .indexGet 1, .len]).2.length = 7 := rfl
end MapThm

/-! ## Iterators: adaptors are the lazy stream functions, callbacks run left to right -/

section IterThm
variable {α σ ε : Type} [ValLike α]

/-- From state `s` the iterator yields exactly `xs` and then reports the end — in every world, without
touching the world and without raising: a *pure* stream with elements `xs` — and at every point on the way
its size hint, when it has one, is the number of elements still to come. -/
def Yields (it : Iter α σ ε) : it.S → List α → Prop
  | s, [] => (∀ h, it.hint s = some h → h = 0) ∧ ∀ w, ∃ s', it.next s w = (.ok false, s', w)
  | s, x :: xs => (∀ h, it.hint s = some h → h = xs.length + 1) ∧
      ∀ w, ∃ s', it.next s w = (.ok true, s', w) ∧ it.cur s' = x ∧ Yields it s' xs

/-- the size hint of a pure stream is its length -/
theorem Yields.hint_eq {it : Iter α σ ε} {s : it.S} {xs : List α} (hy : Yields it s xs) :
    ∀ h, it.hint s = some h → h = xs.length := by
  cases xs with
  | nil => exact hy.1
  | cons x xs => simpa using hy.1

/-! ### Sources -/

theorem ofList_yields (xs : List α) (hinted : Bool) : ∀ (n idx : Nat) (c c' : α), n = xs.length - idx → idx ≤ xs.length →
    Yields (Iter.ofList xs hinted : Iter α σ ε) ((idx, c), c') (xs.drop idx) := by
  intro n
  induction n with
  | zero =>
    intro idx c c' hn hle
    have : idx = xs.length := by omega
    subst this
    simp only [List.drop_length]
    refine ⟨?_, fun w => ?_⟩
    · intro h hh
      cases hinted <;> simp at hh
      omega
    · exact ⟨((xs.length, ValLike.nil), ValLike.nil), by simp [Iter.ofList, Iter.wrap]⟩
  | succ n ih =>
    intro idx c c' hn hle
    have hlt : idx < xs.length := by omega
    rw [List.drop_eq_getElem_cons hlt]
    refine ⟨?_, fun w => ?_⟩
    · intro h hh
      cases hinted <;> simp at hh
      simp only [List.length_drop]
      omega
    refine ⟨((idx + 1, xs[idx]), xs[idx]), ?_, ?_, ?_⟩
    · simp [Iter.ofList, Iter.wrap, hlt]
    · rfl
    · exact ih (idx + 1) _ _ (by omega) (by omega)

/-- **C11_source_list.**  `list.iter()`, `tuple.iter()`, `string.iter()`, `string.split(sep)`: the stream of the
elements (characters, pieces), in order; the size hint of the list and tuple iterators is what is left. -/
theorem C11_source_list (xs : List α) (hinted : Bool) :
    Yields (Iter.ofList xs hinted : Iter α σ ε) (Iter.ofList xs hinted : Iter α σ ε).st xs := by
  exact ofList_yields (σ := σ) (ε := ε) xs hinted (xs.length - 0) 0 ValLike.nil ValLike.nil rfl (Nat.zero_le _)

theorem times_yields (max : Int) : ∀ (n : Nat) (c : Int) (c' : α) (l : List α), (n : Int) = max - 1 - c → c + 1 ≥ 0 →
    l = (List.range' (c + 1).toNat n).map (fun (k : Nat) => ValLike.num (Int.ofNat k)) →
    Yields (Iter.times max : Iter α σ ε) (c, c') l := by
  intro n
  induction n with
  | zero =>
    intro c c' l hn hc hl
    have hl2 : l = [] := by rw [hl]; rfl
    subst hl2
    refine ⟨?_, fun w => ?_⟩
    · intro h hh
      simp at hh
      omega
    have : ¬ c < max - 1 := by omega
    exact ⟨(c, ValLike.num c), by simp [this]⟩
  | succ n ih =>
    intro c c' l hn hc hl
    have hlt : c < max - 1 := by omega
    have hcn : Int.ofNat (c + 1).toNat = c + 1 := by simp; omega
    have hl2 : l = ValLike.num (c + 1) ::
        (List.range' ((c + 1).toNat + 1) n).map (fun (k : Nat) => ValLike.num (Int.ofNat k)) := by
      rw [hl, List.range'_succ, List.map_cons, hcn]
    subst hl2
    refine ⟨?_, fun w => ?_⟩
    · intro h hh
      simp at hh
      simp only [List.length_map, List.length_range']
      omega
    refine ⟨(c + 1, ValLike.num (c + 1)), by simp [hlt], rfl, ?_⟩
    have h2 : (c + 1 + 1).toNat = (c + 1).toNat + 1 := by omega
    exact ih (c + 1) (ValLike.num (c + 1)) _ (by omega) (by omega) (by rw [h2])

/-- **C11_source_times.**  `n.times()` is the stream `0, 1, …, n-1`. -/
theorem C11_source_times (n : Nat) :
    Yields (Iter.times (n : Int) : Iter α σ ε) (Iter.times (n : Int) : Iter α σ ε).st
      ((List.range n).map (fun (k : Nat) => ValLike.num (Int.ofNat k))) := by
  exact times_yields (α := α) (σ := σ) (ε := ε) (n : Int) n (-1) ValLike.nil _ (by omega) (by omega)
    (by simp [List.range_eq_range'])

/-! ### Terminal operations on a pure stream -/

theorem collectLoop_yields (it : Iter α σ ε) : ∀ (xs : List α) (fuel : Nat) (acc : List α) (s : it.S) (w : σ),
    Yields it s xs → xs.length < fuel →
    (collectLoop it fuel acc s w).1 = .ok (acc.reverse ++ xs) ∧ (collectLoop it fuel acc s w).2.2 = w := by
  intro xs
  induction xs with
  | nil =>
    intro fuel acc s w hy hf
    cases fuel with
    | zero => omega
    | succ k =>
      obtain ⟨s', h⟩ := hy.2 w
      simp [collectLoop, h]
  | cons x xs ih =>
    intro fuel acc s w hy hf
    cases fuel with
    | zero => simp at hf
    | succ k =>
      obtain ⟨s', h1, h2, h3⟩ := hy.2 w
      simp only [collectLoop, h1]
      have := ih k (it.cur s' :: acc) s' w h3 (by simpa using hf)
      simpa [h2] using this

/-- the fuel taken from the ghost `bound` is enough for a pure stream of a well-behaved iterator -/
theorem yields_le_bound (it : Iter α σ ε) (hwb : it.WB) (w : σ) : ∀ (xs : List α) (s : it.S),
    Yields it s xs → xs.length ≤ it.bound s := by
  intro xs
  induction xs with
  | nil => intro s _; simp
  | cons x xs ih =>
    intro s hy
    obtain ⟨s', h1, _, h3⟩ := hy.2 w
    have hdec := (hwb s w).2
    rw [h1] at hdec
    have hlt : it.bound s' < it.bound s := hdec rfl
    have := ih s' h3
    simp only [List.length_cons]
    omega

/-- **C11_collect.**  `list()` / `into(List.collect)` / `into(Tuple.collect)` of a pure stream collect its
elements, in order, and leave the world alone. -/
theorem C11_collect (it : Iter α σ ε) (xs : List α) (w : σ) (hy : Yields it it.st xs) (hb : xs.length ≤ it.bound it.st) :
    (it.collect w).res = .ok xs ∧ (it.collect w).w = w := by
  have := collectLoop_yields it xs (it.bound it.st + 1) [] it.st w hy (by omega)
  simpa [Iter.collect] using this

/-- a callback mapped over a list, state passing, left to right, stopping at the first error -/
def mapMS (f : Cb α σ ε) : List α → σ → Except ε (List α) × σ
  | [], w => (.ok [], w)
  | x :: xs, w =>
    match f x w with
    | (.ok y, w') => ((mapMS f xs w').1.map (y :: ·), (mapMS f xs w').2)
    | (.error e, w') => (.error e, w')

/-- a predicate callback filtering a list, state passing, left to right, stopping at the first error -/
def filterMS (p : Cb α σ ε) : List α → σ → Except ε (List α) × σ
  | [], w => (.ok [], w)
  | x :: xs, w =>
    match p x w with
    | (.ok v, w') =>
      if ValLike.truthy v then ((filterMS p xs w').1.map (x :: ·), (filterMS p xs w').2) else filterMS p xs w'
    | (.error e, w') => (.error e, w')

/-- a callback run for its effect on each element -/
def eachMS (f : Cb α σ ε) : List α → σ → Except ε Unit × σ
  | [], w => (.ok (), w)
  | x :: xs, w =>
    match f x w with
    | (.ok _, w') => eachMS f xs w'
    | (.error e, w') => (.error e, w')

/-- a left fold with a two-argument callback -/
def foldMS (f : Cb2 α σ ε) : α → List α → σ → Except ε α × σ
  | a, [], w => (.ok a, w)
  | a, x :: xs, w =>
    match f a x w with
    | (.ok a', w') => foldMS f a' xs w'
    | (.error e, w') => (.error e, w')

/-- `all` (`stopOn = false`) / `any` (`stopOn = true`): the callback is *not* run past the deciding element -/
def allAnyMS (p : Cb α σ ε) (stopOn : Bool) : List α → σ → Except ε Bool × σ
  | [], w => (.ok (!stopOn), w)
  | x :: xs, w =>
    match p x w with
    | (.ok v, w') => if ValLike.truthy v = stopOn then (.ok stopOn, w') else allAnyMS p stopOn xs w'
    | (.error e, w') => (.error e, w')

theorem map_next (f : Cb α σ ε) (it : Iter α σ ε) (c cache : α) (s : it.S) (w : σ) :
    (it.map f).next ((c, s), cache) w =
      (match it.next s w with
       | (.ok true, s', w') =>
         (match f (it.cur s') w' with
          | (.ok v, w'') => (.ok true, ((v, s'), v), w'')
          | (.error e, w'') => (.err e, ((c, s'), c), w''))
       | (.ok false, s', w') => (.ok false, ((c, s'), c), w')
       | (.err e, s', w') => (.err e, ((c, s'), c), w')) := by
  simp only [Iter.map, Iter.wrap]
  rcases h : it.next s w with ⟨o, s', w'⟩
  cases o with
  | ok b =>
    cases b with
    | true =>
      simp only []
      rcases h2 : f (it.cur s') w' with ⟨r, w''⟩
      cases r <;> rfl
    | false => rfl
  | err e => rfl

theorem map_collectLoop (f : Cb α σ ε) (it : Iter α σ ε) : ∀ (xs : List α) (fuel : Nat) (acc : List α)
    (c cache : α) (s : it.S) (w : σ), Yields it s xs → xs.length < fuel →
    (collectLoop (it.map f) fuel acc ((c, s), cache) w).1 = (mapMS f xs w).1.map (acc.reverse ++ ·) ∧
    (collectLoop (it.map f) fuel acc ((c, s), cache) w).2.2 = (mapMS f xs w).2 := by
  intro xs
  induction xs with
  | nil =>
    intro fuel acc c cache s w hy hf
    cases fuel with
    | zero => omega
    | succ k =>
      obtain ⟨s', h⟩ := hy.2 w
      simp [collectLoop, map_next, h, mapMS, Except.map]
  | cons x xs ih =>
    intro fuel acc c cache s w hy hf
    cases fuel with
    | zero => simp at hf
    | succ k =>
      obtain ⟨s', h1, h2, h3⟩ := hy.2 w
      simp only [collectLoop, map_next, h1, h2, mapMS]
      rcases hfx : f x w with ⟨r, w'⟩
      cases r with
      | error e => simp [Except.map]
      | ok y =>
        simp only []
        have := ih k (y :: acc) y y s' w' h3 (by simpa using hf)
        show (collectLoop (it.map f) k ((it.map f).cur ((y, s'), y) :: acc) ((y, s'), y) w').1 = _ ∧ _
        have hc : (it.map f).cur ((y, s'), y) = y := rfl
        rw [hc, this.1, this.2]
        refine ⟨?_, rfl⟩
        cases (mapMS f xs w').1 <;> simp [Except.map]

/-- **C11_adaptor_map.**  `it.map(f).list()` over a pure stream `xs` runs `f` on `x₁, x₂, …` in that order,
once each, each call seeing the world the previous one left, stops at the first call that raises (the later
elements are never passed to `f`), and otherwise returns `[f x₁, f x₂, …]`: it *is* `mapMS f xs`. -/
theorem C11_adaptor_map (f : Cb α σ ε) (it : Iter α σ ε) (xs : List α) (w : σ)
    (hy : Yields it it.st xs) (hb : xs.length ≤ it.bound it.st) :
    ((it.map f).collect w).res = (mapMS f xs w).1 ∧ ((it.map f).collect w).w = (mapMS f xs w).2 := by
  have := map_collectLoop f it xs (it.bound it.st + 1) [] ValLike.nil ValLike.nil it.st w hy (by omega)
  simp only [Iter.collect]
  refine ⟨?_, this.2⟩
  rw [this.1]
  cases (mapMS f xs w).1 <;> simp [Except.map]

/-! #### each / reduce / all / any / first / last / len over a pure stream -/

theorem eachLoop_yields (f : Cb α σ ε) (it : Iter α σ ε) : ∀ (xs : List α) (fuel : Nat) (s : it.S) (w : σ),
    Yields it s xs → xs.length < fuel →
    (eachLoop it f fuel s w).1 = (eachMS f xs w).1 ∧ (eachLoop it f fuel s w).2.2 = (eachMS f xs w).2 := by
  intro xs
  induction xs with
  | nil =>
    intro fuel s w hy hf
    cases fuel with
    | zero => omega
    | succ k => obtain ⟨s', h⟩ := hy.2 w; simp [eachLoop, h, eachMS]
  | cons x xs ih =>
    intro fuel s w hy hf
    cases fuel with
    | zero => simp at hf
    | succ k =>
      obtain ⟨s', h1, h2, h3⟩ := hy.2 w
      simp only [eachLoop, h1, h2, eachMS]
      rcases hfx : f x w with ⟨r, w'⟩
      cases r with
      | error e => simp
      | ok y => exact ih k s' w' h3 (by simpa using hf)

/-- **C11_each.**  `each(f)` runs `f` on every element, left to right, stopping at the first raise. -/
theorem C11_each (f : Cb α σ ε) (it : Iter α σ ε) (xs : List α) (w : σ)
    (hy : Yields it it.st xs) (hb : xs.length ≤ it.bound it.st) :
    (it.each f w).res = (eachMS f xs w).1 ∧ (it.each f w).w = (eachMS f xs w).2 := by
  have := eachLoop_yields f it xs (it.bound it.st + 1) it.st w hy (by omega)
  simpa [Iter.each] using this

theorem reduceLoop_yields (f : Cb2 α σ ε) (it : Iter α σ ε) : ∀ (xs : List α) (fuel : Nat) (a : α) (s : it.S) (w : σ),
    Yields it s xs → xs.length < fuel →
    (reduceLoop it f fuel a s w).1 = (foldMS f a xs w).1 ∧ (reduceLoop it f fuel a s w).2.2 = (foldMS f a xs w).2 := by
  intro xs
  induction xs with
  | nil =>
    intro fuel a s w hy hf
    cases fuel with
    | zero => omega
    | succ k => obtain ⟨s', h⟩ := hy.2 w; simp [reduceLoop, h, foldMS]
  | cons x xs ih =>
    intro fuel a s w hy hf
    cases fuel with
    | zero => simp at hf
    | succ k =>
      obtain ⟨s', h1, h2, h3⟩ := hy.2 w
      simp only [reduceLoop, h1, h2, foldMS]
      rcases hfx : f a x w with ⟨r, w'⟩
      cases r with
      | error e => simp
      | ok y => exact ih k y s' w' h3 (by simpa using hf)

/-- **C11_reduce.**  `reduce(init, f)` is the left fold, `f` called left to right with the running value. -/
theorem C11_reduce (init : α) (f : Cb2 α σ ε) (it : Iter α σ ε) (xs : List α) (w : σ)
    (hy : Yields it it.st xs) (hb : xs.length ≤ it.bound it.st) :
    (it.reduce init f w).res = (foldMS f init xs w).1 ∧ (it.reduce init f w).w = (foldMS f init xs w).2 := by
  have := reduceLoop_yields f it xs (it.bound it.st + 1) init it.st w hy (by omega)
  simpa [Iter.reduce] using this

theorem allAnyLoop_yields (p : Cb α σ ε) (stopOn : Bool) (it : Iter α σ ε) : ∀ (xs : List α) (fuel : Nat) (s : it.S) (w : σ),
    Yields it s xs → xs.length < fuel →
    (allAnyLoop it p stopOn fuel s w).1 = (allAnyMS p stopOn xs w).1 ∧
    (allAnyLoop it p stopOn fuel s w).2.2 = (allAnyMS p stopOn xs w).2 := by
  intro xs
  induction xs with
  | nil =>
    intro fuel s w hy hf
    cases fuel with
    | zero => omega
    | succ k => obtain ⟨s', h⟩ := hy.2 w; simp [allAnyLoop, h, allAnyMS]
  | cons x xs ih =>
    intro fuel s w hy hf
    cases fuel with
    | zero => simp at hf
    | succ k =>
      obtain ⟨s', h1, h2, h3⟩ := hy.2 w
      simp only [allAnyLoop, h1, h2, allAnyMS]
      rcases hfx : p x w with ⟨r, w'⟩
      cases r with
      | error e => simp
      | ok y =>
        simp only []
        split
        · simp
        · exact ih k s' w' h3 (by simpa using hf)

/-- **C11_all_any.**  `all(p)` / `any(p)`: `p` is called left to right and *not* past the element that decides
the answer (short circuit); an exhausted stream answers `true` / `false`. -/
theorem C11_all_any (p : Cb α σ ε) (it : Iter α σ ε) (xs : List α) (w : σ)
    (hy : Yields it it.st xs) (hb : xs.length ≤ it.bound it.st) :
    ((it.all p w).res = (allAnyMS p false xs w).1 ∧ (it.all p w).w = (allAnyMS p false xs w).2) ∧
    ((it.any p w).res = (allAnyMS p true xs w).1 ∧ (it.any p w).w = (allAnyMS p true xs w).2) := by
  have h1 := allAnyLoop_yields p false it xs (it.bound it.st + 1) it.st w hy (by omega)
  have h2 := allAnyLoop_yields p true it xs (it.bound it.st + 1) it.st w hy (by omega)
  exact ⟨by simpa [Iter.all] using h1, by simpa [Iter.any] using h2⟩

theorem lastLoop_yields (it : Iter α σ ε) : ∀ (xs : List α) (fuel : Nat) (a : α) (s : it.S) (w : σ),
    Yields it s xs → xs.length < fuel →
    (lastLoop it fuel a s w).1 = .ok ((xs.getLast?).getD a) ∧ (lastLoop it fuel a s w).2.2 = w := by
  intro xs
  induction xs with
  | nil =>
    intro fuel a s w hy hf
    cases fuel with
    | zero => omega
    | succ k => obtain ⟨s', h⟩ := hy.2 w; simp [lastLoop, h]
  | cons x xs ih =>
    intro fuel a s w hy hf
    cases fuel with
    | zero => simp at hf
    | succ k =>
      obtain ⟨s', h1, h2, h3⟩ := hy.2 w
      simp only [lastLoop, h1, h2]
      have := ih k x s' w h3 (by simpa using hf)
      rw [this.1, this.2]
      refine ⟨?_, rfl⟩
      cases xs with
      | nil => simp
      | cons y ys =>
        rw [List.getLast?_cons_cons]
        cases h : (y :: ys).getLast? with
        | none => simp at h
        | some z => rfl

theorem countLoop_yields (it : Iter α σ ε) : ∀ (xs : List α) (fuel : Nat) (n : Nat) (s : it.S) (w : σ),
    Yields it s xs → xs.length < fuel →
    (countLoop it fuel n s w).1 = .ok (n + xs.length) ∧ (countLoop it fuel n s w).2.2 = w := by
  intro xs
  induction xs with
  | nil =>
    intro fuel n s w hy hf
    cases fuel with
    | zero => omega
    | succ k => obtain ⟨s', h⟩ := hy.2 w; simp [countLoop, h]
  | cons x xs ih =>
    intro fuel n s w hy hf
    cases fuel with
    | zero => simp at hf
    | succ k =>
      obtain ⟨s', h1, h2, h3⟩ := hy.2 w
      simp only [countLoop, h1]
      have := ih k (n + 1) s' w h3 (by simpa using hf)
      rw [this.1, this.2]
      exact ⟨by simp; omega, rfl⟩

/-- **C11_first_last_len.**  On a pure stream `xs` — fresh or partly consumed —: `first()` is the head or nil,
`last()` the last element or nil, `len()` the number of elements still to come, whether it counts them or
answers the size hint (in which case the iterator is left where it was). -/
theorem C11_first_last_len (it : Iter α σ ε) (xs : List α) (w : σ)
    (hy : Yields it it.st xs) (hb : xs.length ≤ it.bound it.st) :
    (it.first w).res = .ok (xs.head?.getD ValLike.nil) ∧ (it.first w).w = w ∧
    (it.last w).res = .ok (xs.getLast?.getD ValLike.nil) ∧ (it.last w).w = w ∧
    (it.len w).res = .ok xs.length ∧ (it.len w).w = w ∧
    (it.sizeHint ≠ none → (it.len w).it = it) := by
  refine ⟨?_, ?_, ?_, ?_, ?_⟩
  · cases xs with
    | nil => obtain ⟨s', h⟩ := hy.2 w; simp [Iter.first, h]
    | cons x xs => obtain ⟨s', h1, h2, _⟩ := hy.2 w; simp [Iter.first, h1, h2]
  · cases xs with
    | nil => obtain ⟨s', h⟩ := hy.2 w; simp [Iter.first, h]
    | cons x xs => obtain ⟨s', h1, h2, _⟩ := hy.2 w; simp [Iter.first, h1]
  · have := lastLoop_yields it xs (it.bound it.st + 1) ValLike.nil it.st w hy (by omega)
    simpa [Iter.last] using this.1
  · have := lastLoop_yields it xs (it.bound it.st + 1) ValLike.nil it.st w hy (by omega)
    simpa [Iter.last] using this.2
  · cases hh : it.sizeHint with
    | none =>
      have := countLoop_yields it xs (it.bound it.st + 1) 0 it.st w hy (by omega)
      simp only [Iter.len, hh]
      exact ⟨by simpa using this.1, by simpa using this.2, fun h => absurd rfl h⟩
    | some n =>
      have hn := hy.hint_eq n hh
      simp [Iter.len, hh, hn]

/-! #### filter -/

theorem filter_next (p : Cb α σ ε) (it : Iter α σ ε) (c cache : α) (s : it.S) (w : σ) :
    (it.filter p).next ((c, s), cache) w =
      ((filterLoop it p (it.bound s + 1) c s w).1, ((filterLoop it p (it.bound s + 1) c s w).2.1,
        (filterLoop it p (it.bound s + 1) c s w).2.1.1), (filterLoop it p (it.bound s + 1) c s w).2.2) := rfl

/-- what one `next` of `filter` does to a pure stream `xs`: run `p` over the rejected prefix and stop at the
first accepted element (`some (x, rest)`), at the end (`none`), or at a raise -/
def filterStep (p : Cb α σ ε) : List α → σ → Except ε (Option (α × List α)) × σ
  | [], w => (.ok none, w)
  | x :: xs, w =>
    match p x w with
    | (.ok v, w') => if ValLike.truthy v then (.ok (some (x, xs)), w') else filterStep p xs w'
    | (.error e, w') => (.error e, w')

theorem filterLoop_yields (p : Cb α σ ε) (it : Iter α σ ε) : ∀ (xs : List α) (fuel : Nat) (c : α) (s : it.S) (w : σ),
    Yields it s xs → xs.length < fuel →
    (match (filterStep p xs w).1 with
     | .ok (some (x, rest)) => ∃ s', filterLoop it p fuel c s w = (.ok true, (x, s'), (filterStep p xs w).2) ∧ Yields it s' rest
     | .ok none => ∃ s', filterLoop it p fuel c s w = (.ok false, (c, s'), (filterStep p xs w).2)
     | .error e => ∃ s', filterLoop it p fuel c s w = (.err e, (c, s'), (filterStep p xs w).2)) := by
  intro xs
  induction xs with
  | nil =>
    intro fuel c s w hy hf
    cases fuel with
    | zero => omega
    | succ k =>
      obtain ⟨s', h⟩ := hy.2 w
      simp only [filterStep]
      exact ⟨s', by simp [filterLoop, h]⟩
  | cons x xs ih =>
    intro fuel c s w hy hf
    cases fuel with
    | zero => simp at hf
    | succ k =>
      obtain ⟨s', h1, h2, h3⟩ := hy.2 w
      simp only [filterStep, filterLoop, h1, h2]
      rcases hpx : p x w with ⟨r, w'⟩
      cases r with
      | error e => exact ⟨s', rfl⟩
      | ok v =>
        simp only []
        by_cases ht : ValLike.truthy v = true
        · simp only [ht, if_true]
          exact ⟨s', rfl, h3⟩
        · simp only [ht, if_false, Bool.false_eq_true]
          exact ih k c s' w' h3 (by simpa using hf)

theorem filterStep_length (p : Cb α σ ε) : ∀ (xs : List α) (w : σ) (x : α) (rest : List α),
    (filterStep p xs w).1 = .ok (some (x, rest)) → rest.length < xs.length := by
  intro xs
  induction xs with
  | nil => intro w x rest h; simp [filterStep] at h
  | cons y ys ih =>
    intro w x rest h
    simp only [filterStep] at h
    rcases hpy : p y w with ⟨r, w'⟩
    rw [hpy] at h
    cases r with
    | error e => simp at h
    | ok v =>
      simp only [] at h
      by_cases ht : ValLike.truthy v = true
      · simp only [ht, if_true, Except.ok.injEq, Option.some.injEq, Prod.mk.injEq] at h
        rw [← h.2]; simp
      · simp only [ht, if_false, Bool.false_eq_true] at h
        have := ih w' x rest h
        simp only [List.length_cons]; omega

/-- `filterMS` unrolled one accepted element at a time -/
theorem filterMS_step (p : Cb α σ ε) : ∀ (xs : List α) (w : σ),
    filterMS p xs w = (match filterStep p xs w with
      | (.ok (some (x, rest)), w') => ((filterMS p rest w').1.map (x :: ·), (filterMS p rest w').2)
      | (.ok none, w') => (.ok [], w')
      | (.error e, w') => (.error e, w')) := by
  intro xs
  induction xs with
  | nil => intro w; rfl
  | cons y ys ih =>
    intro w
    simp only [filterMS, filterStep]
    rcases hpy : p y w with ⟨r, w'⟩
    cases r with
    | error e => rfl
    | ok v =>
      simp only []
      by_cases ht : ValLike.truthy v = true
      · simp only [ht, if_true]
      · simp only [ht, if_false, Bool.false_eq_true]
        exact ih w'

theorem filter_collectLoop (p : Cb α σ ε) (it : Iter α σ ε) (hwb : it.WB) : ∀ (n : Nat) (xs : List α) (fuel : Nat)
    (acc : List α) (c cache : α) (s : it.S) (w : σ), xs.length ≤ n → Yields it s xs → xs.length < fuel →
    (collectLoop (it.filter p) fuel acc ((c, s), cache) w).1 = (filterMS p xs w).1.map (acc.reverse ++ ·) ∧
    (collectLoop (it.filter p) fuel acc ((c, s), cache) w).2.2 = (filterMS p xs w).2 := by
  intro n
  induction n with
  | zero =>
    intro xs fuel acc c cache s w hn hy hf
    have : xs = [] := List.eq_nil_of_length_eq_zero (by omega)
    subst this
    cases fuel with
    | zero => omega
    | succ k =>
      have hfl := filterLoop_yields p it [] (it.bound s + 1) c s w hy (by simp)
      simp only [filterStep] at hfl
      obtain ⟨s', hfl⟩ := hfl
      simp [collectLoop, filter_next, hfl, filterMS, Except.map]
  | succ n ih =>
    intro xs fuel acc c cache s w hn hy hf
    cases fuel with
    | zero => omega
    | succ k =>
      have hbound := yields_le_bound it hwb w xs s hy
      have hfl := filterLoop_yields p it xs (it.bound s + 1) c s w hy (by omega)
      rw [filterMS_step]
      rcases hst : filterStep p xs w with ⟨r, w'⟩
      rw [hst] at hfl
      cases r with
      | error e =>
        obtain ⟨s', hfl⟩ := hfl
        simp [collectLoop, filter_next, hfl, Except.map]
      | ok o =>
        cases o with
        | none =>
          obtain ⟨s', hfl⟩ := hfl
          simp [collectLoop, filter_next, hfl, Except.map]
        | some pr =>
          obtain ⟨x, rest⟩ := pr
          obtain ⟨s', hfl, hy'⟩ := hfl
          have hlen := filterStep_length p xs w x rest (by rw [hst])
          have := ih rest k (x :: acc) x x s' w' (by omega) hy' (by omega)
          simp only [collectLoop, filter_next, hfl]
          rw [this.1, this.2]
          refine ⟨?_, rfl⟩
          cases (filterMS p rest w').1 <;> simp [Except.map]

/-- **C11_adaptor_filter.**  `it.filter(p).list()` over a pure stream: `p` runs on every element left to right
(the world threaded through), the accepted elements are kept in order, the first raise stops everything. -/
theorem C11_adaptor_filter (p : Cb α σ ε) (it : Iter α σ ε) (hwb : it.WB) (xs : List α) (w : σ)
    (hy : Yields it it.st xs) :
    ((it.filter p).collect w).res = (filterMS p xs w).1 ∧ ((it.filter p).collect w).w = (filterMS p xs w).2 := by
  have hb := yields_le_bound it hwb w xs it.st hy
  have := filter_collectLoop p it hwb xs.length xs (it.bound it.st + 1) [] ValLike.nil ValLike.nil it.st w
    (Nat.le_refl _) hy (by omega)
  simp only [Iter.collect]
  refine ⟨?_, this.2⟩
  rw [this.1]
  cases (filterMS p xs w).1 <;> simp [Except.map]

/-! #### take: closure and laziness -/

theorem take_next (n : Nat) (it : Iter α σ ε) (c : Nat) (cache : α) (s : it.S) (w : σ) :
    (it.take n).next ((c, s), cache) w =
      (if c ≥ n then (.ok false, ((c, s), it.cur s), w)
       else match it.next s w with
        | (.ok true, s', w') => (.ok true, ((c + 1, s'), it.cur s'), w')
        | (.ok false, s', w') => (.ok false, ((c, s'), it.cur s'), w')
        | (.err e, s', w') => (.err e, ((c, s'), it.cur s'), w')) := by
  by_cases h : c ≥ n
  · simp [h]
  · simp only [h, if_false]
    rcases hn : it.next s w with ⟨o, s', w'⟩
    cases o with
    | ok b => cases b <;> rfl
    | err e => rfl

/-- the size hint of `take(n)` over a pure stream, after `c` elements were taken -/
theorem take_hint (n : Nat) (it : Iter α σ ε) (xs : List α) (c : Nat) (cache : α) (s : it.S) (hy : Yields it s xs) :
    ∀ h, (it.take n).hint ((c, s), cache) = some h → h = (xs.take (n - c)).length := by
  intro h hh
  simp only [Iter.take, Iter.wrap, Option.map_eq_some_iff] at hh
  obtain ⟨a, ha, rfl⟩ := hh
  rw [hy.hint_eq a ha, List.length_take]
  omega

/-- **C11_adaptor_take (pure).**  `take(n)` of a pure stream `xs` is the pure stream `xs.take n`. -/
theorem take_yields (n : Nat) (it : Iter α σ ε) : ∀ (xs : List α) (c : Nat) (cache : α) (s : it.S),
    c ≤ n → Yields it s xs → Yields (it.take n) ((c, s), cache) (xs.take (n - c)) := by
  intro xs
  induction xs with
  | nil =>
    intro c cache s hc hy
    have hH := take_hint n it [] c cache s hy
    simp only [List.take_nil] at hH ⊢
    refine ⟨by simpa using hH, fun w => ?_⟩
    rw [take_next]
    by_cases h : c ≥ n
    · exact ⟨((c, s), it.cur s), by simp [h]⟩
    · obtain ⟨s', hs⟩ := hy.2 w
      exact ⟨((c, s'), it.cur s'), by simp [h, hs]⟩
  | cons x xs ih =>
    intro c cache s hc hy
    have hH := take_hint n it (x :: xs) c cache s hy
    by_cases h : c ≥ n
    · have : n - c = 0 := by omega
      rw [this, List.take_zero] at hH ⊢
      refine ⟨by simpa using hH, fun w => ?_⟩
      rw [take_next]
      exact ⟨((c, s), it.cur s), by simp [h]⟩
    · have : n - c = (n - (c + 1)) + 1 := by omega
      rw [this, List.take_succ_cons] at hH ⊢
      refine ⟨by simpa using hH, fun w => ?_⟩
      obtain ⟨s', h1, h2, h3⟩ := hy.2 w
      rw [take_next]
      refine ⟨((c + 1, s'), it.cur s'), by simp [h, h1], h2, ?_⟩
      exact ih (c + 1) _ s' (by omega) h3

theorem C11_adaptor_take (n : Nat) (it : Iter α σ ε) (xs : List α) (hy : Yields it it.st xs) :
    Yields (it.take n) (it.take n).st (xs.take n) := by
  have := take_yields n it xs 0 ValLike.nil it.st (Nat.zero_le _) hy
  simpa using this

/-- **C11_take_lazy.**  `it.map(f).take(n).list()` over a pure stream: `f` is called on the first `n` elements
only — `take` never pulls (and the callback never sees) element `n + 1`. -/
theorem take_map_collectLoop (f : Cb α σ ε) (n : Nat) (it : Iter α σ ε) : ∀ (xs : List α) (fuel : Nat) (acc : List α)
    (k : Nat) (c cache cache2 : α) (s : it.S) (w : σ), k ≤ n → Yields it s xs → xs.length < fuel →
    (collectLoop ((it.map f).take n) fuel acc ((k, ((c, s), cache)), cache2) w).1
      = (mapMS f (xs.take (n - k)) w).1.map (acc.reverse ++ ·) ∧
    (collectLoop ((it.map f).take n) fuel acc ((k, ((c, s), cache)), cache2) w).2.2
      = (mapMS f (xs.take (n - k)) w).2 := by
  intro xs
  induction xs with
  | nil =>
    intro fuel acc k c cache cache2 s w hk hy hf
    cases fuel with
    | zero => omega
    | succ j =>
      obtain ⟨s', h⟩ := hy.2 w
      simp only [List.take_nil, mapMS, collectLoop, take_next, map_next, h]
      by_cases hge : k ≥ n <;> simp [hge, Except.map]
  | cons x xs ih =>
    intro fuel acc k c cache cache2 s w hk hy hf
    cases fuel with
    | zero => simp at hf
    | succ j =>
      obtain ⟨s', h1, h2, h3⟩ := hy.2 w
      by_cases hge : k ≥ n
      · have : n - k = 0 := by omega
        simp [this, mapMS, collectLoop, take_next, hge, Except.map]
      · have hnk : n - k = (n - (k + 1)) + 1 := by omega
        rw [hnk, List.take_succ_cons]
        simp only [mapMS, collectLoop, take_next, map_next, hge, if_false, h1, h2]
        rcases hfx : f x w with ⟨r, w'⟩
        cases r with
        | error e => simp [Except.map]
        | ok y =>
          simp only []
          have := ih j (y :: acc) (k + 1) y y y s' w' (by omega) h3 (by simpa using hf)
          rw [this.1, this.2]
          refine ⟨?_, rfl⟩
          cases (mapMS f (List.take (n - (k + 1)) xs) w').1 <;> simp [Except.map]

theorem C11_take_lazy (f : Cb α σ ε) (n : Nat) (it : Iter α σ ε) (xs : List α) (w : σ)
    (hy : Yields it it.st xs) (hb : xs.length ≤ it.bound it.st) :
    (((it.map f).take n).collect w).res = (mapMS f (xs.take n) w).1 ∧
    (((it.map f).take n).collect w).w = (mapMS f (xs.take n) w).2 := by
  have := take_map_collectLoop f n it xs (it.bound it.st + 1) [] 0 ValLike.nil ValLike.nil ValLike.nil it.st w
    (Nat.zero_le _) hy (by omega)
  simp only [Iter.collect]
  refine ⟨?_, by simpa using this.2⟩
  have h1 := this.1
  simp only [Nat.sub_zero] at h1
  rw [h1]
  cases (mapMS f (xs.take n) w).1 <;> simp [Except.map]

/-! #### skip: closure and laziness -/

theorem skip_next (n : Nat) (it : Iter α σ ε) (c : Nat) (cache : α) (s : it.S) (w : σ) :
    (it.skip n).next ((c, s), cache) w =
      (match skipLoop it (n - c) c s w with
       | (.ok true, s', w') =>
         ((it.next s'.2 w').1, ((s'.1, (it.next s'.2 w').2.1), it.cur (it.next s'.2 w').2.1), (it.next s'.2 w').2.2)
       | (.ok false, s', w') => (.ok false, (s', it.cur s'.2), w')
       | (.err e, s', w') => (.err e, (s', it.cur s'.2), w')) := by
  simp only [Iter.skip, Iter.wrap]
  rcases h : skipLoop it (n - c) c s w with ⟨o, s', w'⟩
  cases o with
  | ok b => cases b <;> rfl
  | err e => rfl

/-- the skipping loop over a pure stream: it ends after `k` elements, or at the end of the stream -/
theorem skipLoop_yields (it : Iter α σ ε) : ∀ (k : Nat) (xs : List α) (c : Nat) (s : it.S) (w : σ), Yields it s xs →
    (k ≤ xs.length → ∃ s', skipLoop it k c s w = (.ok true, (c + k, s'), w) ∧ Yields it s' (xs.drop k)) ∧
    (xs.length < k → ∃ s', skipLoop it k c s w = (.ok false, (c + xs.length, s'), w)) := by
  intro k
  induction k with
  | zero =>
    intro xs c s w hy
    exact ⟨fun _ => ⟨s, rfl, by simpa using hy⟩, fun h => by omega⟩
  | succ k ih =>
    intro xs c s w hy
    cases xs with
    | nil =>
      obtain ⟨s', h⟩ := hy.2 w
      exact ⟨fun hh => by simp at hh, fun _ => ⟨s', by simp [skipLoop, h]⟩⟩
    | cons x xs =>
      obtain ⟨s', h1, _, h3⟩ := hy.2 w
      have := ih xs (c + 1) s' w h3
      refine ⟨fun hk => ?_, fun hk => ?_⟩
      · obtain ⟨s'', e, y⟩ := this.1 (by simpa using hk)
        refine ⟨s'', ?_, by simpa using y⟩
        simp only [skipLoop, h1, e]
        rw [show c + 1 + k = c + (k + 1) by omega]
      · obtain ⟨s'', e⟩ := this.2 (by simpa using hk)
        refine ⟨s'', ?_⟩
        simp only [skipLoop, h1, e, List.length_cons]
        rw [show c + 1 + xs.length = c + (xs.length + 1) by omega]

/-- the size hint of `skip(n)` over a pure stream, after `c` elements were skipped -/
theorem skip_hint (n : Nat) (it : Iter α σ ε) (xs : List α) (c : Nat) (cache : α) (s : it.S) (hy : Yields it s xs) :
    ∀ h, (it.skip n).hint ((c, s), cache) = some h → h = (xs.drop (n - c)).length := by
  intro h hh
  simp only [Iter.skip, Iter.wrap, Option.map_eq_some_iff] at hh
  obtain ⟨a, ha, rfl⟩ := hh
  rw [hy.hint_eq a ha, List.length_drop]

/-- once everything was skipped, `skip(n)` is the inner stream -/
theorem skip_done_yields (n : Nat) (it : Iter α σ ε) : ∀ (ys : List α) (c : Nat) (cache : α) (s : it.S),
    n ≤ c → Yields it s ys → Yields (it.skip n) ((c, s), cache) ys := by
  intro ys
  induction ys with
  | nil =>
    intro c cache s hc hy
    have h0 : n - c = 0 := by omega
    have hH := skip_hint n it [] c cache s hy
    refine ⟨by simpa using hH, fun w => ?_⟩
    obtain ⟨s', h⟩ := hy.2 w
    exact ⟨((c, s'), it.cur s'), by rw [skip_next, h0]; simp [skipLoop, h]⟩
  | cons y ys ih =>
    intro c cache s hc hy
    have h0 : n - c = 0 := by omega
    have hH := skip_hint n it (y :: ys) c cache s hy
    rw [h0] at hH
    refine ⟨by simpa using hH, fun w => ?_⟩
    obtain ⟨s', h1, h2, h3⟩ := hy.2 w
    exact ⟨((c, s'), it.cur s'), by rw [skip_next, h0]; simp [skipLoop, h1], h2, ih c _ s' hc h3⟩

/-- **C11_adaptor_skip (pure).**  `skip(n)` of a pure stream `xs` is the pure stream `xs.drop n` — for every
`n`, also past the end. -/
theorem skip_yields (n : Nat) (it : Iter α σ ε) (xs : List α) (c : Nat) (cache : α) (s : it.S)
    (hy : Yields it s xs) : Yields (it.skip n) ((c, s), cache) (xs.drop (n - c)) := by
  have hH := skip_hint n it xs c cache s hy
  have hl := skipLoop_yields it (n - c) xs c s
  cases hd : xs.drop (n - c) with
  | nil =>
    rw [hd] at hH
    refine ⟨by simpa using hH, fun w => ?_⟩
    rw [skip_next]
    by_cases hk : n - c ≤ xs.length
    · obtain ⟨s', e, y⟩ := (hl w hy).1 hk
      rw [hd] at y
      obtain ⟨s'', h⟩ := y.2 w
      exact ⟨((c + (n - c), s''), it.cur s''), by simp [e, h]⟩
    · obtain ⟨s', e⟩ := (hl w hy).2 (by omega)
      exact ⟨((c + xs.length, s'), it.cur s'), by simp [e]⟩
  | cons y ys =>
    rw [hd] at hH
    refine ⟨by simpa using hH, fun w => ?_⟩
    rw [skip_next]
    have hk : n - c ≤ xs.length := by
      have := congrArg List.length hd
      simp only [List.length_drop, List.length_cons] at this
      omega
    obtain ⟨s', e, yy⟩ := (hl w hy).1 hk
    rw [hd] at yy
    obtain ⟨s'', h1, h2, h3⟩ := yy.2 w
    exact ⟨((c + (n - c), s''), it.cur s''), by simp [e, h1], h2,
      skip_done_yields n it ys (c + (n - c)) _ s'' (by omega) h3⟩

theorem C11_adaptor_skip (n : Nat) (it : Iter α σ ε) (xs : List α) (hy : Yields it it.st xs) :
    Yields (it.skip n) (it.skip n).st (xs.drop n) := by
  have := skip_yields n it xs 0 ValLike.nil it.st hy
  simpa using this

/-! ##### `skip` over a stage with an effectful callback -/

theorem mapMS_append (f : Cb α σ ε) : ∀ (xs ys : List α) (w : σ),
    mapMS f (xs ++ ys) w = (match mapMS f xs w with
      | (.ok as, w') => ((mapMS f ys w').1.map (as ++ ·), (mapMS f ys w').2)
      | (.error e, w') => (.error e, w')) := by
  intro xs
  induction xs with
  | nil =>
    intro ys w
    simp only [List.nil_append, mapMS]
    rcases hm : mapMS f ys w with ⟨r, w'⟩
    cases r <;> simp [Except.map]
  | cons x xs ih =>
    intro ys w
    simp only [List.cons_append, mapMS]
    rcases hfx : f x w with ⟨r, w1⟩
    cases r with
    | error e => rfl
    | ok y =>
      simp only [ih ys w1]
      rcases hm : mapMS f xs w1 with ⟨r2, w2⟩
      cases r2 with
      | error e => rfl
      | ok as =>
        simp only [Except.map]
        cases (mapMS f ys w2).1 <;> simp [Except.map]

theorem mapMS_length (f : Cb α σ ε) : ∀ (xs ys : List α) (w : σ), (mapMS f xs w).1 = .ok ys → ys.length = xs.length := by
  intro xs
  induction xs with
  | nil => intro ys w h; simp [mapMS] at h; simp [← h]
  | cons x xs ih =>
    intro ys w h
    simp only [mapMS] at h
    rcases hfx : f x w with ⟨r, w1⟩
    rw [hfx] at h
    cases r with
    | error e => simp at h
    | ok y =>
      simp only [] at h
      cases hm : (mapMS f xs w1).1 with
      | error e => rw [hm] at h; simp [Except.map] at h
      | ok zs =>
        rw [hm] at h
        simp only [Except.map, Except.ok.injEq] at h
        rw [← h]
        simp [ih zs w1 hm]


/-- the skipping loop of `skip` over `it.map f`, `it` a pure stream: `f` runs on the skipped elements in order -/
theorem map_skipLoop (f : Cb α σ ε) (it : Iter α σ ε) : ∀ (k : Nat) (xs : List α) (c : Nat) (cv cache : α) (s : it.S) (w : σ),
    Yields it s xs →
    (match mapMS f (xs.take k) w with
     | (.error e, w') => ∃ st, skipLoop (it.map f) k c ((cv, s), cache) w = (.err e, st, w')
     | (.ok _, w') =>
       (k ≤ xs.length → ∃ cv' cache' s', skipLoop (it.map f) k c ((cv, s), cache) w
          = (.ok true, (c + k, ((cv', s'), cache')), w') ∧ Yields it s' (xs.drop k)) ∧
       (xs.length < k → ∃ st, skipLoop (it.map f) k c ((cv, s), cache) w = (.ok false, st, w'))) := by
  intro k
  induction k with
  | zero =>
    intro xs c cv cache s w hy
    simp only [List.take_zero, mapMS]
    exact ⟨fun _ => ⟨cv, cache, s, rfl, by simpa using hy⟩, fun h => by omega⟩
  | succ k ih =>
    intro xs c cv cache s w hy
    cases xs with
    | nil =>
      obtain ⟨s', h⟩ := hy.2 w
      simp only [List.take_nil, mapMS]
      refine ⟨fun hh => by simp at hh, fun _ => ?_⟩
      exact ⟨(c, ((cv, s'), cv)), by simp only [skipLoop, map_next, h]⟩
    | cons x xs =>
      obtain ⟨s', h1, h2, h3⟩ := hy.2 w
      simp only [List.take_succ_cons, mapMS, skipLoop, map_next, h1, h2]
      rcases hfx : f x w with ⟨r, w1⟩
      cases r with
      | error e => exact ⟨_, rfl⟩
      | ok y =>
        simp only []
        have := ih xs (c + 1) y y s' w1 h3
        rcases hm : mapMS f (xs.take k) w1 with ⟨r2, w2⟩
        rw [hm] at this
        cases r2 with
        | error e => simpa [Except.map] using this
        | ok as =>
          simp only [Except.map] at this ⊢
          refine ⟨fun hk => ?_, fun hk => ?_⟩
          · obtain ⟨cv', cache', s'', e, yy⟩ := this.1 (by simpa using hk)
            exact ⟨cv', cache', s'', by rw [e, show c + 1 + k = c + (k + 1) by omega], by simpa using yy⟩
          · exact this.2 (by simpa using hk)


/-- once everything was skipped, collecting `it.map(f).skip(n)` is collecting `it.map(f)` -/
theorem skip_map_collectLoop (f : Cb α σ ε) (n : Nat) (it : Iter α σ ε) : ∀ (xs : List α) (fuel : Nat) (acc : List α)
    (c : Nat) (cv cache cache2 : α) (s : it.S) (w : σ), n ≤ c → Yields it s xs → xs.length < fuel →
    (collectLoop ((it.map f).skip n) fuel acc ((c, ((cv, s), cache)), cache2) w).1
      = (mapMS f xs w).1.map (acc.reverse ++ ·) ∧
    (collectLoop ((it.map f).skip n) fuel acc ((c, ((cv, s), cache)), cache2) w).2.2 = (mapMS f xs w).2 := by
  intro xs
  induction xs with
  | nil =>
    intro fuel acc c cv cache cache2 s w hc hy hf
    have h0 : n - c = 0 := by omega
    cases fuel with
    | zero => omega
    | succ j =>
      obtain ⟨s', h⟩ := hy.2 w
      simp [mapMS, collectLoop, skip_next, h0, skipLoop, map_next, h, Except.map]
  | cons x xs ih =>
    intro fuel acc c cv cache cache2 s w hc hy hf
    have h0 : n - c = 0 := by omega
    cases fuel with
    | zero => simp at hf
    | succ j =>
      obtain ⟨s', h1, h2, h3⟩ := hy.2 w
      simp only [mapMS, collectLoop, skip_next, h0, skipLoop, map_next, h1, h2]
      rcases hfx : f x w with ⟨r, w'⟩
      cases r with
      | error e => simp [Except.map]
      | ok y =>
        simp only []
        have := ih j (y :: acc) c y y y s' w' hc h3 (by simpa using hf)
        rw [this.1, this.2]
        refine ⟨?_, rfl⟩
        cases (mapMS f xs w').1 <;> simp [Except.map]

/-- **C11_skip_lazy** (repaired D44).  `it.map(f).skip(n).list()` over a pure stream `xs`: nothing runs when
`skip` is called (`Iter.skip` does not even take the world); the traversal runs `f` on `x₁, x₂, …` in that
order, once each — on the skipped elements too —, stops at the first call that raises, and otherwise answers
`[f x₁, f x₂, …]` without its first `n` elements: it *is* `mapMS f xs` followed by `drop n`. -/
theorem C11_skip_lazy (f : Cb α σ ε) (n : Nat) (it : Iter α σ ε) (xs : List α) (w : σ)
    (hy : Yields it it.st xs) (hb : xs.length ≤ it.bound it.st) :
    (((it.map f).skip n).collect w).res = (mapMS f xs w).1.map (List.drop n) ∧
    (((it.map f).skip n).collect w).w = (mapMS f xs w).2 := by
  have hA := map_skipLoop f it n xs 0 ValLike.nil ValLike.nil it.st w hy
  have hsplit := mapMS_append f (xs.take n) (xs.drop n) w
  rw [List.take_append_drop] at hsplit
  simp only [Iter.collect]
  show (collectLoop ((it.map f).skip n) (it.bound it.st + 1) [] ((0, ((ValLike.nil, it.st), ValLike.nil)), ValLike.nil) w).1 = _ ∧
    (collectLoop ((it.map f).skip n) (it.bound it.st + 1) [] ((0, ((ValLike.nil, it.st), ValLike.nil)), ValLike.nil) w).2.2 = _
  simp only [collectLoop, skip_next, Nat.sub_zero]
  rcases hm : mapMS f (xs.take n) w with ⟨r, w1⟩
  rw [hm] at hA hsplit
  cases r with
  | error e =>
    obtain ⟨st, e1⟩ := hA
    simp only [] at hsplit
    rw [e1, hsplit]
    simp [Except.map]
  | ok as =>
    have hlen := mapMS_length f (xs.take n) as w (by rw [hm])
    simp only [] at hA hsplit
    by_cases hk : n ≤ xs.length
    · obtain ⟨cv', cache', s', e1, yy⟩ := hA.1 hk
      have hasn : as.length = n := by rw [hlen, List.length_take]; omega
      rw [e1, hsplit]
      simp only [map_next]
      cases hd : xs.drop n with
      | nil =>
        rw [hd] at yy
        obtain ⟨s'', h⟩ := yy.2 w1
        simp [h, mapMS, Except.map, hasn]
      | cons y ys =>
        rw [hd] at yy
        obtain ⟨s'', h1, h2, h3⟩ := yy.2 w1
        simp only [h1, h2, mapMS]
        rcases hfy : f y w1 with ⟨r2, w2⟩
        cases r2 with
        | error e => simp [Except.map]
        | ok v =>
          simp only []
          have hlen2 : ys.length < it.bound it.st := by
            have := congrArg List.length hd
            simp only [List.length_drop, List.length_cons] at this
            omega
          have := skip_map_collectLoop f n it ys (it.bound it.st) [v] (0 + n) v v v s'' w2 (by omega) h3 hlen2
          rw [this.1, this.2]
          refine ⟨?_, rfl⟩
          cases (mapMS f ys w2).1 <;> simp [Except.map, hasn]
    · obtain ⟨st, e1⟩ := hA.2 (by omega)
      have hd : xs.drop n = [] := List.drop_eq_nil_of_le (by omega)
      have hasn : as.length ≤ n := by rw [hlen, List.length_take]; omega
      rw [e1, hsplit, hd]
      simp [mapMS, Except.map, List.drop_eq_nil_of_le hasn]

/-! #### the fuel is always enough (`WB`) for what the API builds -/

theorem WB_ofList (xs : List α) (hinted : Bool) : (Iter.ofList xs hinted : Iter α σ ε).WB := by
  intro s w
  by_cases h : s.1.1 < xs.length
  · simp [h]; omega
  · simp [h]

theorem WB_times (max : Int) : (Iter.times max : Iter α σ ε).WB := by
  intro s w
  by_cases h : s.1 < max - 1
  · simp [h]; omega
  · simp [h]

theorem WB_until (lo hi stride : Int) (hs : 0 < stride) : (Iter.until lo hi stride : Iter α σ ε).WB := by
  intro s w
  by_cases h : s.1 < hi - stride
  · simp [h]; omega
  · simp [h]

theorem WB_take (n : Nat) (it : Iter α σ ε) (h : it.WB) : (it.take n).WB := by
  intro s w
  obtain ⟨⟨c, s⟩, cache⟩ := s
  have := take_next n it c cache s w
  rw [this]
  by_cases hc : c ≥ n
  · simp [hc]
  · simp only [hc, if_false]
    have hw := h s w
    rcases hn : it.next s w with ⟨o, s', w'⟩
    rw [hn] at hw
    cases o with
    | ok b => cases b <;> simpa using hw
    | err e => simpa using hw.1

theorem WB_map (f : Cb α σ ε) (it : Iter α σ ε) (h : it.WB) : (it.map f).WB := by
  intro s w
  obtain ⟨⟨c, s⟩, cache⟩ := s
  rw [map_next]
  have hw := h s w
  rcases hn : it.next s w with ⟨o, s', w'⟩
  rw [hn] at hw
  cases o with
  | ok b =>
    cases b with
    | true =>
      simp only []
      rcases hf : f (it.cur s') w' with ⟨r, w''⟩
      cases r with
      | ok v => simpa using hw
      | error e => simpa using hw.1
    | false => simpa using hw
  | err e => simpa using hw.1

theorem skipLoop_bound (it : Iter α σ ε) (h : it.WB) : ∀ (k c : Nat) (s : it.S) (w : σ),
    it.bound (skipLoop it k c s w).2.1.2 ≤ it.bound s := by
  intro k
  induction k with
  | zero => intro c s w; simp [skipLoop]
  | succ k ih =>
    intro c s w
    have hw := (h s w).1
    simp only [skipLoop]
    rcases hn : it.next s w with ⟨o, s', w'⟩
    rw [hn] at hw
    cases o with
    | ok b =>
      cases b with
      | true => exact Nat.le_trans (ih (c + 1) s' w') hw
      | false => simpa using hw
    | err e => simpa using hw

theorem WB_skip (n : Nat) (it : Iter α σ ε) (h : it.WB) : (it.skip n).WB := by
  intro s w
  obtain ⟨⟨c, s⟩, cache⟩ := s
  rw [skip_next]
  have hb := skipLoop_bound it h (n - c) c s w
  rcases hl : skipLoop it (n - c) c s w with ⟨o, s', w'⟩
  rw [hl] at hb
  cases o with
  | ok b =>
    cases b with
    | true =>
      have hw := h s'.2 w'
      exact ⟨Nat.le_trans hw.1 hb, fun ht => Nat.lt_of_lt_of_le (hw.2 ht) hb⟩
    | false => simpa using hb
  | err e => simpa using hb

/-! #### chain and zip of two pure streams -/

/-- the size hint of `a.chain(b)` while `a` is being read: the sum -/
theorem chain2_hint0 (a b : Iter α σ ε) (xs ys : List α) (c cache : α) (sa : a.S) (sb : b.S)
    (ha : Yields a sa xs) (hb : Yields b sb ys) :
    ∀ h, (Iter.chain (Multi.ofList [a, b])).hint ((c, 0, (sa, (sb, ()))), cache) = some h →
      h = (xs ++ ys).length := by
  intro h hh
  simp only [Iter.chain, Iter.wrap, Multi.ofList, Multi.cons, Multi.nil, chainHint] at hh
  cases h1 : a.hint sa with
  | none => simp [h1] at hh
  | some x =>
    cases h2 : b.hint sb with
    | none => simp [h1, h2] at hh
    | some y =>
      simp [h1, h2] at hh
      rw [List.length_append, ← ha.hint_eq x h1, ← hb.hint_eq y h2]
      omega

/-- the size hint of `a.chain(b)` once `a` has ended: what is left of `b` (whatever `a` says after its end) -/
theorem chain2_hint1 (a b : Iter α σ ε) (zs : List α) (c cache : α) (sa : a.S) (sb : b.S) (hb : Yields b sb zs) :
    ∀ h, (Iter.chain (Multi.ofList [a, b])).hint ((c, 1, (sa, (sb, ()))), cache) = some h → h = zs.length := by
  intro h hh
  simp only [Iter.chain, Iter.wrap, Multi.ofList, Multi.cons, Multi.nil, chainHint] at hh
  cases h2 : b.hint sb with
  | none => simp [h2] at hh
  | some y =>
    simp [h2] at hh
    rw [← hb.hint_eq y h2]
    omega

/-- **C11_adaptor_chain (two pure streams).**  `a.chain(b)` is `xs ++ ys`; `b` is not touched before `a` has
ended. -/
theorem chain2_yields (a b : Iter α σ ε) : ∀ (xs ys : List α) (c cache : α) (sa : a.S) (sb : b.S),
    Yields a sa xs → Yields b sb ys →
    Yields (Iter.chain (Multi.ofList [a, b])) ((c, 0, (sa, (sb, ()))), cache) (xs ++ ys) := by
  intro xs
  induction xs with
  | nil =>
    intro ys c cache sa sb ha hb
    simp only [List.nil_append]
    cases ys with
    | nil =>
      refine ⟨by simpa using chain2_hint0 a b [] [] c cache sa sb ha hb, fun w => ?_⟩
      obtain ⟨sa', h1⟩ := ha.2 w
      obtain ⟨sb', h2⟩ := hb.2 w
      exact ⟨((c, 2, (sa', (sb', ()))), c), by simp [Multi.ofList, Multi.cons, Multi.nil, chainLoop, h1, h2]⟩
    | cons y ys =>
      refine ⟨by simpa using chain2_hint0 a b [] (y :: ys) c cache sa sb ha hb, fun w => ?_⟩
      obtain ⟨sa', h1⟩ := ha.2 w
      obtain ⟨sb', h2, h3, h4⟩ := hb.2 w
      refine ⟨((b.cur sb', 1, (sa', (sb', ()))), b.cur sb'),
        by simp [Multi.ofList, Multi.cons, Multi.nil, chainLoop, h1, h2], h3, ?_⟩
      -- from here on only `b` is pulled; `a` stays where it ended
      have key : ∀ (zs : List α) (c cache : α) (sb : b.S), Yields b sb zs →
          Yields (Iter.chain (Multi.ofList [a, b])) ((c, 1, (sa', (sb, ()))), cache) zs := by
        intro zs
        induction zs with
        | nil =>
          intro c cache sb hy
          refine ⟨by simpa using chain2_hint1 a b [] c cache sa' sb hy, fun w => ?_⟩
          obtain ⟨sb', hb⟩ := hy.2 w
          exact ⟨((c, 2, (sa', (sb', ()))), c), by simp [Multi.ofList, Multi.cons, Multi.nil, chainLoop, hb]⟩
        | cons z zs ih =>
          intro c cache sb hy
          refine ⟨by simpa using chain2_hint1 a b (z :: zs) c cache sa' sb hy, fun w => ?_⟩
          obtain ⟨sb', h1, h2, h3⟩ := hy.2 w
          exact ⟨((b.cur sb', 1, (sa', (sb', ()))), b.cur sb'),
            by simp [Multi.ofList, Multi.cons, Multi.nil, chainLoop, h1], h2, ih _ _ sb' h3⟩
      exact key ys _ _ sb' h4
  | cons x xs ih =>
    intro ys c cache sa sb ha hb
    refine ⟨by simpa using chain2_hint0 a b (x :: xs) ys c cache sa sb ha hb, fun w => ?_⟩
    obtain ⟨sa', h1, h2, h3⟩ := ha.2 w
    refine ⟨((a.cur sa', 0, (sa', (sb, ()))), a.cur sa'),
      by simp [Multi.ofList, Multi.cons, Multi.nil, chainLoop, h1], h2, ?_⟩
    exact ih ys _ _ sa' sb h3 hb

theorem C11_adaptor_chain (a b : Iter α σ ε) (xs ys : List α) (ha : Yields a a.st xs) (hb : Yields b b.st ys) :
    Yields (Iter.chain (Multi.ofList [a, b])) (Iter.chain (Multi.ofList [a, b])).st (xs ++ ys) :=
  chain2_yields a b xs ys ValLike.nil ValLike.nil a.st b.st ha hb

/-- the size hint of `a.zip(b)`: the smaller one (the fold starts from `usize::MAX`) -/
theorem zip2_hint (a b : Iter α σ ε) (xs ys : List α) (c cache : α) (sa : a.S) (sb : b.S)
    (hfit : min xs.length ys.length ≤ usizeMax) (ha : Yields a sa xs) (hb : Yields b sb ys) :
    ∀ h, (Iter.zip (Multi.ofList [a, b])).hint ((c, (sa, (sb, ()))), cache) = some h →
      h = (List.zipWith (fun x y => (ValLike.tup [x, y] : α)) xs ys).length := by
  intro h hh
  simp only [Iter.zip, Iter.wrap, Multi.ofList, Multi.cons, Multi.nil, zipHint] at hh
  cases h1 : a.hint sa with
  | none => simp [h1] at hh
  | some x =>
    cases h2 : b.hint sb with
    | none => simp [h1, h2] at hh
    | some y =>
      simp [h1, h2] at hh
      rw [List.length_zipWith, ← ha.hint_eq x h1, ← hb.hint_eq y h2] at *
      omega

/-- **C11_adaptor_zip (two pure streams).**  `a.zip(b)` yields the tuples `(xᵢ, yᵢ)` up to the shorter
length (which, like every length in the implementation, fits in a `usize`). -/
theorem zip2_yields (a b : Iter α σ ε) : ∀ (xs ys : List α) (c cache : α) (sa : a.S) (sb : b.S),
    min xs.length ys.length ≤ usizeMax → Yields a sa xs → Yields b sb ys →
    Yields (Iter.zip (Multi.ofList [a, b])) ((c, (sa, (sb, ()))), cache)
      (List.zipWith (fun x y => ValLike.tup [x, y]) xs ys) := by
  intro xs
  induction xs with
  | nil =>
    intro ys c cache sa sb hfit ha hb
    have hH := zip2_hint a b [] ys c cache sa sb hfit ha hb
    simp only [List.zipWith_nil_left] at hH ⊢
    refine ⟨by simpa using hH, fun w => ?_⟩
    obtain ⟨sa', h1⟩ := ha.2 w
    exact ⟨((c, (sa', (sb, ()))), c), by simp [Multi.ofList, Multi.cons, Multi.nil, zipLoop, h1]⟩
  | cons x xs ih =>
    intro ys c cache sa sb hfit ha hb
    have hH := zip2_hint a b (x :: xs) ys c cache sa sb hfit ha hb
    cases ys with
    | nil =>
      simp only [List.zipWith_nil_right] at hH ⊢
      refine ⟨by simpa using hH, fun w => ?_⟩
      obtain ⟨sa', h1, _, _⟩ := ha.2 w
      obtain ⟨sb', h2⟩ := hb.2 w
      exact ⟨((c, (sa', (sb', ()))), c), by simp [Multi.ofList, Multi.cons, Multi.nil, zipLoop, h1, h2]⟩
    | cons y ys =>
      simp only [List.zipWith_cons_cons] at hH ⊢
      refine ⟨by simpa using hH, fun w => ?_⟩
      obtain ⟨sa', h1, h2, h3⟩ := ha.2 w
      obtain ⟨sb', g1, g2, g3⟩ := hb.2 w
      refine ⟨((ValLike.tup [a.cur sa', b.cur sb'], (sa', (sb', ()))), ValLike.tup [a.cur sa', b.cur sb']),
        by simp [Multi.ofList, Multi.cons, Multi.nil, zipLoop, h1, g1], by simp [h2, g2], ?_⟩
      exact ih ys _ _ sa' sb' (by simp only [List.length_cons] at hfit; omega) h3 g3

theorem C11_adaptor_zip (a b : Iter α σ ε) (xs ys : List α) (hfit : min xs.length ys.length ≤ usizeMax)
    (ha : Yields a a.st xs) (hb : Yields b b.st ys) :
    Yields (Iter.zip (Multi.ofList [a, b])) (Iter.zip (Multi.ofList [a, b])).st
      (List.zipWith (fun x y => ValLike.tup [x, y]) xs ys) :=
  zip2_yields a b xs ys ValLike.nil ValLike.nil a.st b.st hfit ha hb

example : min [1, 2, 3].length [4, 5].length ≤ usizeMax := by decide

/-! #### arguments declared `Enumerator`: `zip`, `chain`, `List.collect`, `Tuple.collect` -/

theorem enumArgs_iters (its : List (Iter α σ ε)) : enumArgs (its.map EArg.iter) = .ok its := by
  induction its with
  | nil => rfl
  | cons it its ih => simp [enumArgs, ih]

theorem enumArgs_other (args : List (EArg α σ ε)) (h : EArg.other ∈ args) : enumArgs args = .error .runtime := by
  induction args with
  | nil => simp at h
  | cons a args ih =>
    cases a with
    | other => rfl
    | iter it =>
      have : EArg.other ∈ args := by simpa using h
      simp [enumArgs, ih this]

/-- **C11_enumerator_arguments** (repaired by `546c031`).  `zip`, `chain`, `List.collect` and `Tuple.collect`
declare their arguments as iterators: when every argument is one, the call is the adaptor / the collection
of `Model/CollectionsIter.lean`; when any argument is not (a number, nil, a list, …) the signature check
raises `RuntimeError` — the native is not entered, no iterator is advanced, nothing is reinterpreted as an
iterator.  (Before the repair the parameter kind was `Object` and the value was cast unchecked.) -/
theorem C11_enumerator_arguments (it : Iter α σ ε) (w : σ) :
    (∀ its : List (Iter α σ ε),
      it.zipNew (its.map EArg.iter) = .ok (Iter.zip (Multi.ofList (it :: its))) ∧
      it.chainNew (its.map EArg.iter) = .ok (Iter.chain (Multi.ofList (it :: its)))) ∧
    (∀ args : List (EArg α σ ε), EArg.other ∈ args →
      it.zipNew args = .error .runtime ∧ it.chainNew args = .error .runtime) ∧
    collectArg (.iter it) w = some (it.collect w) ∧
    collectArg (EArg.other : EArg α σ ε) w = none := by
  refine ⟨fun its => ?_, fun args h => ?_, rfl, rfl⟩
  · simp [Iter.zipNew, Iter.chainNew, enumArgs_iters]
  · simp [Iter.zipNew, Iter.chainNew, enumArgs_other args h]

/-! #### witnesses for the findings in the iterator natives -/

/-- a small value type for closed examples -/
instance : ValLike (List Int) where
  nil := []
  truthy := fun l => !l.isEmpty
  tup := fun ls => ls.flatten
  num := fun i => [i]

/-- `len()` after one `next` (repaired D41): the two elements that are left, and `len` did not advance -/
example :
    let it : Iter (List Int) Unit Unit := Iter.ofList [[1], [2], [3]]
    ((it.step ()).2.1.len ()).res = .ok 2 ∧ ((((it.step ()).2.1.len ()).it.collect ()).res = .ok [[2], [3]]) ∧
    ((((it.step ()).2.1.take 1).len ()).res = .ok 1) ∧ ((((it.step ()).2.1.skip 1).len ()).res = .ok 1) := by
  decide

/-- `skip` over a logging `map` (repaired D44): the log is empty until the result is advanced, then `f` has seen
every element, the skipped one too; a callback that raises on a skipped element raises at the traversal -/
example :
    let f : Cb (List Int) (List (List Int)) Unit := fun x w => (.ok x, w ++ [x])
    let g : Cb (List Int) (List (List Int)) Unit := fun x w => if x = [1] then (.error (), w ++ [x]) else (.ok x, w ++ [x])
    let it : Iter (List Int) (List (List Int)) Unit := Iter.ofList [[1], [2], [3]]
    (((it.map f).skip 1).collect []).res = .ok [[2], [3]] ∧ (((it.map f).skip 1).collect []).w = [[1], [2], [3]] ∧
    (((it.map f).skip 1).step []).2.2 = [[1], [2]] ∧ (((it.map f).skip 1).step []).2.1.current = [2] ∧
    (((it.map g).skip 1).collect []).res = .error () ∧ (((it.map f).skip 5).collect []).res = .ok [] := by
  decide

/-- non-vacuity of the pure-stream theorems: a callback that logs into the world and raises on `[2]` -/
example :
    let f : Cb (List Int) (List (List Int)) Unit := fun x w => if x = [2] then (.error (), w ++ [x]) else (.ok x, w ++ [x])
    let it : Iter (List Int) (List (List Int)) Unit := Iter.ofList [[1], [2], [3]]
    ((it.map f).collect []).res = .error () ∧ ((it.map f).collect []).w = [[1], [2]] ∧
    (((it.map f).take 1).collect []).res = .ok [[1]] ∧ (((it.map f).take 1).collect []).w = [[1]] := by
  decide

end IterThm

/-! ## The native signature declarations (generated table) are the ones the model puts in front of each native -/

open LaytheVerif.Gen.CollSig in
/-- The rows of the regenerated `NativeMetaBuilder` table that the model relies on: which argument is checked
to be a number (`Arg.toNum` ⇒ `RuntimeError` for anything else), a string, a callable or an iterator
(`EArg.other` ⇒ `RuntimeError`), and the arities (`slice` takes 0–2 numbers, `until` 1–2, `push`/`zip`/`chain`
are variadic).  An edit to one of these declarations in the Rust text changes `Gen/CollSignatures.lean` and
re-opens this lemma. -/
def modelledSignatures : List Row := [
  { file := "list", name := "[]", method := true, arity := .fixed 1, params := [.number] },
  { file := "list", name := "[]=", method := true, arity := .fixed 2, params := [.object, .number] },
  { file := "list", name := "insert", method := true, arity := .fixed 2, params := [.number, .object] },
  { file := "list", name := "remove", method := true, arity := .fixed 1, params := [.number] },
  { file := "list", name := "push", method := true, arity := .variadic 0, params := [.object] },
  { file := "list", name := "pop", method := true, arity := .fixed 0, params := [] },
  { file := "list", name := "slice", method := true, arity := .dflt 0 2, params := [.number, .number] },
  { file := "list", name := "has", method := true, arity := .fixed 1, params := [.object] },
  { file := "list", name := "index", method := true, arity := .fixed 1, params := [.object] },
  { file := "list", name := "sort", method := true, arity := .fixed 1, params := [.callable] },
  { file := "list", name := "collect", method := false, arity := .fixed 1, params := [.enumerator] },
  { file := "tuple", name := "[]", method := true, arity := .fixed 1, params := [.number] },
  { file := "tuple", name := "slice", method := true, arity := .dflt 0 2, params := [.number, .number] },
  { file := "tuple", name := "collect", method := false, arity := .fixed 1, params := [.enumerator] },
  { file := "string", name := "[]", method := true, arity := .fixed 1, params := [.number] },
  { file := "string", name := "slice", method := true, arity := .dflt 0 2, params := [.number, .number] },
  { file := "string", name := "has", method := true, arity := .fixed 1, params := [.string] },
  { file := "string", name := "split", method := true, arity := .fixed 1, params := [.string] },
  { file := "map", name := "[]", method := true, arity := .fixed 1, params := [.object] },
  { file := "map", name := "remove", method := true, arity := .fixed 1, params := [.object] },
  { file := "iter", name := "take", method := true, arity := .fixed 1, params := [.number] },
  { file := "iter", name := "skip", method := true, arity := .fixed 1, params := [.number] },
  { file := "iter", name := "map", method := true, arity := .fixed 1, params := [.callable] },
  { file := "iter", name := "filter", method := true, arity := .fixed 1, params := [.callable] },
  { file := "iter", name := "reduce", method := true, arity := .fixed 2, params := [.object, .callable] },
  { file := "iter", name := "each", method := true, arity := .fixed 1, params := [.callable] },
  { file := "iter", name := "all", method := true, arity := .fixed 1, params := [.callable] },
  { file := "iter", name := "any", method := true, arity := .fixed 1, params := [.callable] },
  { file := "iter", name := "zip", method := true, arity := .variadic 0, params := [.enumerator] },
  { file := "iter", name := "chain", method := true, arity := .variadic 0, params := [.enumerator] },
  { file := "iter", name := "into", method := true, arity := .fixed 1, params := [.callable] },
  { file := "iter", name := "len", method := true, arity := .fixed 0, params := [] },
  { file := "number", name := "times", method := true, arity := .fixed 0, params := [] },
  { file := "number", name := "until", method := true, arity := .dflt 1 2, params := [.number, .number] } ]

theorem C11_signatures_as_modelled :
    modelledSignatures.all (fun r => LaytheVerif.Gen.CollSig.table.contains r) = true := by decide

/-- the model's `PKind` for a generated `ParameterKind` -/
def kindOf : LaytheVerif.Gen.CollSig.Kind → PKind
  | .object => .object | .bool => .bool | .number => .number | .string => .string
  | .callable => .callable | .enumerator => .enumerator | .cls => .cls

/-- the model's `Shape` of a value of `ValueKind` `vk` (and `ObjectKind` `ok` when `vk = "Obj"`); `Undefined`
never reaches a native -/
def shapeOf (vk ok : String) : Option Shape :=
  if vk = "Nil" then some .nil
  else if vk = "Bool" then some .bool
  else if vk = "Number" then some .number
  else if vk = "Obj" then
    some (if ok = "String" then .string
      else if ok = "Closure" ∨ ok = "Fun" ∨ ok = "Native" ∨ ok = "Method" then .callable
      else if ok = "Enumerator" then .enumerator
      else if ok = "Class" then .cls
      else .otherObj)
  else none

/-- **C11_isValid_as_modelled.**  The regenerated `ParameterKind::is_valid` (its early return and every arm of
its match, over every `ParameterKind` × `ValueKind` × `ObjectKind` of the Rust enums) is the model's
`PKind.isValid`.  In particular a parameter declared `Number` accepts numbers only and one declared
`Enumerator` accepts iterators only (`isValid_number`, `isValid_enumerator`): the `RuntimeError` branches of
`Arg.toNum` and `enumArgs`.  Adding a parameter kind, or changing what one accepts, re-opens this lemma. -/
theorem C11_isValid_as_modelled :
    (LaytheVerif.Gen.CollSig.allKinds.all fun k =>
      LaytheVerif.Gen.CollSig.valueKinds.all fun vk =>
        LaytheVerif.Gen.CollSig.objectKinds.all fun ok =>
          match shapeOf vk ok with
          | some sh => LaytheVerif.Gen.CollSig.isValid k vk ok == (kindOf k).isValid sh
          | none => true) = true := by decide

/-- **C11_guards_as_modelled.**  The guard texts the list model mirrors, regenerated from the Rust text:
`ensure_capacity` grows when `needed > cap` to `(cap * 2).max(needed)` (`RawVec.ensureCapacity`), `push` and
`insert` ask for `len + 1`; `ListRemove` / `ListInsert` reject `index.fract() != 0.0` and then `index < 0.0`
before `index as usize` (`listRemove` / `listInsert`); `ListSort` answers the recorded failure when there is one
(`sortM`).  An edit of any of these texts — e.g. taking one of the repairs `c7f979c`, `ca8f885`, `e424053` back —
re-opens this lemma. -/
theorem C11_guards_as_modelled :
    LaytheVerif.Gen.CollSig.ensureCapacity = ("needed > cap", "(cap * 2).max(needed)") ∧
    LaytheVerif.Gen.CollSig.ensureCapacityNeeded = ["len + 1", "len + 1"] ∧
    LaytheVerif.Gen.CollSig.removeGuards = ["index.fract() != 0.0", "index < 0.0"] ∧
    LaytheVerif.Gen.CollSig.insertGuards = ["index.fract() != 0.0", "index < 0.0"] ∧
    LaytheVerif.Gen.CollSig.sortAnswer =
      "match failure { Some(failure) => failure, None => Call::Ok(val!(list)), }" := by decide

/-- **C11_iter_hints_as_modelled.**  What `Iter.len` answers and `Iter.list` / `collect` reserve, regenerated
from the Rust text: the `size_hint` of every iterator of the primitives is the one of the model — what is
*left* (`Iter.ofList`: `len - index`; `Iter.times`: `max - current`; `Iter.take`: `min hint (take_count -
current)`; `Iter.skip`: `hint - (skip_count - current)`; `Iter.map`: the inner hint; `Iter.zip`: the minimum
from `usize::MAX`; `Iter.chain`: the sum from `iter_index` on; `filter`, `until`, the string iterators: none;
the hash-map iterator, which the model does not cover, answers the length of the underlying table iterator) —
and `Iter.skip` is lazy: `IterSkip::call` pulls nothing, the skipping loop is the head of `SkipIterator::next`
(`skipLoop`).  Taking the repair of D41 (`b06a207`) or of D44 (`4c2a4d6`) back re-opens this lemma. -/
theorem C11_iter_hints_as_modelled :
    LaytheVerif.Gen.CollSig.sizeHints = [
      ("ListIterator", "Some(self.list.len().saturating_sub(self.index))"),
      ("TupleIterator", "Some(self.tuple.len() - self.index)"),
      ("SplitIterator", "None"),
      ("StringIterator", "None"),
      ("MapIterator", "Some(self.iter.len())"),
      ("TakeIterator", "self.iter.size_hint().map(|hint| hint.min(self.take_count - self.current))"),
      ("SkipIterator", "self.iter.size_hint().map(|hint| hint.saturating_sub(self.skip_count - self.current))"),
      ("MapIterator", "self.iter.size_hint()"),
      ("FilterIterator", "None"),
      ("ZipIterator", "use std::cmp; self.iters.iter().try_fold(usize::MAX, |acc, current| { current.size_hint().map(|current| cmp::min(acc, current)) })"),
      ("ChainIterator", "self.iters.iter().skip(self.iter_index).try_fold(0, |acc, current| { current.size_hint().map(|current| acc + current) })"),
      ("TimesIterator", "Some((self.max - self.current) as usize)"),
      ("UntilIterator", "None")] ∧
    LaytheVerif.Gen.CollSig.skipCallNexts = 0 ∧
    LaytheVerif.Gen.CollSig.skipNext =
      "while self.current < self.skip_count { if is_falsey(self.iter.next(hooks)?) { return Call::Ok(val!(false)); } self.current += 1; } self.iter.next(hooks)" :=
  ⟨rfl, rfl, rfl⟩

theorem isValid_number (sh : Shape) : PKind.number.isValid sh = true ↔ sh = .number := by
  cases sh <;> simp [PKind.isValid]

theorem isValid_enumerator (sh : Shape) : PKind.enumerator.isValid sh = true ↔ sh = .enumerator := by
  cases sh <;> simp [PKind.isValid]

/-!
## What is proved, and what is not

Proved for all lengths, indices, element types and histories: `C11_index_norm`, `determineIndex_eq_spec`,
`C11_slice`, `C11_list_refines_seq` (every capacity, every argument: no envelope) with
`C11_list_no_write_outside`, `C11_list_error_unchanged`, `C11_list_index_validation`; `C11_sort_perm`,
`C11_sort_sorted`, `C11_sort_ints`, `C11_sort_error_is_comparator_failure`, `C11_sort_returns_comparator_failure`; `C11_tuple`, `C11_string_index`,
`C11_string_slice`, `C11_string_has`, `C11_map_refines_finmap`; for every iterator state machine that is a pure
stream (`Yields`): `C11_source_list`, `C11_source_times`, `C11_collect`, `C11_adaptor_map`, `C11_adaptor_filter`,
`C11_adaptor_take`, `C11_take_lazy`, `C11_adaptor_skip` (every `n`), `C11_skip_lazy`, `C11_adaptor_chain`,
`C11_adaptor_zip`, `C11_each`, `C11_reduce`, `C11_all_any`, `C11_first_last_len` (`len` = what is left, with or
without a size hint: `Yields` carries the exactness of the size hint at every point of the stream, and every
source / adaptor theorem establishes it), the fuel lemmas `WB_*`, `C11_enumerator_arguments`; and the ties
to the regenerated tables `C11_signatures_as_modelled`, `C11_isValid_as_modelled`, `C11_guards_as_modelled`,
`C11_iter_hints_as_modelled`.

Partial (tied to the implementation on the streams, not proved):
* `C11_string_split_partial` — only `join (split s sep) = s`;
* `chain`/`zip` are proved for two streams (the model is n-ary); `until` has a `WB` lemma but no `Yields` lemma;
* a pipeline with *several* effectful callback stages is characterised only through `C11_adaptor_map`,
  `C11_adaptor_filter`, `C11_take_lazy` and `C11_skip_lazy` (one effectful stage over a pure stream, and `take` /
  `skip` over it); the size hint of such a pipeline (what `len` answers without running the callbacks) is the
  number of elements it yields *if no callback raises*;
* `sort`: a permutation (`C11_sort_perm`), sorted for a consistent comparator (`C11_sort_sorted`), failures are
  the comparator's; *stability* (equal elements keep their order) is compared against `List.mergeSort` on the
  streams only, and the model is an insertion sort (which comparisons run is the library's choice);
* aliasing between iterators and mutation of a list while it is iterated are outside the model.

No finding is open: D41 (size hints were the length of the whole source) and D44 (`skip` consumed when it was
called) are repaired; their witness theorems are gone, `C11_first_last_len` lost its `sizeHint = none` guard,
`C11_adaptor_skip` its `n ≤ xs.length`, and `Iter.skipNew` (a constructor that ran callbacks) no longer exists.
-/

end LaytheVerif.C11
