/-
C17 — Modules run once and expose exactly their exports; an import path names what the source says.
Theorems about `Model/Imports.lean`; no bound on the number of files, the length of the bodies, the
length of import paths, the number / order / form of imports, or the number of machine steps.

Run-once and exports (acyclic graphs): `C17_body_once`, `C17_importer_waits`, `C17_exports_exact`
(+ `_whole`, `_symbol`), `C17_errors_not_exported`, `C17_errors_missing_module`, `C17_no_panic`.
Packages (every graph): `C17_packages_constant` (loading a user module — named `std`, `io`, anything —
registers no package), `C17_foreign_resolution` (`std.p` is the library's module or an import error,
any other package name an import error, in every reachable state), `C17_self_resolution` (`self.p`
is the file of path `p`, completed).  Source ties: `C17_package_writes_gen`, `C17_stdModules_gen`.
-/
import LaytheVerif.Lemmas.Imports
import LaytheVerif.Gen.Packages
namespace LaytheVerif.Imports

/-! ### trace predicates -/

def Event.startPos? : Event → Option Path
  | .start _ p => some p
  | _ => none

/-- what must already have happened when an event is logged -/
def Event.ok (older : List Event) : Event → Prop
  | .boundObj _ _ pos _ => Event.finish pos ∈ older
  | .boundSym _ _ pos _ _ => Event.finish pos ∈ older
  | .finish pos => ∃ f, Event.start f pos ∈ older
  | .start _ _ => True

/-- (newest first) every binding of a module's object or symbol is preceded by the completion of
that module's body, and every completion by its start -/
def BindOk : List Event → Prop
  | [] => True
  | e :: older => e.ok older ∧ BindOk older

end LaytheVerif.Imports

namespace LaytheVerif.C17
open LaytheVerif.Imports

/-! ### hypotheses (all decidable for a concrete graph and rank) -/

/-- main script and files, as (path, body) -/
def units (g : Graph) : List (Path × List Stmt) := ([], g.main) :: g.files

/-- The module graph is acyclic: `rank` strictly decreases along every import edge, where an import
of `self.a.b` has an edge to every file it may load (`a.lay`, then `a/b.lay`).  A module importing
its own child (`a.lay` importing `self.a.b`) is allowed: the prefix is the importer itself, which is
already in the package tree.  `import self;` (empty path: the main script) is a cycle by itself. -/
def Acyclic (g : Graph) (rank : Path → Nat) : Prop :=
  ∀ u ∈ units g, ∀ p ∈ importPaths u.2, p ≠ [] ∧
    ∀ q ∈ prefixes p, (g.file? q).isSome = true → rank q < rank u.1 ∨ (q = u.1 ∧ q ≠ p)

/-! ### the invariant (over the control skeleton only) -/

structure Inv (g : Graph) (rank : Path → Nat) (I : Path → Option (Path × Bool))
    (frames : List Frame) (cache : List (Path × Path)) (log : List Event) : Prop where
  root : (I []).isSome = true
  posFile : ∀ p f d, I p = some (f, d) → f = p
  isFile : ∀ p, (I p).isSome = true → p ≠ [] → (g.file? p).isSome = true
  prefixClosed : ∀ p x, (I (p ++ [x])).isSome = true → (I p).isSome = true
  frameMod : ∀ fr ∈ frames, ∃ f, I fr.mod = some (f, false)
  notDone : ∀ p f, I p = some (f, false) → p ∈ frames.map (·.mod)
  suffix : ∀ fr ∈ frames, fr.body <:+ expand (g.body fr.mod)
  ranks : frames.Pairwise (fun c p => rank c.mod < rank p.mod)
  cacheOk : ∀ k pos, lookupPath k cache = some pos → pos = k ∧ ∃ f, I k = some (f, true)
  logStart : ∀ f p, Event.start f p ∈ log → f = p ∧ (I p).isSome = true
  startLogged : ∀ p, (I p).isSome = true → ∃ f, Event.start f p ∈ log
  startsNodup : (log.filterMap Event.startPos?).Nodup
  logFinish : ∀ p, Event.finish p ∈ log ↔ ∃ f, I p = some (f, true)
  bindOk : BindOk log

theorem mem_importPaths_expand (body : List Stmt) (p : Path) (h : p ∈ importPaths (expand body)) :
    p ∈ importPaths body := by
  induction body with
  | nil => simpa [expand, importPaths] using h
  | cons st rest ih =>
    cases st with
    | importSyms q syms =>
      simp only [expand, importPaths, List.filterMap_append, List.mem_append, List.filterMap_cons,
        Stmt.importPath?] at h ⊢
      rcases h with h | h
      · simp only [List.mem_filterMap, List.mem_map] at h
        obtain ⟨st, ⟨x, _, rfl⟩, hst⟩ := h
        simp [Stmt.importPath?] at hst
        simp [hst]
      · exact List.mem_cons_of_mem _ (ih h)
    | importWhole q r =>
      simp only [expand, importPaths, List.filterMap_cons, Stmt.importPath?, List.mem_cons] at h ⊢
      rcases h with h | h
      · exact Or.inl h
      · exact Or.inr (ih h)
    | importSym q sy r =>
      simp only [expand, importPaths, List.filterMap_cons, Stmt.importPath?, List.mem_cons] at h ⊢
      rcases h with h | h
      · exact Or.inl h
      · exact Or.inr (ih h)
    | mark _ => simpa [expand, importPaths, Stmt.importPath?] using ih (by simpa [expand, importPaths, Stmt.importPath?] using h)
    | decl _ _ _ _ => simpa [expand, importPaths, Stmt.importPath?] using ih (by simpa [expand, importPaths, Stmt.importPath?] using h)
    | declAcc _ _ _ => simpa [expand, importPaths, Stmt.importPath?] using ih (by simpa [expand, importPaths, Stmt.importPath?] using h)
    | assign _ _ => simpa [expand, importPaths, Stmt.importPath?] using ih (by simpa [expand, importPaths, Stmt.importPath?] using h)
    | emit _ _ => simpa [expand, importPaths, Stmt.importPath?] using ih (by simpa [expand, importPaths, Stmt.importPath?] using h)
    | importPkg _ _ _ => simpa [expand, importPaths, Stmt.importPath?] using ih (by simpa [expand, importPaths, Stmt.importPath?] using h)

/-- every import path of the body of `me` belongs to a unit of the graph with path `me` -/
theorem body_unit (g : Graph) (me p : Path) (h : p ∈ importPaths (g.body me)) :
    ∃ u ∈ units g, u.1 = me ∧ p ∈ importPaths u.2 := by
  unfold Graph.body at h
  split at h
  · exact ⟨([], g.main), by simp [units], by simp [*], h⟩
  · unfold Graph.file? at h
    cases hf : g.files.find? (fun f => f.1 == me) with
    | none => simp [hf, importPaths] at h
    | some f =>
      simp only [hf, Option.map_some, Option.getD_some] at h
      refine ⟨f, List.mem_cons_of_mem _ (List.mem_of_find?_eq_some hf), ?_, h⟩
      simpa using List.find?_some hf

theorem body_of_file (g : Graph) (q : Path) (body : List Stmt) (hq : q ≠ []) (h : g.file? q = some body) :
    g.body q = body := by
  simp [Graph.body, hq, h]

theorem prefixes_ne_nil (p q : Path) (h : q ∈ prefixes p) : q ≠ [] := by
  induction p generalizing q with
  | nil => simp [prefixes] at h
  | cons x rest ih =>
    simp only [prefixes, List.mem_cons, List.mem_map] at h
    rcases h with rfl | ⟨r, _, rfl⟩ <;> simp

theorem self_mem_prefixes (p : Path) (h : p ≠ []) : p ∈ prefixes p := by
  induction p with
  | nil => exact absurd rfl h
  | cons x rest ih =>
    cases rest with
    | nil => simp [prefixes]
    | cons y ys =>
      simp only [prefixes, List.mem_cons, List.mem_map]
      exact Or.inr ⟨y :: ys, by simpa [prefixes] using ih (by simp), rfl⟩

/-! ### preservation, case by case -/

variable {g : Graph} {rank : Path → Nat} {I : Path → Option (Path × Bool)}
  {frames : List Frame} {cache : List (Path × Path)} {log : List Event}

/-- the running fiber advances (its module is unchanged, the remaining body is a suffix) -/
theorem Inv.advance (h : Inv g rank I (fr :: rest) cache log) (more : List Stmt) (hs : more <:+ fr.body) :
    Inv g rank I ({ fr with body := more } :: rest) cache log where
  root := h.root
  posFile := h.posFile
  isFile := h.isFile
  prefixClosed := h.prefixClosed
  frameMod := by
    intro fr' hfr'
    rcases List.mem_cons.mp hfr' with rfl | h'
    · exact h.frameMod fr (List.mem_cons_self ..)
    · exact h.frameMod fr' (List.mem_cons_of_mem _ h')
  notDone := by
    intro p f hp
    simpa using h.notDone p f hp
  suffix := by
    intro fr' hfr'
    rcases List.mem_cons.mp hfr' with rfl | h'
    · exact List.IsSuffix.trans hs (h.suffix fr (List.mem_cons_self ..))
    · exact h.suffix fr' (List.mem_cons_of_mem _ h')
  ranks := by
    have := h.ranks
    simp only [List.pairwise_cons] at this ⊢
    exact this
  cacheOk := h.cacheOk
  logStart := h.logStart
  startLogged := h.startLogged
  startsNodup := h.startsNodup
  logFinish := h.logFinish
  bindOk := h.bindOk

/-- `module_cache.insert(resolved, module)` for a completed module found in the tree -/
theorem Inv.cacheInsert (h : Inv g rank I frames cache log) (k : Path) (f : Path) (hk : I k = some (f, true)) :
    Inv g rank I frames ((k, k) :: cache) log :=
  { h with
    cacheOk := by
      intro k' pos hl
      simp only [lookupPath] at hl
      split at hl
      · rename_i heq
        cases hl
        exact ⟨heq, f, heq ▸ hk⟩
      · exact h.cacheOk k' pos hl }

/-- a binding event for a completed module is logged -/
theorem Inv.logBound (h : Inv g rank I frames cache log) (ev : Event) (pos f : Path)
    (hev : ev.boundPos? = some pos) (hdone : I pos = some (f, true)) :
    Inv g rank I frames cache (ev :: log) := by
  have hfin : Event.finish pos ∈ log := (h.logFinish pos).mpr ⟨f, hdone⟩
  have hns : ∀ f p, ev ≠ Event.start f p := by
    intro f p he; subst he; simp [Event.boundPos?] at hev
  have hnf : ∀ p, ev ≠ Event.finish p := by
    intro p he; subst he; simp [Event.boundPos?] at hev
  exact
  { h with
    logStart := by
      intro f p hm
      rcases List.mem_cons.mp hm with he | hm
      · exact absurd he.symm (hns f p)
      · exact h.logStart f p hm
    startLogged := fun p hp => (h.startLogged p hp).imp fun f hf => List.mem_cons_of_mem _ hf
    startsNodup := by
      have : Event.startPos? ev = none := by
        cases ev <;> simp [Event.startPos?, Event.boundPos?] at hev ⊢
      simpa [List.filterMap_cons, this] using h.startsNodup
    logFinish := by
      intro p
      rw [← h.logFinish p]
      constructor
      · intro hm
        rcases List.mem_cons.mp hm with he | hm
        · exact absurd he.symm (hnf p)
        · exact hm
      · exact List.mem_cons_of_mem _
    bindOk := by
      refine ⟨?_, h.bindOk⟩
      cases ev <;> simp [Event.boundPos?] at hev <;> subst hev <;> exact hfin }

/-- the running fiber's body is exhausted: it completes and its parent resumes -/
theorem Inv.pop (h : Inv g rank I (fr :: rest) cache log)
    (I' : Path → Option (Path × Bool))
    (hI' : ∀ p, I' p = if p = fr.mod then (I p).map (fun x => (x.1, true)) else I p) :
    Inv g rank I' rest cache (.finish fr.mod :: log) := by
  obtain ⟨f0, hf0⟩ := h.frameMod fr (List.mem_cons_self ..)
  have hsome : ∀ p, (I' p).isSome = (I p).isSome := by
    intro p; rw [hI']; split <;> simp
  have hranks := h.ranks
  simp only [List.pairwise_cons] at hranks
  have hne : ∀ fr' ∈ rest, fr'.mod ≠ fr.mod := by
    intro fr' hfr' he
    have := hranks.1 fr' hfr'
    rw [he] at this
    exact Nat.lt_irrefl _ this
  exact
  { root := by rw [hsome]; exact h.root
    posFile := by
      intro p f d hp
      rw [hI'] at hp
      split at hp
      · cases hI : I p with
        | none => simp [hI] at hp
        | some x =>
          obtain ⟨f', d'⟩ := x
          simp [hI] at hp
          exact hp.1 ▸ h.posFile p f' d' hI
      · exact h.posFile p f d hp
    isFile := fun p hp => h.isFile p (by rwa [hsome] at hp)
    prefixClosed := fun p x hp => by rw [hsome] at hp ⊢; exact h.prefixClosed p x hp
    frameMod := by
      intro fr' hfr'
      obtain ⟨f, hf⟩ := h.frameMod fr' (List.mem_cons_of_mem _ hfr')
      exact ⟨f, by rw [hI', if_neg (hne fr' hfr')]; exact hf⟩
    notDone := by
      intro p f hp
      rw [hI'] at hp
      split at hp
      · cases hI : I p with
        | none => simp [hI] at hp
        | some x => simp [hI] at hp
      · rename_i hpne
        have := h.notDone p f hp
        simp only [List.map_cons, List.mem_cons] at this
        rcases this with h1 | h1
        · exact absurd h1 hpne
        · exact h1
    suffix := fun fr' hfr' => h.suffix fr' (List.mem_cons_of_mem _ hfr')
    ranks := hranks.2
    cacheOk := by
      intro k pos hl
      obtain ⟨h1, f, hf⟩ := h.cacheOk k pos hl
      refine ⟨h1, f, ?_⟩
      rw [hI']; split <;> simp [hf]
    logStart := by
      intro f p hm
      rcases List.mem_cons.mp hm with he | hm
      · cases he
      · rw [hsome]; exact h.logStart f p hm
    startLogged := fun p hp => (h.startLogged p (by rwa [hsome] at hp)).imp fun f hf => List.mem_cons_of_mem _ hf
    startsNodup := by simpa [List.filterMap_cons, Event.startPos?] using h.startsNodup
    logFinish := by
      intro p
      constructor
      · intro hm
        rcases List.mem_cons.mp hm with he | hm
        · cases he
          exact ⟨f0, by rw [hI']; simp [hf0]⟩
        · obtain ⟨f, hf⟩ := (h.logFinish p).mp hm
          exact ⟨f, by rw [hI']; split <;> simp [hf]⟩
      · intro ⟨f, hf⟩
        rw [hI'] at hf
        split at hf
        · rename_i hp; rw [hp]; exact List.mem_cons_self ..
        · exact List.mem_cons_of_mem _ ((h.logFinish p).mpr ⟨f, hf⟩)
    bindOk := ⟨h.startLogged fr.mod (by simp [hf0]), h.bindOk⟩ }

/-- a missing module was loaded: new tree node `q`, new fiber on top, importer asleep below -/
theorem Inv.push (h : Inv g rank I frames cache log) (q : Path) (body : List Stmt)
    (hq : I q = none) (hne : q ≠ []) (hfile : g.file? q = some body)
    (hparent : ∀ p x, q = p ++ [x] → (I p).isSome = true)
    (hrank : ∀ fr ∈ frames, rank q < rank fr.mod)
    (I' : Path → Option (Path × Bool)) (hI' : ∀ p, I' p = (I p).or (if q = p then some (q, false) else none)) :
    Inv g rank I' ({ mod := q, body := expand body } :: frames) cache (.start q q :: log) := by
  have hmono : ∀ p x, I p = some x → I' p = some x := by
    intro p x hp; rw [hI', hp]; rfl
  have hq' : I' q = some (q, false) := by rw [hI', hq]; simp
  have hcases : ∀ p x, I' p = some x → I p = some x ∨ (p = q ∧ x = (q, false)) := by
    intro p x hp
    rw [hI'] at hp
    cases hI : I p with
    | some y => rw [hI] at hp; exact Or.inl (by simpa using hp)
    | none =>
      rw [hI] at hp
      simp at hp
      exact Or.inr ⟨hp.1.symm, hp.2.symm⟩
  have hsome : ∀ p, (I p).isSome = true → (I' p).isSome = true := by
    intro p hp
    obtain ⟨x, hx⟩ := Option.isSome_iff_exists.mp hp
    rw [hmono p x hx]; rfl
  exact
  { root := hsome _ h.root
    posFile := by
      intro p f d hp
      rcases hcases p _ hp with h1 | ⟨h1, h2⟩
      · exact h.posFile p f d h1
      · cases h2; exact h1.symm
    isFile := by
      intro p hp hpne
      obtain ⟨x, hx⟩ := Option.isSome_iff_exists.mp hp
      rcases hcases p x hx with h1 | ⟨h1, _⟩
      · exact h.isFile p (by simp [h1]) hpne
      · rw [h1, hfile]; rfl
    prefixClosed := by
      intro p x hp
      obtain ⟨y, hy⟩ := Option.isSome_iff_exists.mp hp
      rcases hcases _ y hy with h1 | ⟨h1, _⟩
      · exact hsome p (h.prefixClosed p x (by simp [h1]))
      · exact hsome p (hparent p x h1.symm)
    frameMod := by
      intro fr hfr
      rcases List.mem_cons.mp hfr with rfl | h'
      · exact ⟨q, hq'⟩
      · obtain ⟨f, hf⟩ := h.frameMod fr h'
        exact ⟨f, hmono _ _ hf⟩
    notDone := by
      intro p f hp
      simp only [List.map_cons, List.mem_cons]
      rcases hcases p _ hp with h1 | ⟨h1, _⟩
      · exact Or.inr (h.notDone p f h1)
      · exact Or.inl h1
    suffix := by
      intro fr hfr
      rcases List.mem_cons.mp hfr with rfl | h'
      · simp only
        rw [body_of_file g q body hne hfile]
        exact List.suffix_refl _
      · exact h.suffix fr h'
    ranks := by
      simp only [List.pairwise_cons]
      exact ⟨hrank, h.ranks⟩
    cacheOk := by
      intro k pos hl
      obtain ⟨h1, f, hf⟩ := h.cacheOk k pos hl
      exact ⟨h1, f, hmono _ _ hf⟩
    logStart := by
      intro f p hm
      rcases List.mem_cons.mp hm with he | hm
      · cases he; exact ⟨rfl, by simp [hq']⟩
      · obtain ⟨h1, h2⟩ := h.logStart f p hm
        exact ⟨h1, hsome p h2⟩
    startLogged := by
      intro p hp
      obtain ⟨x, hx⟩ := Option.isSome_iff_exists.mp hp
      rcases hcases p x hx with h1 | ⟨h1, _⟩
      · exact (h.startLogged p (by simp [h1])).imp fun f hf => List.mem_cons_of_mem _ hf
      · exact ⟨q, h1 ▸ List.mem_cons_self ..⟩
    startsNodup := by
      simp only [List.filterMap_cons, Event.startPos?, List.nodup_cons]
      refine ⟨?_, h.startsNodup⟩
      intro hm
      obtain ⟨ev, hev, hst⟩ := List.mem_filterMap.mp hm
      cases ev <;> simp [Event.startPos?] at hst
      subst hst
      have := (h.logStart _ _ hev).2
      simp [hq] at this
    logFinish := by
      intro p
      constructor
      · intro hm
        rcases List.mem_cons.mp hm with he | hm
        · cases he
        · obtain ⟨f, hf⟩ := (h.logFinish p).mp hm
          exact ⟨f, hmono _ _ hf⟩
      · intro ⟨f, hf⟩
        rcases hcases p _ hf with h1 | ⟨_, h2⟩
        · exact List.mem_cons_of_mem _ ((h.logFinish p).mpr ⟨f, h1⟩)
        · cases h2
    bindOk := ⟨trivial, h.bindOk⟩ }

/-! ### one machine step -/

/-- the skeleton invariant of a machine state -/
def SInv (g : Graph) (rank : Path → Nat) (s : St) : Prop :=
  Inv g rank (info s.mods) s.frames s.cache s.log

theorem treeOk_of_inv {s : St} (h : SInv g rank s) : TreeOk s.mods where
  root := by rw [hasMod_info]; exact h.root
  prefixClosed := by intro p x hp; rw [hasMod_info] at hp ⊢; exact h.prefixClosed p x hp

/-- `import_module` behaves as intended on every state satisfying the invariant -/
theorem importModule_char {s : St} (h : SInv g rank s) (p : Path) :
    ImportChar g s.mods p (importModule g s.mods p) :=
  importModule_char0 g s.mods p (treeOk_of_inv h)

/-- the statement at the head of the running fiber belongs to its module's body -/
theorem head_import_path {s : St} (h : SInv g rank s) (fr : Frame) (rest : List Frame) (st : Stmt) (more : List Stmt)
    (hfr : s.frames = fr :: rest) (hb : fr.body = st :: more) (p : Path) (hst : st.importPath? = some p) :
    p ∈ importPaths (g.body fr.mod) := by
  have hsuf := h.suffix fr (by rw [hfr]; exact List.mem_cons_self ..)
  apply mem_importPaths_expand
  have : st ∈ expand (g.body fr.mod) := hsuf.subset (by rw [hb]; exact List.mem_cons_self ..)
  exact List.mem_filterMap.mpr ⟨st, this, hst⟩

/-- An import instruction of the running fiber preserves the invariant, and when it hands a
module to the importer that module's body has completed. -/
theorem import_inv {s s' : St} (hacyc : Acyclic g rank) (h : SInv g rank s)
    (fr : Frame) (rest : List Frame) (st : Stmt) (more : List Stmt)
    (hfr : s.frames = fr :: rest) (hb : fr.body = st :: more) (p : Path) (hst : st.importPath? = some p)
    (heff : ImportEff g s p more s') : SInv g rank s' := by
  have hp := head_import_path h fr rest st more hfr hb p hst
  have hchar := importModule_char h p
  obtain ⟨u, hu, hu1, hpu⟩ := body_unit g fr.mod p hp
  obtain ⟨hpne, hrank⟩ := hacyc u hu p hpu
  rw [hu1] at hrank
  obtain ⟨f0, hf0⟩ := h.frameMod fr (by rw [hfr]; exact List.mem_cons_self ..)
  have hranks := h.ranks
  rw [hfr, List.pairwise_cons] at hranks
  -- a module handed out by the cache or the tree has completed
  have hdone : ∀ pos cache', CacheStep g s p pos cache' → pos = p ∧ ∃ f, info s.mods p = some (f, true) := by
    intro pos cache' hc
    rcases hc with ⟨_, hl⟩ | ⟨_, hl, _⟩
    · exact h.cacheOk p pos hl
    · rw [hl] at hchar
      cases hchar with
      | loaded hm =>
        refine ⟨rfl, ?_⟩
        rw [hasMod_info] at hm
        obtain ⟨⟨f, d⟩, hx⟩ := Option.isSome_iff_exists.mp hm
        cases d with
        | true => exact ⟨f, hx⟩
        | false =>
          exfalso
          have hin := h.notDone p f hx
          rw [hfr] at hin
          have hfile := h.isFile p hm hpne
          rcases hrank p (self_mem_prefixes p hpne) hfile with hlt | ⟨_, hne⟩
          · simp only [List.map_cons, List.mem_cons, List.mem_map] at hin
            rcases hin with h1 | ⟨fr', hfr', h1⟩
            · rw [h1] at hlt; exact Nat.lt_irrefl _ hlt
            · have := hranks.1 fr' hfr'
              rw [h1] at this
              exact Nat.lt_irrefl _ (Nat.lt_trans hlt this)
          · exact hne rfl
  have hcache : ∀ pos cache', CacheStep g s p pos cache' → Inv g rank (info s.mods) s.frames cache' s.log := by
    intro pos cache' hc
    obtain ⟨hpos, f, hf⟩ := hdone pos cache' hc
    rcases hc with ⟨he, _⟩ | ⟨_, _, he⟩
    · rw [he]; exact h
    · rw [he, hpos]; exact h.cacheInsert p f hf
  cases heff with
  | stuck h1 h2 h3 h4 =>
    unfold SInv
    rw [h1, h2, h3]
    rcases h4 with h4 | ⟨pos, h4⟩
    · rw [h4]; exact h
    · exact hcache pos _ h4
  | bound pos ev h1 h2 h3 h4 h5 =>
    unfold SInv
    rw [h1, h2, h3]
    obtain ⟨hpos, f, hf⟩ := hdone pos _ h5
    have hI := hcache pos _ h5
    have hI2 := hI.logBound ev pos f h4 (hpos ▸ hf)
    rw [(setBody_frames s fr rest more hfr).1]
    rw [hfr] at hI2
    exact hI2.advance more (by rw [hb]; exact List.suffix_cons _ _)
  | push q file body h1 h2 h3 h4 h5 h6 =>
    rw [h2] at hchar
    cases hchar with
    | compiled _ _ hq hm hfile hparent =>
      unfold SInv
      rw [h3, h4, h5, h6]
      have hIq : info s.mods q = none := by
        rw [hasMod_info] at hm
        cases hx : info s.mods q with
        | none => rfl
        | some x => simp [hx] at hm
      have hqne := prefixes_ne_nil p q hq
      refine h.push q body hIq hqne hfile ?_ ?_ _ ?_
      · intro p' x hpx
        rw [← hasMod_info]; exact hparent p' x hpx
      · intro fr' hfr'
        have hlt : rank q < rank fr.mod := by
          rcases hrank q hq (by simp [hfile]) with hlt | ⟨heq, _⟩
          · exact hlt
          · rw [heq, hf0] at hIq; cases hIq
        rw [hfr] at hfr'
        rcases List.mem_cons.mp hfr' with rfl | hfr'
        · exact hlt
        · exact Nat.lt_trans hlt (hranks.1 fr' hfr')
      · intro p'
        rw [info_append]
        by_cases hqp : q = p' <;> simp [ModSt.fresh, hqp]

theorem info_updMod_done (mods : List ModSt) (q p : Path) :
    info (updMod mods q (fun m => { m with done := true })) p =
      if p = q then (info mods p).map (fun x => (x.1, true)) else info mods p := by
  unfold info
  have := getMod_updMod mods p q (fun m => { m with done := true }) (fun _ => rfl)
  rw [this]
  cases hm : getMod mods p with
  | none => simp
  | some m =>
    have hpos := getMod_pos hm
    simp only [Option.map_some, hpos]
    split <;> rfl

/-- **Invariant preservation**: every step of the machine, from any state satisfying the skeleton
invariant, yields a state satisfying it. -/
theorem step_inv (hacyc : Acyclic g rank) (s : St) (h : SInv g rank s) :
    SInv g rank (step g s) := by
  unfold step
  split
  · split
    · exact h
    · rename_i fr rest hfr
      split
      · rename_i hb
        unfold SInv
        simp only
        have h' : Inv g rank (info s.mods) (fr :: rest) s.cache s.log := hfr ▸ h
        exact h'.pop _ (fun p => info_updMod_done s.mods fr.mod p)
      · rename_i st more hb
        split
        · exact h
        · rename_i me hme
          cases hi : st.isImport with
          | false =>
            obtain ⟨h1, h2, h3, h4⟩ := execStmt_local g s me st more hi
            unfold SInv
            rw [h1, h2, h3]
            rcases h4 with h4 | h4
            · rw [h4]; exact h
            · rw [h4, (setBody_frames s fr rest more hfr).1]
              have h' : Inv g rank (info s.mods) (fr :: rest) s.cache s.log := hfr ▸ h
              exact h'.advance more (by rw [hb]; exact List.suffix_cons _ _)
          | true =>
            cases st with
            | importWhole p r =>
              exact import_inv hacyc h fr rest _ more hfr hb p rfl (execStmt_importWhole g s me p r more)
            | importSym p sy r =>
              exact import_inv hacyc h fr rest _ more hfr hb p rfl (execStmt_importSym g s me p sy r more)
            | _ => simp [Stmt.isImport] at hi
  · exact h

theorem init_info (g : Graph) (p : Path) : info (init g).mods p = if p = [] then some ([], false) else none := by
  simp only [init, info, getMod, ModSt.fresh, List.find?_cons, List.find?_nil]
  by_cases hp : p = []
  · simp [hp]
  · have : (([] : Path) == p) = false := by
      cases p with
      | nil => exact absurd rfl hp
      | cons x xs => rfl
    simp [hp, this]

theorem init_inv (g : Graph) (rank : Path → Nat) : SInv g rank (init g) where
  root := by simp [init_info]
  posFile := by
    intro p f d hp
    rw [init_info] at hp
    split at hp <;> simp at hp
    rename_i heq
    rw [heq, hp.1]
  isFile := by
    intro p hp hne
    rw [init_info] at hp
    simp [hne] at hp
  prefixClosed := by
    intro p x hp
    rw [init_info] at hp
    simp at hp
  frameMod := by
    intro fr hfr
    simp only [init, List.mem_singleton] at hfr
    subst hfr
    exact ⟨[], by simp [init_info]⟩
  notDone := by
    intro p f hp
    rw [init_info] at hp
    split at hp <;> simp at hp
    rename_i heq
    simp [init, heq]
  suffix := by
    intro fr hfr
    simp only [init, List.mem_singleton] at hfr
    subst hfr
    simp [Graph.body]
  ranks := by simp [init]
  cacheOk := by intro k pos hl; simp [init, lookupPath] at hl
  logStart := by
    intro f p hm
    simp only [init, List.mem_singleton] at hm
    cases hm
    exact ⟨rfl, by simp [init_info]⟩
  startLogged := by
    intro p hp
    rw [init_info] at hp
    split at hp <;> simp at hp
    rename_i heq
    exact ⟨[], by simp [init, heq]⟩
  startsNodup := by simp [init, Event.startPos?]
  logFinish := by
    intro p
    rw [init_info]
    constructor
    · intro hm; simp [init] at hm
    · intro ⟨f, hf⟩
      split at hf <;> simp at hf
  bindOk := by simp [init, BindOk, Event.ok]

/-- every reachable state satisfies the invariant -/
theorem run_inv (hacyc : Acyclic g rank) (n : Nat) : SInv g rank (run g n) := by
  induction n with
  | zero => exact init_inv g rank
  | succ n ih => exact step_inv hacyc _ ih

/-! ### the property theorems -/

/-- **C17_packages_constant.**  For *every* graph (no acyclicity needed) and every number of steps
the package map is the one of a fresh VM: `std` is the standard library, `self` the tree rooted at
the main script.  Loading a user module — whatever its name: `std`, `self`, `io`, … — registers no
package and replaces none. -/
theorem C17_packages_constant (g : Graph) (n : Nat) : (run g n).packages = initPackages := by
  induction n with
  | zero => rfl
  | succ n ih => rw [run, step_packages, ih]


theorem bindOk_finish_start (log : List Event) (h : BindOk log) (p : Path) (hf : Event.finish p ∈ log) :
    ∃ f, Event.start f p ∈ log := by
  induction log with
  | nil => simp at hf
  | cons e older ih =>
    rcases List.mem_cons.mp hf with he | hm
    · subst he
      obtain ⟨f, hf⟩ := h.1
      exact ⟨f, List.mem_cons_of_mem _ hf⟩
    · obtain ⟨f, hf⟩ := ih h.2 hm
      exact ⟨f, List.mem_cons_of_mem _ hf⟩

theorem count_start_le (log : List Event) (p : Path) :
    List.count (Event.start p p) log ≤ List.count p (log.filterMap Event.startPos?) := by
  induction log with
  | nil => simp
  | cons e older ih =>
    by_cases he : e = Event.start p p
    · subst he
      simp only [List.count_cons_self, List.filterMap_cons, Event.startPos?]
      omega
    · have h1 : List.count (Event.start p p) (e :: older) = List.count (Event.start p p) older := by
        rw [List.count_cons]; simp [he]
      rw [h1]
      refine Nat.le_trans ih ?_
      simp only [List.filterMap_cons]
      split
      · exact Nat.le_refl _
      · rw [List.count_cons]; omega

theorem nodup_count_le_one {α : Type} [BEq α] [LawfulBEq α] (l : List α) (h : l.Nodup) (a : α) : l.count a ≤ 1 := by
  induction l with
  | nil => simp
  | cons x rest ih =>
    rw [List.nodup_cons] at h
    rw [List.count_cons]
    by_cases hx : x = a
    · subst hx
      have : List.count x rest = 0 := List.count_eq_zero.mpr h.1
      simp [this]
    · have := ih h.2
      simp [hx]; exact this

/-- **C17_body_once.**  For every acyclic module graph (any number of files, any order,
multiplicity and form of module-level imports, transitive and diamond imports) and every number of
machine steps: (1) no module body is started twice; (2) whenever an importer gets past an import —
received the module object or one of its symbols — the body of that module had been started exactly
once and had run to completion before (`BindOk`: the completion event is older than the binding,
the start older than the completion). -/
theorem C17_body_once (g : Graph) (rank : Path → Nat) (hacyc : Acyclic g rank) (n : Nat) :
    (∀ p, List.count (Event.start p p) (run g n).log ≤ 1) ∧
    (∀ f p, Event.start f p ∈ (run g n).log → f = p) ∧
    BindOk (run g n).log ∧
    (∀ ev ∈ (run g n).log, ∀ pos, ev.boundPos? = some pos →
      Event.finish pos ∈ (run g n).log ∧ List.count (Event.start pos pos) (run g n).log = 1) := by
  have h := run_inv hacyc n
  have hcount : ∀ p, List.count (Event.start p p) (run g n).log ≤ 1 := fun p =>
    Nat.le_trans (count_start_le _ p) (nodup_count_le_one _ h.startsNodup p)
  refine ⟨hcount, fun f p hm => (h.logStart f p hm).1, h.bindOk, ?_⟩
  intro ev hev pos hpos
  -- the binding event is in the log, so BindOk gives an older completion
  have hfin : Event.finish pos ∈ (run g n).log := by
    have hb := h.bindOk
    generalize (run g n).log = log at hev hb
    induction log with
    | nil => simp at hev
    | cons e older ih =>
      rcases List.mem_cons.mp hev with he | hm
      · subst he
        have := hb.1
        cases ev <;> simp [Event.boundPos?] at hpos <;> subst hpos <;> exact List.mem_cons_of_mem _ this
      · exact List.mem_cons_of_mem _ (ih hm hb.2)
  refine ⟨hfin, ?_⟩
  obtain ⟨f, hf⟩ := bindOk_finish_start _ h.bindOk pos hfin
  have hfp := (h.logStart f pos hf).1
  subst hfp
  have : 0 < List.count (Event.start f f) (run g n).log := List.count_pos_iff.mpr hf
  have := hcount f
  omega

/-- the fiber structure behind "before its importer continues": only the head of `frames` runs, and
a module whose body has not completed is on that stack, strictly below every module it (transitively)
started — so no importer executes anything while a module it waits for is still running. -/
theorem C17_importer_waits (g : Graph) (rank : Path → Nat) (hacyc : Acyclic g rank) (n : Nat) :
    (∀ p f, info (run g n).mods p = some (f, false) → p ∈ (run g n).frames.map (·.mod)) ∧
    (run g n).frames.Pairwise (fun c p => rank c.mod < rank p.mod) := by
  have h := run_inv hacyc n
  exact ⟨h.notDone, h.ranks⟩

/-! ### exports -/

/-- `module_instance`: the fields of the import object are exactly the exported names, each with
the current value of the module's symbol of that name. -/
theorem instanceFields_exact (m : ModSt) (e : String) (v : Val) :
    (e, v) ∈ m.instanceFields ↔ e ∈ m.exports ∧ lookup e m.syms = some (some (.val v)) := by
  simp only [ModSt.instanceFields, List.mem_filterMap]
  constructor
  · rintro ⟨x, hx, hm⟩
    split at hm <;> simp at hm
    rename_i v' hl
    obtain ⟨rfl, rfl⟩ := hm
    exact ⟨hx, hl⟩
  · rintro ⟨hx, hl⟩
    exact ⟨e, hx, by simp [hl]⟩

/-- no field of the import object is a non-exported (private or imported) symbol -/
theorem instanceFields_only_exports (m : ModSt) (e : String) (he : e ∉ m.exports) :
    lookup e m.instanceFields = none := by
  have : ∀ (l : List (String × Val)), (∀ v, (e, v) ∉ l) → lookup e l = none := by
    intro l
    induction l with
    | nil => intro _; rfl
    | cons x rest ih =>
      intro h
      obtain ⟨k, w⟩ := x
      simp only [lookup]
      split
      · rename_i hk; subst hk; exact absurd (List.mem_cons_self ..) (h w)
      · exact ih (fun v hv => h v (List.mem_cons_of_mem _ hv))
  exact this _ (fun v hv => he ((instanceFields_exact m e v).mp hv).1)

/-- `get_exported_symbol_by_name` -/
theorem exported?_exact (m : ModSt) (n : String) (v : Val) :
    m.exported? n = some v ↔ n ∈ m.exports ∧ lookup n m.syms = some (some (.val v)) := by
  unfold ModSt.exported?
  constructor
  · intro h
    split at h
    · rename_i v' hl
      split at h <;> simp at h
      subst h
      exact ⟨‹_›, hl⟩
    · simp at h
  · rintro ⟨hx, hl⟩
    simp [hl, hx]

theorem lookup_upsert {β : Type} (n : String) (b : β) (l : List (String × β)) : lookup n (upsert n b l) = some b := by
  induction l with
  | nil => simp [upsert, lookup]
  | cons x rest ih =>
    obtain ⟨k, w⟩ := x
    simp only [upsert]
    split
    · rename_i hk; simp [lookup, hk]
    · rename_i hk; simp [lookup, hk, ih]

/-- **C17_exports_exact (whole / renamed import).**  When the instruction obtains the module at
`pos`, the importer's variable is bound to an object whose fields are exactly `instanceFields` of
that module *at that time* (see `instanceFields_exact`), and this is what the trace records. -/
theorem C17_exports_exact_whole (g : Graph) (s s1 : St) (me m : ModSt) (p pos : Path) (r : Option String)
    (more : List Stmt) (hme : getMod s.mods me.pos = some me)
    (ht : importTarget g s p = (s1, some pos)) (hm : getMod s1.mods pos = some m) :
    let s' := execStmt g s me (.importWhole p r) more
    let name := r.getD (p.getLast?.getD "self")
    s'.log = .boundObj me.pos name pos m.instanceFields :: s1.log ∧
    ∃ me', getMod s'.mods me.pos = some me' ∧ lookup name me'.syms = some (some (.obj m.name m.instanceFields)) := by
  have hmods : s1.mods = s.mods := by
    rcases importTarget_cases g s p with ⟨_, _, h2⟩ | ⟨_, _, _, h2⟩ | ⟨_, _, _, _, _, h2⟩ | ⟨_, h2⟩ <;>
      rw [h2] at ht <;> cases ht <;> rfl
  simp only [execStmt, ht, hm]
  constructor
  · trivial
  · simp only [(setBody_eff s1 more).1, hmods]
    rw [getMod_updMod _ _ _ _ (fun x => (setSym_skel x _ _).1), hme]
    exact ⟨me.setSym (r.getD (p.getLast?.getD "self")) (.obj m.name m.instanceFields), by simp,
      by simp [ModSt.setSym, lookup_upsert]⟩

/-- **C17_exports_exact (selected symbol).**  The importer receives the current value of the
module's symbol of that name, and only if the name is exported. -/
theorem C17_exports_exact_symbol (g : Graph) (s s1 : St) (me m : ModSt) (p pos : Path) (sym : String)
    (r : Option String) (v : Val) (more : List Stmt) (hme : getMod s.mods me.pos = some me)
    (ht : importTarget g s p = (s1, some pos)) (hm : getMod s1.mods pos = some m)
    (hx : m.exported? sym = some v) :
    let s' := execStmt g s me (.importSym p sym r) more
    (sym ∈ m.exports ∧ lookup sym m.syms = some (some (.val v))) ∧
    s'.log = .boundSym me.pos (r.getD sym) pos sym v :: s1.log ∧
    ∃ me', getMod s'.mods me.pos = some me' ∧ lookup (r.getD sym) me'.syms = some (some (.val v)) := by
  have hmods : s1.mods = s.mods := by
    rcases importTarget_cases g s p with ⟨_, _, h2⟩ | ⟨_, _, _, h2⟩ | ⟨_, _, _, _, _, h2⟩ | ⟨_, h2⟩ <;>
      rw [h2] at ht <;> cases ht <;> rfl
  simp only [execStmt, ht, hm, hx]
  refine ⟨(exported?_exact m sym v).mp hx, ?_, ?_⟩
  · trivial
  · simp only [(setBody_eff s1 more).1, hmods]
    rw [getMod_updMod _ _ _ _ (fun x => (setSym_skel x _ _).1), hme]
    exact ⟨me.setSym (r.getD sym) (.val v), by simp, by simp [ModSt.setSym, lookup_upsert]⟩

/-! ### the export table of a module is the list of its `export` declarations -/

/-- `X` = `xinfo mods`: a running module has exported exactly the `export` declarations it has
executed so far; a completed module exactly those of its file. -/
structure XInv (g : Graph) (X : Path → Option (List String × Bool)) (frames : List Frame) : Prop where
  running : ∀ fr ∈ frames, ∃ ex, X fr.mod = some (ex, false) ∧
    ex ++ exportedNames fr.body = exportedNames (expand (g.body fr.mod))
  finished : ∀ p ex, X p = some (ex, true) → ex = exportedNames (expand (g.body p))

theorem xinfo_append (mods : List ModSt) (n : ModSt) (p : Path) :
    xinfo (mods ++ [n]) p = (xinfo mods p).or (if n.pos = p then some (n.exports, n.done) else none) := by
  simp only [xinfo, getMod_append]
  cases getMod mods p <;> simp

theorem xinfo_updMod_done (mods : List ModSt) (q p : Path) :
    xinfo (updMod mods q (fun m => { m with done := true })) p =
      if p = q then (xinfo mods p).map (fun x => (x.1, true)) else xinfo mods p := by
  unfold xinfo
  have := getMod_updMod mods p q (fun m => { m with done := true }) (fun _ => rfl)
  rw [this]
  cases hm : getMod mods p with
  | none => simp
  | some m =>
    have hpos := getMod_pos hm
    simp only [Option.map_some, hpos]
    split <;> rfl

theorem xinfo_of_info (mods : List ModSt) (p f : Path) (d : Bool) (h : info mods p = some (f, d)) :
    ∃ ex, xinfo mods p = some (ex, d) := by
  unfold info at h
  unfold xinfo
  cases hm : getMod mods p with
  | none => simp [hm] at h
  | some m => simp [hm] at h; exact ⟨m.exports, by simp [h.2]⟩

theorem step_xinv (s : St) (h : SInv g rank s)
    (hx : XInv g (xinfo s.mods) s.frames) : XInv g (xinfo (step g s).mods) (step g s).frames := by
  unfold step
  split
  · split
    · exact hx
    · rename_i fr rest hfr
      have hranks := h.ranks
      rw [hfr, List.pairwise_cons] at hranks
      have hne : ∀ fr' ∈ rest, fr'.mod ≠ fr.mod := by
        intro fr' hfr' he
        have := hranks.1 fr' hfr'
        rw [he] at this
        exact Nat.lt_irrefl _ this
      obtain ⟨ex0, hex0, hsum0⟩ := hx.running fr (by rw [hfr]; exact List.mem_cons_self ..)
      split
      · -- the fiber completes
        rename_i hb
        simp only
        constructor
        · intro fr' hfr'
          obtain ⟨ex, hex, hsum⟩ := hx.running fr' (by rw [hfr]; exact List.mem_cons_of_mem _ hfr')
          exact ⟨ex, by rw [xinfo_updMod_done, if_neg (hne fr' hfr')]; exact hex, hsum⟩
        · intro p ex hp
          rw [xinfo_updMod_done] at hp
          split at hp
          · rename_i hpe
            rw [hpe, hex0] at hp
            simp at hp
            rw [hb] at hsum0
            simp [exportedNames] at hsum0
            rw [hpe, ← hp, hsum0]; rfl
          · exact hx.finished p ex hp
      · rename_i st more hb
        split
        · exact hx
        · rename_i me hme
          have hmepos : me.pos = fr.mod := getMod_pos hme
          have hme' : getMod s.mods me.pos = some me := by rw [hmepos]; exact hme
          have hmeex : me.exports = ex0 ∧ me.done = false := by
            have h1 : xinfo s.mods fr.mod = some (me.exports, me.done) := by simp [xinfo, hme]
            rw [hex0] at h1
            have h2 := Option.some.inj h1
            exact ⟨(congrArg Prod.fst h2).symm, (congrArg Prod.snd h2).symm⟩
          -- the running fiber advances past `st`, `me` gains the exported name of `st` (if any)
          have hadv : ∀ (mods' : List ModSt) (frames' : List Frame),
              frames' = (s.setBody more).frames →
              (∀ p, xinfo mods' p = if p = me.pos then some (me.exports ++ st.exportedName?.toList, me.done) else xinfo s.mods p) →
              XInv g (xinfo mods') frames' := by
            intro mods' frames' hf hX
            rw [hf, (setBody_frames s fr rest more hfr).1]
            constructor
            · intro fr' hfr'
              rcases List.mem_cons.mp hfr' with rfl | hfr'
              · refine ⟨me.exports ++ st.exportedName?.toList, ?_, ?_⟩
                · rw [hX]; simp [hmepos, hmeex.2]
                · simp only
                  rw [← hsum0, hb, hmeex.1]
                  simp only [exportedNames, List.filterMap_cons]
                  cases st.exportedName? <;> simp
              · obtain ⟨ex, hex, hsum⟩ := hx.running fr' (by rw [hfr]; exact List.mem_cons_of_mem _ hfr')
                exact ⟨ex, by rw [hX, if_neg (by rw [hmepos]; exact hne fr' hfr')]; exact hex, hsum⟩
            · intro p ex hp
              rw [hX] at hp
              split at hp
              · simp [hmeex.2] at hp
              · exact hx.finished p ex hp
          cases hi : st.isImport with
          | false =>
            rcases execStmt_local_x g s me st more hi hme' with ⟨h1, h2⟩ | ⟨h1, h2⟩
            · rw [h1, h2]; exact hx
            · exact hadv _ _ h1 h2
          | true =>
            obtain ⟨p, hst⟩ : ∃ p, st.importPath? = some p := by
              cases st <;> simp [Stmt.isImport] at hi <;> exact ⟨_, rfl⟩
            have hnoexp : st.exportedName? = none := by
              cases st <;> simp [Stmt.isImport] at hi <;> rfl
            rcases execStmt_import_x g s me st more p hst hi with ⟨h1, h2⟩ | ⟨h1, h2⟩ | ⟨q, file, body, hc, h1, h2⟩
            · rw [h1, h2]; exact hx
            · refine hadv _ _ h1 ?_
              intro p'
              rw [h2, hnoexp]
              split
              · rename_i hp; rw [hp]; simp [xinfo, hme']
              · rfl
            · -- a new module starts with an empty export table
              have hp := head_import_path h fr rest st more hfr hb p hst
              have hchar := importModule_char h p
              rw [hc] at hchar
              cases hchar with
              | compiled _ _ hq hm hfile _ =>
                rw [h1, h2]
                have hXq : xinfo s.mods q = none := by
                  unfold xinfo; unfold hasMod at hm
                  cases hg : getMod s.mods q with
                  | none => rfl
                  | some m => simp [hg] at hm
                have hXn : ∀ p', xinfo (s.mods ++ [ModSt.fresh q q body]) p' =
                    (xinfo s.mods p').or (if q = p' then some ([], false) else none) := by
                  intro p'; rw [xinfo_append]
                  by_cases hqp : q = p' <;> simp [ModSt.fresh, hqp]
                constructor
                · intro fr' hfr'
                  rcases List.mem_cons.mp hfr' with rfl | hfr'
                  · refine ⟨[], by rw [hXn, hXq]; simp, ?_⟩
                    simp only [List.nil_append]
                    rw [body_of_file g q body (prefixes_ne_nil p q hq) hfile]
                  · obtain ⟨ex, hex, hsum⟩ := hx.running fr' hfr'
                    exact ⟨ex, by rw [hXn, hex]; rfl, hsum⟩
                · intro p' ex hp'
                  rw [hXn] at hp'
                  cases hX : xinfo s.mods p' with
                  | some x => rw [hX] at hp'; simp at hp'; exact hx.finished p' ex (by rw [hX, hp'])
                  | none =>
                    rw [hX] at hp'
                    simp at hp'
  · exact hx

theorem init_xinv (g : Graph) : XInv g (xinfo (init g).mods) (init g).frames := by
  constructor
  · intro fr hfr
    simp only [init, List.mem_singleton] at hfr
    subst hfr
    exact ⟨[], by simp [init, xinfo, getMod, ModSt.fresh], by simp [Graph.body]⟩
  · intro p ex hp
    simp only [init, xinfo, getMod, ModSt.fresh, List.find?_cons, List.find?_nil] at hp
    split at hp <;> simp at hp

theorem run_xinv (hacyc : Acyclic g rank) (n : Nat) :
    XInv g (xinfo (run g n).mods) (run g n).frames := by
  induction n with
  | zero => exact init_xinv g
  | succ n ih => exact step_xinv _ (run_inv hacyc n) ih

/-- **C17_exports_exact.**  In every reachable state, a module whose body has completed exports
exactly the names its file declares with `export` (in order) — so by `instanceFields_exact` /
`exported?_exact` an import object's fields, and the symbols a selected import can obtain, are
exactly those names with the module's current values; nothing private, nothing the module itself
imported.  (Every module handed to an importer has completed: `C17_body_once`.) -/
theorem C17_exports_exact (g : Graph) (rank : Path → Nat) (hacyc : Acyclic g rank) (n : Nat)
    (p : Path) (m : ModSt) (hm : getMod (run g n).mods p = some m) (hdone : m.done = true) :
    m.exports = exportedNames (g.body p) := by
  have hx := run_xinv (rank := rank) hacyc n
  have := hx.finished p m.exports (by simp [xinfo, hm, hdone])
  rw [this]
  -- `expand` only rewrites selected-symbol imports, which export nothing
  have hexp : ∀ body : List Stmt, exportedNames (expand body) = exportedNames body := by
    intro body
    induction body with
    | nil => rfl
    | cons st rest ih =>
      cases st <;> simp only [expand, exportedNames, List.filterMap_cons, List.filterMap_append] <;>
        (try simp only [exportedNames] at ih) <;> (try rw [ih])
      rename_i path syms
      have : List.filterMap Stmt.exportedName? (List.map (fun x => Stmt.importSym path x.1 x.2) syms) = [] := by
        rw [List.filterMap_eq_nil_iff]
        intro st hst
        obtain ⟨x, _, rfl⟩ := List.mem_map.mp hst
        rfl
      simp [this, Stmt.exportedName?]
  exact hexp _

/-! ### errors -/

/-- **C17_errors (name not exported).**  Importing a name the module did not export raises the
import error; no symbol of the importer is bound, nothing is logged, the fiber does not advance. -/
theorem C17_errors_not_exported (g : Graph) (s s1 : St) (me m : ModSt) (p pos : Path) (sym : String)
    (r : Option String) (more : List Stmt)
    (ht : importTarget g s p = (s1, some pos)) (hm : getMod s1.mods pos = some m)
    (hx : sym ∉ m.exports) :
    execStmt g s me (.importSym p sym r) more =
      s1.fail "ImportError" s!"Symbol {sym} not exported from module {m.name}" := by
  have : m.exported? sym = none := by
    cases h : m.exported? sym with
    | none => rfl
    | some v => exact absurd ((exported?_exact m sym v).mp h).1 hx
  simp only [execStmt, ht, hm, this]

theorem prefixes_append (p q : Path) (h : q ∈ prefixes p) : ∃ r, p = q ++ r := by
  induction p generalizing q with
  | nil => simp [prefixes] at h
  | cons x rest ih =>
    simp only [prefixes, List.mem_cons, List.mem_map] at h
    rcases h with rfl | ⟨q', hq', rfl⟩
    · exact ⟨rest, rfl⟩
    · obtain ⟨r, hr⟩ := ih q' hq'
      exact ⟨r, by simp [hr]⟩

theorem closed_prefix (I : Path → Option (Path × Bool)) (hc : ∀ p x, (I (p ++ [x])).isSome = true → (I p).isSome = true)
    (r q : Path) (h : (I (q ++ r)).isSome = true) : (I q).isSome = true := by
  induction r generalizing q with
  | nil => simpa using h
  | cons x r' ih =>
    have : q ++ x :: r' = (q ++ [x]) ++ r' := by simp
    rw [this] at h
    exact hc q x (ih (q ++ [x]) h)

/-- **C17_errors (missing module).**  If some file an import needs (`a.lay` or `a/b.lay` for
`import self.a.b`) does not exist, then in every reachable state the instruction yields no value:
it raises `ImportError: Module self.a.b not found`, or — when an existing shorter prefix is not yet
loaded — first runs that prefix's body and retries. -/
theorem C17_errors_missing_module (g : Graph) (rank : Path → Nat) (hacyc : Acyclic g rank) (n : Nat)
    (fr : Frame) (rest : List Frame) (st : Stmt) (more : List Stmt) (p : Path)
    (hfr : (run g n).frames = fr :: rest) (hb : fr.body = st :: more) (hst : st.importPath? = some p)
    (hmiss : ∃ q ∈ prefixes p, g.file? q = none) :
    (importTarget g (run g n) p).2 = none ∧
    ((importTarget g (run g n) p).1.status = .error "ImportError" s!"Module {dotted p} not found" ∨
     ∃ q body, q ∈ prefixes p ∧ g.file? q = some body ∧
       (importTarget g (run g n) p).1.frames = { mod := q, body := expand body } :: (run g n).frames) := by
  have h := run_inv hacyc n
  have hpk : lookup "self" (run g n).packages = some PkgRoot.self := by
    rw [C17_packages_constant g n]
    rfl
  generalize run g n = s at *
  obtain ⟨q0, hq0, hq0f⟩ := hmiss
  have hIp : (info s.mods p).isSome = false := by
    cases hx : (info s.mods p).isSome with
    | false => rfl
    | true =>
      obtain ⟨r, hr⟩ := prefixes_append p q0 hq0
      have := closed_prefix _ h.prefixClosed r q0 (hr ▸ hx)
      have := h.isFile q0 this (prefixes_ne_nil p q0 hq0)
      simp [hq0f] at this
  have hcache : lookupPath p s.cache = none := by
    cases hl : lookupPath p s.cache with
    | none => rfl
    | some pos =>
      obtain ⟨_, f, hf⟩ := h.cacheOk p pos hl
      simp [hf] at hIp
  have hp := head_import_path h fr rest st more hfr hb p hst
  have hchar := importModule_char h p
  unfold importTarget
  rw [hcache, hpk]
  simp only
  cases hchar' : importModule g s.mods p with
  | loaded pos =>
    rw [hchar'] at hchar
    cases hchar with
    | loaded hm => rw [hasMod_info] at hm; simp [hm] at hIp
  | compiled pos file body =>
    rw [hchar'] at hchar
    cases hchar with
    | compiled _ _ hq hm hfile _ => exact ⟨rfl, Or.inr ⟨pos, body, hq, hfile, rfl⟩⟩
  | notFound => exact ⟨rfl, Or.inl rfl⟩
  | panic msg => rw [hchar'] at hchar; cases hchar

/-! ### the loader never reaches `todo!()` / `unwrap` -/

theorem info_some_getMod (mods : List ModSt) (p : Path) (h : (info mods p).isSome = true) : ∃ m, getMod mods p = some m := by
  unfold info at h
  cases hm : getMod mods p with
  | none => simp [hm] at h
  | some m => exact ⟨m, rfl⟩

theorem step_no_panic (hacyc : Acyclic g rank) (s : St) (h : SInv g rank s)
    (hs : s.status.isPanic = false) : (step g s).status.isPanic = false := by
  unfold step
  split
  · split
    · rfl
    · rename_i fr rest hfr
      split
      · exact hs
      · rename_i st more hb
        obtain ⟨f0, hf0⟩ := h.frameMod fr (by rw [hfr]; exact List.mem_cons_self ..)
        obtain ⟨me0, hme0⟩ := info_some_getMod s.mods fr.mod (by simp [hf0])
        split
        · rename_i hnone; rw [hme0] at hnone; cases hnone
        · rename_i me hme
          cases hi : st.isImport with
          | false => exact execStmt_local_status g s me st more hi hs
          | true =>
            cases hpanic : (execStmt g s me st more).status.isPanic with
            | false => rfl
            | true =>
              exfalso
              obtain ⟨p, hst⟩ : ∃ p, st.importPath? = some p := by
                cases st <;> simp [Stmt.isImport] at hi <;> exact ⟨_, rfl⟩
              have hp := head_import_path h fr rest st more hfr hb p hst
              have hchar := importModule_char h p
              rcases execStmt_import_panic g s me st more p hst hi hs hpanic with ⟨msg, hm⟩ | ⟨pos, hsrc, hnone⟩
              · rw [hm] at hchar; cases hchar
              · rcases hsrc with hl | hl
                · obtain ⟨hpos, f, hf⟩ := h.cacheOk p pos hl
                  obtain ⟨m, hm⟩ := info_some_getMod s.mods p (by simp [hf])
                  rw [hpos, hm] at hnone; cases hnone
                · rw [hl] at hchar
                  cases hchar with
                  | loaded hm =>
                    rw [hasMod_info] at hm
                    obtain ⟨m, hm'⟩ := info_some_getMod s.mods p hm
                    rw [hm'] at hnone; cases hnone
  · exact hs

/-- **C17_no_panic.**  For every acyclic graph — import paths of any length — and every number of
steps, the model never reaches a host panic (`todo!()` on `ModuleAlreadyExists`, `unwrap` of the
empty remainder, `split_at` beyond the path). -/
theorem C17_no_panic (g : Graph) (rank : Path → Nat) (hacyc : Acyclic g rank) (n : Nat) :
    (run g n).status.isPanic = false := by
  induction n with
  | zero => rfl
  | succ n ih => exact step_no_panic hacyc _ (run_inv hacyc n) ih

/-! ### packages: an import path names what the source says -/

/-- the table the translator reads from `create_std_lib`'s sources is the tree of the model -/
theorem C17_stdModules_gen :
    (∀ p ∈ Gen.stdModules, p ∈ stdModules) ∧ (∀ p ∈ stdModules, p ∈ Gen.stdModules) := by decide

/-- the places of laythe_vm that write the package map: `Vm::new` (the standard library) and
`Vm::main_module` (package `self`), both through `add_package`; `Vm::module` — called by
`load_missing_module` for every imported file — is not among them.  The model's `init` installs
exactly these two entries and `step` has no write (`step_packages`). -/
theorem C17_package_writes_gen :
    Gen.packageWriteSites = [("new", "add_package(std_lib)"), ("add_package", "packages.insert(package.name(), package)"),
                             ("main_module", "add_package(package)")] ∧
    Gen.moduleCallSites = [("main_module", "SELF"), ("load_missing_module", "&module_name")] ∧
    Gen.mainModuleCallSites = ["repl", "run"] ∧
    Gen.missingModuleArms = [("ImportError::ModuleDoesNotExist if &*import.package() == SELF", "load_missing_module"),
                             ("ImportError::ModuleDoesNotExist", "ImportResult::NotFound")] ∧
    initPackages.map (·.1) = ["std", "self"] := by
  decide

/-- **C17_foreign_resolution.**  In every reachable state of every graph — in particular after user
modules named `std`, `io`, `math`, or named like the package of the import have been loaded — an
import `pkg.p` with `pkg ≠ self` is resolved against the standard library and nothing else:
`std.p` for a module `p` of the library binds the library's module object, the running fiber
advances, no module body is started, the tree of user modules, the cache and the trace are
untouched; every other such import (a module the library does not have, or any other package name,
e.g. the bare name of a loaded user module) raises `ImportError: Module pkg.p not found`. -/
theorem C17_foreign_resolution (g : Graph) (n : Nat) (me : ModSt) (pkg : ForeignPkg) (path : Path) (name : String)
    (more : List Stmt) :
    let s := run g n
    let s' := execStmt g s me (.importPkg pkg path name) more
    (pkg.val = "std" ∧ stdHas path = true →
      s' = { s.setBody more with
             mods := updMod s.mods me.pos (fun x => x.setSym name (.obj (path.getLast?.getD "std") [])) } ∧
      info s'.mods = info s.mods) ∧
    (¬ (pkg.val = "std" ∧ stdHas path = true) →
      s' = s.fail "ImportError" s!"Module {dottedPkg pkg.val path} not found") := by
  intro s s'
  have hpk : s.packages = initPackages := C17_packages_constant g n
  have hres := importForeign_init s.mods pkg path
  constructor
  · intro hstd
    have : importForeign s.packages s.mods pkg.val path = .std path := by rw [hpk, hres, if_pos hstd]
    have hs' : s' = { s.setBody more with
        mods := updMod s.mods me.pos (fun x => x.setSym name (.obj (path.getLast?.getD "std") [])) } := by
      show execStmt g s me (.importPkg pkg path name) more = _
      simp only [execStmt, this]
      rw [hstd.1]
    refine ⟨hs', ?_⟩
    rw [hs']
    simp only [(setBody_eff s more).1]
    exact info_updMod _ _ _ (fun m => setSym_skel m _ _)
  · intro hn
    have : importForeign s.packages s.mods pkg.val path = .notFound := by rw [hpk, hres, if_neg hn]
    show execStmt g s me (.importPkg pkg path name) more = _
    simp only [execStmt, this]

/-- the standard library's tree is prefix closed, so membership is what `Module::import`'s walk computes -/
theorem stdModules_prefixClosed : ∀ p ∈ stdModules, ∀ q ∈ prefixes p, q ∈ stdModules := by decide

/-- **C17_self_resolution.**  In every reachable state of an acyclic graph an import `self.p` is
resolved in the tree of user modules only: the module it hands out sits at tree position `p`, was
loaded from the file of path `p` (`p = ["std", "io"]` is `std/io.lay`, never the library's `io`)
and its body has completed. -/
theorem C17_self_resolution (g : Graph) (rank : Path → Nat) (hacyc : Acyclic g rank) (n : Nat)
    (fr : Frame) (rest : List Frame) (st : Stmt) (more : List Stmt) (p pos : Path) (s1 : St)
    (hfr : (run g n).frames = fr :: rest) (hb : fr.body = st :: more) (hst : st.importPath? = some p)
    (ht : importTarget g (run g n) p = (s1, some pos)) :
    pos = p ∧ info (run g n).mods p = some (p, true) ∧ (g.file? p).isSome = true := by
  have h := run_inv hacyc n
  generalize run g n = s at *
  have hp := head_import_path h fr rest st more hfr hb p hst
  obtain ⟨u, hu, hu1, hpu⟩ := body_unit g fr.mod p hp
  obtain ⟨hpne, hrank⟩ := hacyc u hu p hpu
  rw [hu1] at hrank
  have hranks := h.ranks
  rw [hfr, List.pairwise_cons] at hranks
  have hdone : pos = p ∧ ∃ f, info s.mods p = some (f, true) := by
    rcases importTarget_cases g s p with ⟨pos', h1, h2⟩ | ⟨pos', h1, h2, h3⟩ | ⟨_, _, _, _, _, h3⟩ | ⟨_, h3⟩
    · rw [h2] at ht; cases ht; exact h.cacheOk p pos h1
    · rw [h3] at ht; cases ht
      have hchar := importModule_char h p
      rw [h2] at hchar
      cases hchar with
      | loaded hm =>
        refine ⟨rfl, ?_⟩
        rw [hasMod_info] at hm
        obtain ⟨⟨f, d⟩, hx⟩ := Option.isSome_iff_exists.mp hm
        cases d with
        | true => exact ⟨f, hx⟩
        | false =>
          exfalso
          have hin := h.notDone p f hx
          rw [hfr] at hin
          have hfile := h.isFile p hm hpne
          rcases hrank p (self_mem_prefixes p hpne) hfile with hlt | ⟨_, hne⟩
          · simp only [List.map_cons, List.mem_cons, List.mem_map] at hin
            rcases hin with h1 | ⟨fr', hfr', h1⟩
            · rw [h1] at hlt; exact Nat.lt_irrefl _ hlt
            · have := hranks.1 fr' hfr'
              rw [h1] at this
              exact Nat.lt_irrefl _ (Nat.lt_trans hlt this)
          · exact hne rfl
    · rw [h3] at ht; cases ht
    · rw [h3] at ht; cases ht
  obtain ⟨hpos, f, hf⟩ := hdone
  have hfp := h.posFile p f true hf
  subst hfp
  exact ⟨hpos, hf, h.isFile _ (by simp [hf]) hpne⟩

/-- What is *not* proved: liveness.  The theorems above are safety statements over every reachable
state (no body twice, no binding before completion, exports exact, errors instead of values, no
panic, packages constant); that every run of an acyclic graph *ends* (status `done` or `error` after
finitely many steps, i.e. every import eventually completes) is only observed: the driver reports
`fuel` if 100000 steps do not suffice, which the graphs stream would flag as a disagreement.
Likewise the equality of the printed output with the run-once/export-map reference (`spec_run` in
vlib/props/c17.py) is judged on the stream, not proved.  Programs that start other fibers before an
import are outside the model (known finding DC17.2: a completing child wakes a sleeping importer). -/
def C17_full : Prop :=
  ∀ (g : Graph) (rank : Path → Nat), Acyclic g rank → ∃ n, (run g n).status ≠ .running

/-! ### regression inputs of repaired defects, and non-vacuity -/

/-- the witness of the repaired finding D19 (`corpus/C17/06_d19_three_level.json`): a three-level
import loads `a.lay`, `a/b.lay`, `a/b/c.lay` in turn and the run completes -/
def d19Graph : Graph :=
  { main := [.importWhole ["a", "b"] none, .emit "main1" (.field "b" "y"),
             .importWhole ["a", "b", "c"] none, .emit "main2" (.field "c" "z")],
    files := [(["a"], [.mark "a_body", .decl true .let_ "x" 1]),
              (["a", "b"], [.mark "b_body", .decl true .let_ "y" 2]),
              (["a", "b", "c"], [.mark "c_body", .decl true .let_ "z" 3])] }

example :
    (run d19Graph 18).status = .done ∧
    (run d19Graph 18).log.filterMap Event.startPos? = [["a", "b", "c"], ["a", "b"], ["a"], []] ∧
    (run d19Graph 18).out = ["a_body", "b_body", "main1=2", "c_body", "main2=3"] := by
  decide

/-- the second shape of D19 (`self.a.a` then `self.a.b`) runs to completion as well -/
example :
    (run { main := [.importWhole ["a", "a"] none, .importWhole ["a", "b"] none],
           files := [(["a"], []), (["a", "a"], []), (["a", "b"], [])] } 10).status = .done := by
  decide

def std : ForeignPkg := ⟨"std", by decide⟩

/-- the witness of the repaired finding D25-module-shadows-package
(`corpus/C17/07_d25_user_module_named_std.json`) with a few more package-like names: user files
`std.lay`, `std/io.lay` and `io.lay`; the script imports the user modules through `self`, the
library through `std`, and the bare names `io` and `q.io` of user modules as packages -/
def shadowGraph (last : Stmt) : Graph :=
  { main := [.importWhole ["std"] (some "s"), .emit "m1" (.field "s" "q"),
             .importPkg std ["io"] "io", .emit "m2" (.field "io" "q"),
             .importWhole ["std", "io"] (some "uio"), .emit "m3" (.field "uio" "q"),
             .importWhole ["io"] (some "tio"), .emit "m4" (.field "tio" "q"),
             .importPkg std ["io", "stdio"] "stdio", .importPkg std [] "lib", .mark "ok", last],
    files := [(["std"], [.mark "<std", .decl true .let_ "q" 1, .mark ">std"]),
              (["std", "io"], [.mark "<std/io", .decl true .let_ "q" 2, .mark ">std/io"]),
              (["io"], [.mark "<io", .decl true .let_ "q" 3, .mark ">io"])] }

example :
    (run (shadowGraph (.mark "end")) 40).status = .done ∧
    (run (shadowGraph (.mark "end")) 40).out =
      ["<std", ">std", "m1=1", "m2=!", "<std/io", ">std/io", "m3=2", "<io", ">io", "m4=3", "ok", "end"] ∧
    (run (shadowGraph (.mark "end")) 40).packages = initPackages := by
  decide

/-- the graph with files named like the library and its modules meets the hypothesis of the
run-once theorems -/
example : Acyclic (shadowGraph (.mark "end")) (fun p => if p = [] then 5 else 1) := by
  intro u hu p hp
  simp only [units, shadowGraph, List.mem_cons, List.mem_nil_iff, or_false] at hu
  rcases hu with rfl | rfl | rfl | rfl <;>
    simp only [importPaths, List.filterMap_cons, List.filterMap_nil, Stmt.importPath?, List.mem_cons,
      List.mem_nil_iff, or_false] at hp <;>
    (try rcases hp with rfl | rfl | rfl) <;> (try cases hp) <;> decide

/-- a loaded user module is not a package: `import io.x` / `import std.io.q` fail -/
example :
    (run (shadowGraph (.importPkg ⟨"io", by decide⟩ [] "z")) 40).status = .error "ImportError" "Module io not found" ∧
    (run (shadowGraph (.importPkg std ["io", "q"] "z")) 40).status = .error "ImportError" "Module std.io.q not found" ∧
    (run (shadowGraph (.importPkg std ["std"] "z")) 40).status = .error "ImportError" "Module std.std not found" := by
  decide

/-- a diamond with a nested module, repeated imports in all three forms, private state behind an
exported accessor, and a module importing its own child -/
def demoGraph : Graph :=
  { main := [.mark "<main", .importWhole ["a"] none, .importWhole ["b"] (some "bb"),
             .importSyms ["sh"] [("bump", none), ("cnt", some "c0")],
             .importWhole ["a", "u"] none, .emit "t1" (.field "u" "k"), .emit "t2" (.sym "bump"),
             .importWhole ["sh"] (some "s2"), .emit "t3" (.field "s2" "cnt"), .emit "t4" (.field "s2" "hidden"), .mark ">main"],
    files := [(["a"], [.mark "<a", .importWhole ["sh"] none, .importWhole ["a", "u"] none, .decl true .fn "f" 1, .mark ">a"]),
              (["b"], [.mark "<b", .importSyms ["sh"] [("bump", none)], .emit "b1" (.sym "bump"), .mark ">b"]),
              (["a", "u"], [.mark "<u", .decl true .cls "k" 7, .mark ">u"]),
              (["sh"], [.mark "<sh", .decl true .let_ "cnt" 0, .decl false .let_ "hidden" 5, .declAcc true "bump" "cnt", .mark ">sh"])] }

def demoRank : Path → Nat
  | [] => 10
  | ["a"] => 5
  | ["b"] => 4
  | ["a", "u"] => 2
  | ["sh"] => 1
  | _ => 0

/-- the hypotheses of the theorems are met by a non-trivial graph … -/
example : Acyclic demoGraph demoRank := by
  intro u hu p hp
  simp only [units, demoGraph, List.mem_cons, List.mem_nil_iff, or_false] at hu
  rcases hu with rfl | rfl | rfl | rfl | rfl <;>
    simp only [importPaths, List.filterMap_cons, List.filterMap_nil, Stmt.importPath?, List.mem_cons,
      List.mem_nil_iff, or_false] at hp <;>
    (try rcases hp with rfl | rfl | rfl | rfl | rfl) <;> (try rcases hp with rfl | rfl) <;> (try subst hp) <;>
    (try cases hp) <;> decide

/-- … on which the model runs to completion with every body run once, the accessor observed through
two importers, the later snapshot seeing the bumped counter and the private symbol invisible. -/
example :
    (run demoGraph 60).status = .done ∧
    (run demoGraph 60).out =
      ["<main", "<a", "<sh", ">sh", "<u", ">u", ">a", "<b", "b1=1", ">b", "t1=7", "t2=2", "t3=2", "t4=!", ">main"] := by
  decide

end LaytheVerif.C17
