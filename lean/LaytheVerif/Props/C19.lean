/-
C19 — An interactive session behaves like the same declarations in one file.
Theorems about `Model/Repl.lean`; no bound on the number or size of the entries.
-/
import LaytheVerif.Model.Repl
namespace LaytheVerif.C19
open LaytheVerif.Repl

/-! ### symbol slots persist -/

theorem idxOf_append (name : String) (l r : List String) (h : name ∈ l) : idxOf name (l ++ r) = idxOf name l := by
  induction l with
  | nil => simp at h
  | cons x rest ih =>
    simp only [List.cons_append, idxOf]
    split
    · rfl
    · rename_i hx
      have : name ∈ rest := by
        rcases List.mem_cons.mp h with h1 | h1
        · exact absurd h1.symm hx
        · exact h1
      rw [ih this]

theorem idxOf_lt (name : String) (l : List String) (h : name ∈ l) : idxOf name l < l.length := by
  induction l with
  | nil => simp at h
  | cons x rest ih =>
    simp only [idxOf, List.length_cons]
    split
    · omega
    · rename_i hx
      have : name ∈ rest := by
        rcases List.mem_cons.mp h with h1 | h1
        · exact absurd h1.symm hx
        · exact h1
      have := ih this
      omega

theorem idxOf_get (name : String) (l : List String) (h : name ∈ l) : l[idxOf name l]? = some name := by
  induction l with
  | nil => simp at h
  | cons x rest ih =>
    simp only [idxOf]
    split
    · rename_i hx; simp [hx]
    · rename_i hx
      have : name ∈ rest := by
        rcases List.mem_cons.mp h with h1 | h1
        · exact absurd h1.symm hx
        · exact h1
      simpa using ih this

/-- a compile error leaves the whole session state — symbols, caches, functions — untouched -/
theorem C19_failed_compile_changes_nothing (globals : List String) (st : St) (e : Entry)
    (err : CompileError) (h : compile globals st e = .error err) : step globals st e = st := by
  simp [step, stepWith, h]

/-- the table an entry is compiled against extends the module's symbols -/
theorem compile_table (globals : List String) (st : St) (e : Entry) (c : Compiled)
    (h : compile globals st e = .ok c) : ∃ more, c.table = st.symbols ++ more := by
  unfold compile compileAt at h
  split at h
  · cases h
  · split at h
    · cases h
    · split at h
      · cases h
      · split at h
        · cases h
        · cases h
          exact ⟨_, List.append_assoc _ _ _⟩

theorem step_symbols (globals : List String) (st : St) (e : Entry) :
    ∃ more, (step globals st e).symbols = st.symbols ++ more := by
  unfold step
  cases h : compile globals st e with
  | error err => exact ⟨[], by simp [stepWith]⟩
  | ok c => simpa [stepWith] using compile_table globals st e c h

theorem run_symbols (globals : List String) (st : St) (es : List Entry) :
    ∃ more, (runSession globals st es).symbols = st.symbols ++ more := by
  induction es generalizing st with
  | nil => exact ⟨[], by simp [runSession]⟩
  | cons e rest ih =>
    obtain ⟨m1, h1⟩ := step_symbols globals st e
    obtain ⟨m2, h2⟩ := ih (step globals st e)
    exact ⟨m1 ++ m2, by simp [runSession, h2, h1, List.append_assoc]⟩

/-- every `GetModSym`/`SetModSym` the compiler emits for a name carries that name's index in the
table the entry was compiled against -/
theorem number_resolves (tbl : List String) (np ni : Nat) (ops : List Op) (name : String) :
    (Op.get name ∈ ops → ROp.get (idxOf name tbl) ∈ (number tbl np ni ops).1) ∧
    (Op.set name ∈ ops → ROp.set (idxOf name tbl) ∈ (number tbl np ni ops).1) := by
  induction ops generalizing np ni with
  | nil => simp
  | cons op rest ih =>
    constructor
    · intro h
      rcases List.mem_cons.mp h with h1 | h2
      · rw [← h1]; simp [number]
      · cases op <;> simp only [number, List.mem_cons] <;> exact Or.inr ((ih _ _).1 h2)
    · intro h
      rcases List.mem_cons.mp h with h1 | h2
      · rw [← h1]; simp [number]
      · cases op <;> simp only [number, List.mem_cons] <;> exact Or.inr ((ih _ _).2 h2)

/-- **C19_symbols_persist.**  For every session prefix `es1` and every continuation `es2` (entries
that compile, entries that fail to compile, entries that fail while running): a name that has a
module slot after `es1` has the *same* slot after `es1 ++ es2`, the slot still holds that name, and
any later entry that compiles resolves the name to that slot. -/
theorem C19_symbols_persist (globals : List String) (st0 : St) (es1 es2 : List Entry) (name : String)
    (hdef : name ∈ (runSession globals st0 es1).symbols) :
    let st1 := runSession globals st0 es1
    let st2 := runSession globals st1 es2
    idxOf name st2.symbols = idxOf name st1.symbols ∧
    st2.symbols[idxOf name st1.symbols]? = some name ∧
    ∀ e c, compile globals st2 e = .ok c →
      idxOf name c.table = idxOf name st1.symbols ∧
      ∀ f ∈ { name := "script", ops := e.script : FunDef } :: e.funs, Op.get name ∈ f.ops →
        ∀ np ni, ROp.get (idxOf name st1.symbols) ∈ (number c.table np ni f.ops).1 := by
  intro st1 st2
  obtain ⟨more, hm⟩ := run_symbols globals st1 es2
  have h1 : idxOf name st2.symbols = idxOf name st1.symbols := by
    show idxOf name (runSession globals st1 es2).symbols = _
    rw [hm]; exact idxOf_append name _ _ hdef
  refine ⟨h1, ?_, ?_⟩
  · rw [← h1]
    exact idxOf_get name _ (by show name ∈ (runSession globals st1 es2).symbols; rw [hm]; exact List.mem_append_left _ hdef)
  · intro e c hc
    obtain ⟨m2, hm2⟩ := compile_table globals st2 e c hc
    have h2 : idxOf name c.table = idxOf name st1.symbols := by
      rw [hm2, idxOf_append name _ _ (by show name ∈ (runSession globals st1 es2).symbols; rw [hm]; exact List.mem_append_left _ hdef)]
      exact h1
    refine ⟨h2, ?_⟩
    intro f _ hop np ni
    rw [← h2]
    exact (number_resolves c.table np ni f.ops name).1 hop

/-- `runSession` over a concatenation -/
theorem runSession_append (globals : List String) (st : St) (es1 es2 : List Entry) :
    runSession globals st (es1 ++ es2) = runSession globals (runSession globals st es1) es2 := by
  induction es1 generalizing st with
  | nil => rfl
  | cons e rest ih => simp [runSession, ih]

/-! ### inline-cache slots -/

/-- ids handed out by one function body lie in `[np, np')` / `[ni, ni')` -/
theorem number_range (tbl : List String) (np ni : Nat) (ops : List Op) :
    np ≤ (number tbl np ni ops).2.1 ∧ ni ≤ (number tbl np ni ops).2.2 ∧
    ∀ op ∈ (number tbl np ni ops).1,
      (∀ id, op = ROp.prop id → np ≤ id ∧ id < (number tbl np ni ops).2.1) ∧
      (∀ id, op = ROp.invoke id → ni ≤ id ∧ id < (number tbl np ni ops).2.2) := by
  induction ops generalizing np ni with
  | nil => simp [number]
  | cons op rest ih =>
    cases op with
    | get n =>
      obtain ⟨h1, h2, h3⟩ := ih np ni
      refine ⟨h1, h2, ?_⟩
      intro op hop
      simp only [number, List.mem_cons] at hop
      rcases hop with rfl | hop
      · simp
      · exact h3 op hop
    | set n =>
      obtain ⟨h1, h2, h3⟩ := ih np ni
      refine ⟨h1, h2, ?_⟩
      intro op hop
      simp only [number, List.mem_cons] at hop
      rcases hop with rfl | hop
      · simp
      · exact h3 op hop
    | prop =>
      obtain ⟨h1, h2, h3⟩ := ih (np + 1) ni
      simp only [number]
      refine ⟨by omega, h2, ?_⟩
      intro op hop
      simp only [List.mem_cons] at hop
      rcases hop with rfl | hop
      · constructor
        · intro id hid; cases hid; omega
        · intro id hid; cases hid
      · obtain ⟨a, b⟩ := h3 op hop
        exact ⟨fun id hid => by have := a id hid; omega, b⟩
    | invoke =>
      obtain ⟨h1, h2, h3⟩ := ih np (ni + 1)
      simp only [number]
      refine ⟨h1, by omega, ?_⟩
      intro op hop
      simp only [List.mem_cons] at hop
      rcases hop with rfl | hop
      · constructor
        · intro id hid; cases hid
        · intro id hid; cases hid; omega
      · obtain ⟨a, b⟩ := h3 op hop
        exact ⟨a, fun id hid => by have := b id hid; omega⟩

theorem numberFuns_range (tbl : List String) (np ni : Nat) (fs : List FunDef) :
    np ≤ (numberFuns tbl np ni fs).2.1 ∧ ni ≤ (numberFuns tbl np ni fs).2.2 ∧
    ∀ f ∈ (numberFuns tbl np ni fs).1, ∀ op ∈ f.ops,
      (∀ id, op = ROp.prop id → np ≤ id ∧ id < (numberFuns tbl np ni fs).2.1) ∧
      (∀ id, op = ROp.invoke id → ni ≤ id ∧ id < (numberFuns tbl np ni fs).2.2) := by
  induction fs generalizing np ni with
  | nil => simp [numberFuns]
  | cons f rest ih =>
    obtain ⟨a1, a2, a3⟩ := number_range tbl np ni f.ops
    obtain ⟨b1, b2, b3⟩ := ih (number tbl np ni f.ops).2.1 (number tbl np ni f.ops).2.2
    simp only [numberFuns]
    refine ⟨by omega, by omega, ?_⟩
    intro g hg op hop
    simp only [List.mem_cons] at hg
    rcases hg with rfl | hg
    · obtain ⟨c1, c2⟩ := a3 op hop
      exact ⟨fun id hid => by have := c1 id hid; omega, fun id hid => by have := c2 id hid; omega⟩
    · obtain ⟨c1, c2⟩ := b3 g hg op hop
      exact ⟨fun id hid => by have := c1 id hid; omega, fun id hid => by have := c2 id hid; omega⟩

/-- what a successful compile produced, without the name-resolution detail: the functions and the
script numbered consecutively from the start ids, after a prologue without cache sites -/
theorem compileAt_ok (np0 ni0 : Nat) (globals : List String) (st : St) (e : Entry) (c : Compiled)
    (h : compileAt np0 ni0 globals st e = .ok c) :
    ∃ tbl pro, propIds pro = [] ∧ invIds pro = [] ∧
      c.funs = (numberFuns tbl np0 ni0 e.funs).1 ∧
      c.script = pro ++ (number tbl (numberFuns tbl np0 ni0 e.funs).2.1 (numberFuns tbl np0 ni0 e.funs).2.2 e.script).1 ∧
      c.propCount = (number tbl (numberFuns tbl np0 ni0 e.funs).2.1 (numberFuns tbl np0 ni0 e.funs).2.2 e.script).2.1 ∧
      c.invCount = (number tbl (numberFuns tbl np0 ni0 e.funs).2.1 (numberFuns tbl np0 ni0 e.funs).2.2 e.script).2.2 := by
  unfold compileAt at h
  split at h
  · cases h
  · split at h
    · cases h
    · split at h
      · cases h
      · split at h
        · cases h
        · cases h
          refine ⟨_, _, ?_, ?_, rfl, rfl, rfl, rfl⟩
          · simp [propIds, List.filterMap_append, List.filterMap_map, List.filterMap_flatMap]
          · simp [invIds, List.filterMap_append, List.filterMap_map, List.filterMap_flatMap]

/-- every live function's cache ids index inside the module's current cache vectors -/
def InRange (st : St) : Prop :=
  ∀ f ∈ st.live, ∀ op ∈ f.ops,
    (∀ id, op = ROp.prop id → id < st.propLen) ∧ (∀ id, op = ROp.invoke id → id < st.invLen)

theorem faults_nil_of_inRange (propLen invLen : Nat) (f : RFun)
    (h : ∀ op ∈ f.ops, (∀ id, op = ROp.prop id → id < propLen) ∧ (∀ id, op = ROp.invoke id → id < invLen)) :
    f.faults propLen invLen = [] := by
  unfold RFun.faults
  rw [List.filterMap_eq_nil_iff]
  intro op hop
  cases op <;> simp only [ROp.fault]
  · simp [(h _ hop).1 _ rfl]
  · simp [(h _ hop).2 _ rfl]

theorem flatMap_faults_nil (live : List RFun) (calls : List String) (propLen invLen : Nat)
    (h : ∀ f ∈ live, ∀ op ∈ f.ops, (∀ id, op = ROp.prop id → id < propLen) ∧ (∀ id, op = ROp.invoke id → id < invLen)) :
    (live.filter (fun f => f.name ∈ calls)).flatMap (RFun.faults propLen invLen) = [] := by
  rw [List.flatMap_eq_nil_iff]
  intro f hf
  exact faults_nil_of_inRange _ _ f (fun op hop => h f (List.mem_filter.mp hf).1 op hop)

/-- **C19_cache_vectors_only_grow.**  `InlineCache::grow` is never asked to shorten a vector (its two
`debug_assert!`s hold, `resize` never truncates): an entry leaves the module's cache vectors at least
as long as they were. -/
theorem C19_cache_vectors_only_grow (globals : List String) (st : St) (e : Entry) :
    st.propLen ≤ (step globals st e).propLen ∧ st.invLen ≤ (step globals st e).invLen := by
  unfold step
  cases hc : compile globals st e with
  | error err => simp [stepWith]
  | ok c =>
    obtain ⟨tbl, pro, _, _, _, _, hp, hi⟩ := compileAt_ok _ _ globals st e c hc
    obtain ⟨a1, a2, _⟩ := numberFuns_range tbl st.propLen st.invLen e.funs
    obtain ⟨b1, b2, _⟩ := number_range tbl (numberFuns tbl st.propLen st.invLen e.funs).2.1
      (numberFuns tbl st.propLen st.invLen e.funs).2.2 e.script
    simp only [stepWith, hp, hi]
    omega

theorem step_inRange (globals : List String) (st : St) (e : Entry) (h : InRange st) :
    InRange (step globals st e) ∧ (step globals st e).faults = st.faults := by
  unfold step
  cases hc : compile globals st e with
  | error err => exact ⟨h, rfl⟩
  | ok c =>
    obtain ⟨tbl, pro, _, _, hf, _, hp, hi⟩ := compileAt_ok _ _ globals st e c hc
    obtain ⟨a1, a2, a3⟩ := numberFuns_range tbl st.propLen st.invLen e.funs
    obtain ⟨b1, b2, _⟩ := number_range tbl (numberFuns tbl st.propLen st.invLen e.funs).2.1
      (numberFuns tbl st.propLen st.invLen e.funs).2.2 e.script
    have hin : ∀ f ∈ st.live ++ c.funs, ∀ op ∈ f.ops,
        (∀ id, op = ROp.prop id → id < c.propCount) ∧ (∀ id, op = ROp.invoke id → id < c.invCount) := by
      intro f hfm op hop
      rw [hp, hi]
      rcases List.mem_append.mp hfm with hfm | hfm
      · obtain ⟨c1, c2⟩ := h f hfm op hop
        exact ⟨fun id hid => by have := c1 id hid; omega, fun id hid => by have := c2 id hid; omega⟩
      · rw [hf] at hfm
        obtain ⟨c1, c2⟩ := a3 f hfm op hop
        exact ⟨fun id hid => by have := c1 id hid; omega, fun id hid => by have := c2 id hid; omega⟩
    refine ⟨fun f hfm op hop => hin f hfm op hop, ?_⟩
    simp only [stepWith]
    rw [flatMap_faults_nil _ e.calls _ _ hin, List.append_nil]

/-- **C19_cache_slots_in_range.**  For every session, every function defined by any entry keeps
indexing inside the module's cache vectors, so no entry — however much later, whatever failed in
between — makes an out-of-range access (`debug_assert!(inline_slot < len)` / `get_unchecked` in
`cache.rs` are safe). -/
theorem C19_cache_slots_in_range (globals : List String) (es : List Entry) :
    InRange (runSession globals St.empty es) ∧ (runSession globals St.empty es).faults = [] := by
  have : ∀ st, InRange st → InRange (runSession globals st es) ∧ (runSession globals st es).faults = st.faults := by
    induction es with
    | nil => intro st h; exact ⟨h, rfl⟩
    | cons e rest ih =>
      intro st h
      obtain ⟨h1, h2⟩ := step_inRange globals st e h
      obtain ⟨h3, h4⟩ := ih _ h1
      exact ⟨h3, by rw [runSession, h4, h2]⟩
  exact this St.empty (by intro f hf; simp [St.empty] at hf)

/-! ### the ids of a whole session are consecutive: no two sites share a slot -/

def nProp : List Op → Nat
  | [] => 0
  | .prop :: rest => nProp rest + 1
  | _ :: rest => nProp rest

def nInv : List Op → Nat
  | [] => 0
  | .invoke :: rest => nInv rest + 1
  | _ :: rest => nInv rest

theorem propIds_append (a b : List ROp) : propIds (a ++ b) = propIds a ++ propIds b := by
  simp [propIds, List.filterMap_append]

theorem invIds_append (a b : List ROp) : invIds (a ++ b) = invIds a ++ invIds b := by
  simp [invIds, List.filterMap_append]

/-- one function body: the property ids are `np, np+1, ..` and the invoke ids `ni, ni+1, ..`, in
emission order, and the counters end right after them -/
theorem number_ids (tbl : List String) (np ni : Nat) (ops : List Op) :
    (number tbl np ni ops).2.1 = np + nProp ops ∧ (number tbl np ni ops).2.2 = ni + nInv ops ∧
    propIds (number tbl np ni ops).1 = List.range' np (nProp ops) ∧
    invIds (number tbl np ni ops).1 = List.range' ni (nInv ops) := by
  induction ops generalizing np ni with
  | nil => simp [number, nProp, nInv, propIds, invIds]
  | cons op rest ih =>
    cases op with
    | get n =>
      obtain ⟨h1, h2, h3, h4⟩ := ih np ni
      simp only [propIds, invIds] at h3 h4
      simp [number, nProp, nInv, propIds, invIds, h1, h2, h3, h4]
    | set n =>
      obtain ⟨h1, h2, h3, h4⟩ := ih np ni
      simp only [propIds, invIds] at h3 h4
      simp [number, nProp, nInv, propIds, invIds, h1, h2, h3, h4]
    | prop =>
      obtain ⟨h1, h2, h3, h4⟩ := ih (np + 1) ni
      simp only [propIds, invIds] at h3 h4
      simp [number, nProp, nInv, propIds, invIds, h1, h2, h3, h4, List.range'_succ]
      omega
    | invoke =>
      obtain ⟨h1, h2, h3, h4⟩ := ih np (ni + 1)
      simp only [propIds, invIds] at h3 h4
      simp [number, nProp, nInv, propIds, invIds, h1, h2, h3, h4, List.range'_succ]
      omega

/-- the functions of one entry, in the order they are finished -/
theorem numberFuns_ids (tbl : List String) (np ni : Nat) (fs : List FunDef) :
    ∃ kp ki, (numberFuns tbl np ni fs).2.1 = np + kp ∧ (numberFuns tbl np ni fs).2.2 = ni + ki ∧
      propIds ((numberFuns tbl np ni fs).1.flatMap (·.ops)) = List.range' np kp ∧
      invIds ((numberFuns tbl np ni fs).1.flatMap (·.ops)) = List.range' ni ki := by
  induction fs generalizing np ni with
  | nil => exact ⟨0, 0, by simp [numberFuns, propIds, invIds]⟩
  | cons f rest ih =>
    obtain ⟨a1, a2, a3, a4⟩ := number_ids tbl np ni f.ops
    obtain ⟨kp, ki, b1, b2, b3, b4⟩ := ih (number tbl np ni f.ops).2.1 (number tbl np ni f.ops).2.2
    refine ⟨nProp f.ops + kp, nInv f.ops + ki, ?_, ?_, ?_, ?_⟩
    · simp only [numberFuns]; omega
    · simp only [numberFuns]; omega
    · simp only [numberFuns, List.flatMap_cons, propIds_append]
      rw [b3, a3, a1]
      exact List.range'_append_1
    · simp only [numberFuns, List.flatMap_cons, invIds_append]
      rw [b4, a4, a2]
      exact List.range'_append_1

/-- one compiled entry: its functions and then its script take the ids right after the module's
current vector lengths, and the vectors are grown to exactly the first unused ids -/
theorem compile_ids (globals : List String) (st : St) (e : Entry) (c : Compiled) (h : compile globals st e = .ok c) :
    ∃ kp ki, c.propCount = st.propLen + kp ∧ c.invCount = st.invLen + ki ∧
      propIds (c.funs.flatMap (·.ops) ++ c.script) = List.range' st.propLen kp ∧
      invIds (c.funs.flatMap (·.ops) ++ c.script) = List.range' st.invLen ki := by
  obtain ⟨tbl, pro, hpp, hpi, hf, hs, hp, hi⟩ := compileAt_ok _ _ globals st e c h
  obtain ⟨kp, ki, a1, a2, a3, a4⟩ := numberFuns_ids tbl st.propLen st.invLen e.funs
  obtain ⟨b1, b2, b3, b4⟩ := number_ids tbl (numberFuns tbl st.propLen st.invLen e.funs).2.1
    (numberFuns tbl st.propLen st.invLen e.funs).2.2 e.script
  refine ⟨kp + nProp e.script, ki + nInv e.script, by omega, by omega, ?_, ?_⟩
  · rw [hf, hs, propIds_append, propIds_append, hpp, a3, b3, a1, List.nil_append]
    exact List.range'_append_1
  · rw [hf, hs, invIds_append, invIds_append, hpi, a4, b4, a2, List.nil_append]
    exact List.range'_append_1

theorem sessionOps_ids (globals : List String) (es : List Entry) : ∀ st : St,
    ∃ kp ki, (runSession globals st es).propLen = st.propLen + kp ∧ (runSession globals st es).invLen = st.invLen + ki ∧
      propIds (sessionOps globals st es) = List.range' st.propLen kp ∧
      invIds (sessionOps globals st es) = List.range' st.invLen ki := by
  induction es with
  | nil => intro st; exact ⟨0, 0, by simp [runSession, sessionOps, propIds, invIds]⟩
  | cons e rest ih =>
    intro st
    obtain ⟨kp2, ki2, r1, r2, r3, r4⟩ := ih (step globals st e)
    cases hc : compile globals st e with
    | error err =>
      have hst : step globals st e = st := by simp [step, stepWith, hc]
      rw [hst] at r1 r2 r3 r4
      refine ⟨kp2, ki2, ?_, ?_, ?_, ?_⟩
      · simp only [runSession, hst]; exact r1
      · simp only [runSession, hst]; exact r2
      · simp only [sessionOps, hc, hst, List.nil_append]; exact r3
      · simp only [sessionOps, hc, hst, List.nil_append]; exact r4
    | ok c =>
      obtain ⟨kp1, ki1, c1, c2, c3, c4⟩ := compile_ids globals st e c hc
      have hp : (step globals st e).propLen = c.propCount := by simp [step, stepWith, hc]
      have hi : (step globals st e).invLen = c.invCount := by simp [step, stepWith, hc]
      rw [hp, c1] at r1 r3
      rw [hi, c2] at r2 r4
      refine ⟨kp1 + kp2, ki1 + ki2, ?_, ?_, ?_, ?_⟩
      · simp only [runSession]; omega
      · simp only [runSession]; omega
      · simp only [sessionOps, hc]
        rw [propIds_append, r3, c3]
        exact List.range'_append_1
      · simp only [sessionOps, hc]
        rw [invIds_append, r4, c4]
        exact List.range'_append_1

/-- **C19_cache_ids_consecutive.**  Over a whole session — any number of entries, failing ones
included — the property ids the compiles hand out, read in emission order, are exactly
`0, 1, .., propLen - 1` where `propLen` is the final length of the module's property vector, and
likewise the invoke ids: numbering continues across entries, an entry that fails to compile consumes
no id, no slot is left unused and none is handed out twice. -/
theorem C19_cache_ids_consecutive (globals : List String) (es : List Entry) :
    propIds (sessionOps globals St.empty es) = List.range (runSession globals St.empty es).propLen ∧
    invIds (sessionOps globals St.empty es) = List.range (runSession globals St.empty es).invLen := by
  obtain ⟨kp, ki, h1, h2, h3, h4⟩ := sessionOps_ids globals es St.empty
  have e1 : St.empty.propLen = 0 := rfl
  have e2 : St.empty.invLen = 0 := rfl
  rw [e1, Nat.zero_add] at h1
  rw [e2, Nat.zero_add] at h2
  rw [e1] at h3
  rw [e2] at h4
  rw [h1, h2, h3, h4, List.range_eq_range', List.range_eq_range']
  exact ⟨rfl, rfl⟩

/-- **C19_cache_slots_disjoint.**  No two cache sites of a session share a slot, whichever entries
they were compiled by (C13's per-compile `C13_slot_disjoint` extended to the module the REPL builds
entry by entry): a site of a later entry can neither read nor overwrite what an earlier entry's site
cached. -/
theorem C19_cache_slots_disjoint (globals : List String) (es : List Entry) :
    (propIds (sessionOps globals St.empty es)).Nodup ∧ (invIds (sessionOps globals St.empty es)).Nodup := by
  obtain ⟨h1, h2⟩ := C19_cache_ids_consecutive globals es
  rw [h1, h2]
  exact ⟨List.nodup_range, List.nodup_range⟩

/-- the functions that are live after a session were all emitted by it: the two theorems above speak
about every site that can still run -/
theorem live_subset_sessionOps (globals : List String) (es : List Entry) : ∀ st : St,
    ∀ f ∈ (runSession globals st es).live, f ∈ st.live ∨ ∀ op ∈ f.ops, op ∈ sessionOps globals st es := by
  induction es with
  | nil => intro st f hf; exact Or.inl hf
  | cons e rest ih =>
    intro st f hf
    rcases ih (step globals st e) f hf with h | h
    · cases hc : compile globals st e with
      | error err =>
        left
        simpa [step, stepWith, hc] using h
      | ok c =>
        have : f ∈ st.live ++ c.funs := by simpa [step, stepWith, hc] using h
        rcases List.mem_append.mp this with h1 | h1
        · exact Or.inl h1
        · right
          intro op hop
          simp only [sessionOps, hc]
          exact List.mem_append_left _ (List.mem_append_left _ (List.mem_flatMap.mpr ⟨f, h1, hop⟩))
    · right
      intro op hop
      simp only [sessionOps]
      exact List.mem_append_right _ (h op hop)

/-! ### the repaired finding D13 as a regression fact, and non-vacuity -/

/-- `corpus/C19/04_d13_cache_replaced.json` in the model's vocabulary: a class, a function with an
invoke site (`a.foo()`), an instance, then a call of the function from a later entry -/
def d13Session : List Entry :=
  [ { syntaxOk := true, decls := ["A"], refs := [], script := [.set "A"], calls := [],
      funs := [{ name := "init", ops := [.prop] }, { name := "foo", ops := [.prop] }] },
    { syntaxOk := true, decls := ["g"], refs := [], script := [.set "g"], calls := [],
      funs := [{ name := "g", ops := [.invoke] }] },
    { syntaxOk := true, decls := ["a"], refs := ["A"], script := [.get "A", .set "a"], calls := ["init"], funs := [] },
    { syntaxOk := true, decls := [], refs := ["print", "g", "a"], script := [.get "print", .get "g", .get "a"],
      calls := ["g", "foo"], funs := [] } ]

/-- **C19_regression_restarted_numbering** (D13, repaired).  With the numbering of the code before
the repair — every compile restarted at 0 and the vectors were replaced — the same session indexes
out of range three times: the fault detector `C19_cache_slots_in_range` speaks about is not vacuous,
and un-doing the repair re-opens exactly this. -/
theorem C19_regression_restarted_numbering :
    (BeforeRepair.runSession ["print"] St.empty d13Session).faults =
      [("init", "property", 0, 0), ("foo", "property", 1, 0), ("g", "invoke", 0, 0)] := by
  decide

/-- The model-level content of the property: no session makes an out-of-range cache access.  (That
the printed output of a session equals that of the concatenated file needs the semantics of whole
programs; it is judged on the sessions stream with the implementation's own `run` as the Spec,
DESIGN.md §5 C19.) -/
def C19_full : Prop :=
  ∀ (globals : List String) (es : List Entry), (runSession globals St.empty es).faults = []

/-- … which, after the repair of D13, holds. -/
theorem C19_full_holds : C19_full := fun globals es => (C19_cache_slots_in_range globals es).2

/-- the D13 session on the code's model: no fault, the four slots of `A`, `g`, `a`, `print` kept,
`init`/`foo` own property slots 0 and 1 and `g` invoke slot 0 to the end of the session -/
example :
    (runSession ["print"] St.empty d13Session).faults = [] ∧
    (runSession ["print"] St.empty d13Session).symbols = ["A", "g", "a", "print"] ∧
    (runSession ["print"] St.empty d13Session).propLen = 2 ∧
    (runSession ["print"] St.empty d13Session).invLen = 1 ∧
    (runSession ["print"] St.empty d13Session).live.map (fun f => (f.name, f.ops)) =
      [("init", [.prop 0]), ("foo", [.prop 1]), ("g", [.invoke 0])] := by
  decide

/-- sites in several entries, with an entry the resolver rejects and an entry the compiler proper
rejects (after numbering its two sites) in between: the later entry's sites continue at 1 / 1, the
failing entries consumed nothing -/
example :
    let es : List Entry :=
      [ { syntaxOk := true, decls := ["f"], refs := [], script := [.set "f"], calls := [],
          funs := [{ name := "f", ops := [.prop, .invoke] }] },
        { syntaxOk := true, decls := [], refs := ["nope"], script := [.get "nope", .prop], calls := [],
          funs := [{ name := "l", ops := [.prop] }] },
        { syntaxOk := true, compilerOk := false, decls := ["z", "big"], refs := [], script := [.set "z", .set "big"],
          calls := [], funs := [{ name := "z", ops := [.prop, .invoke] }, { name := "big", ops := [] }] },
        { syntaxOk := true, decls := ["h"], refs := ["f"], script := [.set "h", .get "f", .invoke], calls := ["f"],
          funs := [{ name := "h", ops := [.invoke, .prop] }] } ]
    propIds (sessionOps [] St.empty es) = [0, 1] ∧ invIds (sessionOps [] St.empty es) = [0, 1, 2] ∧
    (runSession [] St.empty es).live.map (fun f => (f.name, f.ops)) =
      [("f", [.prop 0, .invoke 0]), ("h", [.invoke 1, .prop 1])] := by
  decide

/-- a session with a duplicate declaration, an undeclared name and a syntax error: the three failing
entries change nothing, later entries still resolve `x` to slot 0 -/
example :
    let es : List Entry :=
      [ { syntaxOk := true, decls := ["x"], refs := [], funs := [], script := [.set "x"], calls := [] },
        { syntaxOk := true, decls := ["x"], refs := [], funs := [], script := [.set "x"], calls := [] },
        { syntaxOk := true, decls := [], refs := ["nope"], funs := [], script := [.get "nope"], calls := [] },
        { syntaxOk := false, decls := [], refs := [], funs := [], script := [], calls := [] },
        { syntaxOk := true, decls := ["y"], refs := ["print", "x"], funs := [], script := [.get "print", .get "x", .set "y"], calls := [] } ]
    (runSession ["print"] St.empty es).symbols = ["x", "y", "print"] ∧
    (es.map fun e => (compile ["print"] (runSession ["print"] St.empty [es[0]!]) e).toOption.map (·.script)) =
      [none, none, none, none, some [.decl 1, .decl 2, .set 2, .get 2, .get 0, .set 1]] := by
  decide

end LaytheVerif.C19
