/-
C19 — An interactive session behaves like the same declarations in one file.
Theorems about `Model/Repl.lean`; no bound on the number or size of the entries.
-/
import LaytheVerif.Model.Repl
namespace LaytheVerif.C19
open LaytheVerif.Repl

/-! ### symbol slots persist -/

theorem idxOf_append (name : String) (l r : List String) (h : name ∈ l) : idxOf name (l ++ r) = idxOf name l := by
  induction l with
  | nil => simp at h
  | cons x rest ih =>
    simp only [List.cons_append, idxOf]
    split
    · rfl
    · rename_i hx
      have : name ∈ rest := by
        rcases List.mem_cons.mp h with h1 | h1
        · exact absurd h1.symm hx
        · exact h1
      rw [ih this]

theorem idxOf_lt (name : String) (l : List String) (h : name ∈ l) : idxOf name l < l.length := by
  induction l with
  | nil => simp at h
  | cons x rest ih =>
    simp only [idxOf, List.length_cons]
    split
    · omega
    · rename_i hx
      have : name ∈ rest := by
        rcases List.mem_cons.mp h with h1 | h1
        · exact absurd h1.symm hx
        · exact h1
      have := ih this
      omega

theorem idxOf_get (name : String) (l : List String) (h : name ∈ l) : l[idxOf name l]? = some name := by
  induction l with
  | nil => simp at h
  | cons x rest ih =>
    simp only [idxOf]
    split
    · rename_i hx; simp [hx]
    · rename_i hx
      have : name ∈ rest := by
        rcases List.mem_cons.mp h with h1 | h1
        · exact absurd h1.symm hx
        · exact h1
      simpa using ih this

/-- a compile error leaves the whole session state — symbols, caches, functions — untouched -/
theorem C19_failed_compile_changes_nothing (persistent : Bool) (globals : List String) (st : St) (e : Entry)
    (err : CompileError) (h : compile persistent globals st e = .error err) : step persistent globals st e = st := by
  simp [step, h]

/-- the table an entry is compiled against extends the module's symbols -/
theorem compile_table (persistent : Bool) (globals : List String) (st : St) (e : Entry) (c : Compiled)
    (h : compile persistent globals st e = .ok c) : ∃ more, c.table = st.symbols ++ more := by
  unfold compile at h
  split at h
  · cases h
  · split at h
    · cases h
    · split at h
      · cases h
      · cases h
        exact ⟨_, List.append_assoc _ _ _⟩

theorem step_symbols (persistent : Bool) (globals : List String) (st : St) (e : Entry) :
    ∃ more, (step persistent globals st e).symbols = st.symbols ++ more := by
  unfold step
  cases h : compile persistent globals st e with
  | error err => exact ⟨[], by simp⟩
  | ok c => simpa using compile_table persistent globals st e c h

theorem run_symbols (persistent : Bool) (globals : List String) (st : St) (es : List Entry) :
    ∃ more, (runSession persistent globals st es).symbols = st.symbols ++ more := by
  induction es generalizing st with
  | nil => exact ⟨[], by simp [runSession]⟩
  | cons e rest ih =>
    obtain ⟨m1, h1⟩ := step_symbols persistent globals st e
    obtain ⟨m2, h2⟩ := ih (step persistent globals st e)
    exact ⟨m1 ++ m2, by simp [runSession, h2, h1, List.append_assoc]⟩

/-- every `GetModSym`/`SetModSym` the compiler emits for a name carries that name's index in the
table the entry was compiled against -/
theorem number_resolves (tbl : List String) (np ni : Nat) (ops : List Op) (name : String) :
    (Op.get name ∈ ops → ROp.get (idxOf name tbl) ∈ (number tbl np ni ops).1) ∧
    (Op.set name ∈ ops → ROp.set (idxOf name tbl) ∈ (number tbl np ni ops).1) := by
  induction ops generalizing np ni with
  | nil => simp
  | cons op rest ih =>
    constructor
    · intro h
      rcases List.mem_cons.mp h with h1 | h2
      · rw [← h1]; simp [number]
      · cases op <;> simp only [number, List.mem_cons] <;> exact Or.inr ((ih _ _).1 h2)
    · intro h
      rcases List.mem_cons.mp h with h1 | h2
      · rw [← h1]; simp [number]
      · cases op <;> simp only [number, List.mem_cons] <;> exact Or.inr ((ih _ _).2 h2)

/-- **C19_symbols_persist.**  For every session prefix `es1` and every continuation `es2` (entries
that compile, entries that fail to compile, entries that fail while running): a name that has a
module slot after `es1` has the *same* slot after `es1 ++ es2`, the slot still holds that name, and
any later entry that compiles resolves the name to that slot. -/
theorem C19_symbols_persist (persistent : Bool) (globals : List String) (st0 : St) (es1 es2 : List Entry) (name : String)
    (hdef : name ∈ (runSession persistent globals st0 es1).symbols) :
    let st1 := runSession persistent globals st0 es1
    let st2 := runSession persistent globals st1 es2
    idxOf name st2.symbols = idxOf name st1.symbols ∧
    st2.symbols[idxOf name st1.symbols]? = some name ∧
    ∀ e c, compile persistent globals st2 e = .ok c →
      idxOf name c.table = idxOf name st1.symbols ∧
      ∀ f ∈ { name := "script", ops := e.script : FunDef } :: e.funs, Op.get name ∈ f.ops →
        ∀ np ni, ROp.get (idxOf name st1.symbols) ∈ (number c.table np ni f.ops).1 := by
  intro st1 st2
  obtain ⟨more, hm⟩ := run_symbols persistent globals st1 es2
  have h1 : idxOf name st2.symbols = idxOf name st1.symbols := by
    show idxOf name (runSession persistent globals st1 es2).symbols = _
    rw [hm]; exact idxOf_append name _ _ hdef
  refine ⟨h1, ?_, ?_⟩
  · rw [← h1]
    exact idxOf_get name _ (by show name ∈ (runSession persistent globals st1 es2).symbols; rw [hm]; exact List.mem_append_left _ hdef)
  · intro e c hc
    obtain ⟨m2, hm2⟩ := compile_table persistent globals st2 e c hc
    have h2 : idxOf name c.table = idxOf name st1.symbols := by
      rw [hm2, idxOf_append name _ _ (by show name ∈ (runSession persistent globals st1 es2).symbols; rw [hm]; exact List.mem_append_left _ hdef)]
      exact h1
    refine ⟨h2, ?_⟩
    intro f _ hop np ni
    rw [← h2]
    exact (number_resolves c.table np ni f.ops name).1 hop

/-- `runSession` over a concatenation -/
theorem runSession_append (persistent : Bool) (globals : List String) (st : St) (es1 es2 : List Entry) :
    runSession persistent globals st (es1 ++ es2) = runSession persistent globals (runSession persistent globals st es1) es2 := by
  induction es1 generalizing st with
  | nil => rfl
  | cons e rest ih => simp [runSession, ih]

/-! ### inline-cache slots -/

/-- ids handed out by one function body lie in `[np, np')` / `[ni, ni')` -/
theorem number_range (tbl : List String) (np ni : Nat) (ops : List Op) :
    np ≤ (number tbl np ni ops).2.1 ∧ ni ≤ (number tbl np ni ops).2.2 ∧
    ∀ op ∈ (number tbl np ni ops).1,
      (∀ id, op = ROp.prop id → np ≤ id ∧ id < (number tbl np ni ops).2.1) ∧
      (∀ id, op = ROp.invoke id → ni ≤ id ∧ id < (number tbl np ni ops).2.2) := by
  induction ops generalizing np ni with
  | nil => simp [number]
  | cons op rest ih =>
    cases op with
    | get n =>
      obtain ⟨h1, h2, h3⟩ := ih np ni
      refine ⟨h1, h2, ?_⟩
      intro op hop
      simp only [number, List.mem_cons] at hop
      rcases hop with rfl | hop
      · simp
      · exact h3 op hop
    | set n =>
      obtain ⟨h1, h2, h3⟩ := ih np ni
      refine ⟨h1, h2, ?_⟩
      intro op hop
      simp only [number, List.mem_cons] at hop
      rcases hop with rfl | hop
      · simp
      · exact h3 op hop
    | prop =>
      obtain ⟨h1, h2, h3⟩ := ih (np + 1) ni
      simp only [number]
      refine ⟨by omega, h2, ?_⟩
      intro op hop
      simp only [List.mem_cons] at hop
      rcases hop with rfl | hop
      · constructor
        · intro id hid; cases hid; omega
        · intro id hid; cases hid
      · obtain ⟨a, b⟩ := h3 op hop
        exact ⟨fun id hid => by have := a id hid; omega, b⟩
    | invoke =>
      obtain ⟨h1, h2, h3⟩ := ih np (ni + 1)
      simp only [number]
      refine ⟨h1, by omega, ?_⟩
      intro op hop
      simp only [List.mem_cons] at hop
      rcases hop with rfl | hop
      · constructor
        · intro id hid; cases hid
        · intro id hid; cases hid; omega
      · obtain ⟨a, b⟩ := h3 op hop
        exact ⟨a, fun id hid => by have := b id hid; omega⟩

theorem numberFuns_range (tbl : List String) (np ni : Nat) (fs : List FunDef) :
    np ≤ (numberFuns tbl np ni fs).2.1 ∧ ni ≤ (numberFuns tbl np ni fs).2.2 ∧
    ∀ f ∈ (numberFuns tbl np ni fs).1, ∀ op ∈ f.ops,
      (∀ id, op = ROp.prop id → np ≤ id ∧ id < (numberFuns tbl np ni fs).2.1) ∧
      (∀ id, op = ROp.invoke id → ni ≤ id ∧ id < (numberFuns tbl np ni fs).2.2) := by
  induction fs generalizing np ni with
  | nil => simp [numberFuns]
  | cons f rest ih =>
    obtain ⟨a1, a2, a3⟩ := number_range tbl np ni f.ops
    obtain ⟨b1, b2, b3⟩ := ih (number tbl np ni f.ops).2.1 (number tbl np ni f.ops).2.2
    simp only [numberFuns]
    refine ⟨by omega, by omega, ?_⟩
    intro g hg op hop
    simp only [List.mem_cons] at hg
    rcases hg with rfl | hg
    · obtain ⟨c1, c2⟩ := a3 op hop
      exact ⟨fun id hid => by have := c1 id hid; omega, fun id hid => by have := c2 id hid; omega⟩
    · obtain ⟨c1, c2⟩ := b3 g hg op hop
      exact ⟨fun id hid => by have := c1 id hid; omega, fun id hid => by have := c2 id hid; omega⟩

/-- every live function's cache ids index inside the module's current cache vectors -/
def InRange (st : St) : Prop :=
  ∀ f ∈ st.live, ∀ op ∈ f.ops,
    (∀ id, op = ROp.prop id → id < st.propLen) ∧ (∀ id, op = ROp.invoke id → id < st.invLen)

theorem faults_nil_of_inRange (propLen invLen : Nat) (f : RFun)
    (h : ∀ op ∈ f.ops, (∀ id, op = ROp.prop id → id < propLen) ∧ (∀ id, op = ROp.invoke id → id < invLen)) :
    f.faults propLen invLen = [] := by
  unfold RFun.faults
  rw [List.filterMap_eq_nil_iff]
  intro op hop
  cases op <;> simp only [ROp.fault]
  · simp [(h _ hop).1 _ rfl]
  · simp [(h _ hop).2 _ rfl]

theorem flatMap_faults_nil (live : List RFun) (calls : List String) (propLen invLen : Nat)
    (h : ∀ f ∈ live, ∀ op ∈ f.ops, (∀ id, op = ROp.prop id → id < propLen) ∧ (∀ id, op = ROp.invoke id → id < invLen)) :
    (live.filter (fun f => f.name ∈ calls)).flatMap (RFun.faults propLen invLen) = [] := by
  rw [List.flatMap_eq_nil_iff]
  intro f hf
  exact faults_nil_of_inRange _ _ f (fun op hop => h f (List.mem_filter.mp hf).1 op hop)

theorem step_inRange (globals : List String) (st : St) (e : Entry) (h : InRange st) :
    InRange (step true globals st e) ∧ (step true globals st e).faults = st.faults := by
  unfold step
  cases hc : compile true globals st e with
  | error err => exact ⟨h, rfl⟩
  | ok c =>
    unfold compile at hc
    split at hc
    · cases hc
    · split at hc
      · cases hc
      · split at hc
        · cases hc
        · cases hc
          simp only [if_true]
          generalize htbl : st.symbols ++ e.decls ++ _ = tbl
          obtain ⟨a1, a2, a3⟩ := numberFuns_range tbl st.propLen st.invLen e.funs
          obtain ⟨b1, b2, _⟩ := number_range tbl (numberFuns tbl st.propLen st.invLen e.funs).2.1
            (numberFuns tbl st.propLen st.invLen e.funs).2.2 e.script
          have hin : InRange
              { symbols := tbl, propLen := (number tbl (numberFuns tbl st.propLen st.invLen e.funs).2.1
                  (numberFuns tbl st.propLen st.invLen e.funs).2.2 e.script).2.1,
                invLen := (number tbl (numberFuns tbl st.propLen st.invLen e.funs).2.1
                  (numberFuns tbl st.propLen st.invLen e.funs).2.2 e.script).2.2,
                live := st.live ++ (numberFuns tbl st.propLen st.invLen e.funs).1, faults := st.faults } := by
            intro f hf op hop
            simp only [List.mem_append] at hf
            rcases hf with hf | hf
            · obtain ⟨c1, c2⟩ := h f hf op hop
              exact ⟨fun id hid => by have := c1 id hid; simp only; omega,
                     fun id hid => by have := c2 id hid; simp only; omega⟩
            · obtain ⟨c1, c2⟩ := a3 f hf op hop
              exact ⟨fun id hid => by have := c1 id hid; simp only; omega,
                     fun id hid => by have := c2 id hid; simp only; omega⟩
          refine ⟨fun f hf op hop => hin f hf op hop, ?_⟩
          exact (by
            rw [flatMap_faults_nil _ e.calls _ _ (fun f hf op hop => hin f hf op hop), List.append_nil])

/-- **C19_cache_slots_in_range** (the repaired design: numbering continues per module, vectors
grow).  For every session, every function defined by any entry keeps indexing inside the module's
cache vectors, so no entry — however much later — makes an out-of-range access. -/
theorem C19_cache_slots_in_range (globals : List String) (es : List Entry) :
    InRange (runSession true globals St.empty es) ∧ (runSession true globals St.empty es).faults = [] := by
  have : ∀ st, InRange st → InRange (runSession true globals st es) ∧ (runSession true globals st es).faults = st.faults := by
    induction es with
    | nil => intro st h; exact ⟨h, rfl⟩
    | cons e rest ih =>
      intro st h
      obtain ⟨h1, h2⟩ := step_inRange globals st e h
      obtain ⟨h3, h4⟩ := ih _ h1
      exact ⟨h3, by rw [runSession, h4, h2]⟩
  exact this St.empty (by intro f hf; simp [St.empty] at hf)

/-! ### D13 on the pinned model, and non-vacuity -/

/-- `notes/w_D13_repl_lines.txt`: a class, a function with an invoke site (`a.foo()`), an
instance, then a call of the function from a later entry -/
def d13Session : List Entry :=
  [ { syntaxOk := true, decls := ["A"], refs := [], script := [.set "A"], calls := [],
      funs := [{ name := "init", ops := [.prop] }, { name := "foo", ops := [.prop] }] },
    { syntaxOk := true, decls := ["g"], refs := [], script := [.set "g"], calls := [],
      funs := [{ name := "g", ops := [.invoke] }] },
    { syntaxOk := true, decls := ["a"], refs := ["A"], script := [.get "A", .set "a"], calls := ["init"], funs := [] },
    { syntaxOk := true, decls := [], refs := ["print", "g", "a"], script := [.get "print", .get "g", .get "a"],
      calls := ["g", "foo"], funs := [] } ]

/-- **C19_witness_cache_replaced** (D13).  Every compile restarts the numbering and replaces the
vectors: when the third entry calls `init` (property id 0) the property vector has length 0, and
when the fourth calls `g` (invoke id 0) and `foo` (property id 1) the vectors are empty again —
`debug_assert!(inline_slot < self.invoke.len())`, `get_unchecked` in release. -/
theorem C19_witness_cache_replaced :
    (runSession false ["print"] St.empty d13Session).faults =
      [("init", "property", 0, 0), ("foo", "property", 1, 0), ("g", "invoke", 0, 0)] := by
  decide

/-- **C19_cache_replaced_general** (D13 in general, pinned model).  Whatever the session so far:
if a live function has an invoke site with id `id`, and a later entry that compiles with at most `id`
invoke sites of its own calls it, that call indexes the replaced vector out of range.  (Same for
property sites.) -/
theorem C19_cache_replaced_general (globals : List String) (st : St) (e : Entry) (c : Compiled) (f : RFun) (id : Nat)
    (hc : compile false globals st e = .ok c) (hf : f ∈ st.live) (hcall : f.name ∈ e.calls) :
    (ROp.invoke id ∈ f.ops → c.invCount ≤ id → (f.name, "invoke", id, c.invCount) ∈ (step false globals st e).faults) ∧
    (ROp.prop id ∈ f.ops → c.propCount ≤ id → (f.name, "property", id, c.propCount) ∈ (step false globals st e).faults) := by
  have hmem : f ∈ List.filter (fun f => decide (f.name ∈ e.calls)) (st.live ++ c.funs) :=
    List.mem_filter.mpr ⟨List.mem_append_left _ hf, by simpa using hcall⟩
  constructor
  · intro hop hlen
    simp only [step, hc]
    refine List.mem_append_right _ (List.mem_flatMap.mpr ⟨f, hmem, ?_⟩)
    exact List.mem_filterMap.mpr ⟨ROp.invoke id, hop, by simp [ROp.fault, Nat.not_lt.mpr hlen]⟩
  · intro hop hlen
    simp only [step, hc]
    refine List.mem_append_right _ (List.mem_flatMap.mpr ⟨f, hmem, ?_⟩)
    exact List.mem_filterMap.mpr ⟨ROp.prop id, hop, by simp [ROp.fault, Nat.not_lt.mpr hlen]⟩

/-- **C19_no_fault_outside_signature** (pinned model).  An entry that calls, among the functions
defined by *earlier* entries, only functions without inline-cache sites makes no out-of-range
access: the signature excluded from the regression stream is exactly where D13 lives. -/
theorem C19_no_fault_outside_signature (globals : List String) (st : St) (e : Entry)
    (h : ∀ f ∈ st.live, f.name ∈ e.calls → ∀ op ∈ f.ops, (∀ id, op ≠ ROp.prop id) ∧ (∀ id, op ≠ ROp.invoke id)) :
    (step false globals st e).faults = st.faults := by
  unfold step
  cases hc : compile false globals st e with
  | error err => rfl
  | ok c =>
    unfold compile at hc
    split at hc
    · cases hc
    · split at hc
      · cases hc
      · split at hc
        · cases hc
        · cases hc
          simp only [Bool.false_eq_true, if_false]
          generalize htbl : st.symbols ++ e.decls ++ _ = tbl
          obtain ⟨a1, a2, a3⟩ := numberFuns_range tbl 0 0 e.funs
          obtain ⟨b1, b2, _⟩ := number_range tbl (numberFuns tbl 0 0 e.funs).2.1 (numberFuns tbl 0 0 e.funs).2.2 e.script
          suffices hnil : (List.filter (fun f => decide (f.name ∈ e.calls)) (st.live ++ (numberFuns tbl 0 0 e.funs).1)).flatMap
              (RFun.faults (number tbl (numberFuns tbl 0 0 e.funs).2.1 (numberFuns tbl 0 0 e.funs).2.2 e.script).2.1
                (number tbl (numberFuns tbl 0 0 e.funs).2.1 (numberFuns tbl 0 0 e.funs).2.2 e.script).2.2) = [] by
            rw [hnil, List.append_nil]
          rw [List.flatMap_eq_nil_iff]
          intro f hf
          obtain ⟨hf1, hf2⟩ := List.mem_filter.mp hf
          apply faults_nil_of_inRange
          intro op hop
          rcases List.mem_append.mp hf1 with hold | hnew
          · obtain ⟨c1, c2⟩ := h f hold (by simpa using hf2) op hop
            exact ⟨fun id hid => absurd hid (c1 id), fun id hid => absurd hid (c2 id)⟩
          · obtain ⟨c1, c2⟩ := a3 f hnew op hop
            exact ⟨fun id hid => by have := c1 id hid; omega, fun id hid => by have := c2 id hid; omega⟩

/-- What is *not* proved in Lean: that the printed output of a session equals that of the
concatenated file.  That needs the semantics of whole programs; it is judged on the sessions stream
with the implementation's own `run` as the Spec (DESIGN.md §5 C19).  The model-level content of the
property is `C19_symbols_persist` + `C19_cache_slots_in_range` (+ `C19_no_fault_outside_signature`
for the pinned code). -/
def C19_full : Prop :=
  ∀ (globals : List String) (es : List Entry), (runSession false globals St.empty es).faults = []

/-- … and on the pinned model the full statement is false (D13). -/
theorem C19_full_fails_pinned : ¬ C19_full := by
  intro h
  have := h ["print"] d13Session
  rw [C19_witness_cache_replaced] at this
  cases this

/-- the same session on the repaired model has no fault, all four slots of `a`, `g`, `A`, `print` kept -/
example :
    (runSession true ["print"] St.empty d13Session).faults = [] ∧
    (runSession true ["print"] St.empty d13Session).symbols = ["A", "g", "a", "print"] ∧
    (runSession true ["print"] St.empty d13Session).propLen = 2 := by
  decide

/-- a session with a duplicate declaration, an undeclared name and a syntax error: the three failing
entries change nothing, later entries still resolve `x` to slot 0 -/
example :
    let es : List Entry :=
      [ { syntaxOk := true, decls := ["x"], refs := [], funs := [], script := [.set "x"], calls := [] },
        { syntaxOk := true, decls := ["x"], refs := [], funs := [], script := [.set "x"], calls := [] },
        { syntaxOk := true, decls := [], refs := ["nope"], funs := [], script := [.get "nope"], calls := [] },
        { syntaxOk := false, decls := [], refs := [], funs := [], script := [], calls := [] },
        { syntaxOk := true, decls := ["y"], refs := ["print", "x"], funs := [], script := [.get "print", .get "x", .set "y"], calls := [] } ]
    (runSession false ["print"] St.empty es).symbols = ["x", "y", "print"] ∧
    (es.map fun e => (compile false ["print"] (runSession false ["print"] St.empty [es[0]!]) e).toOption.map (·.script)) =
      [none, none, none, none, some [.decl 1, .decl 2, .set 2, .get 2, .get 0, .set 1]] := by
  decide

end LaytheVerif.C19
