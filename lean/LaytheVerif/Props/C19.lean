/-
C19 — An interactive session behaves like the same declarations in one file.
Theorems about `Model/Repl.lean`; no bound on the number or size of the entries.
-/
import LaytheVerif.Model.Repl
import LaytheVerif.Model.ReplFibers
import LaytheVerif.Gen.ReplLoop
namespace LaytheVerif.C19
open LaytheVerif.Repl

/-! ### symbol slots persist -/

theorem idxOf_append (name : String) (l r : List String) (h : name ∈ l) : idxOf name (l ++ r) = idxOf name l := by
  induction l with
  | nil => simp at h
  | cons x rest ih =>
    simp only [List.cons_append, idxOf]
    split
    · rfl
    · rename_i hx
      have : name ∈ rest := by
        rcases List.mem_cons.mp h with h1 | h1
        · exact absurd h1.symm hx
        · exact h1
      rw [ih this]

theorem idxOf_lt (name : String) (l : List String) (h : name ∈ l) : idxOf name l < l.length := by
  induction l with
  | nil => simp at h
  | cons x rest ih =>
    simp only [idxOf, List.length_cons]
    split
    · omega
    · rename_i hx
      have : name ∈ rest := by
        rcases List.mem_cons.mp h with h1 | h1
        · exact absurd h1.symm hx
        · exact h1
      have := ih this
      omega

theorem idxOf_get (name : String) (l : List String) (h : name ∈ l) : l[idxOf name l]? = some name := by
  induction l with
  | nil => simp at h
  | cons x rest ih =>
    simp only [idxOf]
    split
    · rename_i hx; simp [hx]
    · rename_i hx
      have : name ∈ rest := by
        rcases List.mem_cons.mp h with h1 | h1
        · exact absurd h1.symm hx
        · exact h1
      simpa using ih this

/-- a compile error leaves the whole session state — symbols, caches, functions — untouched -/
theorem C19_failed_compile_changes_nothing (globals : List String) (st : St) (e : Entry)
    (err : CompileError) (h : compile globals st e = .error err) : step globals st e = st := by
  simp [step, stepWith, h]

/-- the table an entry is compiled against extends the module's symbols -/
theorem compile_table (globals : List String) (st : St) (e : Entry) (c : Compiled)
    (h : compile globals st e = .ok c) : ∃ more, c.table = st.symbols ++ more := by
  unfold compile compileAt at h
  split at h
  · cases h
  · split at h
    · cases h
    · split at h
      · cases h
      · split at h
        · cases h
        · cases h
          exact ⟨_, List.append_assoc _ _ _⟩

theorem step_symbols (globals : List String) (st : St) (e : Entry) :
    ∃ more, (step globals st e).symbols = st.symbols ++ more := by
  unfold step
  cases h : compile globals st e with
  | error err => exact ⟨[], by simp [stepWith]⟩
  | ok c => simpa [stepWith] using compile_table globals st e c h

theorem run_symbols (globals : List String) (st : St) (es : List Entry) :
    ∃ more, (runSession globals st es).symbols = st.symbols ++ more := by
  induction es generalizing st with
  | nil => exact ⟨[], by simp [runSession]⟩
  | cons e rest ih =>
    obtain ⟨m1, h1⟩ := step_symbols globals st e
    obtain ⟨m2, h2⟩ := ih (step globals st e)
    exact ⟨m1 ++ m2, by simp [runSession, h2, h1, List.append_assoc]⟩

/-- every `GetModSym`/`SetModSym` the compiler emits for a name carries that name's index in the
table the entry was compiled against -/
theorem number_resolves (tbl : List String) (sup : Option Nat) (np ni : Nat) (ops : List Op) (name : String) :
    (Op.get name ∈ ops → ROp.get (idxOf name tbl) ∈ (number tbl sup np ni ops).1) ∧
    (Op.set name ∈ ops → ROp.set (idxOf name tbl) ∈ (number tbl sup np ni ops).1) := by
  induction ops generalizing np ni with
  | nil => simp
  | cons op rest ih =>
    have tl : ∀ x, x ∈ (number tbl sup (match op with | .prop => np + 1 | _ => np)
        (match op with | .invoke => ni + 1 | _ => ni) rest).1 → x ∈ (number tbl sup np ni (op :: rest)).1 := by
      intro x hx
      cases op <;> simp only [number, List.mem_cons] at hx ⊢
      · exact Or.inr hx
      · exact Or.inr hx
      · exact Or.inr hx
      · exact Or.inr hx
      · cases sup <;> simp only [List.mem_cons]
        · exact hx
        · exact Or.inr hx
    constructor
    · intro h
      rcases List.mem_cons.mp h with h1 | h2
      · rw [← h1]; simp [number]
      · exact tl _ ((ih _ _).1 h2)
    · intro h
      rcases List.mem_cons.mp h with h1 | h2
      · rw [← h1]; simp [number]
      · exact tl _ ((ih _ _).2 h2)

/-- **C19_symbols_persist.**  For every session prefix `es1` and every continuation `es2` (entries
that compile, entries that fail to compile, entries that fail while running): a name that has a
module slot after `es1` has the *same* slot after `es1 ++ es2`, the slot still holds that name, and
any later entry that compiles resolves the name to that slot. -/
theorem C19_symbols_persist (globals : List String) (st0 : St) (es1 es2 : List Entry) (name : String)
    (hdef : name ∈ (runSession globals st0 es1).symbols) :
    let st1 := runSession globals st0 es1
    let st2 := runSession globals st1 es2
    idxOf name st2.symbols = idxOf name st1.symbols ∧
    st2.symbols[idxOf name st1.symbols]? = some name ∧
    ∀ e c, compile globals st2 e = .ok c →
      idxOf name c.table = idxOf name st1.symbols ∧
      ∀ f ∈ { name := "script", ops := e.script : FunDef } :: e.funs, Op.get name ∈ f.ops →
        ∀ sup np ni, ROp.get (idxOf name st1.symbols) ∈ (number c.table sup np ni f.ops).1 := by
  intro st1 st2
  obtain ⟨more, hm⟩ := run_symbols globals st1 es2
  have h1 : idxOf name st2.symbols = idxOf name st1.symbols := by
    show idxOf name (runSession globals st1 es2).symbols = _
    rw [hm]; exact idxOf_append name _ _ hdef
  refine ⟨h1, ?_, ?_⟩
  · rw [← h1]
    exact idxOf_get name _ (by show name ∈ (runSession globals st1 es2).symbols; rw [hm]; exact List.mem_append_left _ hdef)
  · intro e c hc
    obtain ⟨m2, hm2⟩ := compile_table globals st2 e c hc
    have h2 : idxOf name c.table = idxOf name st1.symbols := by
      rw [hm2, idxOf_append name _ _ (by show name ∈ (runSession globals st1 es2).symbols; rw [hm]; exact List.mem_append_left _ hdef)]
      exact h1
    refine ⟨h2, ?_⟩
    intro f _ hop sup np ni
    rw [← h2]
    exact (number_resolves c.table sup np ni f.ops name).1 hop

/-- `runSession` over a concatenation -/
theorem runSession_append (globals : List String) (st : St) (es1 es2 : List Entry) :
    runSession globals st (es1 ++ es2) = runSession globals (runSession globals st es1) es2 := by
  induction es1 generalizing st with
  | nil => rfl
  | cons e rest ih => simp [runSession, ih]

/-! ### inline-cache slots -/

/-- ids handed out by one function body lie in `[np, np')` / `[ni, ni')` -/
theorem number_range (tbl : List String) (sup : Option Nat) (np ni : Nat) (ops : List Op) :
    np ≤ (number tbl sup np ni ops).2.1 ∧ ni ≤ (number tbl sup np ni ops).2.2 ∧
    ∀ op ∈ (number tbl sup np ni ops).1,
      (∀ id, op = ROp.prop id → np ≤ id ∧ id < (number tbl sup np ni ops).2.1) ∧
      (∀ id, op = ROp.invoke id → ni ≤ id ∧ id < (number tbl sup np ni ops).2.2) := by
  induction ops generalizing np ni with
  | nil => simp [number]
  | cons op rest ih =>
    cases op with
    | get n =>
      obtain ⟨h1, h2, h3⟩ := ih np ni
      refine ⟨h1, h2, ?_⟩
      intro op hop
      simp only [number, List.mem_cons] at hop
      rcases hop with rfl | hop
      · simp
      · exact h3 op hop
    | set n =>
      obtain ⟨h1, h2, h3⟩ := ih np ni
      refine ⟨h1, h2, ?_⟩
      intro op hop
      simp only [number, List.mem_cons] at hop
      rcases hop with rfl | hop
      · simp
      · exact h3 op hop
    | prop =>
      obtain ⟨h1, h2, h3⟩ := ih (np + 1) ni
      simp only [number]
      refine ⟨by omega, h2, ?_⟩
      intro op hop
      simp only [List.mem_cons] at hop
      rcases hop with rfl | hop
      · constructor
        · intro id hid; cases hid; omega
        · intro id hid; cases hid
      · obtain ⟨a, b⟩ := h3 op hop
        exact ⟨fun id hid => by have := a id hid; omega, b⟩
    | invoke =>
      obtain ⟨h1, h2, h3⟩ := ih np (ni + 1)
      simp only [number]
      refine ⟨h1, by omega, ?_⟩
      intro op hop
      simp only [List.mem_cons] at hop
      rcases hop with rfl | hop
      · constructor
        · intro id hid; cases hid
        · intro id hid; cases hid; omega
      · obtain ⟨a, b⟩ := h3 op hop
        exact ⟨a, fun id hid => by have := b id hid; omega⟩
    | super =>
      obtain ⟨h1, h2, h3⟩ := ih np ni
      cases sup with
      | none => simpa only [number] using ⟨h1, h2, h3⟩
      | some slot =>
        simp only [number]
        refine ⟨h1, h2, ?_⟩
        intro op hop
        simp only [List.mem_cons] at hop
        rcases hop with rfl | hop
        · simp
        · exact h3 op hop

theorem numberFuns_range (tbl : List String) (sup : Option Nat) (np ni : Nat) (fs : List FunDef) :
    np ≤ (numberFuns tbl sup np ni fs).2.1 ∧ ni ≤ (numberFuns tbl sup np ni fs).2.2 ∧
    ∀ f ∈ (numberFuns tbl sup np ni fs).1, ∀ op ∈ f.ops,
      (∀ id, op = ROp.prop id → np ≤ id ∧ id < (numberFuns tbl sup np ni fs).2.1) ∧
      (∀ id, op = ROp.invoke id → ni ≤ id ∧ id < (numberFuns tbl sup np ni fs).2.2) := by
  induction fs generalizing np ni with
  | nil => simp [numberFuns]
  | cons f rest ih =>
    obtain ⟨a1, a2, a3⟩ := number_range tbl sup np ni f.ops
    obtain ⟨b1, b2, b3⟩ := ih (number tbl sup np ni f.ops).2.1 (number tbl sup np ni f.ops).2.2
    simp only [numberFuns]
    refine ⟨by omega, by omega, ?_⟩
    intro g hg op hop
    simp only [List.mem_cons] at hg
    rcases hg with rfl | hg
    · obtain ⟨c1, c2⟩ := a3 op hop
      exact ⟨fun id hid => by have := c1 id hid; omega, fun id hid => by have := c2 id hid; omega⟩
    · obtain ⟨c1, c2⟩ := b3 g hg op hop
      exact ⟨fun id hid => by have := c1 id hid; omega, fun id hid => by have := c2 id hid; omega⟩

/-- what a successful compile produced, without the name-resolution detail: the functions and the
script numbered consecutively from the start ids, after a prologue without cache sites -/
theorem compileAt_ok (np0 ni0 : Nat) (globals : List String) (st : St) (e : Entry) (c : Compiled)
    (h : compileAt np0 ni0 globals st e = .ok c) :
    ∃ tbl sup pro, c.table = tbl ∧ sup = superSlot st.symbols e.decls tbl ∧ propIds pro = [] ∧ invIds pro = [] ∧
      c.funs = (numberFuns tbl sup np0 ni0 e.funs).1 ∧
      c.script = pro ++ (number tbl sup (numberFuns tbl sup np0 ni0 e.funs).2.1 (numberFuns tbl sup np0 ni0 e.funs).2.2 e.script).1 ∧
      c.propCount = (number tbl sup (numberFuns tbl sup np0 ni0 e.funs).2.1 (numberFuns tbl sup np0 ni0 e.funs).2.2 e.script).2.1 ∧
      c.invCount = (number tbl sup (numberFuns tbl sup np0 ni0 e.funs).2.1 (numberFuns tbl sup np0 ni0 e.funs).2.2 e.script).2.2 := by
  unfold compileAt at h
  split at h
  · cases h
  · split at h
    · cases h
    · split at h
      · cases h
      · split at h
        · cases h
        · cases h
          refine ⟨_, _, _, rfl, rfl, ?_, ?_, rfl, rfl, rfl, rfl⟩
          · simp [propIds, List.filterMap_append, List.filterMap_map, List.filterMap_flatMap]
          · simp [invIds, List.filterMap_append, List.filterMap_map, List.filterMap_flatMap]

/-- every live function's cache ids index inside the module's current cache vectors -/
def InRange (st : St) : Prop :=
  ∀ f ∈ st.live, ∀ op ∈ f.ops,
    (∀ id, op = ROp.prop id → id < st.propLen) ∧ (∀ id, op = ROp.invoke id → id < st.invLen)

theorem faults_nil_of_inRange (propLen invLen : Nat) (f : RFun)
    (h : ∀ op ∈ f.ops, (∀ id, op = ROp.prop id → id < propLen) ∧ (∀ id, op = ROp.invoke id → id < invLen)) :
    f.faults propLen invLen = [] := by
  unfold RFun.faults
  rw [List.filterMap_eq_nil_iff]
  intro op hop
  cases op <;> simp only [ROp.fault]
  · simp [(h _ hop).1 _ rfl]
  · simp [(h _ hop).2 _ rfl]

theorem flatMap_faults_nil (live : List RFun) (calls : List String) (propLen invLen : Nat)
    (h : ∀ f ∈ live, ∀ op ∈ f.ops, (∀ id, op = ROp.prop id → id < propLen) ∧ (∀ id, op = ROp.invoke id → id < invLen)) :
    (live.filter (fun f => f.name ∈ calls)).flatMap (RFun.faults propLen invLen) = [] := by
  rw [List.flatMap_eq_nil_iff]
  intro f hf
  exact faults_nil_of_inRange _ _ f (fun op hop => h f (List.mem_filter.mp hf).1 op hop)

/-- **C19_cache_vectors_only_grow.**  `InlineCache::grow` is never asked to shorten a vector (its two
`debug_assert!`s hold, `resize` never truncates): an entry leaves the module's cache vectors at least
as long as they were. -/
theorem C19_cache_vectors_only_grow (globals : List String) (st : St) (e : Entry) :
    st.propLen ≤ (step globals st e).propLen ∧ st.invLen ≤ (step globals st e).invLen := by
  unfold step
  cases hc : compile globals st e with
  | error err => simp [stepWith]
  | ok c =>
    obtain ⟨tbl, sup, pro, _, _, _, _, _, _, hp, hi⟩ := compileAt_ok _ _ globals st e c hc
    obtain ⟨a1, a2, _⟩ := numberFuns_range tbl sup st.propLen st.invLen e.funs
    obtain ⟨b1, b2, _⟩ := number_range tbl sup (numberFuns tbl sup st.propLen st.invLen e.funs).2.1
      (numberFuns tbl sup st.propLen st.invLen e.funs).2.2 e.script
    simp only [stepWith, hp, hi]
    omega

theorem step_inRange (globals : List String) (st : St) (e : Entry) (h : InRange st) :
    InRange (step globals st e) ∧ (step globals st e).faults = st.faults := by
  unfold step
  cases hc : compile globals st e with
  | error err => exact ⟨h, rfl⟩
  | ok c =>
    obtain ⟨tbl, sup, pro, _, _, _, _, hf, _, hp, hi⟩ := compileAt_ok _ _ globals st e c hc
    obtain ⟨a1, a2, a3⟩ := numberFuns_range tbl sup st.propLen st.invLen e.funs
    obtain ⟨b1, b2, _⟩ := number_range tbl sup (numberFuns tbl sup st.propLen st.invLen e.funs).2.1
      (numberFuns tbl sup st.propLen st.invLen e.funs).2.2 e.script
    have hin : ∀ f ∈ st.live ++ c.funs, ∀ op ∈ f.ops,
        (∀ id, op = ROp.prop id → id < c.propCount) ∧ (∀ id, op = ROp.invoke id → id < c.invCount) := by
      intro f hfm op hop
      rw [hp, hi]
      rcases List.mem_append.mp hfm with hfm | hfm
      · obtain ⟨c1, c2⟩ := h f hfm op hop
        exact ⟨fun id hid => by have := c1 id hid; omega, fun id hid => by have := c2 id hid; omega⟩
      · rw [hf] at hfm
        obtain ⟨c1, c2⟩ := a3 f hfm op hop
        exact ⟨fun id hid => by have := c1 id hid; omega, fun id hid => by have := c2 id hid; omega⟩
    refine ⟨fun f hfm op hop => hin f hfm op hop, ?_⟩
    simp only [stepWith]
    rw [flatMap_faults_nil _ e.calls _ _ hin, List.append_nil]

/-- **C19_cache_slots_in_range.**  For every session, every function defined by any entry keeps
indexing inside the module's cache vectors, so no entry — however much later, whatever failed in
between — makes an out-of-range access (`debug_assert!(inline_slot < len)` / `get_unchecked` in
`cache.rs` are safe). -/
theorem C19_cache_slots_in_range (globals : List String) (es : List Entry) :
    InRange (runSession globals St.empty es) ∧ (runSession globals St.empty es).faults = [] := by
  have : ∀ st, InRange st → InRange (runSession globals st es) ∧ (runSession globals st es).faults = st.faults := by
    induction es with
    | nil => intro st h; exact ⟨h, rfl⟩
    | cons e rest ih =>
      intro st h
      obtain ⟨h1, h2⟩ := step_inRange globals st e h
      obtain ⟨h3, h4⟩ := ih _ h1
      exact ⟨h3, by rw [runSession, h4, h2]⟩
  exact this St.empty (by intro f hf; simp [St.empty] at hf)

/-! ### the ids of a whole session are consecutive: no two sites share a slot -/

def nProp : List Op → Nat
  | [] => 0
  | .prop :: rest => nProp rest + 1
  | _ :: rest => nProp rest

def nInv : List Op → Nat
  | [] => 0
  | .invoke :: rest => nInv rest + 1
  | _ :: rest => nInv rest

theorem propIds_append (a b : List ROp) : propIds (a ++ b) = propIds a ++ propIds b := by
  simp [propIds, List.filterMap_append]

theorem invIds_append (a b : List ROp) : invIds (a ++ b) = invIds a ++ invIds b := by
  simp [invIds, List.filterMap_append]

/-- one function body: the property ids are `np, np+1, ..` and the invoke ids `ni, ni+1, ..`, in
emission order, and the counters end right after them -/
theorem number_ids (tbl : List String) (sup : Option Nat) (np ni : Nat) (ops : List Op) :
    (number tbl sup np ni ops).2.1 = np + nProp ops ∧ (number tbl sup np ni ops).2.2 = ni + nInv ops ∧
    propIds (number tbl sup np ni ops).1 = List.range' np (nProp ops) ∧
    invIds (number tbl sup np ni ops).1 = List.range' ni (nInv ops) := by
  induction ops generalizing np ni with
  | nil => simp [number, nProp, nInv, propIds, invIds]
  | cons op rest ih =>
    cases op with
    | get n =>
      obtain ⟨h1, h2, h3, h4⟩ := ih np ni
      simp only [propIds, invIds] at h3 h4
      simp [number, nProp, nInv, propIds, invIds, h1, h2, h3, h4]
    | set n =>
      obtain ⟨h1, h2, h3, h4⟩ := ih np ni
      simp only [propIds, invIds] at h3 h4
      simp [number, nProp, nInv, propIds, invIds, h1, h2, h3, h4]
    | prop =>
      obtain ⟨h1, h2, h3, h4⟩ := ih (np + 1) ni
      simp only [propIds, invIds] at h3 h4
      simp [number, nProp, nInv, propIds, invIds, h1, h2, h3, h4, List.range'_succ]
      omega
    | invoke =>
      obtain ⟨h1, h2, h3, h4⟩ := ih np (ni + 1)
      simp only [propIds, invIds] at h3 h4
      simp [number, nProp, nInv, propIds, invIds, h1, h2, h3, h4, List.range'_succ]
      omega
    | super =>
      obtain ⟨h1, h2, h3, h4⟩ := ih np ni
      simp only [propIds, invIds] at h3 h4
      cases sup <;> simp [number, nProp, nInv, propIds, invIds, h1, h2, h3, h4]

/-- the functions of one entry, in the order they are finished -/
theorem numberFuns_ids (tbl : List String) (sup : Option Nat) (np ni : Nat) (fs : List FunDef) :
    ∃ kp ki, (numberFuns tbl sup np ni fs).2.1 = np + kp ∧ (numberFuns tbl sup np ni fs).2.2 = ni + ki ∧
      propIds ((numberFuns tbl sup np ni fs).1.flatMap (·.ops)) = List.range' np kp ∧
      invIds ((numberFuns tbl sup np ni fs).1.flatMap (·.ops)) = List.range' ni ki := by
  induction fs generalizing np ni with
  | nil => exact ⟨0, 0, by simp [numberFuns, propIds, invIds]⟩
  | cons f rest ih =>
    obtain ⟨a1, a2, a3, a4⟩ := number_ids tbl sup np ni f.ops
    obtain ⟨kp, ki, b1, b2, b3, b4⟩ := ih (number tbl sup np ni f.ops).2.1 (number tbl sup np ni f.ops).2.2
    refine ⟨nProp f.ops + kp, nInv f.ops + ki, ?_, ?_, ?_, ?_⟩
    · simp only [numberFuns]; omega
    · simp only [numberFuns]; omega
    · simp only [numberFuns, List.flatMap_cons, propIds_append]
      rw [b3, a3, a1]
      exact List.range'_append_1
    · simp only [numberFuns, List.flatMap_cons, invIds_append]
      rw [b4, a4, a2]
      exact List.range'_append_1

/-- one compiled entry: its functions and then its script take the ids right after the module's
current vector lengths, and the vectors are grown to exactly the first unused ids -/
theorem compile_ids (globals : List String) (st : St) (e : Entry) (c : Compiled) (h : compile globals st e = .ok c) :
    ∃ kp ki, c.propCount = st.propLen + kp ∧ c.invCount = st.invLen + ki ∧
      propIds (c.funs.flatMap (·.ops) ++ c.script) = List.range' st.propLen kp ∧
      invIds (c.funs.flatMap (·.ops) ++ c.script) = List.range' st.invLen ki := by
  obtain ⟨tbl, sup, pro, _, _, hpp, hpi, hf, hs, hp, hi⟩ := compileAt_ok _ _ globals st e c h
  obtain ⟨kp, ki, a1, a2, a3, a4⟩ := numberFuns_ids tbl sup st.propLen st.invLen e.funs
  obtain ⟨b1, b2, b3, b4⟩ := number_ids tbl sup (numberFuns tbl sup st.propLen st.invLen e.funs).2.1
    (numberFuns tbl sup st.propLen st.invLen e.funs).2.2 e.script
  refine ⟨kp + nProp e.script, ki + nInv e.script, by omega, by omega, ?_, ?_⟩
  · rw [hf, hs, propIds_append, propIds_append, hpp, a3, b3, a1, List.nil_append]
    exact List.range'_append_1
  · rw [hf, hs, invIds_append, invIds_append, hpi, a4, b4, a2, List.nil_append]
    exact List.range'_append_1

theorem sessionOps_ids (globals : List String) (es : List Entry) : ∀ st : St,
    ∃ kp ki, (runSession globals st es).propLen = st.propLen + kp ∧ (runSession globals st es).invLen = st.invLen + ki ∧
      propIds (sessionOps globals st es) = List.range' st.propLen kp ∧
      invIds (sessionOps globals st es) = List.range' st.invLen ki := by
  induction es with
  | nil => intro st; exact ⟨0, 0, by simp [runSession, sessionOps, propIds, invIds]⟩
  | cons e rest ih =>
    intro st
    obtain ⟨kp2, ki2, r1, r2, r3, r4⟩ := ih (step globals st e)
    cases hc : compile globals st e with
    | error err =>
      have hst : step globals st e = st := by simp [step, stepWith, hc]
      rw [hst] at r1 r2 r3 r4
      refine ⟨kp2, ki2, ?_, ?_, ?_, ?_⟩
      · simp only [runSession, hst]; exact r1
      · simp only [runSession, hst]; exact r2
      · simp only [sessionOps, hc, hst, List.nil_append]; exact r3
      · simp only [sessionOps, hc, hst, List.nil_append]; exact r4
    | ok c =>
      obtain ⟨kp1, ki1, c1, c2, c3, c4⟩ := compile_ids globals st e c hc
      have hp : (step globals st e).propLen = c.propCount := by simp [step, stepWith, hc]
      have hi : (step globals st e).invLen = c.invCount := by simp [step, stepWith, hc]
      rw [hp, c1] at r1 r3
      rw [hi, c2] at r2 r4
      refine ⟨kp1 + kp2, ki1 + ki2, ?_, ?_, ?_, ?_⟩
      · simp only [runSession]; omega
      · simp only [runSession]; omega
      · simp only [sessionOps, hc]
        rw [propIds_append, r3, c3]
        exact List.range'_append_1
      · simp only [sessionOps, hc]
        rw [invIds_append, r4, c4]
        exact List.range'_append_1

/-- **C19_cache_ids_consecutive.**  Over a whole session — any number of entries, failing ones
included — the property ids the compiles hand out, read in emission order, are exactly
`0, 1, .., propLen - 1` where `propLen` is the final length of the module's property vector, and
likewise the invoke ids: numbering continues across entries, an entry that fails to compile consumes
no id, no slot is left unused and none is handed out twice. -/
theorem C19_cache_ids_consecutive (globals : List String) (es : List Entry) :
    propIds (sessionOps globals St.empty es) = List.range (runSession globals St.empty es).propLen ∧
    invIds (sessionOps globals St.empty es) = List.range (runSession globals St.empty es).invLen := by
  obtain ⟨kp, ki, h1, h2, h3, h4⟩ := sessionOps_ids globals es St.empty
  have e1 : St.empty.propLen = 0 := rfl
  have e2 : St.empty.invLen = 0 := rfl
  rw [e1, Nat.zero_add] at h1
  rw [e2, Nat.zero_add] at h2
  rw [e1] at h3
  rw [e2] at h4
  rw [h1, h2, h3, h4, List.range_eq_range', List.range_eq_range']
  exact ⟨rfl, rfl⟩

/-- **C19_cache_slots_disjoint.**  No two cache sites of a session share a slot, whichever entries
they were compiled by (C13's per-compile `C13_slot_disjoint` extended to the module the REPL builds
entry by entry): a site of a later entry can neither read nor overwrite what an earlier entry's site
cached. -/
theorem C19_cache_slots_disjoint (globals : List String) (es : List Entry) :
    (propIds (sessionOps globals St.empty es)).Nodup ∧ (invIds (sessionOps globals St.empty es)).Nodup := by
  obtain ⟨h1, h2⟩ := C19_cache_ids_consecutive globals es
  rw [h1, h2]
  exact ⟨List.nodup_range, List.nodup_range⟩

/-- the functions that are live after a session were all emitted by it: the two theorems above speak
about every site that can still run -/
theorem live_subset_sessionOps (globals : List String) (es : List Entry) : ∀ st : St,
    ∀ f ∈ (runSession globals st es).live, f ∈ st.live ∨ ∀ op ∈ f.ops, op ∈ sessionOps globals st es := by
  induction es with
  | nil => intro st f hf; exact Or.inl hf
  | cons e rest ih =>
    intro st f hf
    rcases ih (step globals st e) f hf with h | h
    · cases hc : compile globals st e with
      | error err =>
        left
        simpa [step, stepWith, hc] using h
      | ok c =>
        have : f ∈ st.live ++ c.funs := by simpa [step, stepWith, hc] using h
        rcases List.mem_append.mp this with h1 | h1
        · exact Or.inl h1
        · right
          intro op hop
          simp only [sessionOps, hc]
          exact List.mem_append_left _ (List.mem_append_left _ (List.mem_flatMap.mpr ⟨f, h1, hop⟩))
    · right
      intro op hop
      simp only [sessionOps]
      exact List.mem_append_right _ (h op hop)

/-! ### the implicit superclass of a class declared without a parent (`global_get`) -/

theorem uniq_mem (x : String) (l seen : List String) (hx : x ∈ l) (hs : x ∉ seen) : x ∈ uniq seen l := by
  induction l generalizing seen with
  | nil => simp at hx
  | cons y rest ih =>
    simp only [uniq]
    split
    · rename_i hy
      rcases List.mem_cons.mp hx with h | h
      · exact absurd (h ▸ hy) hs
      · exact ih seen h hs
    · rename_i hy
      rcases List.mem_cons.mp hx with h | h
      · exact h ▸ List.mem_cons_self
      · by_cases hxy : x = y
        · exact hxy ▸ List.mem_cons_self
        · exact List.mem_cons_of_mem _ (ih (y :: seen) h (by simp [hxy, hs]))

/-- the table of a successful compile, spelled out -/
theorem compile_table_eq (globals : List String) (st : St) (e : Entry) (c : Compiled) (h : compile globals st e = .ok c) :
    c.table = st.symbols ++ e.decls ++
      uniq (st.symbols ++ e.decls) (e.refs.filter (fun r => !(r ∈ st.symbols || r ∈ e.decls))) := by
  unfold compile compileAt at h
  split at h
  · cases h
  · split at h
    · cases h
    · split at h
      · cases h
      · split at h
        · cases h
        · cases h; rfl

/-- **C19_implicit_super_first_mention.**  In the entry that brings `Object` into the module — the
module does not have the name yet and the entry does not declare it — the implicit superclass of
the entry's class declarations is read with `GetModSym` from a slot that (i) holds `Object` in the
table the entry is compiled against and (ii) is one of the slots this entry itself appends after
the module's symbols and its own declarations: the module's own copy of the global. -/
theorem C19_implicit_super_first_mention (globals : List String) (st : St) (e : Entry) (c : Compiled)
    (h : compile globals st e = .ok c) (h1 : "Object" ∉ st.symbols) (h2 : "Object" ∉ e.decls) (h3 : "Object" ∈ e.refs) :
    ∃ slot, superSlot st.symbols e.decls c.table = some slot ∧ c.table[slot]? = some "Object" ∧
      st.symbols.length + e.decls.length ≤ slot ∧ slot < c.table.length := by
  have ht := compile_table_eq globals st e c h
  have hmem : "Object" ∈ uniq (st.symbols ++ e.decls) (e.refs.filter (fun r => !(r ∈ st.symbols || r ∈ e.decls))) := by
    apply uniq_mem
    · exact List.mem_filter.mpr ⟨h3, by simp [h1, h2]⟩
    · simp [h1, h2]
  have hin : "Object" ∈ c.table := by rw [ht]; exact List.mem_append_right _ hmem
  refine ⟨idxOf "Object" c.table, by simp [superSlot, h1, h2], idxOf_get _ _ hin, ?_, idxOf_lt _ _ hin⟩
  have hnot : "Object" ∉ st.symbols ++ e.decls := by simp [h1, h2]
  have key : ∀ (l r : List String), "Object" ∉ l → l.length ≤ idxOf "Object" (l ++ r) := by
    intro l r hl
    induction l with
    | nil => simp
    | cons x rest ih =>
      have hx : x ≠ "Object" := fun hx => hl (hx ▸ List.mem_cons_self)
      have hr : "Object" ∉ rest := fun hr => hl (List.mem_cons_of_mem _ hr)
      simp only [List.cons_append, idxOf, hx, if_false, List.length_cons]
      have := ih hr
      omega
  rw [ht]
  have := key (st.symbols ++ e.decls)
    (uniq (st.symbols ++ e.decls) (e.refs.filter (fun r => !(r ∈ st.symbols || r ∈ e.decls)))) hnot
  simpa [List.length_append] using this

/-- when the implicit superclass is loaded from the global module (`LoadGlobal`), a class
declaration's superclass leaves no module-symbol instruction behind -/
theorem number_super_none (tbl : List String) (np ni : Nat) (ops : List Op) :
    number tbl none np ni ops = number tbl none np ni (ops.filter (· ≠ Op.super)) := by
  induction ops generalizing np ni with
  | nil => rfl
  | cons op rest ih =>
    cases op <;> simp [number, ih]

/-- **C19_implicit_super_later_entries.**  Once the module has a symbol called `Object` — because
an earlier entry's parent-less class (or any other use) brought the global in, or because the
session declared its own `Object` — it has it for the rest of the session (entries that fail
included), and every later entry that compiles loads the implicit superclass of its classes from
the global module: no slot is read (`superSlot = none`, and by `number_super_none` nothing is
emitted).  The same holds in the very entry that declares its own `Object`. -/
theorem C19_implicit_super_later_entries (globals : List String) (st0 : St) (es1 es2 : List Entry)
    (hobj : "Object" ∈ (runSession globals st0 es1).symbols) :
    let st2 := runSession globals (runSession globals st0 es1) es2
    "Object" ∈ st2.symbols ∧ ∀ (e : Entry) (tbl : List String), superSlot st2.symbols e.decls tbl = none := by
  intro st2
  obtain ⟨more, hm⟩ := run_symbols globals (runSession globals st0 es1) es2
  have hin : "Object" ∈ st2.symbols := by
    show "Object" ∈ (runSession globals (runSession globals st0 es1) es2).symbols
    rw [hm]; exact List.mem_append_left _ hobj
  exact ⟨hin, fun e tbl => by simp [superSlot, hin]⟩

theorem superSlot_own_object (symbols decls tbl : List String) (h : "Object" ∈ decls) :
    superSlot symbols decls tbl = none := by simp [superSlot, h]

/-! ### the repaired finding D13 as a regression fact, and non-vacuity -/

/-- `corpus/C19/04_d13_cache_replaced.json` in the model's vocabulary: a class, a function with an
invoke site (`a.foo()`), an instance, then a call of the function from a later entry -/
def d13Session : List Entry :=
  [ { syntaxOk := true, decls := ["A"], refs := [], script := [.set "A"], calls := [],
      funs := [{ name := "init", ops := [.prop] }, { name := "foo", ops := [.prop] }] },
    { syntaxOk := true, decls := ["g"], refs := [], script := [.set "g"], calls := [],
      funs := [{ name := "g", ops := [.invoke] }] },
    { syntaxOk := true, decls := ["a"], refs := ["A"], script := [.get "A", .set "a"], calls := ["init"], funs := [] },
    { syntaxOk := true, decls := [], refs := ["print", "g", "a"], script := [.get "print", .get "g", .get "a"],
      calls := ["g", "foo"], funs := [] } ]

/-- **C19_regression_restarted_numbering** (D13, repaired).  With the numbering of the code before
the repair — every compile restarted at 0 and the vectors were replaced — the same session indexes
out of range three times: the fault detector `C19_cache_slots_in_range` speaks about is not vacuous,
and un-doing the repair re-opens exactly this. -/
theorem C19_regression_restarted_numbering :
    (BeforeRepair.runSession ["print"] St.empty d13Session).faults =
      [("init", "property", 0, 0), ("foo", "property", 1, 0), ("g", "invoke", 0, 0)] := by
  decide

/-- The model-level content of the property: no session makes an out-of-range cache access.  (That
the printed output of a session equals that of the concatenated file needs the semantics of whole
programs; it is judged on the sessions stream with the implementation's own `run` as the Spec,
DESIGN.md §5 C19.) -/
def C19_full : Prop :=
  ∀ (globals : List String) (es : List Entry), (runSession globals St.empty es).faults = []

/-- … which, after the repair of D13, holds. -/
theorem C19_full_holds : C19_full := fun globals es => (C19_cache_slots_in_range globals es).2

/-- the D13 session on the code's model: no fault, the four slots of `A`, `g`, `a`, `print` kept,
`init`/`foo` own property slots 0 and 1 and `g` invoke slot 0 to the end of the session -/
example :
    (runSession ["print"] St.empty d13Session).faults = [] ∧
    (runSession ["print"] St.empty d13Session).symbols = ["A", "g", "a", "print"] ∧
    (runSession ["print"] St.empty d13Session).propLen = 2 ∧
    (runSession ["print"] St.empty d13Session).invLen = 1 ∧
    (runSession ["print"] St.empty d13Session).live.map (fun f => (f.name, f.ops)) =
      [("init", [.prop 0]), ("foo", [.prop 1]), ("g", [.invoke 0])] := by
  decide

/-- sites in several entries, with an entry the resolver rejects and an entry the compiler proper
rejects (after numbering its two sites) in between: the later entry's sites continue at 1 / 1, the
failing entries consumed nothing -/
example :
    let es : List Entry :=
      [ { syntaxOk := true, decls := ["f"], refs := [], script := [.set "f"], calls := [],
          funs := [{ name := "f", ops := [.prop, .invoke] }] },
        { syntaxOk := true, decls := [], refs := ["nope"], script := [.get "nope", .prop], calls := [],
          funs := [{ name := "l", ops := [.prop] }] },
        { syntaxOk := true, compilerOk := false, decls := ["z", "big"], refs := [], script := [.set "z", .set "big"],
          calls := [], funs := [{ name := "z", ops := [.prop, .invoke] }, { name := "big", ops := [] }] },
        { syntaxOk := true, decls := ["h"], refs := ["f"], script := [.set "h", .get "f", .invoke], calls := ["f"],
          funs := [{ name := "h", ops := [.invoke, .prop] }] } ]
    propIds (sessionOps [] St.empty es) = [0, 1] ∧ invIds (sessionOps [] St.empty es) = [0, 1, 2] ∧
    (runSession [] St.empty es).live.map (fun f => (f.name, f.ops)) =
      [("f", [.prop 0, .invoke 0]), ("h", [.invoke 1, .prop 1])] := by
  decide

/-- the compile logs of three sessions on the implementation (`vh_repl`), reproduced by the model.
(1) `class K1 {..}` / `class K2 {..} print(Object);` / `fn mk3() { class L {..} return L; }`: the
first entry reads `Object` from its new slot 1, the second declares `K2`, `print` and reads only
`K2` for the inherit, then `print` and — explicitly — `Object`; a class inside a later function
reads nothing.  (2) `class K1 {..} let Object = 5;`: the entry declares its own `Object`, no global
is added.  (3) a function shadowing `Object` with a parameter emits no op at all; a function
without, in the first entry that mentions `Object`, reads slot 3 from inside its body. -/
example :
    let k1 : Entry := { syntaxOk := true, decls := ["K1"], refs := ["Object"], funs := [{ name := "m", ops := [] }],
                        script := [.set "K1", .super, .get "K1"], calls := [] }
    let k2 : Entry := { syntaxOk := true, decls := ["K2"], refs := ["Object", "print", "Object"], funs := [{ name := "m", ops := [] }],
                        script := [.set "K2", .super, .get "K2", .get "print", .get "Object"], calls := [] }
    let mk3 : Entry := { syntaxOk := true, decls := ["mk3"], refs := ["Object"],
                         funs := [{ name := "v", ops := [] }, { name := "mk3", ops := [.super] }], script := [.set "mk3"], calls := [] }
    let own : Entry := { syntaxOk := true, decls := ["K1", "Object"], refs := ["Object"], funs := [{ name := "m", ops := [] }],
                         script := [.set "K1", .super, .get "K1", .set "Object"], calls := [] }
    let first : Entry := { syntaxOk := true, decls := ["mk4", "mk3", "Z"], refs := ["Object", "Object"],
                           funs := [{ name := "v", ops := [] }, { name := "mk4", ops := [] }, { name := "v", ops := [] },
                                    { name := "mk3", ops := [.super] }],
                           script := [.set "mk4", .set "mk3", .set "Z", .super, .get "Z"], calls := [] }
    let log (st : St) (e : Entry) := (compile ["print", "Object"] st e).toOption.map fun c => (c.funs.map (·.ops), c.script)
    log St.empty k1 = some ([[]], [.decl 0, .decl 1, .set 1, .set 0, .get 1, .get 0]) ∧
    log (runSession ["print", "Object"] St.empty [k1]) k2 =
      some ([[]], [.decl 2, .decl 3, .set 3, .set 2, .get 2, .get 3, .get 1]) ∧
    log (runSession ["print", "Object"] St.empty [k1, k2]) mk3 = some ([[], []], [.decl 4, .set 4]) ∧
    log St.empty own = some ([[]], [.decl 0, .decl 1, .set 0, .get 0, .set 1]) ∧
    log St.empty first =
      some ([[], [], [], [.get 3]], [.decl 0, .decl 1, .decl 2, .decl 3, .set 3, .set 0, .set 1, .set 2, .get 3, .get 2]) := by
  decide

/-- a session with a duplicate declaration, an undeclared name and a syntax error: the three failing
entries change nothing, later entries still resolve `x` to slot 0 -/
example :
    let es : List Entry :=
      [ { syntaxOk := true, decls := ["x"], refs := [], funs := [], script := [.set "x"], calls := [] },
        { syntaxOk := true, decls := ["x"], refs := [], funs := [], script := [.set "x"], calls := [] },
        { syntaxOk := true, decls := [], refs := ["nope"], funs := [], script := [.get "nope"], calls := [] },
        { syntaxOk := false, decls := [], refs := [], funs := [], script := [], calls := [] },
        { syntaxOk := true, decls := ["y"], refs := ["print", "x"], funs := [], script := [.get "print", .get "x", .set "y"], calls := [] } ]
    (runSession ["print"] St.empty es).symbols = ["x", "y", "print"] ∧
    (es.map fun e => (compile ["print"] (runSession ["print"] St.empty [es[0]!]) e).toOption.map (·.script)) =
      [none, none, none, none, some [.decl 1, .decl 2, .set 2, .get 2, .get 0, .set 1]] := by
  decide

/-! ### what else outlives an entry: the run queue, the fibers of earlier entries, their channels

`Model/ReplFibers.lean`: `Sess` = the module (`Repl.St`: symbols, cache-vector lengths, live functions)
+ the scheduler state (`Sched.VM`: `runq` = `Vm.fiber_queue`, every fiber, every channel).  -/

section Fibers
open LaytheVerif.Sched LaytheVerif.ReplFibers

/-! [G] the tables `tools/translate_c19.py` reads from laythe_vm/src/vm/*.rs are the ones the model was
written from.  An edit that makes `interpret`, `prepare` or `repl` name `fiber_queue` — or any other
member of `self` they do not name today — re-opens these. -/

/-- the run queue is written by `queue_blocked_fiber` (`Sched.queueBlocked`), `op_launch`
(`Sched.execLaunch`) and the two import instructions (the fiber of a module body: C17), read by the
`ContextSwitch` arm of `execute` (`Sched.contextSwitch`) and walked by the collector's root scan —
and by nothing else: not by `repl`, `interpret`, `prepare` or `compile`. -/
theorem queue_sites_as_modelled :
    Gen.ReplLoop.queueSites =
      [("basic.rs", "queue_blocked_fiber", "push_back"), ("impls.rs", "trace", "iter"), ("impls.rs", "trace_debug", "iter"),
       ("mod.rs", "execute", "pop_front"), ("ops.rs", "op_launch", "push_back"), ("ops.rs", "op_import", "push_back"),
       ("ops.rs", "op_import_symbol", "push_back")] := by decide

/-- `interpret`: `compile`, then `prepare` and `execute`, or the diagnostics (`io`, `files`); the
result of `execute` is returned as it is (`ReplFibers.runEntry` does not consult `FEntry.raises`) -/
theorem interpret_as_modelled :
    Gen.ReplLoop.interpretSelf = ["compile", "prepare", "execute", "io", "files"] := by decide

/-- `prepare`: a fresh fiber becomes `fiber` and `main_fiber` and is activated (`ReplFibers.prepare`) -/
theorem prepare_as_modelled :
    Gen.ReplLoop.prepareSelf = ["create_fiber", "fiber", "main_fiber", "fiber", "load_ip", "current_fun"] := by decide

/-- `repl`: read a line, register the source, `interpret` — and drop its result (`ReplFibers.step`) -/
theorem repl_as_modelled :
    Gen.ReplLoop.replSelf =
      ["io", "root_dir", "main_module", "manage_str", "push_root", "manage_str", "push_root", "files", "pop_roots", "interpret"] := by
  decide

/-- no statement of the read-compile-run loop itself touches the run queue -/
theorem run_queue_untouched_between_entries :
    ∀ s ∈ Gen.ReplLoop.queueSites, s.2.1 ∉ ["repl", "interpret", "prepare", "compile", "main_module"] := by decide

/-- **C19_compile_error_changes_nothing_at_all.**  An entry that fails to compile leaves every
component of the session state as it was: the module's symbols, its cache vectors, the live
functions — and the run queue, every fiber and every channel. -/
theorem C19_compile_error_changes_nothing_at_all (fuel : Nat) (globals : List String) (s : Sess) (e : ReplFibers.Entry)
    (err : CompileError) (h : compile globals s.st e.c = .error err) :
    (ReplFibers.step fuel globals s e).st = s.st ∧ (ReplFibers.step fuel globals s e).vm = s.vm := by
  unfold ReplFibers.step
  split
  · exact ⟨rfl, rfl⟩
  · rw [h]; exact ⟨rfl, rfl⟩

/-- **C19_uncaught_error_is_not_consulted.**  Whether a script's last act was to return or to raise an
error nothing caught makes no difference to the state the next entry starts from: module and
scheduler state are those the executed part of the script left. -/
theorem C19_uncaught_error_is_not_consulted (fuel : Nat) (globals : List String) (s : Sess) (c : Repl.Entry) (f : FEntry) :
    (ReplFibers.step fuel globals s { c, f := { f with raises := true } }).st =
      (ReplFibers.step fuel globals s { c, f := { f with raises := false } }).st ∧
    (ReplFibers.step fuel globals s { c, f := { f with raises := true } }).vm =
      (ReplFibers.step fuel globals s { c, f := { f with raises := false } }).vm := by
  simp only [ReplFibers.step]
  split
  · exact ⟨rfl, rfl⟩
  · cases compile globals s.st c <;> exact ⟨rfl, rfl⟩

theorem runAt_stopped (main n : Nat) (vm : VM) (h : vm.outcome ≠ .running) : runAt main n vm = vm := by
  induction n with
  | zero => rfl
  | succ k ih =>
    have hs : stepAt main vm = vm := by
      unfold stepAt VM.next
      split
      · rename_i hr; exact absurd hr h
      · rfl
    rw [runAt, hs]; exact ih

/-- the scheduler state after an entry whose script performs no channel / fiber operation — it
prints, defines, calls, or raises straight away: `prepare` appended the script's fiber, `execute`
ended on its `Exit` / uncaught error; the run queue was neither popped nor cleared -/
theorem runEntry_fiber_free (fuel : Nat) (vm : VM) (e : FEntry) (hm : e.main = []) (hf : 0 < fuel) :
    runEntry fuel vm e = { prepare vm e with outcome := .exit } := by
  obtain ⟨k, rfl⟩ : ∃ k, fuel = k + 1 := ⟨fuel - 1, by omega⟩
  have hme : (prepare vm e).me.prog = [] := by
    simp [prepare, VM.me, VM.fiber, mainFiber, hm]
  have hstep : stepAt vm.fibers.length (prepare vm e) = { prepare vm e with outcome := .exit } := by
    have hcur : (prepare vm e).cur = vm.fibers.length := rfl
    have hout : (prepare vm e).outcome = .running := rfl
    simp only [stepAt, VM.next, hout, execAt, hme, execReturnAt, hcur, if_true, VM.stop]
  unfold runEntry
  rw [runAt, hstep]
  exact runAt_stopped _ _ _ (by simp)

/-- an entry without channel / fiber content -/
def FiberFree (e : ReplFibers.Entry) : Prop := e.f.main = [] ∧ e.f.chans = [] ∧ e.f.bodies = []

instance (e : ReplFibers.Entry) : Decidable (FiberFree e) := by unfold FiberFree; infer_instance

/-- the dead main fiber such an entry leaves behind: never parked, in no waiter list, in no queue -/
def deadMain (vm : VM) : Fiber := mainFiber [] vm.chans.length

/-- **C19_erroneous_entry_changes_none_of_it.**  One entry that is rejected by the compiler, or
compiles and raises before it performed any channel / fiber operation (or performs none and simply
returns): the module's symbols are only appended to, its cache vectors only grow, and the scheduler
state is untouched — the run queue, every channel with its buffered values and waiter lists, and
every fiber earlier entries created are exactly what they were; the only addition is the dead main
fiber of this entry.  (`0 < fuel`: the model's step budget lets the script take its one step.) -/
theorem C19_erroneous_entry_changes_none_of_it (fuel : Nat) (globals : List String) (s : Sess) (e : ReplFibers.Entry)
    (hf : 0 < fuel) (he : FiberFree e) :
    (∃ more, (ReplFibers.step fuel globals s e).st.symbols = s.st.symbols ++ more) ∧
    s.st.propLen ≤ (ReplFibers.step fuel globals s e).st.propLen ∧
    s.st.invLen ≤ (ReplFibers.step fuel globals s e).st.invLen ∧
    (ReplFibers.step fuel globals s e).vm.runq = s.vm.runq ∧
    (ReplFibers.step fuel globals s e).vm.chans = s.vm.chans ∧
    (ReplFibers.step fuel globals s e).vm.bodies = s.vm.bodies ∧
    ((ReplFibers.step fuel globals s e).vm.fibers = s.vm.fibers ∨
     (ReplFibers.step fuel globals s e).vm.fibers = s.vm.fibers ++ [deadMain s.vm]) := by
  obtain ⟨hm, hc, hb⟩ := he
  unfold ReplFibers.step
  split
  · exact ⟨⟨[], by simp⟩, Nat.le_refl _, Nat.le_refl _, rfl, rfl, rfl, Or.inl rfl⟩
  · cases hcomp : compile globals s.st e.c with
    | error err => exact ⟨⟨[], by simp⟩, Nat.le_refl _, Nat.le_refl _, rfl, rfl, rfl, Or.inl rfl⟩
    | ok c =>
      have hrun := runEntry_fiber_free fuel s.vm e.f hm hf
      obtain ⟨g1, g2⟩ := C19_cache_vectors_only_grow globals s.st e.c
      refine ⟨step_symbols globals s.st e.c, g1, g2, ?_, ?_, ?_, Or.inr ?_⟩
      · simp only [hrun]; rfl
      · simp only [hrun]; simp [prepare, hc]
      · simp only [hrun]; simp [prepare, hb]
      · simp only [hrun]; simp [prepare, hc, hm, deadMain]

/-- the fibers a run of fiber-free entries adds are dead main fibers -/
def DeadMain (f : Fiber) : Prop := f.state = .running ∧ f.prog = [] ∧ f.channels = [] ∧ f.parent = none

/-- **C19_pending_fibers_survive_erroneous_entries.**  Any number of entries without channel / fiber
content — failing to compile, raising, or succeeding, in any mix: the run queue, the channels and
every earlier fiber (state, saved position, channels-used list) are exactly what they were when the
first of them was entered, so a fiber an earlier entry launched is still queued (or still parked
in the waiter list it was parked in) when a later entry synchronises with it. -/
theorem C19_pending_fibers_survive_erroneous_entries (fuel : Nat) (globals : List String) (hf : 0 < fuel)
    (es : List ReplFibers.Entry) (hes : ∀ e ∈ es, FiberFree e) : ∀ s : Sess,
    (ReplFibers.runSession fuel globals s es).vm.runq = s.vm.runq ∧
    (ReplFibers.runSession fuel globals s es).vm.chans = s.vm.chans ∧
    (ReplFibers.runSession fuel globals s es).vm.bodies = s.vm.bodies ∧
    ∃ dead, (ReplFibers.runSession fuel globals s es).vm.fibers = s.vm.fibers ++ dead ∧ ∀ d ∈ dead, DeadMain d := by
  induction es with
  | nil => intro s; exact ⟨rfl, rfl, rfl, [], by simp [ReplFibers.runSession], by simp⟩
  | cons e rest ih =>
    intro s
    obtain ⟨_, _, _, h1, h2, h3, h4⟩ :=
      C19_erroneous_entry_changes_none_of_it fuel globals s e hf (hes e List.mem_cons_self)
    obtain ⟨i1, i2, i3, dead, i4, i5⟩ := ih (fun x hx => hes x (List.mem_cons_of_mem _ hx)) (ReplFibers.step fuel globals s e)
    simp only [ReplFibers.runSession]
    refine ⟨by rw [i1, h1], by rw [i2, h2], by rw [i3, h3], ?_⟩
    rcases h4 with h4 | h4
    · exact ⟨dead, by rw [i4, h4], i5⟩
    · refine ⟨deadMain s.vm :: dead, by rw [i4, h4]; simp, ?_⟩
      intro d hd
      rcases List.mem_cons.mp hd with rfl | hd
      · exact ⟨rfl, rfl, rfl, rfl⟩
      · exact i5 d hd

/-- … in particular every earlier fiber is looked up unchanged -/
theorem C19_earlier_fibers_unchanged (fuel : Nat) (globals : List String) (hf : 0 < fuel)
    (es : List ReplFibers.Entry) (hes : ∀ e ∈ es, FiberFree e) (s : Sess) (i : Nat) (hi : i < s.vm.fibers.length) :
    (ReplFibers.runSession fuel globals s es).vm.fiber i = s.vm.fiber i := by
  obtain ⟨_, _, _, dead, h, _⟩ := C19_pending_fibers_survive_erroneous_entries fuel globals hf es hes s
  simp [VM.fiber, h, List.getElem?_append_left hi]

/-! non-vacuity, and the seeded change of round 3 as a regression fact -/

/-- `seeded/C19_r3/demo_session.txt` in the model's vocabulary: a buffered channel, a worker that sends
40 and 42, `launch`, an entry that raises (`counter.nope();`), an entry the parser rejects, then
three entries that receive -/
def pendingSession : List ReplFibers.Entry :=
  [ { c := { syntaxOk := true, decls := ["results"], refs := [], funs := [], script := [.set "results"], calls := [] },
      f := { chans := [some 2] } },
    { c := { syntaxOk := true, decls := ["worker"], refs := [], funs := [{ name := "worker", ops := [.prop, .prop] }],
             script := [.set "worker"], calls := [] },
      f := { bodies := [[.send 0 40, .send 0 42]] } },
    { c := { syntaxOk := true, decls := [], refs := ["worker", "results"], funs := [], script := [.get "worker", .get "results"],
             calls := [] },
      f := { main := [.launch 1 [0]] } },
    { c := { syntaxOk := true, decls := [], refs := ["results"], funs := [], script := [.get "results", .prop], calls := [] },
      f := { raises := true } },
    { c := { syntaxOk := false, decls := [], refs := [], funs := [], script := [], calls := [] } },
    { c := { syntaxOk := true, decls := [], refs := ["print", "results"], funs := [],
             script := [.get "print", .get "results", .invoke], calls := ["worker"] },
      f := { main := [.recv 0] } },
    { c := { syntaxOk := true, decls := [], refs := ["print", "results"], funs := [],
             script := [.get "print", .get "results", .invoke], calls := [] },
      f := { main := [.recv 0] } } ]

/-- the launched fiber is queued when its entry ends, is still queued after the raising entry and the
rejected one, and the later entries receive 40 and 42 from it -/
example :
    ReplFibers.outputs 50 ["print"] Sess.empty pendingSession =
      [(.exit, []), (.exit, []), (.exit, []), (.raised, []), (.compileError, []),
       (.exit, [.got 0 (some 40)]), (.exit, [.got 0 (some 42)])] ∧
    (ReplFibers.runSession 50 ["print"] Sess.empty (pendingSession.take 3)).vm.runq = [3] ∧
    (ReplFibers.runSession 50 ["print"] Sess.empty (pendingSession.take 5)).vm.runq = [3] ∧
    (ReplFibers.runSession 50 ["print"] Sess.empty pendingSession).vm.runq = [] := by
  decide

/-- **C19_regression_queue_cleared_on_error** (seeded change C19_r3).  Were `interpret` to clear the run
queue when `execute` returns `RuntimeError`, the same session would report a deadlock at its first
receive: the theorems above are about something the implementation could get wrong. -/
theorem C19_regression_queue_cleared_on_error :
    QueueClearedOnError.outputs 50 ["print"] Sess.empty pendingSession =
      [(.exit, []), (.exit, []), (.exit, []), (.raised, []), (.compileError, []), (.deadlock, []), (.deadlock, [])] := by
  decide

/-- `known_findings/DC19.3-wakeup-owed-by-ended-script-is-lost/session.txt`: a worker that twice
receives on channel 0 and answers on channel 1; the scripts send 12 and receive, send 10 — and end —,
then receive -/
def trivialEntry : Repl.Entry := { syntaxOk := true, decls := [], refs := [], funs := [], script := [], calls := [] }

def lostWakeupSession : List ReplFibers.Entry :=
  [ { c := trivialEntry, f := { chans := [some 2, some 1] } },
    { c := trivialEntry, f := { bodies := [[.recv 0, .send 1 13, .recv 0, .send 1 11]] } },
    { c := trivialEntry, f := { main := [.launch 1 [0, 1]] } },
    { c := trivialEntry, f := { main := [.send 0 12, .recv 1] } },
    { c := trivialEntry, f := { main := [.send 0 10] } },
    { c := trivialEntry, f := { main := [.recv 1] } } ]

/-- the same lines as one module: one script, one main fiber -/
def lostWakeupModule : List ReplFibers.Entry :=
  [ { c := trivialEntry,
      f := { chans := [some 2, some 1], bodies := [[.recv 0, .send 1 13, .recv 0, .send 1 11]],
             main := [.launch 1 [0, 1], .send 0 12, .recv 1, .send 0 10, .recv 1] } } ]

set_option maxRecDepth 8000 in
/-- **C19_witness_wakeup_owed_by_ended_script_is_lost** (DC19.3, known finding).  A send on a buffered
channel with room wakes nobody; the sender delivers the wake-up when it parks or completes — the
script of a prompt entry does neither when it ends, and the next entry's fresh main fiber scans only
the channels it used itself: the worker stays parked on channel 0 although its value is waiting, and
the entry that needs its answer is told `Fatal error deadlock.`; as one module the second answer
arrives.  (The model is the code's: the implementation reports this deadlock.) -/
theorem C19_witness_wakeup_owed_by_ended_script_is_lost :
    ReplFibers.outputs 60 [] Sess.empty lostWakeupSession =
      [(.exit, []), (.exit, []), (.exit, []), (.exit, [.got 1 (some 12), .got 0 (some 13)]), (.exit, []), (.deadlock, [])] ∧
    ReplFibers.outputs 60 [] Sess.empty lostWakeupModule =
      [(.exit, [.got 1 (some 12), .got 0 (some 13), .got 1 (some 10), .got 0 (some 11)])] := by
  decide

end Fibers

/-! ### known finding DC19.1: an import that fails to compile takes a module id but no cache entry -/

section ModuleIds
open LaytheVerif.Repl.ModuleIds

/-- as long as every imported file compiles, ids and cache entries stay in step (`nextId = caches`) and
every loaded module indexes inside `Vm.inline_cache` -/
theorem loads_all_compile_in_range (cs : List Bool) (hall : ∀ c ∈ cs, c = true) : ∀ t : Tbl, t.nextId = t.caches →
    (loads t cs).1.nextId = (loads t cs).1.caches ∧ t.caches ≤ (loads t cs).1.caches ∧
    ∀ id ∈ (loads t cs).2, inRange (loads t cs).1 id = true := by
  induction cs with
  | nil => intro t h; exact ⟨h, Nat.le_refl _, by simp [loads]⟩
  | cons c rest ih =>
    intro t h
    have hc : c = true := hall c List.mem_cons_self
    subst hc
    have h1 : (load true t).1.nextId = (load true t).1.caches := by simp [load, h]
    have h2 : (load true t).1.caches = t.caches + 1 := by simp [load, h]
    obtain ⟨a, b, d⟩ := ih (fun x hx => hall x (List.mem_cons_of_mem _ hx)) (load true t).1 h1
    refine ⟨by simpa [loads] using a, by simp only [loads]; omega, ?_⟩
    intro id hid
    simp only [loads, if_true, List.mem_cons] at hid
    rcases hid with rfl | hid
    · simp only [loads, inRange, decide_eq_true_eq]
      have : (load true t).2 = t.nextId := rfl
      omega
    · simpa [loads] using d id hid

/-- **C19_witness_failed_import_skips_cache_entry** (DC19.1, known finding).  `import self.bad;` (the
file does not compile) followed by `import self.good;`: whatever the table looked like while ids and
entries were in step, `good`'s id is now the length of `Vm.inline_cache` — its first property / invoke
site indexes one past the end (known_findings/DC19.1-failed-import-skips-cache-entry/session.txt). -/
theorem C19_witness_failed_import_skips_cache_entry (t : Tbl) (h : t.nextId = t.caches) :
    (loads t [false, true]).2 = [t.nextId + 1] ∧ inRange (loads t [false, true]).1 (t.nextId + 1) = false ∧
    (loads t [false, true]).1.caches = t.nextId + 1 := by
  have hlt : ¬ (t.caches + 1 < t.caches) := by omega
  simp [loads, load, inRange, h, hlt]

/-- the prompt's situation: 21 modules exist (ids 0..20: the standard library and the session's own
module), then `bad`, then `good` -/
example : (loads { nextId := 21, caches := 21 } [false, true]) = ({ nextId := 23, caches := 22 }, [22]) := by decide

end ModuleIds

end LaytheVerif.C19
