/-
C20 — Garbage is reclaimed and heap accounting is exact after a full collection.
Same allocator model as C05/C09.
-/
import LaytheVerif.Props.C05
import LaytheVerif.Lemmas.AllocGen
import LaytheVerif.Lemmas.AllocRelease
import LaytheVerif.Lemmas.DropGen
namespace LaytheVerif.C20
open LaytheVerif.Alloc LaytheVerif.C05

theorem sumSizes_append (a : A) (l₁ l₂ : List Nat) : sumSizes a (l₁ ++ l₂) = sumSizes a l₁ + sumSizes a l₂ := by
  simp [sumSizes]

theorem size_congr (a b : A) (h : b.objs = a.objs) (x : Nat) : b.size x = a.size x := by
  unfold A.size; rw [h]

theorem sumSizes_congr (a b : A) (h : b.objs = a.objs) (l : List Nat) : sumSizes b l = sumSizes a l := by
  unfold sumSizes
  congr 1
  exact List.map_congr_left (fun x _ => size_congr a b h x)

/-- **C20_bytes_exact_after_any_collect.** After every collection — nursery or full, whatever
triggered it — `bytes_allocated` is exactly the sum of the sizes of the objects the allocator still
owns, the nursery is empty, and the next threshold is `GC_HEAP_GROW_FACTOR ×` that.  (On the pinned
code this failed for nursery collections: D14, repaired by a `fix:` commit.) -/
theorem C20_bytes_exact_after_any_collect (a : A) (R : List Nat) (force : Option Bool) :
    (a.collect R force).bytes = sumSizes (a.collect R force) (a.collect R force).owned ∧
    (a.collect R force).nursery = [] ∧
    (a.collect R force).nextGc = GROW * (a.collect R force).bytes := by
  refine ⟨?_, rfl, by simp [A.collect, Nat.mul_comm]⟩
  simp only [A.owned]
  rw [sumSizes_append, sumSizes_append]
  rw [sumSizes_congr a (a.collect R force) rfl, sumSizes_congr a (a.collect R force) rfl,
      sumSizes_congr a (a.collect R force) rfl]
  simp [A.collect, sumSizes]

/-- What a *full* collection keeps: exactly the owned objects that are reachable. -/
theorem full_collect_owned (a : A) (R : List Nat) (force : Option Bool)
    (hfull : force.getD ((a.gcCount + 1) % FULL_EVERY == 0) = true) (x : Nat) :
    x ∈ (a.collect R force).owned ↔ x ∈ a.owned ∧ Reach a (R ++ a.temp) x := by
  rw [mem_owned_collect, marked_iff_reach]
  simp [hfull]

/-- **C20_full_collect_exact.** In every state reached by a valid history (so everything reachable
is owned), after a full collection the allocator owns exactly the objects reachable from the
program, the byte count it reports is the sum of their sizes, the intern table contains exactly the
reachable strings, and `next_gc` is twice the live size. -/
theorem C20_full_collect_exact (ops : List Op) (hv : ValidRun' {} ops) (force : Option Bool)
    (hfull : force.getD (((run {} ops).a.gcCount + 1) % FULL_EVERY == 0) = true) :
    let m := run {} ops
    let a' := m.a.collect m.roots force
    (∀ x, x ∈ a'.owned ↔ m.reachable x) ∧
    a'.bytes = sumSizes a' a'.owned ∧
    a'.nextGc = GROW * a'.bytes ∧
    (∀ s x, (s, x) ∈ a'.intern ↔ (m.reachable x ∧ strOf m.a x = some s)) := by
  intro m a'
  have hinv := run_inv {} ops init_inv hv
  have hacc := C20_bytes_exact_after_any_collect m.a m.roots force
  refine ⟨fun x => ?_, hacc.1, hacc.2.2, fun s x => ?_⟩
  · rw [full_collect_owned m.a m.roots force hfull]
    exact ⟨fun h => h.2, fun h => ⟨hinv.1.1 x h, h⟩⟩
  · show (s, x) ∈ (m.a.collect m.roots force).intern ↔ _
    rw [collect_intern, List.mem_filter, List.contains_iff_mem, marked_iff_reach]
    constructor
    · rintro ⟨h1, h2⟩; exact ⟨h2, hinv.2.tableStr _ h1⟩
    · rintro ⟨h1, h2⟩; exact ⟨hinv.2.liveInTable x s h1 h2, h1⟩

/-- Everything a collection drops is unreachable (nothing live is reclaimed), for every mode. -/
theorem C20_only_garbage_reclaimed (ops : List Op) (force : Option Bool) (x : Nat)
    (ho : x ∈ (run {} ops).a.owned) (hd : x ∉ ((run {} ops).a.collect (run {} ops).roots force).owned) :
    ¬ (run {} ops).reachable x := by
  intro hr
  exact hd (collect_preserves_reachable _ _ force x hr ho).1

/-- **C20_witness_nursery_accounting** (D14, repaired): the pinned `sweep_obj_nursery` added the size of
each object it was freeing; on a heap with one dead 64-byte nursery object and one live 21-byte one the
pinned formula reports 85 bytes while 21 are owned. -/
theorem C20_witness_nursery_accounting :
    let a : A := { objs := [{ size := 21, edges := [] }, { size := 64, edges := [] }], nursery := [0, 1], bytes := 85 }
    let pinnedRemaining := sumSizes a a.nursery          -- retained and freed alike
    (a.collect [0] (some false)).bytes = 21 ∧ pinnedRemaining = 85 := by decide

/-! ### garbage is reclaimed: every block the allocator lets go of is handed back -/

/-- In every state a history can reach, every block is in the owner lists at most once (so a sweep
can drop it at most once: no double release). -/
theorem run_ownedOk (m : M) (ops : List Op) (h : OwnedOk m.a) : OwnedOk (run m ops).a := by
  induction ops generalizing m with
  | nil => exact h
  | cons op rest ih =>
    apply ih
    cases op with
    | alloc o hit => exact ownedOk_alloc m.a o m.roots hit h
    | str s size hit => exact ownedOk_manageStr m.a s size m.roots hit h
    | setEdges x es => exact ownedOk_setEdges m.a x es h
    | setRoots R' => exact h
    | setTemp t => exact h
    | collect force => exact ownedOk_collect m.a m.roots force h

/-- **C20_collect_releases_exactly_the_dropped.** For every allocator state, root set and collection
mode: if the `Drop` arm of every owned block reaches its `dealloc` (`rel`), then the blocks handed
back to the system allocator are exactly the handles the sweeps dropped, and what was owned before
is — as a multiset — what is owned afterwards plus what was handed back.  Nothing leaves the owner
lists without being released. -/
theorem C20_collect_releases_exactly_the_dropped (a : A) (R : List Nat) (force : Option Bool) (rel : Nat → Bool)
    (hrel : ∀ x ∈ a.owned, rel x = true) :
    (a.collectLog R force rel).released = (a.collectLog R force rel).dropped ∧
    List.Perm a.owned ((a.collect R force).owned ++ (a.collectLog R force rel).released) := by
  have hd : (a.collectLog R force rel).released = (a.collectLog R force rel).dropped := by
    rw [collectLog_released]
    exact filter_all (fun x hx => hrel x (dropped_subset_owned a R force rel x hx))
  exact ⟨hd, hd ▸ collectLog_perm a R force rel⟩

/-- **C20_released_iff.** In every state reached by any history, for every collection: a block is
handed back iff it was owned before and is not owned afterwards; each such block is handed back
exactly once; and the counts add up. -/
theorem C20_released_iff (ops : List Op) (force : Option Bool) (rel : Nat → Bool)
    (hrel : ∀ x ∈ (run {} ops).a.owned, rel x = true) :
    let m := run {} ops
    let s := m.a.collectLog m.roots force rel
    (∀ x, x ∈ s.released ↔ (x ∈ m.a.owned ∧ x ∉ (m.a.collect m.roots force).owned)) ∧
    s.released.Nodup ∧
    s.released.length + (m.a.collect m.roots force).owned.length = m.a.owned.length := by
  intro m s
  have hok : OwnedOk m.a := run_ownedOk {} ops ownedOk_init
  obtain ⟨hd, hp⟩ := C20_collect_releases_exactly_the_dropped m.a m.roots force rel hrel
  have hn : ((m.a.collect m.roots force).owned ++ s.released).Nodup := hp.nodup_iff.mp hok.1
  obtain ⟨hn1, hn2, hdis⟩ := List.nodup_append.mp hn
  refine ⟨fun x => ⟨fun hx => ⟨hp.symm.subset (List.mem_append.mpr (Or.inr hx)), fun ho => hdis x ho x hx rfl⟩, fun ⟨ho, hno⟩ => ?_⟩, hn2, ?_⟩
  · have := hp.subset ho
    rcases List.mem_append.mp this with h | h
    · exact absurd h hno
    · exact h
  · have := hp.length_eq
    rw [List.length_append] at this
    show (m.a.collectLog m.roots force rel).released.length + _ = _
    omega

/-- Teardown: dropping the allocator hands back every block it still owns. -/
theorem C20_teardown_releases_all (a : A) (rel : Nat → Bool) (hrel : ∀ x ∈ a.owned, rel x = true) :
    a.teardownLog rel = a.owned := filter_all hrel

/-- **C20_released_exact_gen.** The same with `rel` read off the Rust text: `kindOf x` is the
`ObjectKind` of block `x` (`none` for the boxed `heap` entries).  Uses [G] `relOfKind_gen`: every arm of
`impl Drop for ObjectHandle` reaches its `dealloc` unconditionally. -/
theorem C20_released_exact_gen (a : A) (R : List Nat) (force : Option Bool) (kindOf : Nat → Option String)
    (hk : ∀ x s, kindOf x = some s → s ∈ Gen.DropArms.kinds) :
    let rel := fun x => DropGen.relOfKind Gen.DropArms.arms (kindOf x)
    (a.collectLog R force rel).released = (a.collectLog R force rel).dropped ∧
    List.Perm a.owned ((a.collect R force).owned ++ (a.collectLog R force rel).released) ∧
    a.teardownLog rel = a.owned := by
  intro rel
  have hrel : ∀ x ∈ a.owned, rel x = true := fun x _ => DropGen.relOfKind_all (kindOf x) (hk x)
  exact ⟨(C20_collect_releases_exactly_the_dropped a R force rel hrel).1,
         (C20_collect_releases_exactly_the_dropped a R force rel hrel).2,
         C20_teardown_releases_all a rel hrel⟩

/-- Non-vacuity: a nursery collection over three blocks, one of them live: two are handed back. -/
example :
    let a : A := { objs := [{ size := 24, edges := [] }, { size := 24, edges := [] }, { size := 40, edges := [] }], nursery := [0, 1, 2], bytes := 88 }
    (a.collectLog [2] (some false) (fun _ => true)).released = [0, 1] ∧ (a.collect [2] (some false)).owned = [2] := by decide

/-- **C20_witness_guarded_dealloc.** The hypothesis on `rel` is what the property rests on: if the arm
for one kind of block does not reach its `dealloc` (the capacity-0 list of a seeded change), a dead block
of that kind leaves the owner lists and is never handed back — while `bytes` stays exact. -/
theorem C20_witness_guarded_dealloc :
    let a : A := { objs := [{ size := 24, edges := [] }, { size := 56, edges := [] }], nursery := [0, 1], bytes := 80 }
    let rel := fun x => x != 0            -- block 0: a list of capacity 0 under `if cap > 0 { .. dealloc .. }`
    let s := a.collectLog [] (some true) rel
    s.a.owned = [] ∧ s.dropped = [0, 1] ∧ s.released = [1] ∧ s.a.bytes = 0 := by decide

/-- **C20_full_collect_idempotent** (round 5).  Garbage is reclaimed *completely* by one full collection:
a second full collection run directly afterwards, with the same roots, lets go of nothing — the
allocator owns exactly the same objects before and after it (for every heap, reachable or not by a
valid history).  So nothing unreachable survives a full collection to be found by the next one. -/
theorem C20_full_collect_idempotent (a : A) (R : List Nat) (x : Nat) :
    x ∈ ((a.collect R (some true)).collect R (some true)).owned ↔ x ∈ (a.collect R (some true)).owned := by
  rw [full_collect_owned _ R (some true) rfl]
  constructor
  · exact fun h => h.1
  · intro h
    refine ⟨h, ?_⟩
    have hr := ((full_collect_owned a R (some true) rfl x).mp h).2
    exact reach_of_edges_eq (a := a.collect R (some true)) (b := a) (fun _ => rfl) hr

end LaytheVerif.C20
