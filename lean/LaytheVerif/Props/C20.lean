/-
C20 — Garbage is reclaimed and heap accounting is exact after a full collection.
Same allocator model as C05/C09.
-/
import LaytheVerif.Props.C05
import LaytheVerif.Lemmas.AllocGen
namespace LaytheVerif.C20
open LaytheVerif.Alloc LaytheVerif.C05

theorem sumSizes_append (a : A) (l₁ l₂ : List Nat) : sumSizes a (l₁ ++ l₂) = sumSizes a l₁ + sumSizes a l₂ := by
  simp [sumSizes]

theorem size_congr (a b : A) (h : b.objs = a.objs) (x : Nat) : b.size x = a.size x := by
  unfold A.size; rw [h]

theorem sumSizes_congr (a b : A) (h : b.objs = a.objs) (l : List Nat) : sumSizes b l = sumSizes a l := by
  unfold sumSizes
  congr 1
  exact List.map_congr_left (fun x _ => size_congr a b h x)

/-- **C20_bytes_exact_after_any_collect.** After every collection — nursery or full, whatever
triggered it — `bytes_allocated` is exactly the sum of the sizes of the objects the allocator still
owns, the nursery is empty, and the next threshold is `GC_HEAP_GROW_FACTOR ×` that.  (On the pinned
code this failed for nursery collections: D14, repaired by a `fix:` commit.) -/
theorem C20_bytes_exact_after_any_collect (a : A) (R : List Nat) (force : Option Bool) :
    (a.collect R force).bytes = sumSizes (a.collect R force) (a.collect R force).owned ∧
    (a.collect R force).nursery = [] ∧
    (a.collect R force).nextGc = GROW * (a.collect R force).bytes := by
  refine ⟨?_, rfl, by simp [A.collect, Nat.mul_comm]⟩
  simp only [A.owned]
  rw [sumSizes_append, sumSizes_append]
  rw [sumSizes_congr a (a.collect R force) rfl, sumSizes_congr a (a.collect R force) rfl,
      sumSizes_congr a (a.collect R force) rfl]
  simp [A.collect, sumSizes]

/-- What a *full* collection keeps: exactly the owned objects that are reachable. -/
theorem full_collect_owned (a : A) (R : List Nat) (force : Option Bool)
    (hfull : force.getD ((a.gcCount + 1) % FULL_EVERY == 0) = true) (x : Nat) :
    x ∈ (a.collect R force).owned ↔ x ∈ a.owned ∧ Reach a (R ++ a.temp) x := by
  rw [mem_owned_collect, marked_iff_reach]
  simp [hfull]

/-- **C20_full_collect_exact.** In every state reached by a valid history (so everything reachable
is owned), after a full collection the allocator owns exactly the objects reachable from the
program, the byte count it reports is the sum of their sizes, the intern table contains exactly the
reachable strings, and `next_gc` is twice the live size. -/
theorem C20_full_collect_exact (ops : List Op) (hv : ValidRun' {} ops) (force : Option Bool)
    (hfull : force.getD (((run {} ops).a.gcCount + 1) % FULL_EVERY == 0) = true) :
    let m := run {} ops
    let a' := m.a.collect m.roots force
    (∀ x, x ∈ a'.owned ↔ m.reachable x) ∧
    a'.bytes = sumSizes a' a'.owned ∧
    a'.nextGc = GROW * a'.bytes ∧
    (∀ s x, (s, x) ∈ a'.intern ↔ (m.reachable x ∧ strOf m.a x = some s)) := by
  intro m a'
  have hinv := run_inv {} ops init_inv hv
  have hacc := C20_bytes_exact_after_any_collect m.a m.roots force
  refine ⟨fun x => ?_, hacc.1, hacc.2.2, fun s x => ?_⟩
  · rw [full_collect_owned m.a m.roots force hfull]
    exact ⟨fun h => h.2, fun h => ⟨hinv.1.1 x h, h⟩⟩
  · show (s, x) ∈ (m.a.collect m.roots force).intern ↔ _
    rw [collect_intern, List.mem_filter, List.contains_iff_mem, marked_iff_reach]
    constructor
    · rintro ⟨h1, h2⟩; exact ⟨h2, hinv.2.tableStr _ h1⟩
    · rintro ⟨h1, h2⟩; exact ⟨hinv.2.liveInTable x s h1 h2, h1⟩

/-- Everything a collection drops is unreachable (nothing live is reclaimed), for every mode. -/
theorem C20_only_garbage_reclaimed (ops : List Op) (force : Option Bool) (x : Nat)
    (ho : x ∈ (run {} ops).a.owned) (hd : x ∉ ((run {} ops).a.collect (run {} ops).roots force).owned) :
    ¬ (run {} ops).reachable x := by
  intro hr
  exact hd (collect_preserves_reachable _ _ force x hr ho).1

/-- **C20_witness_nursery_accounting** (D14, repaired): the pinned `sweep_obj_nursery` added the size of
each object it was freeing; on a heap with one dead 64-byte nursery object and one live 21-byte one the
pinned formula reports 85 bytes while 21 are owned. -/
theorem C20_witness_nursery_accounting :
    let a : A := { objs := [{ size := 21, edges := [] }, { size := 64, edges := [] }], nursery := [0, 1], bytes := 85 }
    let pinnedRemaining := sumSizes a a.nursery          -- retained and freed alike
    (a.collect [0] (some false)).bytes = 21 ∧ pinnedRemaining = 85 := by decide

end LaytheVerif.C20
