/-
C07 — Channels deliver every value exactly once, in order, within capacity.
Theorems about `Model/ChanQueue.lean`; no bound on the length of the history, the number of
waiters or the capacity.
-/
import LaytheVerif.Model.ChanQueue
namespace LaytheVerif.C07
open LaytheVerif.ChanQueue

/-- Queues the constructors produce: `sync()` has capacity 1, `with_capacity c` asserts `c > 0`. -/
def WF (q : Q) : Prop := 1 ≤ q.cap ∧ (q.kind = .sync → q.cap = 1)

/-- The queue-level statement of the property (+ `closedEmpty ⇒ empty`, needed for the drain clause). -/
def Inv (h : H) : Prop :=
  h.delivered ++ h.q.queue = h.accepted ∧ h.q.queue.length ≤ h.q.cap ∧ WF h.q ∧
  (h.q.state = .closedEmpty → h.q.queue = [])

theorem init_inv_sync : Inv (H.init Q.mkSync) := by
  simp [Inv, WF, H.init, Q.mkSync]

theorem init_inv_buffered (c : Nat) (hc : 1 ≤ c) : Inv (H.init (Q.mkBuffered c)) := by
  simp [Inv, WF, H.init, Q.mkBuffered, hc]

/-- `runnable_waiter` only ever touches the two waiter lists. -/
theorem runnableWaiter_frame (flags : Nat → Bool) (q : Q) :
    (q.runnableWaiter flags).1.queue = q.queue ∧ (q.runnableWaiter flags).1.cap = q.cap ∧
    (q.runnableWaiter flags).1.kind = q.kind ∧ (q.runnableWaiter flags).1.state = q.state := by
  unfold Q.runnableWaiter
  repeat' split
  all_goals simp [Q.popSend, Q.popRecv]

theorem step_inv (h : H) (op : Op) (hi : Inv h) : Inv (step h op) := by
  unfold Inv WF at *
  obtain ⟨h1, h2, ⟨h3, h4⟩, h5⟩ := hi
  cases op with
  | send view w v =>
    cases view <;> simp only [step, chanSend, Q.send] <;> repeat' split
    all_goals simp_all [← List.append_assoc]
    all_goals omega
  | recv view w =>
    cases view <;> simp only [step, chanRecv, Q.recv] <;> repeat' split
    all_goals simp_all
    all_goals (try omega)
  | close =>
    simp only [step, Q.close]
    repeat' split
    all_goals simp_all
  | setRunnable w b => simp_all [step]
  | runnableWaiter =>
    obtain ⟨f1, f2, f3, f4⟩ := runnableWaiter_frame h.flags h.q
    simp only [step]
    simp_all

theorem run_inv (h : H) (ops : List Op) (hi : Inv h) : Inv (run h ops) := by
  unfold run
  induction ops generalizing h with
  | nil => simpa
  | cons op ops ih => exact ih _ (step_inv h op hi)

/-- A queue as the two constructors make it. -/
def Fresh (q : Q) : Prop := q = Q.mkSync ∨ ∃ c, 1 ≤ c ∧ q = Q.mkBuffered c

theorem fresh_inv (q : Q) (hq : Fresh q) : Inv (H.init q) := by
  rcases hq with rfl | ⟨c, hc, rfl⟩
  · exact init_inv_sync
  · exact init_inv_buffered c hc

/-- **C07_fifo_exactly_once.** For every operation history (sends and receives by any waiters through
any views, closes, runnable-flag changes, wake-up scans) on a queue made by `sync()` or
`with_capacity c` with `c ≥ 1`: the values handed to receivers followed by the values still queued
are exactly the values accepted from senders, in order; and the queue never exceeds its capacity. -/
theorem C07_fifo_exactly_once (q : Q) (hq : Fresh q) (ops : List Op) :
    (run (H.init q) ops).delivered ++ (run (H.init q) ops).q.queue = (run (H.init q) ops).accepted ∧
    (run (H.init q) ops).q.queue.length ≤ (run (H.init q) ops).q.cap := by
  have := run_inv _ ops (fresh_inv q hq)
  exact ⟨this.1, this.2.1⟩

/-- Received values are a prefix of the sent values: nothing invented, duplicated, dropped or reordered. -/
theorem C07_delivered_prefix (q : Q) (hq : Fresh q) (ops : List Op) :
    (run (H.init q) ops).delivered <+: (run (H.init q) ops).accepted :=
  ⟨_, (C07_fifo_exactly_once q hq ops).1⟩

/-- The capacity of a queue never changes. -/
theorem step_cap (h : H) (op : Op) : (step h op).q.cap = h.q.cap := by
  cases op with
  | send view w v => cases view <;> simp only [step, chanSend, Q.send] <;> repeat' split
                     all_goals simp_all
  | recv view w => cases view <;> simp only [step, chanRecv, Q.recv] <;> repeat' split
                   all_goals simp_all
  | close => simp only [step, Q.close]; repeat' split
             all_goals simp_all
  | setRunnable w b => rfl
  | runnableWaiter => exact (runnableWaiter_frame h.flags h.q).2.1

/-! ### close -/

def rank : QState → Nat | .ready => 0 | .closed => 1 | .closedEmpty => 2

/-- States only move Ready → Closed → ClosedEmpty. -/
theorem step_rank_mono (h : H) (op : Op) : rank h.q.state ≤ rank (step h op).q.state := by
  cases op with
  | send view w v => cases view <;> simp only [step, chanSend, Q.send] <;> repeat' split
                     all_goals simp_all
  | recv view w => cases view <;> simp only [step, chanRecv, Q.recv] <;> repeat' split
                   all_goals simp_all [rank]
  | close =>
    obtain ⟨⟨qu, cap, kind, st, sw, rw⟩, f, a, d⟩ := h
    cases st <;> simp [step, Q.close, Q.isClosed, rank] <;> split <;> simp [rank]
  | setRunnable w b => simp [step]
  | runnableWaiter => simp [step, (runnableWaiter_frame h.flags h.q).2.2.2]

/-- After `close` every send is rejected with `Closed` and takes nothing. -/
theorem closed_send (flags : Nat → Bool) (q : Q) (hc : q.isClosed = true) (w v : Nat) :
    q.send flags w v = (q, .closed) := by
  unfold Q.send; unfold Q.isClosed at hc
  cases hs : q.state <;> simp_all

theorem closed_step_accepted (h : H) (op : Op) (hc : h.q.isClosed = true) :
    (step h op).accepted = h.accepted ∧ (step h op).q.isClosed = true := by
  have hr := step_rank_mono h op
  have hcl : (step h op).q.isClosed = true := by
    unfold Q.isClosed at *
    cases hs : h.q.state <;> cases hs' : (step h op).q.state <;> simp_all [rank]
  refine ⟨?_, hcl⟩
  cases op with
  | send view w v =>
    cases view <;> simp [step, chanSend, closed_send h.flags h.q hc]
  | recv view w => simp only [step]; repeat' split
                   all_goals simp_all
  | close => rfl
  | setRunnable w b => rfl
  | runnableWaiter => rfl

/-- **C07_close (no new values).** Once closed, no history ever adds to `accepted`, and the queue
stays closed. -/
theorem C07_closed_accepts_nothing (h : H) (ops : List Op) (hc : h.q.isClosed = true) :
    (run h ops).accepted = h.accepted ∧ (run h ops).q.isClosed = true := by
  unfold run
  induction ops generalizing h with
  | nil => exact ⟨rfl, hc⟩
  | cons op ops ih =>
    have h1 := closed_step_accepted h op hc
    have h2 := ih (step h op) h1.2
    exact ⟨by simpa [h1.1] using h2.1, h2.2⟩

/-- **C07_close (drain).** In every reachable closed state a receive returns the head of the
remaining queue, and `Closed` (the VM pushes `nil`) once it is empty — forever, by
`C07_closed_accepts_nothing`. -/
theorem C07_closed_recv (h : H) (hi : Inv h) (hc : h.q.isClosed = true) (w : Nat) :
    (h.q.recv h.flags w).2 = (match h.q.queue with | v :: _ => RecvRes.ok v | [] => RecvRes.closed) ∧
    (h.q.recv h.flags w).1.queue = h.q.queue.tail := by
  obtain ⟨_, _, _, h5⟩ := hi
  unfold Q.recv; unfold Q.isClosed at hc
  cases hs : h.q.state <;> cases hq : h.q.queue <;> simp_all

/-! ### synchronous rendezvous -/

/-- **C07_sync_rendezvous.** On a synchronous channel, in every reachable state, an operation that
releases (pops) entries of the sender wait list does so only when the queue is empty — i.e. when
every value accepted so far, the parked sender's included, has been delivered. -/
theorem C07_sync_rendezvous (h : H) (hi : Inv h) (hk : h.q.kind = .sync) (op : Op)
    (hpop : (step h op).q.sendW.length < h.q.sendW.length) :
    h.q.queue = [] ∧ h.delivered = h.accepted := by
  have hq : h.q.queue = [] := by
    cases op with
    | send view w v =>
      cases view <;> simp only [step, chanSend, Q.send] at hpop <;> repeat' split at hpop
      all_goals simp_all
      all_goals omega
    | recv view w =>
      cases view <;> simp only [step, chanRecv, Q.recv] at hpop <;> repeat' split at hpop
      all_goals simp_all
    | close => simp only [step, Q.close] at hpop; repeat' split at hpop
               all_goals simp_all
    | setRunnable w b => simp [step] at hpop
    | runnableWaiter =>
      simp only [step, Q.runnableWaiter, hk] at hpop
      split at hpop
      · simp_all
      · simp [Q.popRecv] at hpop
  refine ⟨hq, ?_⟩
  have := hi.1
  simp_all

/-! ### views -/

/-- **C07_views.** A receive-only view cannot send, a send-only view cannot receive, and neither
touches the shared queue when refused; access can only be narrowed. -/
theorem C07_views (flags : Nat → Bool) (q : Q) (w v : Nat) :
    chanSend flags .recvOnly q w v = (q, .noSendAccess) ∧
    chanRecv flags .sendOnly q w = (q, .noReceiveAccess) ∧
    View.readOnly .sendOnly = none ∧ View.writeOnly .recvOnly = none := by
  simp [chanSend, chanRecv, View.readOnly, View.writeOnly]

/-! ### non-vacuity: a concrete history meeting every hypothesis -/

example :
    let h := run (H.init (Q.mkBuffered 2))
      [.send .bi 0 10, .send .bi 0 11, .send .bi 1 12, .recv .bi 2, .close, .recv .recvOnly 2, .recv .bi 2]
    h.delivered = [10, 11] ∧ h.accepted = [10, 11] ∧ h.q.state = .closedEmpty := by decide

example :
    let h := run (H.init Q.mkSync) [.recv .bi 1, .send .bi 0 7, .recv .bi 1, .runnableWaiter]
    h.delivered = [7] ∧ h.q.sendW = [] := by decide

end LaytheVerif.C07
