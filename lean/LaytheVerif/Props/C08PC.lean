/-
C08_producer_consumer — the two-fiber one-channel family, for *every* message count.

  pcNet cap vs m close : the main fiber launches a child that sends the values `vs` (and then closes
                         the channel if `close`), and itself receives `m` times, then prints 99.
  cpNet cap vs m       : the mirrored family — main launches a child that receives `m` times, sends
                         `vs` itself, then prints 99.

What the process network (the Spec) does on them is determinate and easy to say: the main fiber can
finish iff its operations can all complete; `expectPC` / `expectCP` say it.  The theorems state that
the exact scheduler model ends every such run with exactly that outcome and exactly that output —
with the single exclusion D4 (synchronous channel closed by a child that sent nothing), for which
the deviation is proved instead.

Method: symbolic execution of the model on *erased* states (`Lemmas/SchedErase.lean`: the history
fields never influence the scheduler), one lemma per phase of the schedule, then induction on the
list of values.
-/
import LaytheVerif.Lemmas.SchedErase

namespace LaytheVerif.C08PC
open LaytheVerif.Sched
open LaytheVerif.ChanQueue (Kind QState Q chanSend chanRecv findRunnable)

def sends (c : Nat) (vs : List Nat) : List Sched.Op := vs.map (Sched.Op.send c)
def recvs (c : Nat) (m : Nat) : List Sched.Op := List.replicate m (Sched.Op.recv c)
def gots (t : Nat) (vs : List Nat) : List Event := vs.map fun v => .got t (some v)
def closing (close : Bool) : List Sched.Op := if close then [.close 0] else []

def pcNet (cap : Option Nat) (vs : List Nat) (m : Nat) (close : Bool) : Net :=
  { caps := [cap], bodies := [[.launch 1 [0]] ++ recvs 0 m ++ [.print 99], sends 0 vs ++ closing close] }

def cpNet (cap : Option Nat) (vs : List Nat) (m : Nat) : Net :=
  { caps := [cap], bodies := [[.launch 1 [0]] ++ sends 0 vs ++ [.print 99], recvs 0 m] }

/-- The Spec's answer for `pcNet`: main gets the first `m` values; if the child runs out it gets nil
after a close, and otherwise waits forever with nobody enabled — a true deadlock. -/
def expectPC (vs : List Nat) (m : Nat) (close : Bool) : Outcome × List Event :=
  if m ≤ vs.length then (.exit, gots 0 (vs.take m) ++ [.printed 0 99])
  else if close then (.exit, gots 0 vs ++ List.replicate (m - vs.length) (.got 0 none) ++ [.printed 0 99])
  else (.deadlock, gots 0 vs)

/-- The Spec's answer for `cpNet` on a synchronous channel: main finishes iff every value is taken. -/
def expectCPsync (vs : List Nat) (m : Nat) : Outcome × List Event :=
  if vs.length ≤ m then (.exit, gots 1 vs ++ [.printed 0 99]) else (.deadlock, gots 1 (vs.take m))

/-! ### running to the end -/

/-- from `vm` the (erased) run ends with outcome `o` having printed `out`, and stays there -/
def Ends (vm : VM) (o : Outcome) (out : List Event) : Prop :=
  ∃ N, ∀ n, N ≤ n → (runE n vm).outcome = o ∧ (runE n vm).out = out

theorem runE_terminal (n : Nat) (vm : VM) (h : vm.outcome ≠ .running) :
    (runE n vm).outcome = vm.outcome ∧ (runE n vm).out = vm.out := by
  induction n generalizing vm with
  | zero => exact ⟨rfl, rfl⟩
  | succ n ih =>
    have hs : stepE vm = vm.erase := by unfold stepE Sched.step; rw [next_stopped _ _ h]
    show (runE n (stepE vm)).outcome = vm.outcome ∧ (runE n (stepE vm)).out = vm.out
    rw [hs]
    exact ih vm.erase h

theorem ends_terminal {vm : VM} {o : Outcome} {out : List Event} (h : vm.outcome = o) (ho : o ≠ .running)
    (hout : vm.out = out) : Ends vm o out :=
  ⟨0, fun n _ => by
    have := runE_terminal n vm (by rw [h]; exact ho)
    rw [this.1, this.2, h, hout]; exact ⟨rfl, rfl⟩⟩

theorem ends_step {vm : VM} {o : Outcome} {out : List Event} (h : Ends (stepE vm) o out) : Ends vm o out := by
  obtain ⟨N, hN⟩ := h
  refine ⟨N + 1, fun n hn => ?_⟩
  cases n with
  | zero => omega
  | succ k => exact hN k (by omega)

theorem ends_of_step {vm vm' : VM} {o : Outcome} {out : List Event} (h : stepE vm = vm') (he : Ends vm' o out) :
    Ends vm o out := ends_step (h ▸ he)

/-! ### symbolic (erased) two-fiber one-channel states -/

def mkF (st : FState) (par : Option Nat) (chs : List Nat) (rn : Bool) (prog : List Sched.Op) (tmpl : Nat) : Fiber :=
  { state := st, parent := par, channels := chs, runnable := rn, prog := prog, env := [0], tmpl := tmpl,
    done := [], acc := [], rcv := [], ack := none }

def mkC (queue : List Nat) (cap : Nat) (kind : Kind) (state : QState) (sendW recvW : List Nat) : Chan :=
  { q := { queue := queue, cap := cap, kind := kind, state := state, sendW := sendW, recvW := recvW },
    accepted := [], delivered := [], owners := [] }

def mkVM (b : List (List Sched.Op)) (f0 f1 : Fiber) (ch : Chan) (cur : Nat) (runq : List Nat) (out : List Event) : VM :=
  { bodies := b, fibers := [f0, f1], chans := [ch], cur := cur, runq := runq, out := out, outcome := .running, trace := [] }

/-- evaluate one instruction on a symbolic state (optionally with extra facts about the parameters) -/
syntax "sched_step" ("[" Lean.Parser.Tactic.simpLemma,* "]")? : tactic
macro_rules
  | `(tactic| sched_step) =>
    `(tactic| simp [stepE, Sched.step, VM.next, exec, execReturn, execClose, execLaunch, execSend, execRecv, sendOn,
      recvOn, mkVM, mkF, mkC, VM.me, VM.fiber, VM.chan, VM.arg, VM.flags, sends, recvs, gots, closing, addUsed, chanSend,
      chanRecv, Q.send, Q.recv, Q.close, Q.isClosed, Q.runnableWaiter, Q.popSend, Q.popRecv, findRunnable, accept,
      deliver, advance, VM.setChan, VM.setFiber, VM.setQ, VM.stop, VM.emit, wake, getRunnable, queueBlocked, VM.log,
      block, sleep, contextSwitch, complete, markComplete, pickWaiter, clearChannels, VM.fail, VM.erase, Fiber.erase,
      Chan.erase, List.replicate_succ])
  | `(tactic| sched_step [$ls,*]) =>
    `(tactic| simp [stepE, Sched.step, VM.next, exec, execReturn, execClose, execLaunch, execSend, execRecv, sendOn,
      recvOn, mkVM, mkF, mkC, VM.me, VM.fiber, VM.chan, VM.arg, VM.flags, sends, recvs, gots, closing, addUsed, chanSend,
      chanRecv, Q.send, Q.recv, Q.close, Q.isClosed, Q.runnableWaiter, Q.popSend, Q.popRecv, findRunnable, accept,
      deliver, advance, VM.setChan, VM.setFiber, VM.setQ, VM.stop, VM.emit, wake, getRunnable, queueBlocked, VM.log,
      block, sleep, contextSwitch, complete, markComplete, pickWaiter, clearChannels, VM.fail, VM.erase, Fiber.erase,
      Chan.erase, List.replicate_succ, $ls,*])

variable (b : List (List Sched.Op))

/-! ## synchronous channel, child produces -/
section pcSync

/-- child about to run `sends vs ++ tail`; main parked (Blocked) on its receive, `m+1` receives left -/
def A (vs : List Nat) (tail : List Sched.Op) (m : Nat) (out : List Event) (chs : List Nat) : VM :=
  mkVM b (mkF .blocked none [0] true (recvs 0 (m + 1) ++ [.print 99]) 0)
         (mkF .running (some 0) chs true (sends 0 vs ++ tail) 1)
         (mkC [] 1 .sync .ready [] [0]) 1 [] out

/-- main resumed with `m` receives left and the queue holding `q` (`[v]` or `[]`); child parked after its deposit -/
def B (q : List Nat) (vs : List Nat) (tail : List Sched.Op) (m : Nat) (out : List Event) : VM :=
  mkVM b (mkF .running none [0] true (recvs 0 m ++ [.print 99]) 0)
         (mkF .blocked (some 0) [0] true (sends 0 vs ++ tail) 1)
         (mkC q 1 .sync .ready [1] []) 0 [] out

/-- child complete after closing; main resumed, `m` receives left -/
def C (m : Nat) (out : List Event) : VM :=
  mkVM b (mkF .running none [0] true (recvs 0 m ++ [.print 99]) 0)
         (mkF .complete (some 0) [] false [] 1)
         (mkC [] 1 .sync .closedEmpty [] []) 0 [] out

theorem A_send (v : Nat) (vs : List Nat) (tail : List Sched.Op) (m : Nat) (out : List Event) (chs : List Nat)
    (hchs : chs = [] ∨ chs = [0]) :
    stepE (A b (v :: vs) tail m out chs) = B b [v] vs tail (m + 1) out := by
  rcases hchs with rfl | rfl <;> (unfold A B; sched_step)

theorem B_recv (v : Nat) (vs : List Nat) (tail : List Sched.Op) (m : Nat) (out : List Event) :
    stepE (B b [v] vs tail (m + 1) out) = B b [] vs tail m (out ++ [.got 0 (some v)]) := by
  unfold B; sched_step

theorem B_more (vs : List Nat) (tail : List Sched.Op) (m : Nat) (out : List Event) :
    stepE (B b [] vs tail (m + 1) out) = A b vs tail m out [0] := by
  unfold A B; sched_step

theorem ends_print (f1 : Fiber) (ch : Chan) (rq : List Nat) (out : List Event) :
    Ends (mkVM b (mkF .running none [0] true [.print 99] 0) f1 ch 0 rq out) .exit (out ++ [.printed 0 99]) := by
  apply ends_step; apply ends_step
  apply ends_terminal (o := .exit) <;> sched_step

theorem B_last (q : List Nat) (vs : List Nat) (tail : List Sched.Op) (out : List Event) :
    Ends (B b q vs tail 0 out) .exit (out ++ [.printed 0 99]) := by
  unfold B; simpa [recvs] using ends_print b _ _ [] out

theorem A_end_noclose (m : Nat) (out : List Event) (chs : List Nat) (hchs : chs = [] ∨ chs = [0]) :
    Ends (A b [] [] m out chs) .deadlock out := by
  apply ends_step
  rcases hchs with rfl | rfl <;>
    (refine ends_terminal (o := .deadlock) ?_ (by simp) ?_ <;> (unfold A; sched_step))

theorem A_end_close (m : Nat) (out : List Event) :
    stepE (stepE (A b [] [.close 0] m out [0])) = C b (m + 1) out := by
  unfold A C; sched_step

/-- D4 inside the family: the child never touched the channel, so its completion scans nothing -/
theorem A_end_close_D4 (m : Nat) (out : List Event) :
    Ends (A b [] [.close 0] m out []) .deadlock out := by
  apply ends_step; apply ends_step
  refine ends_terminal (o := .deadlock) ?_ (by simp) ?_ <;> (unfold A; sched_step)

theorem C_nil (m : Nat) (out : List Event) : stepE (C b (m + 1) out) = C b m (out ++ [.got 0 none]) := by
  unfold C; sched_step

theorem C_ends (m : Nat) (out : List Event) :
    Ends (C b m out) .exit (out ++ List.replicate m (.got 0 none) ++ [.printed 0 99]) := by
  induction m generalizing out with
  | zero => unfold C; simpa [recvs] using ends_print b _ _ [] out
  | succ m ih =>
    refine ends_of_step (C_nil b m out) ?_
    have := ih (out ++ [.got 0 none])
    simpa [List.replicate_succ, List.append_assoc] using this

theorem expectPC_cons (v : Nat) (vs : List Nat) (m : Nat) (close : Bool) :
    expectPC (v :: vs) (m + 1) close = ((expectPC vs m close).1, .got 0 (some v) :: (expectPC vs m close).2) := by
  unfold expectPC
  by_cases h1 : m ≤ vs.length
  · simp [h1, gots]
  · by_cases h2 : close = true <;> simp [h1, h2, gots]

theorem expectPC_zero (vs : List Nat) (close : Bool) : expectPC vs 0 close = (.exit, [.printed 0 99]) := by
  simp [expectPC, gots]

/-- the main induction: from `A` the model ends as the Spec says (given the child has used the
channel, or still has something to send, or does not close) -/
theorem pcSync_A (close : Bool) (vs : List Nat) :
    ∀ (m : Nat) (out : List Event) (chs : List Nat),
      (chs = [0] ∨ (chs = [] ∧ ¬ (vs = [] ∧ close = true))) →
      Ends (A b vs (closing close) m out chs) (expectPC vs (m + 1) close).1 (out ++ (expectPC vs (m + 1) close).2) := by
  induction vs with
  | nil =>
    intro m out chs hchs
    cases close with
    | false =>
      have : (expectPC [] (m + 1) false) = (.deadlock, []) := by simp [expectPC, gots]
      rw [this]
      simpa [closing] using A_end_noclose b m out chs (by rcases hchs with h | h; exact Or.inr h; exact Or.inl h.1)
    | true =>
      have hc : chs = [0] := by
        rcases hchs with h | h
        · exact h
        · exact absurd ⟨rfl, rfl⟩ h.2
      subst hc
      have : (expectPC [] (m + 1) true) = (.exit, List.replicate (m + 1) (.got 0 none) ++ [.printed 0 99]) := by
        simp [expectPC, gots]
      rw [this]
      apply ends_step; apply ends_step
      simp only [closing, ↓reduceIte]
      rw [A_end_close]
      simpa [List.append_assoc] using C_ends b (m + 1) out
  | cons v vs ih =>
    intro m out chs hchs
    rw [expectPC_cons]
    refine ends_of_step (A_send b v vs _ m out chs (by rcases hchs with h | h; exact Or.inr h; exact Or.inl h.1)) ?_
    refine ends_of_step (B_recv b v vs _ m out) ?_
    cases m with
    | zero =>
      rw [expectPC_zero]
      have h := B_last b [] vs (closing close) (out ++ [.got 0 (some v)])
      rw [List.append_assoc] at h
      exact h
    | succ m =>
      refine ends_of_step (B_more b vs _ m _) ?_
      have := ih m (out ++ [.got 0 (some v)]) [0] (Or.inl rfl)
      simpa [List.append_assoc] using this

/-- after `launch`: main still running, child queued -/
def I1 (cap : Nat) (kind : Kind) (prog0 prog1 : List Sched.Op) : VM :=
  mkVM b (mkF .running none [] true prog0 0) (mkF .pending (some 0) [] true prog1 1)
         (mkC [] cap kind .ready [] []) 0 [1] []

theorem init_pc_sync (vs : List Nat) (m : Nat) (close : Bool) :
    stepE (init (pcNet none vs m close)).erase =
      I1 (pcNet none vs m close).bodies 1 .sync (recvs 0 m ++ [.print 99]) (sends 0 vs ++ closing close) := by
  unfold I1; simp [pcNet, init, mkChan, Q.mkSync]; sched_step

theorem I1_park_sync (m : Nat) (prog1 : List Sched.Op) :
    stepE (I1 b 1 .sync (recvs 0 (m + 1) ++ [.print 99]) prog1) =
      mkVM b (mkF .blocked none [0] true (recvs 0 (m + 1) ++ [.print 99]) 0)
             (mkF .running (some 0) [] true prog1 1) (mkC [] 1 .sync .ready [] [0]) 1 [] [] := by
  unfold I1; sched_step

theorem I1_exit0 (cap : Nat) (kind : Kind) (prog1 : List Sched.Op) :
    Ends (I1 b cap kind [.print 99] prog1) .exit [.printed 0 99] := by
  unfold I1
  apply ends_step; apply ends_step
  apply ends_terminal (o := .exit) <;> sched_step

end pcSync

/-- bridge from the real run to the erased one -/
theorem ends_run {net : Net} {o : Outcome} {out : List Event} (h : Ends (init net).erase o out) :
    ∃ N, ∀ n, N ≤ n → (runNet n net).outcome = o ∧ (runNet n net).out = out := by
  obtain ⟨N, hN⟩ := h
  refine ⟨N, fun n hn => ?_⟩
  have := run_observe n (init net)
  unfold runNet
  rw [this.1, this.2]
  exact hN n hn

/-- **C08_producer_consumer (synchronous, child produces).** For every list of values `vs` the child
sends, every number `m` of receives of the main fiber, with or without a final `close` — except the
D4 case "closed by a child that sent nothing while main waits" — the run of the exact scheduler
model ends, and ends exactly as the Spec says: `Exit` after the first `m` values (then nils after
a close), or "Fatal error deadlock." after all `|vs| < m` values without a close. -/
theorem C08_producer_consumer_sync (vs : List Nat) (m : Nat) (close : Bool)
    (hD4 : ¬ (vs = [] ∧ close = true ∧ 1 ≤ m)) :
    ∃ N, ∀ n, N ≤ n →
      (runNet n (pcNet none vs m close)).outcome = (expectPC vs m close).1 ∧
      (runNet n (pcNet none vs m close)).out = (expectPC vs m close).2 := by
  apply ends_run
  apply ends_step
  rw [init_pc_sync]
  cases m with
  | zero =>
    rw [expectPC_zero]
    simpa [recvs] using I1_exit0 _ 1 .sync _
  | succ m =>
    apply ends_step
    rw [I1_park_sync]
    have := pcSync_A (pcNet none vs (m + 1) close).bodies close vs m [] []
      (Or.inr ⟨rfl, fun h => hD4 ⟨h.1, h.2, by omega⟩⟩)
    simpa [A] using this

/-- the excluded case, stated exactly: the model reports deadlock although the Spec's network would
hand main `m` nils and exit (this is `C08_witness_close_sync` for every `m ≥ 1`) -/
theorem C08_producer_consumer_sync_D4 (m : Nat) :
    ∃ N, ∀ n, N ≤ n →
      (runNet n (pcNet none [] (m + 1) true)).outcome = .deadlock ∧
      (runNet n (pcNet none [] (m + 1) true)).out = [] ∧
      (expectPC [] (m + 1) true).1 = .exit := by
  have : ∃ N, ∀ n, N ≤ n → (runNet n (pcNet none [] (m + 1) true)).outcome = .deadlock ∧
      (runNet n (pcNet none [] (m + 1) true)).out = [] := by
    apply ends_run
    apply ends_step
    rw [init_pc_sync]
    apply ends_step
    rw [I1_park_sync]
    simpa [A, closing, sends] using A_end_close_D4 (pcNet none [] (m + 1) true).bodies m []
  obtain ⟨N, hN⟩ := this
  exact ⟨N, fun n hn => ⟨(hN n hn).1, (hN n hn).2, by simp [expectPC]⟩⟩

/-! ## synchronous channel, main produces -/
section cpSync
variable (b : List (List Sched.Op))

/-- main parked after depositing `v` (remaining `sends vs`, then the marker); child running with `m` receives left -/
def P (q : List Nat) (vs : List Nat) (m : Nat) (out : List Event) (chs : List Nat) : VM :=
  mkVM b (mkF .blocked none [0] true (sends 0 vs ++ [.print 99]) 0)
         (mkF .running (some 0) chs true (recvs 0 m) 1)
         (mkC q 1 .sync .ready [0] []) 1 [] out

/-- main resumed, child parked on its receive with `m+1` receives left -/
def Qs (vs : List Nat) (m : Nat) (out : List Event) : VM :=
  mkVM b (mkF .running none [0] true (sends 0 vs ++ [.print 99]) 0)
         (mkF .blocked (some 0) [0] true (recvs 0 (m + 1)) 1)
         (mkC [] 1 .sync .ready [] [1]) 0 [] out

/-- main resumed, child complete -/
def R (vs : List Nat) (out : List Event) : VM :=
  mkVM b (mkF .running none [0] true (sends 0 vs ++ [.print 99]) 0)
         (mkF .complete (some 0) [] false [] 1)
         (mkC [] 1 .sync .ready [] []) 0 [] out

theorem P_done (v : Nat) (vs : List Nat) (out : List Event) (chs : List Nat) (hchs : chs = [] ∨ chs = [0]) :
    Ends (P b [v] vs 0 out chs) .deadlock out := by
  apply ends_step
  rcases hchs with rfl | rfl <;>
    (refine ends_terminal (o := .deadlock) ?_ (by simp) ?_ <;> (unfold P; sched_step))

theorem P_recv (v : Nat) (vs : List Nat) (m : Nat) (out : List Event) (chs : List Nat) (hchs : chs = [] ∨ chs = [0]) :
    stepE (P b [v] vs (m + 1) out chs) = P b [] vs m (out ++ [.got 1 (some v)]) [0] := by
  rcases hchs with rfl | rfl <;> (unfold P; sched_step)

theorem P_last (vs : List Nat) (out : List Event) : stepE (P b [] vs 0 out [0]) = R b vs out := by
  unfold P R; sched_step

theorem P_more (vs : List Nat) (m : Nat) (out : List Event) : stepE (P b [] vs (m + 1) out [0]) = Qs b vs m out := by
  unfold P Qs; sched_step

theorem R_exit (out : List Event) : Ends (R b [] out) .exit (out ++ [.printed 0 99]) := by
  unfold R; simpa [sends] using ends_print b _ _ [] out

theorem R_stuck (v : Nat) (vs : List Nat) (out : List Event) : Ends (R b (v :: vs) out) .deadlock out := by
  apply ends_step
  refine ends_terminal (o := .deadlock) ?_ (by simp) ?_ <;> (unfold R; sched_step)

theorem Qs_exit (m : Nat) (out : List Event) : Ends (Qs b [] m out) .exit (out ++ [.printed 0 99]) := by
  unfold Qs; simpa [sends] using ends_print b _ _ [] out

theorem Qs_send (v : Nat) (vs : List Nat) (m : Nat) (out : List Event) :
    stepE (Qs b (v :: vs) m out) = P b [v] vs (m + 1) out [0] := by
  unfold P Qs; sched_step

theorem expectCPsync_cons (v : Nat) (vs : List Nat) (m : Nat) :
    expectCPsync (v :: vs) (m + 1) = ((expectCPsync vs m).1, .got 1 (some v) :: (expectCPsync vs m).2) := by
  unfold expectCPsync
  by_cases h : vs.length ≤ m <;> simp [h, gots]

theorem cpSync_Q (vs : List Nat) :
    ∀ (m : Nat) (out : List Event),
      Ends (Qs b vs m out) (expectCPsync vs (m + 1)).1 (out ++ (expectCPsync vs (m + 1)).2) := by
  induction vs with
  | nil =>
    intro m out
    have : expectCPsync [] (m + 1) = (.exit, [.printed 0 99]) := by simp [expectCPsync, gots]
    rw [this]; exact Qs_exit b m out
  | cons v vs ih =>
    intro m out
    rw [expectCPsync_cons]
    refine ends_of_step (Qs_send b v vs m out) ?_
    refine ends_of_step (P_recv b v vs m out [0] (Or.inr rfl)) ?_
    cases m with
    | zero =>
      refine ends_of_step (P_last b vs _) ?_
      cases vs with
      | nil =>
        have : expectCPsync [] 0 = (.exit, [.printed 0 99]) := by simp [expectCPsync, gots]
        rw [this]
        have h := R_exit b (out ++ [.got 1 (some v)])
        rw [List.append_assoc] at h; exact h
      | cons w ws =>
        have : expectCPsync (w :: ws) 0 = (.deadlock, []) := by simp [expectCPsync, gots]
        rw [this]
        simpa using R_stuck b w ws (out ++ [.got 1 (some v)])
    | succ m =>
      refine ends_of_step (P_more b vs m _) ?_
      have := ih m (out ++ [.got 1 (some v)])
      simpa [List.append_assoc] using this

theorem init_cp_sync (vs : List Nat) (m : Nat) :
    stepE (init (cpNet none vs m)).erase =
      I1 (cpNet none vs m).bodies 1 .sync (sends 0 vs ++ [.print 99]) (recvs 0 m) := by
  unfold I1; simp [cpNet, init, mkChan, Q.mkSync]; sched_step

theorem I1_send_sync (v : Nat) (vs : List Nat) (prog1 : List Sched.Op) :
    stepE (I1 b 1 .sync (sends 0 (v :: vs) ++ [.print 99]) prog1) =
      mkVM b (mkF .blocked none [0] true (sends 0 vs ++ [.print 99]) 0)
             (mkF .running (some 0) [] true prog1 1) (mkC [v] 1 .sync .ready [0] []) 1 [] [] := by
  unfold I1; sched_step

end cpSync

/-- **C08_producer_consumer (synchronous, main produces).** For every list of values `vs` the main
fiber sends and every number `m` of receives of the child: the run ends, with `Exit` after the child
took (and printed) every value iff `|vs| ≤ m`, and otherwise with "Fatal error deadlock." after the
child took its `m` values — a true deadlock: main waits for a deposit nobody will take. -/
theorem C08_producer_consumer_sync_mirrored (vs : List Nat) (m : Nat) :
    ∃ N, ∀ n, N ≤ n →
      (runNet n (cpNet none vs m)).outcome = (expectCPsync vs m).1 ∧
      (runNet n (cpNet none vs m)).out = (expectCPsync vs m).2 := by
  apply ends_run
  apply ends_step
  rw [init_cp_sync]
  cases vs with
  | nil =>
    have : expectCPsync [] m = (.exit, [.printed 0 99]) := by simp [expectCPsync, gots]
    rw [this]
    simpa [sends] using I1_exit0 _ 1 .sync _
  | cons v vs =>
    apply ends_step
    rw [I1_send_sync]
    cases m with
    | zero =>
      have : expectCPsync (v :: vs) 0 = (.deadlock, []) := by simp [expectCPsync, gots]
      rw [this]
      simpa [P, recvs] using P_done (cpNet none (v :: vs) 0).bodies v vs [] [] (Or.inl rfl)
    | succ m =>
      rw [expectCPsync_cons]
      have h1 := P_recv (cpNet none (v :: vs) (m + 1)).bodies v vs m [] [] (Or.inl rfl)
      simp only [P] at h1
      refine ends_of_step h1 ?_
      cases m with
      | zero =>
        refine ends_of_step (P_last _ vs _) ?_
        cases vs with
        | nil =>
          have : expectCPsync [] 0 = (.exit, [.printed 0 99]) := by simp [expectCPsync, gots]
          rw [this]
          simpa using R_exit _ [.got 1 (some v)]
        | cons w ws =>
          have : expectCPsync (w :: ws) 0 = (.deadlock, []) := by simp [expectCPsync, gots]
          rw [this]
          simpa using R_stuck _ w ws [.got 1 (some v)]
      | succ m =>
        refine ends_of_step (P_more _ vs m _) ?_
        simpa using cpSync_Q _ vs m [.got 1 (some v)]

/-! ## buffered channel of any capacity, child produces -/
section pcBuf
variable (b : List (List Sched.Op)) (c : Nat)

/-- child running `sends vs ++ tail`; main asleep (Pending) in the receiver list, `m+1` receives left -/
def S2 (q : List Nat) (vs : List Nat) (tail : List Sched.Op) (m : Nat) (out : List Event) (chs : List Nat) : VM :=
  mkVM b (mkF .pending none [0] true (recvs 0 (m + 1) ++ [.print 99]) 0)
         (mkF .running (some 0) chs true (sends 0 vs ++ tail) 1)
         (mkC q c .buffered .ready [] [0]) 1 [] out

/-- main running with `m` receives left; child asleep in the sender list, retrying `sends vs` -/
def S3 (q : List Nat) (vs : List Nat) (tail : List Sched.Op) (m : Nat) (out : List Event) : VM :=
  mkVM b (mkF .running none [0] true (recvs 0 m ++ [.print 99]) 0)
         (mkF .pending (some 0) [0] true (sends 0 vs ++ tail) 1)
         (mkC q c .buffered .ready [1] []) 0 [] out

/-- main running with `m` receives left; child complete (main's own stale entry still in the receiver list) -/
def S4 (q : List Nat) (st : QState) (m : Nat) (out : List Event) : VM :=
  mkVM b (mkF .running none [0] true (recvs 0 m ++ [.print 99]) 0)
         (mkF .complete (some 0) [] false [] 1)
         (mkC q c .buffered st [] [0]) 0 [] out

theorem S2_ok (q : List Nat) (v : Nat) (vs : List Nat) (tail : List Sched.Op) (m : Nat) (out : List Event) (chs : List Nat)
    (hchs : chs = [] ∨ chs = [0]) (hq : q.length < c) :
    stepE (S2 b c q (v :: vs) tail m out chs) = S2 b c (q ++ [v]) vs tail m out [0] := by
  rcases hchs with rfl | rfl <;> (unfold S2; sched_step [hq])

theorem S2_full (q : List Nat) (v : Nat) (vs : List Nat) (tail : List Sched.Op) (m : Nat) (out : List Event) (chs : List Nat)
    (hchs : chs = [] ∨ chs = [0]) (hq : ¬ q.length < c) :
    stepE (S2 b c q (v :: vs) tail m out chs) = S3 b c q (v :: vs) tail (m + 1) out := by
  rcases hchs with rfl | rfl <;> (unfold S2 S3; sched_step [hq])

theorem S3_ok (x : Nat) (q : List Nat) (vs : List Nat) (tail : List Sched.Op) (m : Nat) (out : List Event) :
    stepE (S3 b c (x :: q) vs tail (m + 1) out) = S3 b c q vs tail m (out ++ [.got 0 (some x)]) := by
  unfold S3; sched_step

theorem S3_last (q : List Nat) (vs : List Nat) (tail : List Sched.Op) (out : List Event) :
    Ends (S3 b c q vs tail 0 out) .exit (out ++ [.printed 0 99]) := by
  unfold S3; simpa [recvs] using ends_print b _ _ [] out

theorem S3_empty (vs : List Nat) (tail : List Sched.Op) (m : Nat) (out : List Event) :
    stepE (S3 b c [] vs tail (m + 1) out) = S2 b c [] vs tail m out [0] := by
  unfold S2 S3; sched_step

theorem S2_end_noclose (q : List Nat) (m : Nat) (out : List Event) (chs : List Nat) (hchs : chs = [] ∨ chs = [0]) :
    stepE (S2 b c q [] [] m out chs) = S4 b c q .ready (m + 1) out := by
  rcases hchs with rfl | rfl <;> (unfold S2 S4; sched_step)

theorem S2_end_close (q : List Nat) (m : Nat) (out : List Event) (chs : List Nat) (hchs : chs = [] ∨ chs = [0]) :
    stepE (stepE (S2 b c q [] [.close 0] m out chs)) =
      S4 b c q (if q.isEmpty then .closedEmpty else .closed) (m + 1) out := by
  rcases hchs with rfl | rfl <;> (unfold S2 S4; cases q <;> sched_step)

theorem S4_ok (x : Nat) (q : List Nat) (st : QState) (hst : st = .ready ∨ st = .closed) (m : Nat) (out : List Event) :
    stepE (S4 b c (x :: q) st (m + 1) out) = S4 b c q st m (out ++ [.got 0 (some x)]) := by
  rcases hst with rfl | rfl <;> (unfold S4; sched_step)

theorem S4_last (q : List Nat) (st : QState) (out : List Event) :
    Ends (S4 b c q st 0 out) .exit (out ++ [.printed 0 99]) := by
  unfold S4; simpa [recvs] using ends_print b _ _ [] out

theorem S4_stuck (m : Nat) (out : List Event) : Ends (S4 b c [] .ready (m + 1) out) .deadlock out := by
  apply ends_step
  refine ends_terminal (o := .deadlock) ?_ (by simp) ?_ <;> (unfold S4; sched_step)

theorem S4_nil (st : QState) (hst : st = .closed ∨ st = .closedEmpty) (m : Nat) (out : List Event) :
    stepE (S4 b c [] st (m + 1) out) = S4 b c [] .closedEmpty m (out ++ [.got 0 none]) := by
  rcases hst with rfl | rfl <;> (unfold S4; sched_step)

theorem S4_nils (m : Nat) (st : QState) (hst : st = .closed ∨ st = .closedEmpty) (out : List Event) :
    Ends (S4 b c [] st m out) .exit (out ++ List.replicate m (.got 0 none) ++ [.printed 0 99]) := by
  induction m generalizing out st with
  | zero => simpa using S4_last b c [] st out
  | succ m ih =>
    refine ends_of_step (S4_nil b c st hst m out) ?_
    have := ih .closedEmpty (Or.inr rfl) (out ++ [.got 0 none])
    simpa [List.replicate_succ, List.append_assoc] using this

/-- after the child is gone: main drains `q`, then gets nils (closed) or is stuck (open) -/
theorem S4_ends (close : Bool) (q : List Nat) :
    ∀ (st : QState) (m : Nat) (out : List Event),
      (if close then (st = .closed ∧ q ≠ []) ∨ (st = .closedEmpty ∧ q = []) ∨ (st = .closedEmpty ∧ False) else st = .ready) →
      Ends (S4 b c q st m out) (expectPC q m close).1 (out ++ (expectPC q m close).2) := by
  induction q with
  | nil =>
    intro st m out hst
    cases m with
    | zero => rw [expectPC_zero]; exact S4_last b c [] st out
    | succ m =>
      cases close with
      | false =>
        simp only [Bool.false_eq_true, ↓reduceIte] at hst
        subst hst
        have : expectPC [] (m + 1) false = (.deadlock, []) := by simp [expectPC, gots]
        rw [this]; simpa using S4_stuck b c m out
      | true =>
        simp only [↓reduceIte] at hst
        have hst' : st = .closed ∨ st = .closedEmpty := by
          rcases hst with h | h | h
          · exact absurd rfl h.2
          · exact Or.inr h.1
          · exact Or.inr h.1
        have : expectPC [] (m + 1) true = (.exit, List.replicate (m + 1) (.got 0 none) ++ [.printed 0 99]) := by
          simp [expectPC, gots]
        rw [this]
        simpa [List.append_assoc] using S4_nils b c (m + 1) st hst' out
  | cons x q ih =>
    intro st m out hst
    cases m with
    | zero => rw [expectPC_zero]; exact S4_last b c _ st out
    | succ m =>
      rw [expectPC_cons]
      have hst1 : st = .ready ∨ st = .closed := by
        cases close with
        | false => simp only [Bool.false_eq_true, ↓reduceIte] at hst; exact Or.inl hst
        | true =>
          simp only [↓reduceIte] at hst
          rcases hst with h | h | h
          · exact Or.inr h.1
          · exact absurd h.2 (by simp)
          · exact absurd h.2 id
      refine ends_of_step (S4_ok b c x q st hst1 m out) ?_
      -- the queue state after the last queued value is taken
      cases q with
      | nil =>
        cases close with
        | false =>
          simp only [Bool.false_eq_true, ↓reduceIte] at hst
          have := ih st m (out ++ [.got 0 (some x)]) (by simp [hst])
          simpa [List.append_assoc] using this
        | true =>
          -- `Q.recv` in state `closed` keeps `closed` while values remain; the next receive turns it into `closedEmpty`
          cases m with
          | zero =>
            rw [expectPC_zero]
            have h := S4_last b c [] st (out ++ [.got 0 (some x)])
            rw [List.append_assoc] at h; exact h
          | succ m =>
            have hst2 : st = .closed ∨ st = .closedEmpty := by
              simp only [↓reduceIte] at hst
              rcases hst with h | h | h
              · exact Or.inl h.1
              · exact Or.inr h.1
              · exact Or.inr h.1
            have : expectPC [] (m + 1) true = (.exit, List.replicate (m + 1) (.got 0 none) ++ [.printed 0 99]) := by
              simp [expectPC, gots]
            rw [this]
            have h := S4_nils b c (m + 1) st hst2 (out ++ [.got 0 (some x)])
            simpa [List.append_assoc] using h
      | cons y q' =>
        have := ih st m (out ++ [.got 0 (some x)]) (by
          cases close with
          | false => simpa using hst
          | true =>
            simp only [↓reduceIte] at hst ⊢
            rcases hst with h | h | h
            · exact Or.inl ⟨h.1, by simp⟩
            · exact absurd h.2 (by simp)
            · exact absurd h.2 id)
        simpa [List.append_assoc] using this

theorem expectPC_take (q l : List Nat) (m : Nat) (close : Bool) (h : m ≤ q.length) :
    expectPC (q ++ l) m close = (.exit, gots 0 (q.take m) ++ [.printed 0 99]) := by
  unfold expectPC
  have : m ≤ (q ++ l).length := by simp; omega
  rw [if_pos this, List.take_append_of_le_length h]

theorem expectPC_append (q l : List Nat) (m : Nat) (close : Bool) (h : q.length ≤ m) :
    expectPC (q ++ l) m close = ((expectPC l (m - q.length) close).1, gots 0 q ++ (expectPC l (m - q.length) close).2) := by
  induction q generalizing m with
  | nil => simp [gots]
  | cons x q ih =>
    cases m with
    | zero => simp at h
    | succ m =>
      have h' : q.length ≤ m := by simpa using h
      show expectPC (x :: (q ++ l)) (m + 1) close = _
      rw [expectPC_cons, ih m h']
      simp [gots]

/-- main drains a queue of the sleeping child and goes back to sleep, or finishes first -/
theorem S3_drain (vs : List Nat) (tail : List Sched.Op) (q : List Nat) :
    ∀ (m : Nat) (out : List Event),
      (m ≤ q.length → Ends (S3 b c q vs tail m out) .exit (out ++ gots 0 (q.take m) ++ [.printed 0 99])) ∧
      (q.length < m → ∀ o e, Ends (S2 b c [] vs tail (m - q.length - 1) (out ++ gots 0 q) [0]) o e →
        Ends (S3 b c q vs tail m out) o e) := by
  induction q with
  | nil =>
    intro m out
    refine ⟨fun h => ?_, fun h o e he => ?_⟩
    · have : m = 0 := by simpa using h
      subst this
      simpa [gots] using S3_last b c [] vs tail out
    · cases m with
      | zero => simp at h
      | succ m =>
        refine ends_of_step (S3_empty b c vs tail m out) ?_
        simpa [gots] using he
  | cons x q ih =>
    intro m out
    cases m with
    | zero =>
      refine ⟨fun _ => ?_, fun h => by simp at h⟩
      simpa [gots] using S3_last b c (x :: q) vs tail out
    | succ m =>
      have := ih m (out ++ [.got 0 (some x)])
      refine ⟨fun h => ?_, fun h o e he => ?_⟩
      · refine ends_of_step (S3_ok b c x q vs tail m out) ?_
        have h1 := this.1 (by simpa using h)
        simpa [gots, List.append_assoc] using h1
      · refine ends_of_step (S3_ok b c x q vs tail m out) ?_
        refine this.2 (by simpa using h) o e ?_
        have : m + 1 - (x :: q).length - 1 = m - q.length - 1 := by simp
        rw [this] at he
        simpa [gots, List.append_assoc] using he

/-- the main induction: from `S2` the model ends as the Spec says -/
theorem pcBuf_S2 (hc : 1 ≤ c) (close : Bool) (vs : List Nat) :
    ∀ (q : List Nat) (m : Nat) (out : List Event) (chs : List Nat),
      (chs = [] ∨ chs = [0]) → q.length ≤ c →
      Ends (S2 b c q vs (closing close) m out chs)
        (expectPC (q ++ vs) (m + 1) close).1 (out ++ (expectPC (q ++ vs) (m + 1) close).2) := by
  induction vs with
  | nil =>
    intro q m out chs hchs hq
    rw [List.append_nil]
    cases close with
    | false =>
      refine ends_of_step (by simpa [closing] using S2_end_noclose b c q m out chs hchs) ?_
      exact S4_ends b c false q .ready (m + 1) out (by simp)
    | true =>
      apply ends_step; apply ends_step
      have := S2_end_close b c q m out chs hchs
      simp only [closing, ↓reduceIte] at this ⊢
      rw [this]
      apply S4_ends b c true q
      cases q <;> simp
  | cons v vs ih =>
    intro q m out chs hchs hq
    by_cases hlt : q.length < c
    · refine ends_of_step (S2_ok b c q v vs _ m out chs hchs hlt) ?_
      have := ih (q ++ [v]) m out [0] (Or.inr rfl) (by simp; omega)
      simpa [List.append_assoc] using this
    · refine ends_of_step (S2_full b c q v vs _ m out chs hchs hlt) ?_
      have hqc : q.length = c := by omega
      have hd := S3_drain b c (v :: vs) (closing close) q (m + 1) out
      by_cases hm : m + 1 ≤ q.length
      · rw [expectPC_take q (v :: vs) (m + 1) close hm]
        simpa [List.append_assoc] using hd.1 hm
      · have hm' : q.length < m + 1 := by omega
        rw [expectPC_append q (v :: vs) (m + 1) close (by omega)]
        apply hd.2 hm'
        -- the child resumes with an empty queue: one send fits (`1 ≤ c`), then the induction hypothesis
        refine ends_of_step (S2_ok b c [] v vs _ _ _ [0] (Or.inr rfl) (by simp; omega)) ?_
        have h2 := ih [v] (m + 1 - q.length - 1) (out ++ gots 0 q) [0] (Or.inr rfl) (by simp; omega)
        have e1 : m + 1 - q.length - 1 + 1 = m + 1 - q.length := by omega
        rw [e1] at h2
        simpa [List.append_assoc] using h2

theorem init_pc_buf (vs : List Nat) (m : Nat) (close : Bool) :
    stepE (init (pcNet (some c) vs m close)).erase =
      I1 (pcNet (some c) vs m close).bodies c .buffered (recvs 0 m ++ [.print 99]) (sends 0 vs ++ closing close) := by
  unfold I1; simp [pcNet, init, mkChan, Q.mkBuffered]; sched_step

theorem I1_park_buf (m : Nat) (prog1 : List Sched.Op) :
    stepE (I1 b c .buffered (recvs 0 (m + 1) ++ [.print 99]) prog1) =
      mkVM b (mkF .pending none [0] true (recvs 0 (m + 1) ++ [.print 99]) 0)
             (mkF .running (some 0) [] true prog1 1) (mkC [] c .buffered .ready [] [0]) 1 [] [] := by
  unfold I1; sched_step

end pcBuf

/-- **C08_producer_consumer (buffered, any capacity `c ≥ 1`, child produces).** For every list of
values, every number of receives, with or without a final `close`: the run of the exact scheduler
model ends exactly as the Spec says — no exclusion (the parent bias of `Fiber::complete` rescues the
closed-channel case that is D4 on a synchronous channel). -/
theorem C08_producer_consumer_buffered (c : Nat) (hc : 1 ≤ c) (vs : List Nat) (m : Nat) (close : Bool) :
    ∃ N, ∀ n, N ≤ n →
      (runNet n (pcNet (some c) vs m close)).outcome = (expectPC vs m close).1 ∧
      (runNet n (pcNet (some c) vs m close)).out = (expectPC vs m close).2 := by
  apply ends_run
  apply ends_step
  rw [init_pc_buf]
  cases m with
  | zero =>
    rw [expectPC_zero]
    simpa [recvs] using I1_exit0 _ c .buffered _
  | succ m =>
    apply ends_step
    rw [I1_park_buf]
    have := pcBuf_S2 (pcNet (some c) vs (m + 1) close).bodies c hc close vs [] m [] [] (Or.inl rfl) (by simp)
    simpa [S2] using this

/-! ## buffered channel of any capacity, main produces -/
section cpBuf
variable (b : List (List Sched.Op)) (c : Nat)

/-- before the child ever ran: main sending, child queued -/
def I0 (q : List Nat) (vs : List Nat) (m : Nat) (chs : List Nat) : VM :=
  mkVM b (mkF .running none chs true (sends 0 vs ++ [.print 99]) 0)
         (mkF .pending (some 0) [] true (recvs 0 m) 1)
         (mkC q c .buffered .ready [] []) 0 [1] []

/-- main's turn: sending `vs`; child asleep in the receiver list with `m+1` receives left -/
def W (q : List Nat) (vs : List Nat) (m : Nat) (out : List Event) : VM :=
  mkVM b (mkF .running none [0] true (sends 0 vs ++ [.print 99]) 0)
         (mkF .pending (some 0) [0] true (recvs 0 (m + 1)) 1)
         (mkC q c .buffered .ready [] [1]) 0 [] out

/-- child's turn: `m` receives left; main asleep in the sender list, retrying the head of `vs` -/
def U (q : List Nat) (vs : List Nat) (m : Nat) (out : List Event) (chs : List Nat) : VM :=
  mkVM b (mkF .pending none [0] true (sends 0 vs ++ [.print 99]) 0)
         (mkF .running (some 0) chs true (recvs 0 m) 1)
         (mkC q c .buffered .ready [0] []) 1 [] out

/-- main's turn after the child completed (main's own stale entry still in the sender list) -/
def V (q : List Nat) (vs : List Nat) (out : List Event) : VM :=
  mkVM b (mkF .running none [0] true (sends 0 vs ++ [.print 99]) 0)
         (mkF .complete (some 0) [] false [] 1)
         (mkC q c .buffered .ready [0] []) 0 [] out

theorem I0_ok (q : List Nat) (v : Nat) (vs : List Nat) (m : Nat) (chs : List Nat) (hchs : chs = [] ∨ chs = [0])
    (hq : q.length < c) : stepE (I0 b c q (v :: vs) m chs) = I0 b c (q ++ [v]) vs m [0] := by
  rcases hchs with rfl | rfl <;> (unfold I0; sched_step [hq])

theorem I0_done (q : List Nat) (m : Nat) (chs : List Nat) : Ends (I0 b c q [] m chs) .exit [.printed 0 99] := by
  unfold I0
  apply ends_step; apply ends_step
  apply ends_terminal (o := .exit) <;> sched_step

theorem I0_full (x : Nat) (q : List Nat) (v : Nat) (vs : List Nat) (m : Nat) (chs : List Nat) (hchs : chs = [] ∨ chs = [0]) :
    stepE (I0 b (x :: q).length (x :: q) (v :: vs) m chs) = U b (x :: q).length (x :: q) (v :: vs) m [] [] := by
  rcases hchs with rfl | rfl <;> (unfold I0 U; sched_step)

theorem W_ok (q : List Nat) (v : Nat) (vs : List Nat) (m : Nat) (out : List Event) (hq : q.length < c) :
    stepE (W b c q (v :: vs) m out) = W b c (q ++ [v]) vs m out := by
  unfold W; sched_step [hq]

theorem W_done (q : List Nat) (m : Nat) (out : List Event) : Ends (W b c q [] m out) .exit (out ++ [.printed 0 99]) := by
  unfold W; simpa [sends] using ends_print b _ _ [] out

theorem W_full (q : List Nat) (v : Nat) (vs : List Nat) (m : Nat) (out : List Event) (hq : ¬ q.length < c) :
    stepE (W b c q (v :: vs) m out) = U b c q (v :: vs) (m + 1) out [0] := by
  unfold W U; sched_step [hq]

theorem U_ok (x : Nat) (q : List Nat) (vs : List Nat) (m : Nat) (out : List Event) (chs : List Nat)
    (hchs : chs = [] ∨ chs = [0]) :
    stepE (U b c (x :: q) vs (m + 1) out chs) = U b c q vs m (out ++ [.got 1 (some x)]) [0] := by
  rcases hchs with rfl | rfl <;> (unfold U; sched_step)

theorem U_empty (vs : List Nat) (m : Nat) (out : List Event) (chs : List Nat) (hchs : chs = [] ∨ chs = [0]) :
    stepE (U b c [] vs (m + 1) out chs) = W b c [] vs m out := by
  rcases hchs with rfl | rfl <;> (unfold U W; sched_step)

theorem U_done (q : List Nat) (vs : List Nat) (out : List Event) (chs : List Nat) (hchs : chs = [] ∨ chs = [0]) :
    stepE (U b c q vs 0 out chs) = V b c q vs out := by
  rcases hchs with rfl | rfl <;> (unfold U V; sched_step)

theorem V_ok (q : List Nat) (v : Nat) (vs : List Nat) (out : List Event) (hq : q.length < c) :
    stepE (V b c q (v :: vs) out) = V b c (q ++ [v]) vs out := by
  unfold V; sched_step [hq]

theorem V_done (q : List Nat) (out : List Event) : Ends (V b c q [] out) .exit (out ++ [.printed 0 99]) := by
  unfold V; simpa [sends] using ends_print b _ _ [] out

theorem V_full (x : Nat) (q : List Nat) (v : Nat) (vs : List Nat) (out : List Event) :
    Ends (V b (x :: q).length (x :: q) (v :: vs) out) .deadlock out := by
  apply ends_step
  refine ends_terminal (o := .deadlock) ?_ (by simp) ?_ <;> (unfold V; sched_step)

/-- what the Spec allows for `cpNet` on a buffered channel, relative to a state in which `vs` is
still to be sent (queue empty) and the child still wants `need` values: main can finish iff
`|vs| ≤ need + c`; by then the child has taken (and printed) some `g` values with
`|vs| − c ≤ g ≤ min need |vs|` (how many exactly is the scheduler's choice); otherwise the run must
end in a deadlock report after the child took all `need` values. -/
def CPResult (st : VM) (vs : List Nat) (need : Nat) (out : List Event) : Prop :=
  (vs.length ≤ need + c →
    ∃ g, vs.length - c ≤ g ∧ g ≤ need ∧ g ≤ vs.length ∧
      Ends st .exit (out ++ gots 1 (vs.take g) ++ [.printed 0 99])) ∧
  (need + c < vs.length → Ends st .deadlock (out ++ gots 1 (vs.take need)))

theorem W_fill (m : Nat) (out : List Event) (vs : List Nat) :
    ∀ q : List Nat, q.length ≤ c →
      (q.length + vs.length ≤ c → Ends (W b c q vs m out) .exit (out ++ [.printed 0 99])) ∧
      (c < q.length + vs.length → ∀ o e,
        Ends (U b c (q ++ vs.take (c - q.length)) (vs.drop (c - q.length)) (m + 1) out [0]) o e →
        Ends (W b c q vs m out) o e) := by
  induction vs with
  | nil =>
    intro q hq
    exact ⟨fun _ => W_done b c q m out, fun h => by simp at h; omega⟩
  | cons v vs ih =>
    intro q hq
    by_cases hlt : q.length < c
    · have := ih (q ++ [v]) (by simp; omega)
      refine ⟨fun h => ends_of_step (W_ok b c q v vs m out hlt) (this.1 (by simp at h ⊢; omega)),
              fun h o e he => ends_of_step (W_ok b c q v vs m out hlt) (this.2 (by simp at h ⊢; omega) o e ?_)⟩
      have e1 : c - q.length = (c - (q ++ [v]).length) + 1 := by simp; omega
      rw [e1] at he
      simpa [List.append_assoc] using he
    · have hqc : c - q.length = 0 := by omega
      refine ⟨fun h => by simp at h; omega, fun _ o e he => ends_of_step (W_full b c q v vs m out hlt) ?_⟩
      rw [hqc] at he
      simpa using he

theorem V_fill (hc : 1 ≤ c) (out : List Event) (vs : List Nat) :
    ∀ q : List Nat, q.length ≤ c →
      (q.length + vs.length ≤ c → Ends (V b c q vs out) .exit (out ++ [.printed 0 99])) ∧
      (c < q.length + vs.length → Ends (V b c q vs out) .deadlock out) := by
  induction vs with
  | nil =>
    intro q hq
    exact ⟨fun _ => V_done b c q out, fun h => by simp at h; omega⟩
  | cons v vs ih =>
    intro q hq
    by_cases hlt : q.length < c
    · have := ih (q ++ [v]) (by simp; omega)
      exact ⟨fun h => ends_of_step (V_ok b c q v vs out hlt) (this.1 (by simp at h ⊢; omega)),
             fun h => ends_of_step (V_ok b c q v vs out hlt) (this.2 (by simp at h ⊢; omega))⟩
    · have hqc : q.length = c := by omega
      subst hqc
      refine ⟨fun h => by simp at h; omega, fun _ => ?_⟩
      cases q with
      | nil => simp at hc
      | cons x q => exact V_full b x q v vs out

theorem I0_fill (hc : 1 ≤ c) (m : Nat) (vs : List Nat) :
    ∀ (q : List Nat) (chs : List Nat), (chs = [] ∨ chs = [0]) → q.length ≤ c →
      (q.length + vs.length ≤ c → Ends (I0 b c q vs m chs) .exit [.printed 0 99]) ∧
      (c < q.length + vs.length → ∀ o e,
        Ends (U b c (q ++ vs.take (c - q.length)) (vs.drop (c - q.length)) m [] []) o e →
        Ends (I0 b c q vs m chs) o e) := by
  induction vs with
  | nil =>
    intro q chs _ hq
    exact ⟨fun _ => I0_done b c q m chs, fun h => by simp at h; omega⟩
  | cons v vs ih =>
    intro q chs hchs hq
    by_cases hlt : q.length < c
    · have := ih (q ++ [v]) [0] (Or.inr rfl) (by simp; omega)
      refine ⟨fun h => ends_of_step (I0_ok b c q v vs m chs hchs hlt) (this.1 (by simp at h ⊢; omega)),
              fun h o e he => ends_of_step (I0_ok b c q v vs m chs hchs hlt) (this.2 (by simp at h ⊢; omega) o e ?_)⟩
      have e1 : c - q.length = (c - (q ++ [v]).length) + 1 := by simp; omega
      rw [e1] at he
      simpa [List.append_assoc] using he
    · have hqc : q.length = c := by omega
      subst hqc
      refine ⟨fun h => by simp at h; omega, fun _ o e he => ?_⟩
      cases q with
      | nil => simp at hc
      | cons x q =>
        refine ends_of_step (I0_full b x q v vs m chs hchs) ?_
        simpa using he

theorem U_drain (vs : List Nat) (q : List Nat) :
    ∀ (m : Nat) (out : List Event) (chs : List Nat), (chs = [] ∨ chs = [0]) →
      (m ≤ q.length → ∀ o e, Ends (V b c (q.drop m) vs (out ++ gots 1 (q.take m))) o e →
        Ends (U b c q vs m out chs) o e) ∧
      (q.length < m → ∀ o e, Ends (W b c [] vs (m - q.length - 1) (out ++ gots 1 q)) o e →
        Ends (U b c q vs m out chs) o e) := by
  induction q with
  | nil =>
    intro m out chs hchs
    refine ⟨fun h o e he => ?_, fun h o e he => ?_⟩
    · have : m = 0 := by simpa using h
      subst this
      refine ends_of_step (U_done b c [] vs out chs hchs) ?_
      simpa [gots] using he
    · cases m with
      | zero => simp at h
      | succ m =>
        refine ends_of_step (U_empty b c vs m out chs hchs) ?_
        simpa [gots] using he
  | cons x q ih =>
    intro m out chs hchs
    cases m with
    | zero =>
      refine ⟨fun _ o e he => ?_, fun h => by simp at h⟩
      refine ends_of_step (U_done b c (x :: q) vs out chs hchs) ?_
      simpa [gots] using he
    | succ m =>
      have := ih m (out ++ [.got 1 (some x)]) [0] (Or.inr rfl)
      refine ⟨fun h o e he => ?_, fun h o e he => ?_⟩
      · refine ends_of_step (U_ok b c x q vs m out chs hchs) ?_
        refine this.1 (by simpa using h) o e ?_
        simpa [gots, List.append_assoc] using he
      · refine ends_of_step (U_ok b c x q vs m out chs hchs) ?_
        refine this.2 (by simpa using h) o e ?_
        have e1 : m + 1 - (x :: q).length - 1 = m - q.length - 1 := by simp
        rw [e1] at he
        simpa [gots, List.append_assoc] using he

theorem gots_take_add (vs : List Nat) (a g : Nat) :
    gots 1 (vs.take a) ++ gots 1 ((vs.drop a).take g) = gots 1 (vs.take (a + g)) := by
  unfold gots
  rw [← List.map_append, List.take_add]

/-- the child's turn on a full queue, given the result for every shorter list of values -/
theorem cp_U (hc : 1 ≤ c) (n : Nat)
    (IH : ∀ vs' : List Nat, vs'.length ≤ n → ∀ m out, CPResult c (W b c [] vs' m out) vs' (m + 1) out)
    (vs : List Nat) (hn : vs.length ≤ n + 1) (hvs : c < vs.length) (need : Nat) (out : List Event) (chs : List Nat)
    (hchs : chs = [] ∨ chs = [0]) :
    CPResult c (U b c (vs.take c) (vs.drop c) need out chs) vs need out := by
  have hq : (vs.take c).length = c := by simp; omega
  have hd := U_drain b c (vs.drop c) (vs.take c) need out chs hchs
  by_cases hneed : need ≤ c
  · -- the child finishes within this batch, then main alone
    have hv := V_fill b c hc (out ++ gots 1 ((vs.take c).take need)) (vs.drop c) ((vs.take c).drop need) (by simp; omega)
    have htt : (vs.take c).take need = vs.take need := by rw [List.take_take]; congr 1; omega
    have hlen : ((vs.take c).drop need).length + (vs.drop c).length = vs.length - need := by simp; omega
    refine ⟨fun h => ⟨need, by omega, Nat.le_refl _, by omega, ?_⟩, fun h => ?_⟩
    · apply hd.1 (by omega)
      have := hv.1 (by omega)
      rw [htt] at this ⊢
      exact this
    · apply hd.1 (by omega)
      have := hv.2 (by omega)
      rw [htt] at this ⊢
      exact this
  · -- the child empties the queue and wakes main: a shorter instance
    have hneed' : c < need := by omega
    have ih := IH (vs.drop c) (by simp; omega) (need - c - 1) (out ++ gots 1 (vs.take c))
    have e1 : need - c - 1 + 1 = need - c := by omega
    rw [e1] at ih
    have hlen : (vs.drop c).length = vs.length - c := by simp
    refine ⟨fun h => ?_, fun h => ?_⟩
    · obtain ⟨g, h1, h2, h3, h4⟩ := ih.1 (by omega)
      refine ⟨c + g, by omega, by omega, by omega, ?_⟩
      apply hd.2 (by omega)
      rw [hq]
      have : out ++ gots 1 (vs.take c) ++ gots 1 ((vs.drop c).take g) = out ++ gots 1 (vs.take (c + g)) := by
        rw [List.append_assoc, gots_take_add]
      rw [this] at h4
      exact h4
    · apply hd.2 (by omega)
      rw [hq]
      have h4 := ih.2 (by omega)
      have : out ++ gots 1 (vs.take c) ++ gots 1 ((vs.drop c).take (need - c)) = out ++ gots 1 (vs.take need) := by
        rw [List.append_assoc, gots_take_add]; congr 3; omega
      rw [this] at h4
      exact h4

theorem cp_W (hc : 1 ≤ c) (n : Nat) :
    ∀ vs : List Nat, vs.length ≤ n → ∀ m out, CPResult c (W b c [] vs m out) vs (m + 1) out := by
  induction n with
  | zero =>
    intro vs hvs m out
    have : vs = [] := by cases vs <;> simp_all
    subst this
    exact ⟨fun _ => ⟨0, by simp, by omega, by simp, by simpa [gots] using W_done b c [] m out⟩, fun h => by simp at h⟩
  | succ n ih =>
    intro vs hvs m out
    have hf := W_fill b c m out vs [] (by simp)
    by_cases hle : vs.length ≤ c
    · exact ⟨fun _ => ⟨0, by omega, by omega, by omega, by simpa [gots] using hf.1 (by simpa using hle)⟩,
             fun h => by omega⟩
    · have hvs' : c < vs.length := by omega
      have hu := cp_U b c hc n ih vs hvs hvs' (m + 1) out [0] (Or.inr rfl)
      refine ⟨fun h => ?_, fun h => ?_⟩
      · obtain ⟨g, h1, h2, h3, h4⟩ := hu.1 h
        exact ⟨g, h1, h2, h3, hf.2 (by simpa using hvs') _ _ (by simpa using h4)⟩
      · exact hf.2 (by simpa using hvs') _ _ (by simpa using hu.2 h)

theorem init_cp_buf (vs : List Nat) (m : Nat) :
    stepE (init (cpNet (some c) vs m)).erase = I0 (cpNet (some c) vs m).bodies c [] vs m [] := by
  unfold I0; simp [cpNet, init, mkChan, Q.mkBuffered]; sched_step

end cpBuf

/-- **C08_producer_consumer (buffered, any capacity `c ≥ 1`, main produces).** For every list of values
`vs` the main fiber sends and every number `m` of receives of the child, the run ends, and:
* if `|vs| ≤ m + c` (the Spec: main can finish) it ends in `Exit`, the child having received and
  printed, in order, the first `g` values for some `|vs| − c ≤ g ≤ min m |vs|` (what the buffer cannot
  hold must have been taken; how much more is the scheduler's choice), then main's marker;
* otherwise it ends in "Fatal error deadlock." after the child took exactly its `m` values — a true
  deadlock (main waits for room, nobody is left to make any). -/
theorem C08_producer_consumer_buffered_mirrored (c : Nat) (hc : 1 ≤ c) (vs : List Nat) (m : Nat) :
    (vs.length ≤ m + c →
      ∃ g, vs.length - c ≤ g ∧ g ≤ m ∧ g ≤ vs.length ∧ ∃ N, ∀ n, N ≤ n →
        (runNet n (cpNet (some c) vs m)).outcome = .exit ∧
        (runNet n (cpNet (some c) vs m)).out = gots 1 (vs.take g) ++ [.printed 0 99]) ∧
    (m + c < vs.length →
      ∃ N, ∀ n, N ≤ n →
        (runNet n (cpNet (some c) vs m)).outcome = .deadlock ∧
        (runNet n (cpNet (some c) vs m)).out = gots 1 (vs.take m)) := by
  have key : CPResult c (I0 (cpNet (some c) vs m).bodies c [] vs m []) vs m [] := by
    have hf := I0_fill (cpNet (some c) vs m).bodies c hc m vs [] [] (Or.inl rfl) (by simp)
    by_cases hle : vs.length ≤ c
    · exact ⟨fun _ => ⟨0, by omega, by omega, by omega, by simpa [gots] using hf.1 (by simpa using hle)⟩,
             fun h => by omega⟩
    · have hvs' : c < vs.length := by omega
      have hu := cp_U (cpNet (some c) vs m).bodies c hc vs.length (cp_W _ c hc vs.length) vs (by omega) hvs' m [] []
        (Or.inl rfl)
      refine ⟨fun h => ?_, fun h => ?_⟩
      · obtain ⟨g, h1, h2, h3, h4⟩ := hu.1 h
        exact ⟨g, h1, h2, h3, hf.2 (by simpa using hvs') _ _ (by simpa using h4)⟩
      · exact hf.2 (by simpa using hvs') _ _ (by simpa using hu.2 h)
  refine ⟨fun h => ?_, fun h => ?_⟩
  · obtain ⟨g, h1, h2, h3, h4⟩ := key.1 h
    refine ⟨g, h1, h2, h3, ?_⟩
    apply ends_run
    apply ends_step
    rw [init_cp_buf]
    simpa using h4
  · apply ends_run
    apply ends_step
    rw [init_cp_buf]
    simpa using key.2 h

end LaytheVerif.C08PC
