/-
C12 — The peephole optimiser never changes what a function does.
-/
import LaytheVerif.Lemmas.PeepSem
import LaytheVerif.Lemmas.PeepFreeLaws
namespace LaytheVerif.C12
open LaytheVerif.Gen LaytheVerif.Peephole

/-! ### [G] the model's rule table is the one in the Rust source -/

/-- The arms of `peephole_optimize`'s `match` (regenerated from the source on every run) are the
arms the model implements, in the same order.  A new, removed, reordered or re-guarded arm
re-opens this lemma. -/
theorem C12_rules_eq_gen : Peephole.rules = Gen.peepholeRules := by decide

/-! ### label restart -/

theorem after_spanDropsK (k l : Nat) (r : List IL) : after l (spanDropsK k r).2 = after l r := by
  fun_induction spanDropsK k r <;> simp_all [after]

theorem after_spanDrops (l : Nat) (r : List IL) : after l (spanDrops r).2 = after l r := after_spanDropsK _ l r

theorem after_spanEq (l : Nat) (i : Sym) (hi : isLoad i = true) (r : List IL) :
    after l (spanEq i r).2 = after l r := by
  fun_induction spanEq i r
  · cases i <;> simp_all [after, isLoad]
  · rfl
  · rfl

theorem after_skipDead (l : Nat) (r : List IL) : after l (skipDead r) = after l r := by
  fun_induction skipDead r <;> simp_all [after]

theorem after_dups (l : Nat) (ls : List Nat) (r : List IL) : after l (dups ls ++ r) = after l r := by
  induction ls with
  | nil => simp [dups]
  | cons x xs ih => simpa [dups, after] using ih

/-- **C12_label_restart.** Optimising and then entering at a label is the same as entering at the
label and then optimising: no rewrite window spans a label, so every jump target of the output is
the optimisation of the same target in the input. -/
theorem C12_label_restart (l : Nat) (p : List IL) : after l (opt p) = opt (after l p) := by
  fun_induction opt p
  all_goals (try simp_all [after, opt, after_spanDrops, after_skipDead, after_dups, isLoad])
  all_goals (try (rw [after_spanEq _ _ (by rfl)]))
  next i r _ _ _ _ _ _ _ _ _ _ _ _ _ _ _ _ ih =>
    obtain ⟨i, n⟩ := i
    cases i <;> simp_all [after]
    split <;> simp_all


/-! ### well-delimitedness is inherited by every suffix the optimiser continues with -/

theorem wd_tail (x : IL) (r : List IL) (h : wellDelimited (x :: r) = true) : wellDelimited r = true := by
  cases r with
  | nil => rfl
  | cons y r => simp [wellDelimited] at h; exact h.2

theorem wd_suffix {s l : List IL} (hs : s <:+ l) (h : wellDelimited l = true) : wellDelimited s = true := by
  induction l with
  | nil => simp_all
  | cons x l ih =>
    rcases List.suffix_cons_iff.mp hs with rfl | h'
    · exact h
    · exact ih h' (wd_tail x l h)

theorem spanDropsK_suffix (k : Nat) (r : List IL) : (spanDropsK k r).2 <:+ r := by
  fun_induction spanDropsK k r
  · next k l r ih => exact List.IsSuffix.trans ih (List.suffix_cons _ _)
  · exact List.suffix_refl _

theorem spanDrops_suffix (r : List IL) : (spanDrops r).2 <:+ r := spanDropsK_suffix _ r

theorem spanEq_suffix (i : Sym) (r : List IL) : (spanEq i r).2 <:+ r := by
  fun_induction spanEq i r
  · next ih => exact List.IsSuffix.trans ih (List.suffix_cons _ _)
  · exact List.suffix_refl _
  · exact List.suffix_refl _

theorem skipDead_suffix (r : List IL) : skipDead r <:+ r := by
  fun_induction skipDead r
  · exact List.suffix_refl _
  · next x r h ih => exact List.IsSuffix.trans ih (List.suffix_cons _ _)
  · exact List.suffix_refl _

theorem after_suffix (l : Nat) (p : List IL) : after l p <:+ p := by
  fun_induction after l p
  · exact List.suffix_cons _ _
  · next m n r h ih => exact List.IsSuffix.trans ih (List.suffix_cons _ _)
  · next x r h ih => exact List.IsSuffix.trans ih (List.suffix_cons _ _)
  · exact List.suffix_refl _

theorem spanDropsK_eq (k : Nat) (r : List IL) :
    r.map Prod.fst = List.replicate (spanDropsK k r).1 Sym.Drop ++ (spanDropsK k r).2.map Prod.fst := by
  fun_induction spanDropsK k r with
  | case1 k l r ih => simpa [List.replicate_succ] using ih
  | case2 k r h => simp

theorem spanDrops_eq (r : List IL) :
    r.map Prod.fst = List.replicate (spanDrops r).1 Sym.Drop ++ (spanDrops r).2.map Prod.fst := spanDropsK_eq _ r

theorem spanEq_eq (i : Sym) (r : List IL) :
    r.map Prod.fst = List.replicate (spanEq i r).1.length i ++ (spanEq i r).2.map Prod.fst := by
  fun_induction spanEq i r
  · next ih => simpa [List.replicate_succ] using ih
  · simp
  · simp

/-- `exec` only looks at instructions (not lines) along the straight line it is about to run. -/
theorem exec_lines_prefix {σ} (step : Sym → σ → Out σ) (prog : List IL) (fuel : Nat)
    (a b rest : List IL) (h : a.map Prod.fst = b.map Prod.fst) (s : σ) :
    exec step prog fuel (a ++ rest) s = exec step prog fuel (b ++ rest) s := by
  rw [exec_line, exec_line, runLine_lines step a b h]

variable {σ : Type} (step : Sym → σ → Out σ) (prog : List IL)

/-- The goto continuation agrees at this fuel. -/
def G (fuel : Nat) : Prop :=
  ∀ l s', cont step (opt prog) fuel [] (.goto l s') = cont step prog fuel [] (.goto l s')

theorem cont_eq (fuel : Nat) (hG : G step prog fuel) (ra rb : List IL)
    (h : ∀ s, exec step (opt prog) fuel ra s = exec step prog fuel rb s) (o : Out σ) :
    cont step (opt prog) fuel ra o = cont step prog fuel rb o := by
  cases o with
  | next s => simpa [cont] using h s
  | goto l s => simpa [cont] using hG l s
  | stop s => simp [cont]
  | stuck => simp [cont]


theorem window (fuel : Nat) (hG : G step prog fuel) (A B ra rb : List IL)
    (hw : ∀ s, runLine step A s = runLine step B s)
    (ih : ∀ s, exec step (opt prog) fuel ra s = exec step prog fuel rb s) (s : σ) :
    exec step (opt prog) fuel (A ++ ra) s = exec step prog fuel (B ++ rb) s := by
  rw [exec_line, exec_line, hw]
  exact cont_eq step prog fuel hG _ _ ih _

theorem dead (fuel : Nat) (hG : G step prog fuel) (i : IL) (ra rb : List IL)
    (hn : ∀ s s', step i.1 s ≠ .next s') (s : σ) :
    exec step (opt prog) fuel (i :: ra) s = exec step prog fuel (i :: rb) s := by
  rw [exec_cons, exec_cons]
  cases h : step i.1 s with
  | next s' => exact absurd h (hn s s')
  | goto l' s' => simpa [cont] using hG l' s'
  | stop s' => simp [cont]
  | stuck => simp [cont]

/-- Under `wellDelimited`, a `Call` that directly follows a `PropertySlot` or `GetSuper` has no arguments. -/
theorem wd_call0 (x : IL) (a : Nat) (n : Nat) (r : List IL) (hx : x.1 ≠ .ArgumentDelimiter)
    (h : wellDelimited (x :: (.Call a, n) :: r) = true) : a = 0 := by
  cases a with
  | zero => rfl
  | succ a => simp [wellDelimited] at h; exact absurd h.1 hx

theorem dups_fst (ls : List Nat) : (dups ls).map Prod.fst = List.replicate ls.length Sym.Dup := by
  induction ls with
  | nil => rfl
  | cons x xs ih => simpa [dups, List.replicate_succ] using ih

theorem loadCase (L : Laws step) (fuel : Nat) (hG : G step prog fuel) (i : Sym) (hi : isLoad i = true)
    (l : Nat) (r : List IL)
    (ih : wellDelimited (spanEq i r).2 = true →
      ∀ s, exec step (opt prog) fuel (opt (spanEq i r).2) s = exec step prog fuel (spanEq i r).2 s)
    (hwd : wellDelimited ((i, l) :: r) = true) (s : σ) :
    exec step (opt prog) fuel ((i, l) :: (dups (spanEq i r).1 ++ opt (spanEq i r).2)) s
      = exec step prog fuel ((i, l) :: r) s := by
  have hwd' := wd_suffix ((spanEq_suffix i r).trans (List.suffix_cons _ _)) hwd
  have h1 : exec step prog fuel ((i, l) :: r) s
      = exec step prog fuel (((i, 0) :: List.replicate (spanEq i r).1.length ((i, 0) : IL)) ++ (spanEq i r).2) s := by
    have := exec_lines_prefix step prog fuel ((i, l) :: r)
      (((i, 0) :: List.replicate (spanEq i r).1.length ((i, 0) : IL)) ++ (spanEq i r).2) [] (by
        simp
        exact spanEq_eq i r) s
    simpa using this
  rw [h1]
  have := window step prog fuel hG ((i, l) :: dups (spanEq i r).1)
    ((i, 0) :: List.replicate (spanEq i r).1.length ((i, 0) : IL)) _ _
    (fun s => by
      rw [runLine_lines step ((i, l) :: dups (spanEq i r).1)
            ((i, 0) :: List.replicate (spanEq i r).1.length ((Sym.Dup, 0) : IL)) (by simp [dups_fst])]
      exact (L.getDup i hi _ s).symm) (ih hwd') s
  simpa using this

theorem inner (L : Laws step) (fuel : Nat) (hG : G step prog fuel) :
    ∀ pc, wellDelimited pc = true → ∀ s, exec step (opt prog) fuel (opt pc) s = exec step prog fuel pc s := by
  intro pc
  fun_induction opt pc with
  | case1 => intro _ s; simp [exec]
  | case2 l n r ih =>
    intro hwd s
    have hwd' := wd_suffix ((spanDrops_suffix r).trans ((List.suffix_cons _ _).trans (List.suffix_cons _ _))) hwd
    have h1 : exec step prog fuel ((Sym.Drop, l) :: (Sym.Drop, n) :: r) s
        = exec step prog fuel (List.replicate ((spanDrops r).1 + 2) ((Sym.Drop, 0) : IL) ++ (spanDrops r).2) s := by
      have := exec_lines_prefix step prog fuel ((Sym.Drop, l) :: (Sym.Drop, n) :: r)
        (List.replicate ((spanDrops r).1 + 2) ((Sym.Drop, 0) : IL) ++ (spanDrops r).2) [] (by
          simp [List.replicate_succ]
          exact spanDrops_eq r) s
      simpa using this
    rw [h1]
    have := window step prog fuel hG [(Sym.DropN ((spanDrops r).1 + 2), l)]
      (List.replicate ((spanDrops r).1 + 2) ((Sym.Drop, 0) : IL)) _ _
      (fun s => by rw [runLine_single]; exact L.dropN _ s) (ih hwd') s
    simpa using this
  | case3 n l m a k r ih =>
    intro hwd s
    have ha : a = 0 := wd_call0 (Sym.PropertySlot, m) a k r (by simp) (wd_tail _ _ hwd)
    subst ha
    have hwd' := wd_tail _ _ (wd_tail _ _ (wd_tail _ _ hwd))
    have := window step prog fuel hG [(Sym.Invoke n 0, l), (Sym.InvokeSlot, l)]
      [(Sym.GetPropByName n, l), (Sym.PropertySlot, m), (Sym.Call 0, k)] _ _
      (fun s => by
        rw [runLine_lines step [(Sym.Invoke n 0, l), (Sym.InvokeSlot, l)] [(Sym.Invoke n 0, 0), (Sym.InvokeSlot, 0)] rfl,
            runLine_lines step [(Sym.GetPropByName n, l), (Sym.PropertySlot, m), (Sym.Call 0, k)]
              [(Sym.GetPropByName n, 0), (Sym.PropertySlot, 0), (Sym.Call 0, 0)] rfl]
        exact (L.invoke0 n s).symm) (ih hwd') s
    simpa using this
  | case4 n l a k r ih =>
    intro hwd s
    have ha : a = 0 := wd_call0 (Sym.GetSuper n, l) a k r (by simp) hwd
    subst ha
    have hwd' := wd_tail _ _ (wd_tail _ _ hwd)
    have := window step prog fuel hG [(Sym.SuperInvoke n 0, l), (Sym.InvokeSlot, l)]
      [(Sym.GetSuper n, l), (Sym.Call 0, k)] _ _
      (fun s => by
        rw [runLine_lines step [(Sym.SuperInvoke n 0, l), (Sym.InvokeSlot, l)] [(Sym.SuperInvoke n 0, 0), (Sym.InvokeSlot, 0)] rfl,
            runLine_lines step [(Sym.GetSuper n, l), (Sym.Call 0, k)]
              [(Sym.GetSuper n, 0), (Sym.Call 0, 0)] rfl]
        exact (L.superInvoke0 n s).symm) (ih hwd') s
    simpa using this
  | case5 l l2 s' l3 r ih =>
    intro hwd s
    have hwd' := wd_tail _ _ (wd_tail _ _ (wd_tail _ _ hwd))
    have := window step prog fuel hG [(Sym.SetLocal s', l)]
      [(Sym.SetLocal s', l), (Sym.Drop, l2), (Sym.GetLocal s', l3)] _ _
      (fun s => by
        rw [runLine_single, runLine_lines step [(Sym.SetLocal s', l), (Sym.Drop, l2), (Sym.GetLocal s', l3)]
              [(Sym.SetLocal s', 0), (Sym.Drop, 0), (Sym.GetLocal s', 0)] rfl]
        exact (L.setGetLocal s' s).symm) (ih hwd') s
    simpa using this
  | case6 s' l l2 g l3 r hk ih =>
    intro hwd s
    rw [exec_cons, exec_cons]
    exact cont_eq step prog fuel hG _ _ (ih (wd_tail _ _ hwd)) _
  | case7 l l2 s' l3 r ih =>
    intro hwd s
    have hwd' := wd_tail _ _ (wd_tail _ _ (wd_tail _ _ hwd))
    have := window step prog fuel hG [(Sym.SetBox s', l)]
      [(Sym.SetBox s', l), (Sym.Drop, l2), (Sym.GetBox s', l3)] _ _
      (fun s => by
        rw [runLine_single, runLine_lines step [(Sym.SetBox s', l), (Sym.Drop, l2), (Sym.GetBox s', l3)]
              [(Sym.SetBox s', 0), (Sym.Drop, 0), (Sym.GetBox s', 0)] rfl]
        exact (L.setGetBox s' s).symm) (ih hwd') s
    simpa using this
  | case8 s' l l2 g l3 r hk ih =>
    intro hwd s
    rw [exec_cons, exec_cons]
    exact cont_eq step prog fuel hG _ _ (ih (wd_tail _ _ hwd)) _
  | case9 l l2 s' l3 r ih =>
    intro hwd s
    have hwd' := wd_tail _ _ (wd_tail _ _ (wd_tail _ _ hwd))
    have := window step prog fuel hG [(Sym.SetCapture s', l)]
      [(Sym.SetCapture s', l), (Sym.Drop, l2), (Sym.GetCapture s', l3)] _ _
      (fun s => by
        rw [runLine_single, runLine_lines step [(Sym.SetCapture s', l), (Sym.Drop, l2), (Sym.GetCapture s', l3)]
              [(Sym.SetCapture s', 0), (Sym.Drop, 0), (Sym.GetCapture s', 0)] rfl]
        exact (L.setGetCapture s' s).symm) (ih hwd') s
    simpa using this
  | case10 s' l l2 g l3 r hk ih =>
    intro hwd s
    rw [exec_cons, exec_cons]
    exact cont_eq step prog fuel hG _ _ (ih (wd_tail _ _ hwd)) _
  | case11 l l2 s' l3 r ih =>
    intro hwd s
    have hwd' := wd_tail _ _ (wd_tail _ _ (wd_tail _ _ hwd))
    have := window step prog fuel hG [(Sym.SetModSym s', l)]
      [(Sym.SetModSym s', l), (Sym.Drop, l2), (Sym.GetModSym s', l3)] _ _
      (fun s => by
        rw [runLine_single, runLine_lines step [(Sym.SetModSym s', l), (Sym.Drop, l2), (Sym.GetModSym s', l3)]
              [(Sym.SetModSym s', 0), (Sym.Drop, 0), (Sym.GetModSym s', 0)] rfl]
        exact (L.setGetModSym s' s).symm) (ih hwd') s
    simpa using this
  | case12 s' l l2 g l3 r hk ih =>
    intro hwd s
    rw [exec_cons, exec_cons]
    exact cont_eq step prog fuel hG _ _ (ih (wd_tail _ _ hwd)) _
  | case13 s' l r ih => intro hwd s; exact loadCase step prog L fuel hG (.GetLocal s') rfl l r ih hwd s
  | case14 s' l r ih => intro hwd s; exact loadCase step prog L fuel hG (.GetModSym s') rfl l r ih hwd s
  | case15 s' l r ih => intro hwd s; exact loadCase step prog L fuel hG (.GetBox s') rfl l r ih hwd s
  | case16 s' l r ih => intro hwd s; exact loadCase step prog L fuel hG (.GetCapture s') rfl l r ih hwd s
  | case17 t l r ih => intro hwd s; exact dead step prog fuel hG (Sym.Jump t, l) _ _ (fun s s' => L.jump t s s') s
  | case18 t l r ih => intro hwd s; exact dead step prog fuel hG (Sym.Loop t, l) _ _ (fun s s' => L.loop t s s') s
  | case19 l r ih => intro hwd s; exact dead step prog fuel hG (Sym.Return, l) _ _ (fun s s' => L.ret s s') s
  | case20 l r ih => intro hwd s; exact dead step prog fuel hG (Sym.Raise, l) _ _ (fun s s' => L.raise s s') s
  | case21 l r ih =>
    intro hwd s
    rw [exec_cons, L.argDelim]
    simpa [cont] using ih (wd_tail _ _ hwd) s
  | case22 i r _ _ _ _ _ _ _ _ _ _ _ _ _ _ _ _ ih =>
    intro hwd s
    rw [exec_cons, exec_cons]
    exact cont_eq step prog fuel hG _ _ (ih (wd_tail _ _ hwd)) _


/-- **C12_preserves.** For every instruction semantics satisfying the local laws, every
well-delimited instruction list `prog`, every program point `pc` that is a suffix of it (the entry
`pc = prog`, or the code after any label), every state and every amount of fuel: running the
optimised program from the optimised point gives exactly the result (final state, stop, stuck or
still-running) of running the original program from the original point. -/
theorem C12_preserves (L : Laws step) (hwd : wellDelimited prog = true) :
    ∀ fuel pc, pc <:+ prog → ∀ s,
      exec step (opt prog) fuel (opt pc) s = exec step prog fuel pc s := by
  intro fuel
  induction fuel with
  | zero =>
    intro pc hpc s
    exact inner step prog L 0 (by intro l s'; simp [cont]) pc (wd_suffix hpc hwd) s
  | succ f ih =>
    intro pc hpc s
    refine inner step prog L (f + 1) ?_ pc (wd_suffix hpc hwd) s
    intro l s'
    simp only [cont]
    rw [C12_label_restart]
    exact ih _ (after_suffix l prog) _

/-- Entry point and every jump target, stated separately. -/
theorem C12_preserves_entry (L : Laws step) (hwd : wellDelimited prog = true) (fuel : Nat) (s : σ) :
    exec step (opt prog) fuel (opt prog) s = exec step prog fuel prog s :=
  C12_preserves step prog L hwd fuel prog (List.suffix_refl _) s

theorem C12_preserves_label (L : Laws step) (hwd : wellDelimited prog = true) (fuel l : Nat) (s : σ) :
    exec step (opt prog) fuel (after l (opt prog)) s = exec step prog fuel (after l prog) s := by
  rw [C12_label_restart]
  exact C12_preserves step prog L hwd fuel _ (after_suffix l prog) s

/-! ### lines -/

theorem spanDrops_mem (r : List IL) (y : IL) (h : y ∈ (spanDrops r).2) : y ∈ r :=
  (spanDrops_suffix r).subset h
theorem spanEq_mem (i : Sym) (r : List IL) (y : IL) (h : y ∈ (spanEq i r).2) : y ∈ r :=
  (spanEq_suffix i r).subset h
theorem skipDead_mem (r : List IL) (y : IL) (h : y ∈ skipDead r) : y ∈ r :=
  (skipDead_suffix r).subset h

theorem dups_mem (i : Sym) (r : List IL) (x : IL) (h : x ∈ dups (spanEq i r).1) : x.2 ∈ r.map Prod.snd := by
  fun_induction spanEq i r
  · next ih =>
    simp only [dups, List.map_cons, List.mem_cons] at h
    rcases h with rfl | h
    · simp
    · simpa using Or.inr (by simpa using ih h)
  · simp [dups] at h
  · simp [dups] at h

theorem step_sub (pre X full : List IL) (hpre : ∀ x ∈ pre, x.2 ∈ full.map Prod.snd)
    (hX : ∀ y ∈ X, y ∈ full) (ih : ∀ x ∈ opt X, x.2 ∈ X.map Prod.snd) :
    ∀ x ∈ pre ++ opt X, x.2 ∈ full.map Prod.snd := by
  intro x hx
  rcases List.mem_append.mp hx with h | h
  · exact hpre x h
  · obtain ⟨y, hy, e⟩ := List.mem_map.mp (ih x h)
    exact List.mem_map.mpr ⟨y, hX y hy, e⟩

/-- **C12_lines (membership form).** Every line attached to an output instruction is the line of
an input instruction: the optimiser never invents or shifts a line.  (The two-slot rewrites give
both slots the line of the first instruction of their window; a merged `DropN` keeps the first
`Drop`'s line; a `Dup` keeps the line of the load it replaces.) -/
theorem C12_lines_subset (p : List IL) : ∀ x ∈ opt p, x.2 ∈ p.map Prod.snd := by
  fun_induction opt p
  case case1 => simp
  case case2 l n r ih =>
    exact step_sub [_] _ _ (by simp) (fun y hy => by simp [spanDrops_mem r y hy]) ih
  case case3 n l m a k r ih =>
    exact step_sub [_, _] _ _ (by simp) (fun y hy => by simp [hy]) ih
  case case4 n l a k r ih =>
    exact step_sub [_, _] _ _ (by simp) (fun y hy => by simp [hy]) ih
  case case5 ih => exact step_sub [_] _ _ (by simp) (fun y hy => by simp [hy]) ih
  case case6 ih => exact step_sub [_] _ _ (by simp) (fun y hy => List.mem_cons_of_mem _ hy) ih
  case case7 ih => exact step_sub [_] _ _ (by simp) (fun y hy => by simp [hy]) ih
  case case8 ih => exact step_sub [_] _ _ (by simp) (fun y hy => List.mem_cons_of_mem _ hy) ih
  case case9 ih => exact step_sub [_] _ _ (by simp) (fun y hy => by simp [hy]) ih
  case case10 ih => exact step_sub [_] _ _ (by simp) (fun y hy => List.mem_cons_of_mem _ hy) ih
  case case11 ih => exact step_sub [_] _ _ (by simp) (fun y hy => by simp [hy]) ih
  case case12 ih => exact step_sub [_] _ _ (by simp) (fun y hy => List.mem_cons_of_mem _ hy) ih
  case case13 s' l r ih =>
    have := step_sub ((Sym.GetLocal s', l) :: dups (spanEq (.GetLocal s') r).1) _ ((Sym.GetLocal s', l) :: r)
      (by intro x hx; simp only [List.mem_cons] at hx; rcases hx with rfl | hx
          · simp
          · simpa using Or.inr (by simpa using dups_mem _ r x hx))
      (fun y hy => by simp [spanEq_mem _ r y hy]) ih
    simpa using this
  case case14 s' l r ih =>
    have := step_sub ((Sym.GetModSym s', l) :: dups (spanEq (.GetModSym s') r).1) _ ((Sym.GetModSym s', l) :: r)
      (by intro x hx; simp only [List.mem_cons] at hx; rcases hx with rfl | hx
          · simp
          · simpa using Or.inr (by simpa using dups_mem _ r x hx))
      (fun y hy => by simp [spanEq_mem _ r y hy]) ih
    simpa using this
  case case15 s' l r ih =>
    have := step_sub ((Sym.GetBox s', l) :: dups (spanEq (.GetBox s') r).1) _ ((Sym.GetBox s', l) :: r)
      (by intro x hx; simp only [List.mem_cons] at hx; rcases hx with rfl | hx
          · simp
          · simpa using Or.inr (by simpa using dups_mem _ r x hx))
      (fun y hy => by simp [spanEq_mem _ r y hy]) ih
    simpa using this
  case case16 s' l r ih =>
    have := step_sub ((Sym.GetCapture s', l) :: dups (spanEq (.GetCapture s') r).1) _ ((Sym.GetCapture s', l) :: r)
      (by intro x hx; simp only [List.mem_cons] at hx; rcases hx with rfl | hx
          · simp
          · simpa using Or.inr (by simpa using dups_mem _ r x hx))
      (fun y hy => by simp [spanEq_mem _ r y hy]) ih
    simpa using this
  case case17 t l r ih => exact step_sub [_] _ _ (by simp) (fun y hy => by simp [skipDead_mem r y hy]) ih
  case case18 t l r ih => exact step_sub [_] _ _ (by simp) (fun y hy => by simp [skipDead_mem r y hy]) ih
  case case19 l r ih => exact step_sub [_] _ _ (by simp) (fun y hy => by simp [skipDead_mem r y hy]) ih
  case case20 l r ih => exact step_sub [_] _ _ (by simp) (fun y hy => by simp [skipDead_mem r y hy]) ih
  case case21 l r ih => exact step_sub [] _ _ (by simp) (fun y hy => by simp [hy]) ih
  case case22 i r _ _ _ _ _ _ _ _ _ _ _ _ _ _ _ _ ih =>
    exact step_sub [_] _ _ (by simp) (fun y hy => by simp [hy]) ih

/-! ### the laws are satisfiable: the free semantics (the executable Spec of the tie) -/

/-- `C12_preserves` instantiated at the free semantics of `Model/PeepFree.lean`, which logs every
store, call, return, raise and uninterpreted instruction: same log, same stack, same control. -/
theorem C12_preserves_free (prog : List IL) (hwd : wellDelimited prog = true) (fuel : Nat)
    (pc : List IL) (hpc : pc <:+ prog) (s : PeepFree.FS) :
    exec PeepFree.step (opt prog) fuel (opt pc) s = exec PeepFree.step prog fuel pc s :=
  C12_preserves PeepFree.step prog PeepFree.laws hwd fuel pc hpc s

/-! ### why `wellDelimited` is needed (the invoke rule alone is unsound for `Call (n+1)`) -/

/-- A tiny concrete semantics on stacks of numbers: `GetPropByName n` replaces the top by `top + n`,
`Call a` pops `a` values and replaces the callee below them by `callee * 10`, `Invoke n a` calls
"method" `n` of the receiver below the `a` arguments. -/
def demoStep : Sym → List Nat → Out (List Nat)
  | .GetPropByName n, x :: st => .next ((x + n) :: st)
  | .PropertySlot, st => .next st
  | .InvokeSlot, st => .next st
  | .Call a, st => match st.drop a with
    | f :: rest => .next (f * 10 :: rest)
    | [] => .stuck
  | .Invoke n a, st => match st.drop a with
    | r :: rest => .next ((r + n) * 10 :: rest)
    | [] => .stuck
  | _, _ => .stuck

/-- **C12_needs_delimiter.** With one argument the fused and unfused forms differ on this semantics
(while they agree with zero arguments), so the rule is sound only because `Compiler::call` separates
arguments from the call with `ArgumentDelimiter`. -/
theorem C12_needs_delimiter :
    runLine demoStep [(.GetPropByName 1, 0), (.PropertySlot, 0), (.Call 1, 0)] [5, 7]
      ≠ runLine demoStep (opt [(.GetPropByName 1, 0), (.PropertySlot, 0), (.Call 1, 0)]) [5, 7] ∧
    runLine demoStep [(.GetPropByName 1, 0), (.PropertySlot, 0), (.Call 0, 0)] [5, 7]
      = runLine demoStep (opt [(.GetPropByName 1, 0), (.PropertySlot, 0), (.Call 0, 0)]) [5, 7] := by
  simp [opt, runLine, demoStep]

/-! ### non-vacuity -/

/-- A well-delimited stream that exercises every rule. -/
def sample : List IL :=
  [(.GetLocal 1, 1), (.GetLocal 1, 1), (.ArgumentDelimiter, 1), (.Call 1, 1), (.Drop, 2), (.Drop, 2), (.Drop, 3),
   (.SetLocal 2, 4), (.Drop, 4), (.GetLocal 2, 5), (.GetPropByName 7, 5), (.PropertySlot, 5), (.Call 0, 5),
   (.Jump 3, 6), (.Nil, 6), (.Label 3, 7), (.GetSuper 9, 7), (.Call 0, 7), (.Return, 8), (.Nil, 8)]

example : wellDelimited sample = true := by decide
example : opt sample =
  [(.GetLocal 1, 1), (.Dup, 1), (.Call 1, 1), (.DropN 3, 2), (.SetLocal 2, 4), (.Invoke 7 0, 5), (.InvokeSlot, 5),
   (.Jump 3, 6), (.Label 3, 7), (.SuperInvoke 9 0, 7), (.InvokeSlot, 7), (.Return, 8)] := by
  simp [sample, opt, spanDrops, spanDropsK, spanEq, skipDead, dups]

/-- the merged operand always fits the `u8` of `DropN` (no envelope on the length of a run is needed any more) -/
theorem C12_dropn_fits_u8 (r : List IL) : (spanDrops r).1 + 2 ≤ 255 := spanDrops_count r

end LaytheVerif.C12
