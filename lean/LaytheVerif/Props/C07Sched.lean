/-
C07, fiber-level half — the retry layer of `op_send` / `op_receive` (`Model/Sched.lean`).

A send or receive that cannot complete re-executes the same instruction later (`update_ip(-1)`,
operands re-pushed).  `C07_retry_once`: however often an instruction is retried, and whatever the
scheduler does in between, in every reachable state each fiber's accepted sends are exactly the
`send` operations among the instructions it has *completed*, in program order, each once — and the
same for completed receives.  Together with the queue-level `C07_fifo_exactly_once` (Props/C07.lean,
same `ChanQueue` model, reused here through `C07_sched_fifo`) this is "every value exactly once, in
order" for whole programs.
-/
import LaytheVerif.Lemmas.SchedOutcome
import LaytheVerif.Props.C07
import LaytheVerif.Props.C08

namespace LaytheVerif.C07Sched
open LaytheVerif.Sched

/-- the `(channel, value)` pairs the `send` operations of `ops` denote in environment `env` -/
def sendsOf (env : List Nat) (ops : List Op) : List (Nat × Nat) :=
  ops.filterMap fun | .send p v => some (env.getD p 0, v) | _ => none

/-- the channels the `recv` operations of `ops` denote -/
def recvsOf (env : List Nat) (ops : List Op) : List Nat :=
  ops.filterMap fun | .recv p => some (env.getD p 0) | _ => none

/-- The per-fiber statement: executed prefix ++ remaining program = the function's body; the sends
the queue accepted from this fiber are the sends of the executed prefix; so are the receives. -/
def RInv (bodies : List (List Op)) (f : Fiber) : Prop :=
  f.done ++ f.prog = bodies.getD f.tmpl [] ∧ f.acc = sendsOf f.env f.done ∧
  f.rcv.map (·.1) = recvsOf f.env f.done

def AllF (P : Fiber → Prop) (vm : VM) : Prop := ∀ f, f ∈ vm.fibers → P f

/-- fibers that agree on program position, history and environment -/
def RSame (f f' : Fiber) : Prop :=
  f.prog = f'.prog ∧ f.done = f'.done ∧ f.acc = f'.acc ∧ f.rcv = f'.rcv ∧ f.env = f'.env ∧ f.tmpl = f'.tmpl

theorem rinv_same {bodies : List (List Op)} {f f' : Fiber} (h : RSame f f') (hp : RInv bodies f) : RInv bodies f' := by
  obtain ⟨h1, h2, h3, h4, h5, h6⟩ := h
  unfold RInv at *
  rw [← h1, ← h2, ← h3, ← h4, ← h5, ← h6]; exact hp

section
variable {P : Fiber → Prop} (hS : ∀ f f', RSame f f' → P f → P f')
include hS

theorem allF_setFiber_new {vm : VM} (h : AllF P vm) (i : Nat) (f : Fiber) (hf : P f) : AllF P (vm.setFiber i f) := by
  intro x hx
  rcases List.mem_or_eq_of_mem_set hx with hx | rfl
  · exact h x hx
  · exact hf

omit hS in
theorem fiber_mem {vm : VM} {i : Nat} (hi : i < vm.fibers.length) : vm.fiber i ∈ vm.fibers := by
  unfold VM.fiber
  rw [List.getElem?_eq_getElem hi]
  exact List.getElem_mem hi

theorem allF_setFiber_same {vm : VM} (h : AllF P vm) (i : Nat) (f : Fiber) (hf : RSame (vm.fiber i) f) :
    AllF P (vm.setFiber i f) := by
  by_cases hi : i < vm.fibers.length
  · exact allF_setFiber_new hS h i f (hS _ _ hf (h _ (fiber_mem hi)))
  · unfold VM.setFiber
    rw [List.set_eq_of_length_le (Nat.le_of_not_lt hi)]
    exact h

theorem allF_getRunnable {vm : VM} (h : AllF P vm) (cs : List Nat) : AllF P (getRunnable vm cs).1 := by
  unfold AllF; rw [(getRunnable_frame vm cs).1]; exact h

theorem allF_queueBlocked {vm : VM} (h : AllF P vm) (w : Nat) : AllF P (queueBlocked vm w) := by
  unfold queueBlocked; split
  · exact allF_setFiber_same hS h w _ ⟨rfl, rfl, rfl, rfl, rfl, rfl⟩
  · exact h
  · exact h

theorem allF_wake {vm : VM} (h : AllF P vm) (r : Option Nat) : AllF P (wake vm r) := by
  unfold wake; split
  · exact allF_queueBlocked hS (vm := vm.log _) h _
  · split
    · exact allF_queueBlocked hS (vm := (getRunnable vm vm.me.channels).1.log _) (allF_getRunnable hS h _) _
    · exact allF_getRunnable hS h _

theorem allF_addUsed {vm : VM} (h : AllF P vm) (c : Nat) : AllF P (addUsed vm c) := by
  unfold addUsed; split
  · exact h
  · exact allF_setFiber_same hS h _ _ ⟨rfl, rfl, rfl, rfl, rfl, rfl⟩

theorem allF_sleep {vm : VM} (h : AllF P vm) : AllF P (sleep vm) := by
  unfold sleep; split
  · exact allF_setFiber_same hS h _ _ ⟨rfl, rfl, rfl, rfl, rfl, rfl⟩
  · exact h

theorem allF_block {vm : VM} (h : AllF P vm) : AllF P (block vm) := by
  unfold block; split
  · exact allF_setFiber_same hS h _ _ ⟨rfl, rfl, rfl, rfl, rfl, rfl⟩
  · exact h

theorem allF_contextSwitch {vm : VM} (h : AllF P vm) : AllF P (contextSwitch vm) := by
  unfold contextSwitch; split
  · exact h
  · split
    · exact allF_setFiber_same hS h _ _ ⟨rfl, rfl, rfl, rfl, rfl, rfl⟩
    · exact h

theorem allF_next {vm : VM} (f : VM → VM) (h : AllF P vm) (hf : AllF P vm → AllF P (f vm)) : AllF P (vm.next f) := by
  unfold VM.next; split
  · exact hf h
  · exact h

theorem allF_park {vm : VM} (h : AllF P vm) (r : Option Nat) :
    AllF P ((wake vm r).next fun vm => (block vm).next contextSwitch) ∧
    AllF P ((wake vm r).next fun vm => (sleep vm).next contextSwitch) :=
  ⟨allF_next hS _ (allF_wake hS h r) fun h1 => allF_next hS _ (allF_block hS h1) (allF_contextSwitch hS),
   allF_next hS _ (allF_wake hS h r) fun h1 => allF_next hS _ (allF_sleep hS h1) (allF_contextSwitch hS)⟩

theorem allF_complete {vm : VM} (h : AllF P vm) : AllF P (complete vm).1 := by
  unfold complete; split
  · unfold clearChannels
    refine allF_setFiber_same hS ?_ _ _ ⟨rfl, rfl, rfl, rfl, rfl, rfl⟩
    unfold AllF
    rw [(pickWaiter_frame _ _ _).1]
    unfold markComplete
    exact allF_setFiber_same hS h _ _ ⟨rfl, rfl, rfl, rfl, rfl, rfl⟩
  · exact h

theorem allF_execReturn {vm : VM} (h : AllF P vm) : AllF P (execReturn vm) := by
  unfold execReturn; split
  · exact h
  · split
    · exact allF_next hS _ (allF_queueBlocked hS (allF_complete hS h) _) (allF_contextSwitch hS)
    · exact allF_next hS _ (allF_complete hS h) (allF_contextSwitch hS)

end

/-! ### the instructions that move the program counter -/

theorem advance_eq {vm : VM} {op : Op} {rest : List Op} (hp : vm.me.prog = op :: rest) :
    advance vm = vm.setFiber vm.cur { vm.me with prog := rest, done := vm.me.done ++ [op] } := by
  unfold advance; simp [hp]

theorem sendsOf_append (env : List Nat) (a b : List Op) : sendsOf env (a ++ b) = sendsOf env a ++ sendsOf env b := by
  simp [sendsOf, List.filterMap_append]

theorem recvsOf_append (env : List Nat) (a b : List Op) : recvsOf env (a ++ b) = recvsOf env a ++ recvsOf env b := by
  simp [recvsOf, List.filterMap_append]

/-- completing an instruction that is not a send/receive -/
theorem rinv_skip {bodies : List (List Op)} {f : Fiber} {op : Op} {rest : List Op} (h : RInv bodies f)
    (hp : f.prog = op :: rest) (hs : sendsOf f.env [op] = []) (hr : recvsOf f.env [op] = []) :
    RInv bodies { f with prog := rest, done := f.done ++ [op] } := by
  obtain ⟨h1, h2, h3⟩ := h
  refine ⟨?_, ?_, ?_⟩
  · simpa [hp] using h1
  · simp [sendsOf_append, hs, h2]
  · simp [recvsOf_append, hr, h3]

theorem me_mem {vm : VM} (hc : vm.cur < vm.fibers.length) : vm.me ∈ vm.fibers := fiber_mem hc

theorem accept_advance_fibers {vm : VM} (hc : vm.cur < vm.fibers.length) (c v : Nat) (q : ChanQueue.Q) (ack : Option Nat)
    {op : Op} {rest : List Op} (hp : vm.me.prog = op :: rest) :
    (advance (accept vm c v q ack)).fibers =
      vm.fibers.set vm.cur { vm.me with acc := vm.me.acc ++ [(c, v)], ack := ack, prog := rest, done := vm.me.done ++ [op] } := by
  have hme : (accept vm c v q ack).me = { vm.me with acc := vm.me.acc ++ [(c, v)], ack := ack } := by
    unfold accept
    show VM.fiber _ vm.cur = _
    rw [fiber_setFiber]; simp [hc]
  rw [advance_eq (op := op) (rest := rest) (by rw [hme]; exact hp), hme]
  simp [accept, VM.setFiber, VM.setChan, List.set_set]

theorem deliver_advance_fibers {vm : VM} (hc : vm.cur < vm.fibers.length) (c : Nat) (q : ChanQueue.Q) (r : Option Nat)
    {op : Op} {rest : List Op} (hp : vm.me.prog = op :: rest) :
    (advance (deliver vm c q r)).fibers =
      vm.fibers.set vm.cur { vm.me with rcv := vm.me.rcv ++ [(c, r)], prog := rest, done := vm.me.done ++ [op] } := by
  have hme : (deliver vm c q r).me = { vm.me with rcv := vm.me.rcv ++ [(c, r)] } := by
    cases r <;> simp [deliver, VM.me, VM.setQ, fiber_setFiber, hc]
  rw [advance_eq (op := op) (rest := rest) (by rw [hme]; exact hp), hme]
  cases r <;> simp [deliver, VM.emit, VM.setQ, VM.setFiber, VM.setChan, List.set_set]

theorem rinv_stable (bodies : List (List Op)) : ∀ f f', RSame f f' → RInv bodies f → RInv bodies f' :=
  fun _ _ h hp => rinv_same h hp

theorem sendOn_rinv {vm : VM} (hc : vm.cur < vm.fibers.length) (h : AllF (RInv vm.bodies) vm) (p v : Nat)
    (rest : List Op) (hp : vm.me.prog = .send p v :: rest) :
    AllF (RInv vm.bodies) (sendOn vm (vm.arg p) v) := by
  have hS := rinv_stable vm.bodies
  have hme := h _ (me_mem hc)
  have hnew : ∀ ack, RInv vm.bodies { vm.me with acc := vm.me.acc ++ [(vm.arg p, v)], ack := ack, prog := rest, done := vm.me.done ++ [.send p v] } := by
    intro ack
    obtain ⟨h1, h2, h3⟩ := hme
    refine ⟨by simpa [hp] using h1, ?_, ?_⟩
    · simp [sendsOf_append, h2, sendsOf, VM.arg]
    · simp [recvsOf_append, h3, recvsOf]
  unfold sendOn
  split
  · rename_i q heq
    unfold AllF
    rw [accept_advance_fibers hc _ _ _ _ hp]
    exact allF_setFiber_new hS h _ _ (hnew _)
  · rename_i q w heq
    have : AllF (RInv vm.bodies) (advance (accept vm (vm.arg p) v q (some (vm.arg p)))) := by
      unfold AllF
      rw [accept_advance_fibers hc _ _ _ _ hp]
      exact allF_setFiber_new hS h _ _ (hnew _)
    exact (allF_park hS this w).1
  · rename_i q w heq
    exact (allF_park hS (vm := (vm.setQ (vm.arg p) q).log (.retry vm.cur)) h w).2
  · exact h
  · exact h

theorem recvOn_rinv {vm : VM} (hc : vm.cur < vm.fibers.length) (h : AllF (RInv vm.bodies) vm) (p : Nat)
    (rest : List Op) (hp : vm.me.prog = .recv p :: rest) :
    AllF (RInv vm.bodies) (recvOn vm (vm.arg p)) := by
  have hS := rinv_stable vm.bodies
  have hme := h _ (me_mem hc)
  have hnew : ∀ r, RInv vm.bodies { vm.me with rcv := vm.me.rcv ++ [(vm.arg p, r)], prog := rest, done := vm.me.done ++ [.recv p] } := by
    intro r
    obtain ⟨h1, h2, h3⟩ := hme
    refine ⟨by simpa [hp] using h1, ?_, ?_⟩
    · simp [sendsOf_append, h2, sendsOf]
    · simp [recvsOf_append, h3, recvsOf, VM.arg]
  unfold recvOn
  split
  · unfold AllF
    rw [deliver_advance_fibers hc _ _ _ hp]
    exact allF_setFiber_new hS h _ _ (hnew _)
  · unfold AllF
    rw [deliver_advance_fibers hc _ _ _ hp]
    exact allF_setFiber_new hS h _ _ (hnew _)
  · rename_i q w heq
    exact (allF_park hS (vm := (vm.setQ (vm.arg p) q).log (.retry vm.cur)) h w).1
  · rename_i q w heq
    exact (allF_park hS (vm := (vm.setQ (vm.arg p) q).log (.retry vm.cur)) h w).2
  · exact h

theorem addUsed_me_prog (vm : VM) (c : Nat) (hc : vm.cur < vm.fibers.length) :
    (addUsed vm c).me.prog = vm.me.prog ∧ (addUsed vm c).arg = vm.arg ∧ (addUsed vm c).bodies = vm.bodies ∧
    (addUsed vm c).cur = vm.cur ∧ (addUsed vm c).fibers.length = vm.fibers.length := by
  unfold addUsed; split
  · exact ⟨rfl, rfl, rfl, rfl, rfl⟩
  · refine ⟨?_, ?_, rfl, rfl, by simp⟩
    · show (VM.fiber _ vm.cur).prog = _
      rw [fiber_setFiber]; simp [hc]
    · funext p
      show (VM.fiber _ vm.cur).env.getD p 0 = _
      rw [fiber_setFiber]; simp [hc, VM.arg]

theorem exec_rinv {vm : VM} (hI : Inv vm) (h : AllF (RInv vm.bodies) vm) :
    AllF (RInv (exec vm).bodies) (exec vm) ∧ (exec vm).bodies = vm.bodies := by
  have hS := rinv_stable vm.bodies
  have hc := hI.1.cur
  have hme := h _ (me_mem hc)
  have hb : (exec vm).bodies = vm.bodies := exec_bodies vm
  refine ⟨?_, hb⟩
  rw [hb]
  unfold exec
  split
  · exact allF_execReturn hS h
  · rename_i v rest hp
    rw [advance_eq (vm := vm.emit _) (op := .print v) (rest := rest) hp]
    exact allF_setFiber_new hS (vm := vm.emit _) h _ _ (rinv_skip hme hp rfl rfl)
  · rename_i t args rest hp
    unfold execLaunch
    have hme' : ({ vm with fibers := vm.fibers ++ [⟨.pending, some vm.cur, [], true, vm.bodies.getD t [], args.map vm.arg, t, [], [], [], none⟩], runq := vm.runq ++ [vm.fibers.length] } : VM).me = vm.me := by
      show VM.fiber _ vm.cur = vm.fiber vm.cur
      have : vm.cur ≠ vm.fibers.length := by omega
      rw [fiber_append]; simp [this]
    rw [advance_eq (op := .launch t args) (rest := rest) (by rw [hme']; exact hp), hme']
    apply allF_setFiber_new hS _ _ _ (rinv_skip hme hp rfl rfl)
    intro f hf
    simp only [List.mem_append, List.mem_singleton] at hf
    rcases hf with hf | rfl
    · exact h f hf
    · exact ⟨by simp, by simp [sendsOf], by simp [recvsOf]⟩
  · rename_i p rest hp
    unfold execClose
    split
    · rw [advance_eq (vm := vm.setQ _ _) (op := .close p) (rest := rest) hp]
      exact allF_setFiber_new hS (vm := vm.setQ _ _) h _ _ (rinv_skip hme hp rfl rfl)
    · exact h
  · rename_i p v rest hp
    unfold execSend
    have ha := addUsed_me_prog vm (vm.arg p) hc
    have := sendOn_rinv (vm := addUsed vm (vm.arg p)) (by rw [ha.2.2.2.1, ha.2.2.2.2]; exact hc)
      (by rw [ha.2.2.1]; exact allF_addUsed hS h _) p v rest (by rw [ha.1]; exact hp)
    rw [ha.2.1, ha.2.2.1] at this
    exact this
  · rename_i p rest hp
    unfold execRecv
    have ha := addUsed_me_prog vm (vm.arg p) hc
    have := recvOn_rinv (vm := addUsed vm (vm.arg p)) (by rw [ha.2.2.2.1, ha.2.2.2.2]; exact hc)
      (by rw [ha.2.2.1]; exact allF_addUsed hS h _) p rest (by rw [ha.1]; exact hp)
    rw [ha.2.1, ha.2.2.1] at this
    exact this

theorem step_rinv {vm : VM} (hI : Inv vm) (h : AllF (RInv vm.bodies) vm) : AllF (RInv (step vm).bodies) (step vm) := by
  unfold step
  by_cases hr : vm.outcome = .running
  · rw [next_running _ _ hr]; exact (exec_rinv hI h).1
  · rw [next_stopped _ _ hr]; exact h

theorem run_rinv (n : Nat) {vm : VM} (hI : Inv vm) (h : AllF (RInv vm.bodies) vm) :
    AllF (RInv (run n vm).bodies) (run n vm) := by
  induction n generalizing vm with
  | zero => exact h
  | succ n ih => exact ih (step_inv hI) (step_rinv hI h)

/-- **C07_retry_once.** For every network program and every reachable state, every fiber `f`:
* the operations it has completed followed by the operations it still has to run are its function's
  body (an instruction that could not complete — `Full`, `Empty`, `EmptyBlock` — is *not* among the
  completed ones, however often it has been attempted, and is attempted again);
* the values the channel queues accepted from `f` (`SendResult::Ok` or `FullBlock`) are exactly the
  `send` operations among the completed ones, in program order, once each — a retried send is
  accepted exactly once, at the attempt after which the instruction pointer moves on, and a send
  that ends in `Closed` is never accepted;
* dually, `f` has obtained one result (a value or nil) per completed `recv`, from the channel the
  instruction names. -/
theorem C07_retry_once (net : Net) (n : Nat) (f : Fiber) (hf : f ∈ (runNet n net).fibers) :
    f.done ++ f.prog = net.bodies.getD f.tmpl [] ∧
    f.acc = sendsOf f.env f.done ∧
    f.rcv.map (·.1) = recvsOf f.env f.done := by
  have h0 : AllF (RInv (init net).bodies) (init net) := by
    intro x hx
    simp only [init, List.mem_singleton] at hx
    subst hx
    exact ⟨by simp [init], by simp [sendsOf], by simp [recvsOf]⟩
  have := run_rinv n (init_inv net) h0 f hf
  rw [run_bodies] at this
  exact this

/-! ### the channels of a running program satisfy the queue-level invariant of C07 -/

/-- a channel of the scheduler state seen as a `ChanQueue` history (C07's `H`) -/
def hist (flags : Nat → Bool) (ch : Chan) : ChanQueue.H :=
  { q := ch.q, flags := flags, accepted := ch.accepted, delivered := ch.delivered }

/-- C07's invariant for one channel (it does not mention the flags) -/
def CInv (ch : Chan) : Prop := C07.Inv (hist (fun _ => true) ch)

theorem cinv_iff (flags : Nat → Bool) (ch : Chan) : CInv ch ↔ C07.Inv (hist flags ch) := Iff.rfl

def AllC (vm : VM) : Prop := ∀ ch, ch ∈ vm.chans → CInv ch

theorem cinv_nil : CInv Chan.nil := C07.init_inv_sync

theorem cinv_chan {vm : VM} (h : AllC vm) (c : Nat) : CInv (vm.chan c) := by
  unfold VM.chan
  cases hc : vm.chans[c]? with
  | none => exact cinv_nil
  | some ch => exact h ch (List.mem_of_getElem? hc)

theorem allC_setChan {vm : VM} (h : AllC vm) (c : Nat) (ch : Chan) (hc : CInv ch) : AllC (vm.setChan c ch) := by
  intro x hx
  rcases List.mem_or_eq_of_mem_set hx with hx | rfl
  · exact h x hx
  · exact hc

theorem allC_of_chans {vm vm' : VM} (h : AllC vm) (he : vm'.chans = vm.chans) : AllC vm' := by
  unfold AllC; rw [he]; exact h

theorem cinv_runnableWaiter {ch : Chan} (h : CInv ch) (flags : Nat → Bool) :
    CInv { ch with q := (ch.q.runnableWaiter flags).1 } :=
  C07.step_inv (hist flags ch) .runnableWaiter h

theorem allC_getRunnable {vm : VM} (h : AllC vm) (cs : List Nat) : AllC (getRunnable vm cs).1 := by
  induction cs generalizing vm with
  | nil => exact h
  | cons c cs ih =>
    have h1 := allC_setChan h c _ (cinv_runnableWaiter (cinv_chan h c) vm.flags)
    unfold getRunnable
    split
    · exact h1
    · exact ih h1

theorem sleep_chans (x : VM) : (sleep x).chans = x.chans := by unfold sleep; split <;> rfl
theorem block_chans (x : VM) : (block x).chans = x.chans := by unfold block; split <;> rfl
theorem contextSwitch_chans (x : VM) : (contextSwitch x).chans = x.chans := by
  unfold contextSwitch; split
  · rfl
  · split <;> rfl

theorem allC_wake {vm : VM} (h : AllC vm) (r : Option Nat) : AllC (wake vm r) := by
  unfold wake; split
  · exact allC_of_chans h (by rw [(queueBlocked_frame _ _).2.1]; rfl)
  · split
    · exact allC_of_chans (allC_getRunnable h _) (by rw [(queueBlocked_frame _ _).2.1]; rfl)
    · exact allC_getRunnable h _

theorem allC_next {vm : VM} (f : VM → VM) (h : AllC vm) (hf : AllC vm → AllC (f vm)) : AllC (vm.next f) := by
  unfold VM.next; split
  · exact hf h
  · exact h

theorem allC_park {vm : VM} (h : AllC vm) (r : Option Nat) :
    AllC ((wake vm r).next fun vm => (block vm).next contextSwitch) ∧
    AllC ((wake vm r).next fun vm => (sleep vm).next contextSwitch) :=
  ⟨allC_next _ (allC_wake h r) fun h1 =>
      allC_next _ (allC_of_chans h1 (block_chans _)) fun h2 => allC_of_chans h2 (contextSwitch_chans _),
   allC_next _ (allC_wake h r) fun h1 =>
      allC_next _ (allC_of_chans h1 (sleep_chans _)) fun h2 => allC_of_chans h2 (contextSwitch_chans _)⟩

theorem allC_complete {vm : VM} (h : AllC vm) : AllC (complete vm).1 := by
  unfold complete; split
  · refine allC_of_chans ?_ (clearChannels_frame _).2.1
    have h1 : AllC (markComplete vm) := allC_of_chans h (markComplete_frame vm).2.1
    unfold pickWaiter; split
    · split
      · exact h1
      · exact allC_getRunnable h1 _
    · exact allC_getRunnable h1 _
  · exact h

theorem allC_accept {vm : VM} (h : AllC vm) (c v : Nat) (q : ChanQueue.Q) (ack : Option Nat)
    (hq : CInv { vm.chan c with q := q, accepted := (vm.chan c).accepted ++ [v], owners := (vm.chan c).owners ++ [vm.cur] }) :
    AllC (advance (accept vm c v q ack)) :=
  allC_of_chans (allC_setChan h c _ hq) (by rw [(advance_frame _).2.1]; rfl)

theorem allC_deliver_some {vm : VM} (h : AllC vm) (c x : Nat) (q : ChanQueue.Q)
    (hq : CInv { vm.chan c with q := q, delivered := (vm.chan c).delivered ++ [x], owners := (vm.chan c).owners.tail }) :
    AllC (advance (deliver vm c q (some x))) :=
  allC_of_chans (allC_setChan h c _ hq) (by rw [(advance_frame _).2.1]; rfl)

theorem allC_setQ {vm : VM} (h : AllC vm) (c : Nat) (q : ChanQueue.Q) (hq : CInv { vm.chan c with q := q }) :
    AllC (vm.setQ c q) := allC_setChan h c _ hq

theorem allC_deliver_none {vm : VM} (h : AllC vm) (c : Nat) (q : ChanQueue.Q) (hq : CInv { vm.chan c with q := q }) :
    AllC (advance (deliver vm c q none)) :=
  allC_of_chans (allC_setQ h c q hq) (by rw [(advance_frame _).2.1]; rfl)

theorem allC_sendOn {vm : VM} (h : AllC vm) (c v : Nat) : AllC (sendOn vm c v) := by
  have hc := cinv_chan h c
  have hstep := C07.step_inv (hist vm.flags (vm.chan c)) (.send .bi vm.cur v) hc
  unfold sendOn
  split
  · rename_i q heq
    exact allC_accept h c v q _ ((cinv_iff vm.flags _).2 (by simpa [ChanQueue.step, hist, heq] using hstep))
  · rename_i q w heq
    exact (allC_park (allC_accept h c v q _ ((cinv_iff vm.flags _).2 (by simpa [ChanQueue.step, hist, heq] using hstep))) w).1
  · rename_i q w heq
    exact (allC_park (vm := (vm.setQ c q).log _)
      (allC_setQ h c q ((cinv_iff vm.flags _).2 (by simpa [ChanQueue.step, hist, heq] using hstep))) w).2
  · exact h
  · exact h

theorem allC_recvOn {vm : VM} (h : AllC vm) (c : Nat) : AllC (recvOn vm c) := by
  have hc := cinv_chan h c
  have hstep := C07.step_inv (hist vm.flags (vm.chan c)) (.recv .bi vm.cur) hc
  unfold recvOn
  split
  · rename_i q x heq
    exact allC_deliver_some h c x q ((cinv_iff vm.flags _).2 (by simpa [ChanQueue.step, hist, heq] using hstep))
  · rename_i q heq
    exact allC_deliver_none h c q ((cinv_iff vm.flags _).2 (by simpa [ChanQueue.step, hist, heq] using hstep))
  · rename_i q w heq
    exact (allC_park (vm := (vm.setQ c q).log _)
      (allC_setQ h c q ((cinv_iff vm.flags _).2 (by simpa [ChanQueue.step, hist, heq] using hstep))) w).1
  · rename_i q w heq
    exact (allC_park (vm := (vm.setQ c q).log _)
      (allC_setQ h c q ((cinv_iff vm.flags _).2 (by simpa [ChanQueue.step, hist, heq] using hstep))) w).2
  · exact h

theorem exec_allC {vm : VM} (h : AllC vm) : AllC (exec vm) := by
  unfold exec; split
  · unfold execReturn; split
    · exact h
    · split
      · exact allC_next _ (allC_of_chans (allC_complete h) (queueBlocked_frame _ _).2.1)
          fun h2 => allC_of_chans h2 (contextSwitch_chans _)
      · exact allC_next _ (allC_complete h) fun h2 => allC_of_chans h2 (contextSwitch_chans _)
  · exact allC_of_chans h (by rw [(advance_frame _).2.1]; rfl)
  · exact allC_of_chans h (by unfold execLaunch; rw [(advance_frame _).2.1])
  · rename_i p _ _
    unfold execClose; split
    · rename_i q heq
      have hstep := C07.step_inv (hist vm.flags (vm.chan (vm.arg p))) .close (cinv_chan h _)
      exact allC_of_chans (allC_setQ h (vm.arg p) q ((cinv_iff vm.flags _).2 (by simpa [ChanQueue.step, hist, heq] using hstep)))
        (by rw [(advance_frame _).2.1])
    · exact h
  · exact allC_sendOn (allC_of_chans h (addUsed_frame _ _).2.1) _ _
  · exact allC_recvOn (allC_of_chans h (addUsed_frame _ _).2.1) _

theorem run_allC (n : Nat) {vm : VM} (h : AllC vm) : AllC (run n vm) := by
  induction n generalizing vm with
  | zero => exact h
  | succ n ih => exact ih (allC_next _ h exec_allC)

/-- networks whose buffered channels have capacity ≥ 1 (`chan(n)` raises otherwise) -/
def capsOk (net : Net) : Bool := net.caps.all fun c => c != some 0

/-- **C07_sched_fifo.** For every network program (capacities ≥ 1) and every reachable state, every
channel: the values handed to receiving fibers followed by the values still queued are exactly the
values accepted from sending fibers, in order; and the queue never exceeds its capacity.  (The
queue-level theorem of Props/C07.lean, transported along every history the scheduler can produce.) -/
theorem C07_sched_fifo (net : Net) (hcaps : capsOk net = true) (n : Nat) (ch : Chan) (hch : ch ∈ (runNet n net).chans) :
    ch.delivered ++ ch.q.queue = ch.accepted ∧ ch.q.queue.length ≤ ch.q.cap := by
  have h0 : AllC (init net) := by
    intro x hx
    simp only [init, List.mem_map] at hx
    obtain ⟨cap, hcap, rfl⟩ := hx
    cases cap with
    | none => exact C07.init_inv_sync
    | some k =>
      have : k ≠ 0 := by
        intro hk
        simp only [capsOk, List.all_eq_true] at hcaps
        have := hcaps _ hcap
        simp [hk] at this
      exact C07.init_inv_buffered k (by omega)
  have := run_allC n h0 ch hch
  exact ⟨this.1, this.2.1⟩

example : capsOk C08.netD5 = true := by decide

/-- non-vacuity of `C07_retry_once`: after the whole D18 witness ran, fiber 1 has completed a send
(retried once) and two receives -/
example : ((runNet 30 C08.netD18).fiber 1).acc = [(0, 1)] ∧
    ((runNet 30 C08.netD18).fiber 1).rcv = [(1, some 2), (1, some 2)] := by decide +kernel

/-! ### what does *not* hold at fiber level: the synchronous rendezvous (D26)

`C07_sync_rendezvous` (Props/C07.lean) holds for the queue: sender entries are only released when
the queue is empty.  But a fiber parked after a synchronous deposit can also be woken through a
*stale* entry of its own in another channel's receiver list, and `op_send`'s `FullBlock` arm does not
re-check anything when the fiber resumes. -/

/-- `let c0 = chan(2); let c1 = chan();`  f1: `<- c1` · f3: `c0 <- 6; c1 <- 7` · f2: `c0 <- 5` ·
main: `launch f1; launch f3; <- c0; launch f2; c1 <- 1; print(99)` -/
def netD26 : Net :=
  { caps := [some 2, none],
    bodies := [[.launch 1 [1], .launch 3 [0, 1], .recv 0, .launch 2 [0], .send 1 1, .print 99],
               [.recv 0], [.send 0 5], [.send 0 6, .send 1 7]] }

/-- "a synchronous sender does not proceed until its value has been taken", for whole programs -/
def C07_sync_rendezvous_sched : Prop :=
  ∀ (net : Net) (n : Nat), (runNet n net).trace.any (fun | .premature _ => true | _ => false) = false

/-- **C07_witness_sync_sender_proceeds (D26).** The main fiber deposits `1` on the synchronous channel
and parks; the completing fiber f2 scans channel `c0`, finds main's stale receiver entry (left from
the receive that the parent bias had already resumed) and wakes it; main proceeds past its send,
prints its marker and the program exits — with `1` still queued and never delivered. -/
theorem C07_witness_sync_sender_proceeds :
    (runNet 40 netD26).outcome = .exit ∧
    (runNet 40 netD26).out = [.got 1 (some 7), .got 0 (some 6), .printed 0 99] ∧
    ((runNet 40 netD26).chan 1).q.kind = .sync ∧ ((runNet 40 netD26).chan 1).q.queue = [1] ∧
    ((runNet 40 netD26).chan 1).delivered = [7] ∧ ((runNet 40 netD26).fiber 0).acc = [(1, 1)] ∧
    (runNet 40 netD26).trace.any (fun | .premature _ => true | _ => false) = true := by decide +kernel

/-- the fiber-level rendezvous clause is **false** on the pinned code -/
theorem C07_sync_rendezvous_sched_false : ¬ C07_sync_rendezvous_sched := by
  intro h
  have := h netD26 40
  rw [C07_witness_sync_sender_proceeds.2.2.2.2.2.2] at this
  cases this

end LaytheVerif.C07Sched
