/-
C05 — Garbage collection is invisible: no live object is ever freed.
Theorems about `Model/Alloc.lean` for every heap, every mutator history and every collection
schedule (which allocations collect, nursery or full).
-/
import LaytheVerif.Lemmas.AllocIntern
import LaytheVerif.Lemmas.AllocGen
import LaytheVerif.Lemmas.TraceCover
namespace LaytheVerif.C05
open LaytheVerif.Alloc

/-- **C05_mark_is_reachability** (re-exported): marking = reachability from roots and temp roots. -/
theorem C05_mark_is_reachability (a : A) (roots : List Nat) (x : Nat) :
    x ∈ a.marked roots ↔ Reach a (roots ++ a.temp) x := marked_iff_reach a roots x

/-- **C05_collect_preserves_reachable** (re-exported). -/
theorem C05_collect_preserves_reachable (a : A) (R : List Nat) (force : Option Bool) (x : Nat)
    (hr : Reach a (R ++ a.temp) x) (ho : x ∈ a.owned) :
    x ∈ (a.collect R force).owned ∧ (a.collect R force).objs = a.objs :=
  collect_preserves_reachable a R force x hr ho

/-! ### mutator histories under arbitrary schedules -/

/-- The mutator: the allocator, the context's roots (stack slots, module variables, …) and the
reference to the object it has just allocated, which it may use until the next allocation point. -/
structure M where
  a : A := {}
  R : List Nat := []
  fresh : Option Nat := none

def M.roots (m : M) : List Nat := m.fresh.toList ++ m.R
def M.reachable (m : M) (x : Nat) : Prop := Reach m.a (m.roots ++ m.a.temp) x

inductive Op
  | alloc (o : Obj) (hit : Bool)                       -- `hit`: the schedule collects at this allocation
  | str (s : String) (size : Nat) (hit : Bool)
  | setEdges (x : Nat) (es : List Nat)
  | setRoots (R' : List Nat)
  | setTemp (t : List Nat)
  | collect (force : Option Bool)                      -- nursery or full, at any point

/-- The mutator only uses references it holds ("can still reach"). -/
def Valid (m : M) : Op → Prop
  | .alloc o _ => ∀ e ∈ o.edges, m.reachable e
  | .str _ _ _ => True
  | .setEdges x es => m.reachable x ∧ ∀ e ∈ es, m.reachable e
  | .setRoots R' => ∀ r ∈ R', m.reachable r
  | .setTemp t => ∀ r ∈ t, m.reachable r
  | .collect _ => True

def step (m : M) : Op → M
  | .alloc o hit =>
    let r := m.a.alloc o m.roots hit
    { a := r.1, R := m.roots, fresh := some r.2 }
  | .str s size hit =>
    let r := m.a.manageStr s size m.roots hit
    { a := r.1, R := m.roots, fresh := some r.2.1 }
  | .setEdges x es => { m with a := m.a.setEdges x es }
  | .setRoots R' => { m with R := R' }
  | .setTemp t => { m with a := { m.a with temp := t } }
  | .collect force => { m with a := m.a.collect m.roots force }

def ValidRun : M → List Op → Prop
  | _, [] => True
  | m, op :: rest => Valid m op ∧ ValidRun (step m op) rest

def run (m : M) (ops : List Op) : M := ops.foldl step m

/-- The mutator never stores references into string objects and only allocates strings through
`manage_str` (the single entry point, monitored on the code side). -/
def Valid' (m : M) : Op → Prop
  | .alloc o _ => o.str = none
  | .setEdges x _ => strOf m.a x = none
  | _ => True

def MInv (m : M) : Prop := Inv m.a m.roots ∧ SInv m.a m.roots

theorem collectWith_nil (a : A) (R : List Nat) (f : Option Bool) : a.collectWith R [] f = a.collect R f := by
  unfold A.collectWith
  rw [List.append_nil]
  rfl

theorem inv_add_root (a : A) (R : List Nat) (x : Nat) (hi : Inv a R) (hx : x ∈ a.owned)
    (he : ∀ e ∈ a.edges x, Reach a (R ++ a.temp) e) : Inv a (x :: R) := by
  refine ⟨fun y hy => ?_, hi.2⟩
  have : y = x ∨ Reach a (R ++ a.temp) y := by
    induction hy with
    | root hr =>
      simp only [List.cons_append, List.mem_cons] at hr
      rcases hr with h | h
      · exact Or.inl h
      · exact Or.inr (Reach.root h)
    | @step z w _ hw ih =>
      rcases ih with h | h
      · subst h; exact Or.inr (he _ hw)
      · exact Or.inr (Reach.step h hw)
  rcases this with h | h
  · subst h; exact hx
  · exact hi.1 y h

theorem reach_add_root (a : A) (R : List Nat) (x y : Nat)
    (he : ∀ e ∈ a.edges x, Reach a (R ++ a.temp) e) (hy : Reach a ((x :: R) ++ a.temp) y) :
    y = x ∨ Reach a (R ++ a.temp) y := by
  induction hy with
  | root hr =>
    simp only [List.cons_append, List.mem_cons] at hr
    rcases hr with h | h
    · exact Or.inl h
    · exact Or.inr (Reach.root h)
  | @step z w _ hw ih =>
    rcases ih with h | h
    · subst h; exact Or.inr (he _ hw)
    · exact Or.inr (Reach.step h hw)

/-- Adding as a root an object that is in the table (or is no string) keeps the string invariant. -/
theorem sinv_add_root (a : A) (R : List Nat) (x : Nat) (hs : SInv a R)
    (he : ∀ e ∈ a.edges x, Reach a (R ++ a.temp) e)
    (hx : ∀ s, strOf a x = some s → (s, x) ∈ a.intern) : SInv a (x :: R) := by
  refine ⟨hs.tableOwned, hs.tableStr, hs.strLeaf, hs.keysNodup, ?_⟩
  intro y s hy sy
  rcases reach_add_root a R x y he hy with h | h
  · subst h; exact hx s sy
  · exact hs.liveInTable y s h sy

theorem collectWith_edges (a : A) (R extra : List Nat) (f : Option Bool) (x : Nat) :
    (a.collectWith R extra f).edges x = a.edges x := rfl

theorem alloc_edges_new (a : A) (o : Obj) (R : List Nat) (hit : Bool) :
    (a.alloc o R hit).1.edges a.objs.length = o.edges := by
  rw [(alloc_eq a o R hit).1]
  simp only
  split <;> split <;> simp [collectWith_edges, allocNoGc_edges_new]

theorem alloc_reach_old (a : A) (o : Obj) (R : List Nat) (hit : Bool) (hi : Inv a R) (x : Nat)
    (hx : Reach a (R ++ a.temp) x) : Reach (a.alloc o R hit).1 (R ++ (a.alloc o R hit).1.temp) x := by
  have ht : (a.alloc o R hit).1.temp = a.temp := by
    rw [(alloc_eq a o R hit).1]; simp only; split <;> split <;> rfl
  rw [ht]
  have he : ∀ z, z < a.objs.length → (a.alloc o R hit).1.edges z = a.edges z := by
    intro z hz
    rw [(alloc_eq a o R hit).1]
    simp only
    split <;> split <;> simp [collectWith_edges, allocNoGc_edges_old a o z hz]
  induction hx with
  | root hr => exact Reach.root hr
  | @step z y hz hy ih =>
    have : z < a.objs.length := hi.2 z (hi.1 z hz)
    exact Reach.step ih (by rw [he z this]; exact hy)

/-- One step of any valid history keeps "reachable ⊆ owned" and the intern-table invariant. -/
theorem step_inv (m : M) (op : Op) (hi : MInv m) (hv : Valid m op) (hv' : Valid' m op) : MInv (step m op) := by
  unfold MInv at *
  obtain ⟨hi, hs⟩ := hi
  cases op with
  | alloc o hit =>
    have hid : (m.a.alloc o m.roots hit).2 = m.a.objs.length := (alloc_eq m.a o m.roots hit).2
    show Inv (m.a.alloc o m.roots hit).1 ((m.a.alloc o m.roots hit).2 :: m.roots) ∧
         SInv (m.a.alloc o m.roots hit).1 ((m.a.alloc o m.roots hit).2 :: m.roots)
    rw [hid]
    have h1 := alloc_inv m.a o m.roots hit hi
    have h2 := alloc_sinv m.a o m.roots hit hi hs (Or.inl hv')
    have he : ∀ e ∈ (m.a.alloc o m.roots hit).1.edges m.a.objs.length,
        Reach (m.a.alloc o m.roots hit).1 (m.roots ++ (m.a.alloc o m.roots hit).1.temp) e := by
      rw [alloc_edges_new]
      intro e he
      exact alloc_reach_old m.a o m.roots hit hi e (hv e he)
    refine ⟨inv_add_root _ _ _ h1 (alloc_new_owned m.a o m.roots hit) he, sinv_add_root _ _ _ h2 he ?_⟩
    intro s hs'
    rw [alloc_strOf_new, hv'] at hs'
    cases hs'
  | str s size hit =>
    show Inv (m.a.manageStr s size m.roots hit).1 ((m.a.manageStr s size m.roots hit).2.1 :: m.roots) ∧
         SInv (m.a.manageStr s size m.roots hit).1 ((m.a.manageStr s size m.roots hit).2.1 :: m.roots)
    unfold A.manageStr
    split
    · next p hp =>
      -- hit: the cached object becomes the fresh reference
      have hmem : p ∈ m.a.intern := List.mem_of_find?_eq_some hp
      have hleaf : m.a.edges p.2 = [] := hs.strLeaf p.2 p.1 (hs.tableStr p hmem)
      refine ⟨inv_add_root _ _ _ hi (hs.tableOwned p hmem) (by simp [hleaf]), sinv_add_root _ _ _ hs (by simp [hleaf]) ?_⟩
      intro t ht
      have := hs.tableStr p hmem
      rw [this] at ht
      cases ht
      exact hmem
    · next hnone =>
      let o : Obj := { size := size, edges := [], str := some s }
      have hid : (m.a.alloc o m.roots hit).2 = m.a.objs.length := (alloc_eq m.a o m.roots hit).2
      have h1 := alloc_inv m.a o m.roots hit hi
      have h2 := alloc_sinv m.a o m.roots hit hi hs (Or.inr rfl)
      have hnokey : ∀ q ∈ (m.a.alloc o m.roots hit).1.intern, q.1 ≠ s := by
        intro q hq e
        have := alloc_intern_sub m.a o m.roots hit q hq
        have := List.find?_eq_none.mp hnone q this
        simp [e] at this
      show Inv _ ((m.a.alloc o m.roots hit).2 :: m.roots) ∧ SInv _ ((m.a.alloc o m.roots hit).2 :: m.roots)
      rw [hid]
      -- the state with the new table entry
      let b : A := { (m.a.alloc o m.roots hit).1 with intern := (m.a.alloc o m.roots hit).1.intern ++ [(s, m.a.objs.length)] }
      have hbI : Inv b m.roots := ⟨fun x hx => h1.1 x (reach_of_edges_eq (a := (m.a.alloc o m.roots hit).1) (b := b) (fun _ => rfl) hx), h1.2⟩
      have hbS : SInv b m.roots := by
        refine ⟨?_, ?_, h2.strLeaf, ?_, ?_⟩
        · intro q hq
          rcases List.mem_append.mp hq with h | h
          · exact h2.tableOwned q h
          · simp only [List.mem_singleton] at h; subst h; exact alloc_new_owned m.a o m.roots hit
        · intro q hq
          rcases List.mem_append.mp hq with h | h
          · exact h2.tableStr q h
          · simp only [List.mem_singleton] at h; subst h; exact alloc_strOf_new m.a o m.roots hit
        · show ((((m.a.alloc o m.roots hit).1.intern ++ [(s, m.a.objs.length)]).map (·.1))).Nodup
          rw [List.map_append, List.nodup_append]
          refine ⟨h2.keysNodup, by simp, ?_⟩
          intro x hx y hy
          simp only [List.map_cons, List.map_nil, List.mem_singleton] at hy
          subst hy
          obtain ⟨q, hq, rfl⟩ := List.mem_map.mp hx
          exact hnokey q hq
        · intro x t hx ht
          have := h2.liveInTable x t (reach_of_edges_eq (a := (m.a.alloc o m.roots hit).1) (b := b) (fun _ => rfl) hx) ht
          exact List.mem_append.mpr (Or.inl this)
      have hleaf : b.edges m.a.objs.length = [] := by
        show (m.a.alloc o m.roots hit).1.edges m.a.objs.length = []
        rw [alloc_edges_new]
      refine ⟨inv_add_root b _ _ hbI (alloc_new_owned m.a o m.roots hit) (by simp [hleaf]),
              sinv_add_root b _ _ hbS (by simp [hleaf]) ?_⟩
      intro t ht
      have h3 : strOf b m.a.objs.length = some s := alloc_strOf_new m.a o m.roots hit
      rw [h3] at ht
      cases ht
      exact List.mem_append.mpr (Or.inr (by simp))
  | setEdges x es =>
    simp only [step]
    refine ⟨setEdges_inv m.a m.roots x es hi hv.2, ?_⟩
    have hstr : ∀ z, strOf (m.a.setEdges x es) z = strOf m.a z := by
      intro z
      unfold strOf A.setEdges
      simp only [List.getElem?_modify]
      by_cases hz : x = z
      · subst hz; cases h : m.a.objs[x]? <;> simp [h]
      · simp [hz]
    have hreach : ∀ y, Reach (m.a.setEdges x es) (m.roots ++ (m.a.setEdges x es).temp) y → Reach m.a (m.roots ++ m.a.temp) y := by
      intro y hy
      have ht : (m.a.setEdges x es).temp = m.a.temp := rfl
      rw [ht] at hy
      induction hy with
      | root hr => exact Reach.root hr
      | @step z w _ hz ih =>
        rw [setEdges_edges] at hz
        split at hz
        · exact hv.2 _ hz
        · exact Reach.step ih hz
    refine ⟨hs.tableOwned, fun p hp => by rw [hstr]; exact hs.tableStr p hp, ?_, hs.keysNodup, ?_⟩
    · intro z t hz
      rw [hstr] at hz
      rw [setEdges_edges]
      split
      · next h => rw [h.1, hv'] at hz; cases hz
      · exact hs.strLeaf z t hz
    · intro y t hy ht
      rw [hstr] at ht
      exact hs.liveInTable y t (hreach y hy) ht
  | setRoots R' =>
    simp only [step, M.roots]
    have hsub : ∀ r ∈ m.fresh.toList ++ R', Reach m.a (m.roots ++ m.a.temp) r := by
      intro r hr
      rcases List.mem_append.mp hr with h | h
      · exact Reach.root (by simp [M.roots, h])
      · exact hv r h
    refine ⟨setRoots_inv m.a m.roots _ hi hsub, hs.tableOwned, hs.tableStr, hs.strLeaf, hs.keysNodup, ?_⟩
    intro y t hy ht
    refine hs.liveInTable y t ?_ ht
    refine reach_of_reachable_roots (R := m.roots ++ m.a.temp) ?_ hy
    intro r hr
    rcases List.mem_append.mp hr with h1 | h1
    · exact hsub r h1
    · exact Reach.root (by simp [h1])
  | setTemp t =>
    simp only [step]
    refine ⟨setTemp_inv m.a m.roots t hi hv, hs.tableOwned, hs.tableStr, hs.strLeaf, hs.keysNodup, ?_⟩
    intro y u hy hu
    refine hs.liveInTable y u ?_ hu
    have hy2 : Reach m.a (m.roots ++ t) y :=
      reach_of_edges_eq (a := m.a) (b := { m.a with temp := t }) (fun _ => rfl) hy
    refine reach_of_reachable_roots (R := m.roots ++ m.a.temp) ?_ hy2
    intro r hr
    rcases List.mem_append.mp hr with h1 | h1
    · exact Reach.root (by simp [h1])
    · exact hv r h1
  | collect force =>
    simp only [step]
    rw [← collectWith_nil]
    exact ⟨collectWith_inv m.a m.roots [] force hi, collectWith_sinv m.a m.roots [] force hs⟩

def ValidRun' : M → List Op → Prop
  | _, [] => True
  | m, op :: rest => Valid m op ∧ Valid' m op ∧ ValidRun' (step m op) rest

theorem run_inv (m : M) (ops : List Op) (hi : MInv m) (hv : ValidRun' m ops) : MInv (run m ops) := by
  unfold run
  induction ops generalizing m with
  | nil => exact hi
  | cons op ops ih => exact ih _ (step_inv m op hi hv.1 hv.2.1) hv.2.2

theorem init_inv : MInv {} := by
  refine ⟨⟨fun x hx => ?_, by simp [A.owned]⟩, by simp, by simp, ?_, by simp, ?_⟩
  · have : ∀ R, (R : List Nat) = [] → ∀ x, Reach ({} : A) R x → False := by
      intro R hR x hx
      induction hx with
      | root hr => simp [hR] at hr
      | step _ hy ih => exact ih
    exact (this _ (by simp [M.roots]) x hx).elim
  · intro x s h; simp [strOf] at h
  · intro x s hx; simp [strOf]

/-- **C05_no_live_object_freed.** For every mutator history that only uses references it holds,
and for *every collection schedule* — any subset of the allocations collecting, explicit nursery or
full collections anywhere — every object the mutator can still reach (through roots, temporary
roots, the value it just allocated, or references stored in reachable objects) is still owned by
the allocator, with its payload untouched (collections never modify `objs`). -/
theorem C05_no_live_object_freed (ops : List Op) (hv : ValidRun' {} ops) (x : Nat)
    (hx : (run {} ops).reachable x) : x ∈ (run {} ops).a.owned :=
  (run_inv {} ops init_inv hv).1.1 x hx

/-! ### non-vacuity: a history with an interned string kept alive across a full collection -/

def sampleOps : List Op :=
  [.str "a" 21 false, .setRoots [0], .alloc { size := 24, edges := [0] } true, .collect (some true)]

example : ValidRun' {} sampleOps := by
  refine ⟨trivial, trivial, ?_, trivial, ?_, rfl, trivial, trivial, trivial⟩
  · intro r hr
    simp only [List.mem_singleton] at hr
    subst hr
    exact Reach.root (by decide)
  · intro e he
    simp only [List.mem_singleton] at he
    subst he
    exact Reach.root (by decide)

example : (run {} sampleOps).a.old = [0, 1] ∧ (run {} sampleOps).a.intern = [("a", 0)] := by decide

end LaytheVerif.C05
